use customasm::*;
use crate::json;

pub fn dispatch(f: &[String]) -> String
{
    match f[0].as_str()
    {
        "arg" => op_arg(f),
        "asm" => op_asm(f),
        "expr" => op_expr(f),
        "tok" => op_tok(f),
        "lit" => op_lit(f),
        "fmt" => op_fmt(f),
        "ovl" => op_ovl(f),
        "lc" => op_lc(f),
        "nav" => op_nav(f),
        "drv" => op_drv(f),
        "lst" => op_lst(f),
        "parse" => op_parse(f),
        "ofmt" => op_ofmt(f),
        _ => format!("{{\"unknown_op\":{}}}", json::string(&f[0])),
    }
}


fn parse_bigint(s: &str) -> num_bigint::BigInt
{
    s.parse::<num_bigint::BigInt>().unwrap()
}


pub fn bigint_json(b: &util::BigInt) -> String
{
    // value in decimal: go through the hex formatter (BigInt has LowerHex) to avoid
    // depending on private fields
    let hex = format!("{:x}", b);
    let (neg, digits) = if let Some(rest) = hex.strip_prefix('-') { (true, rest.to_string()) } else { (false, hex) };
    let mag = num_bigint::BigInt::parse_bytes(digits.as_bytes(), 16).unwrap();
    let v = if neg { -mag } else { mag };
    match b.size
    {
        Some(s) => format!("{{\"v\":\"{}\",\"size\":{}}}", v, s),
        None => format!("{{\"v\":\"{}\",\"size\":null}}", v),
    }
}


/// arg <u|s|i> <N> <v>  — hook: check_and_constrain_argument
fn op_arg(f: &[String]) -> String
{
    let size: usize = f[2].parse().unwrap();
    let typ = match f[1].as_str()
    {
        "u" => asm::RuleParameterType::Unsigned(size),
        "s" => asm::RuleParameterType::Signed(size),
        "i" => asm::RuleParameterType::Integer(size),
        _ => panic!("bad type"),
    };
    let v = parse_bigint(&f[3]);
    let value = expr::Value::make_integer(util::BigInt::new(v, None));
    let mut report = diagn::Report::new();
    let res = asm::resolver::verif_check_and_constrain_argument(
        &mut report,
        diagn::Span::new_dummy(),
        value,
        typ);
    match res
    {
        Ok(expr::Value::Integer(b)) => format!("{{\"ok\":{}}}", bigint_json(&b)),
        Ok(expr::Value::FailedConstraint(_)) => "{\"rej\":true}".to_string(),
        Ok(_) => "{\"other\":true}".to_string(),
        Err(()) => "{\"err\":true}".to_string(),
    }
}


pub fn message_json(m: &diagn::Message, fileserver: &dyn util::FileServer) -> String
{
    let kind = match m.kind
    {
        diagn::MessageKind::Error => "error",
        diagn::MessageKind::Warning => "warning",
        diagn::MessageKind::Note => "note",
    };
    let span = match m.span
    {
        Some(span) => match span.location()
        {
            Some((a, b)) => format!(
                "{{\"file\":{},\"start\":{},\"end\":{}}}",
                json::string(fileserver.get_filename(span.file_handle)), a, b),
            None => "null".to_string(),
        },
        None => "null".to_string(),
    };
    let inner: Vec<String> = m.inner.iter().map(|i| message_json(i, fileserver)).collect();
    format!(
        "{{\"kind\":\"{}\",\"descr\":{},\"span\":{},\"inner\":[{}]}}",
        kind, json::string(&m.descr), span, inner.join(","))
}


pub fn bitvec_json(out: &util::BitVec, fileserver: &dyn util::FileServer) -> String
{
    let mut bits = String::new();
    for i in 0..out.len()
    {
        bits.push(if out.read_bit(i) { '1' } else { '0' });
    }
    let spans: Vec<String> = out.spans.iter().map(|s|
    {
        let loc = match s.span.location()
        {
            Some((a, b)) => format!(
                "{{\"file\":{},\"start\":{},\"end\":{}}}",
                json::string(fileserver.get_filename(s.span.file_handle)), a, b),
            None => "null".to_string(),
        };
        format!(
            "{{\"offset\":{},\"size\":{},\"addr\":{},\"src\":{}}}",
            match s.offset { Some(o) => o.to_string(), None => "null".to_string() },
            s.size,
            bigint_json(&s.addr),
            loc)
    }).collect();
    format!("\"len\":{},\"bits\":\"{}\",\"spans\":[{}]", out.len(), bits, spans.join(","))
}


/// asm <max_iter> <optS 0|1> <optM 0|1> <defs: name=valuehex,...|-> <nroots> <nfiles> (<name_hex> <content_hex>)*
/// the first <nroots> files are the root files.
pub fn op_asm(f: &[String]) -> String
{
    let mut opts = asm::AssemblyOptions::new();
    opts.max_iterations = f[1].parse().unwrap();
    opts.optimize_statically_known = f[2] == "1";
    opts.optimize_instruction_matching = f[3] == "1";
    if f[4] != "-"
    {
        for d in f[4].split(',')
        {
            let mut it = d.splitn(2, '=');
            let name = json::unhex_str(it.next().unwrap());
            let val = it.next().unwrap();
            // value: i<decimal> | t | f
            let value = match val
            {
                "t" => expr::Value::make_bool(true),
                "f" => expr::Value::make_bool(false),
                _ => expr::Value::make_integer(util::BigInt::new(parse_bigint(&val[1..]), None)),
            };
            opts.driver_symbol_defs.push(asm::DriverSymbolDef { name, value });
        }
    }
    let nroots: usize = f[5].parse().unwrap();
    let nfiles: usize = f[6].parse().unwrap();
    let mut fileserver = util::FileServerMock::new();
    let mut roots = Vec::new();
    for i in 0..nfiles
    {
        let name = json::unhex_str(&f[7 + 2 * i]);
        let content = json::unhex(&f[8 + 2 * i]);
        if i < nroots { roots.push(name.clone()); }
        fileserver.add(name, content);
    }

    let mut report = diagn::Report::new();
    let result = asm::assemble(&mut report, &opts, &mut fileserver, &roots);

    let msgs: Vec<String> = report.verif_messages().iter()
        .map(|m| message_json(m, &fileserver)).collect();
    let nerrors = report.verif_messages().iter()
        .filter(|m| m.kind == diagn::MessageKind::Error).count();

    let mut s = String::from("{");
    s.push_str(&format!("\"error\":{},\"has_errors\":{},\"nerrors\":{},", result.error, report.has_errors(), nerrors));
    s.push_str(&format!("\"iters\":{},", match result.iterations_taken { Some(i) => i.to_string(), None => "null".to_string() }));
    match result.output
    {
        Some(ref out) => { s.push_str("\"output\":{"); s.push_str(&bitvec_json(out, &fileserver)); s.push_str("},"); }
        None => s.push_str("\"output\":null,"),
    }

    // symbols (declared, emitted, integer-valued) in declaration-tree order
    let mut syms: Vec<String> = Vec::new();
    if let (Some(decls), Some(defs)) = (result.decls.as_ref(), result.defs.as_ref())
    {
        if result.output.is_some()
        {
            decls.symbols.format(decls, defs, &mut |_res: &mut String, _decl, name: &str, bigint: &util::BigInt|
            {
                syms.push(format!("{{\"name\":{},\"value\":{}}}", json::string(name), bigint_json(bigint)));
            });
        }
    }
    s.push_str(&format!("\"symbols\":[{}],", syms.join(",")));
    s.push_str(&format!("\"first_error\":{},", json::string(&first_error(&report))));
    // the complete final resolver state (for the fixed-point certificate of C02)
    if let (Some(defs), true) = (result.defs.as_ref(), result.output.is_some())
    {
        let vrepr = |v: &expr::Value| -> String { match v
        {
            expr::Value::Unknown => "u".to_string(),
            expr::Value::FailedConstraint(_) => "x".to_string(),
            expr::Value::Void => "v".to_string(),
            expr::Value::Integer(b) => format!("i{}", dec(b).replace(' ', ":")),
            expr::Value::String(st) => format!("s{}:{}", if st.utf8_contents.is_empty() { "-".to_string() } else { json::hex(st.utf8_contents.as_bytes()) }, st.encoding),
            expr::Value::Bool(b) => if *b { "b1".to_string() } else { "b0".to_string() },
            expr::Value::ExprBuiltInFunction(_) | expr::Value::AsmBuiltInFunction(_) => "o".to_string(),
            expr::Value::Function(i) => format!("f{}", i),
        }};
        let syms: Vec<String> = defs.symbols.defs.iter().map(|o| match o { Some(sy) => vrepr(&sy.value), None => "h".to_string() }).collect();
        let ins: Vec<String> = defs.instructions.defs.iter().map(|o| dec(&o.as_ref().unwrap().encoding).replace(' ', ":")).collect();
        let dat: Vec<String> = defs.data_elems.defs.iter().map(|o| dec(&o.as_ref().unwrap().encoding).replace(' ', ":")).collect();
        let res: Vec<String> = defs.res_directives.defs.iter().map(|o| o.as_ref().unwrap().reserve_size.to_string()).collect();
        let ali: Vec<String> = defs.align_directives.defs.iter().map(|o| o.as_ref().unwrap().align_size.to_string()).collect();
        let adr: Vec<String> = defs.addr_directives.defs.iter().map(|o| dec(&o.as_ref().unwrap().address).split(' ').next().unwrap().to_string()).collect();
        let j = |v: Vec<String>| if v.is_empty() { "-".to_string() } else { v.join(",") };
        s.push_str(&format!("\"state\":\"{} {} {} {} {} {}\",", j(syms), j(ins), j(dat), j(res), j(ali), j(adr)));
    }
    s.push_str(&format!("\"messages\":[{}],", msgs.join(",")));
    let mut printed = Vec::<u8>::new();
    report.print_all(&mut printed, &fileserver, false);
    s.push_str(&format!("\"printed\":{}", json::string(&String::from_utf8_lossy(&printed))));
    s.push('}');
    s
}


/// lst <format_string_hex> asm <fields of the asm op...> : assemble, then render the output in the given format;
/// the answer carries the rendered text, the bits and spans, and every defined symbol with its declaration data.
pub fn op_lst(f: &[String]) -> String
{
    let text = json::unhex_str(&f[1]);
    let g = &f[2..];
    let mut opts = asm::AssemblyOptions::new();
    opts.max_iterations = g[1].parse().unwrap();
    opts.optimize_statically_known = g[2] == "1";
    opts.optimize_instruction_matching = g[3] == "1";
    let nroots: usize = g[5].parse().unwrap();
    let nfiles: usize = g[6].parse().unwrap();
    let mut fileserver = util::FileServerMock::new();
    let mut roots = Vec::new();
    for i in 0..nfiles
    {
        let name = json::unhex_str(&g[7 + 2 * i]);
        let content = json::unhex(&g[8 + 2 * i]);
        if i < nroots { roots.push(name.clone()); }
        fileserver.add(name, content);
    }
    let mut report = diagn::Report::new();
    let fmt = match crate::driver::parse_output_format(&mut report, &text)
    {
        Ok(fmt) => fmt,
        Err(()) => return format!("{{\"fmt_err\":{}}}", json::string(&first_error(&report))),
    };
    let result = asm::assemble(&mut report, &opts, &mut fileserver, &roots);
    let (out, decls, defs) = match (result.output.as_ref(), result.decls.as_ref(), result.defs.as_ref())
    {
        (Some(o), Some(d), Some(e)) if !report.has_errors() => (o, d, e),
        _ => return format!("{{\"asm_err\":{}}}", json::string(&first_error(&report))),
    };
    let bytes = crate::driver::format_output(&fileserver, decls, defs, out, fmt);
    let mut syms: Vec<String> = Vec::new();
    for o in defs.symbols.defs.iter()
    {
        if let Some(sy) = o
        {
            let decl = decls.symbols.get(sy.item_ref);
            let bank = match sy.bankdef_ref
            {
                Some(r) =>
                {
                    let b = defs.bankdefs.get(r);
                    format!("{{\"addr_start\":{},\"addr_unit\":{},\"outp\":{}}}", bigint_json(&b.addr_start), b.addr_unit,
                        match b.output_offset { Some(o) => o.to_string(), None => "null".to_string() })
                }
                None => "null".to_string(),
            };
            syms.push(format!("{{\"name\":{},\"kind\":\"{:?}\",\"depth\":{},\"no_emit\":{},\"value\":{},\"bank\":{}}}",
                json::string(&decl.name), decl.kind, decl.depth, sy.no_emit,
                json::string(&value_str(&sy.value)), bank));
        }
    }
    format!("{{\"text\":\"{}\",\"output\":{{{}}},\"symdefs\":[{}]}}", json::hex(&bytes), bitvec_json(out, &fileserver), syms.join(","))
}


fn dec(b: &util::BigInt) -> String
{
    let hex = format!("{:x}", b);
    let (neg, digits) = if let Some(rest) = hex.strip_prefix('-') { (true, rest.to_string()) } else { (false, hex) };
    let mag = num_bigint::BigInt::parse_bytes(digits.as_bytes(), 16).unwrap();
    let v = if neg { -mag } else { mag };
    match b.size
    {
        Some(s) => format!("{} {}", v, s),
        None => format!("{} -", v),
    }
}


pub fn value_str(v: &expr::Value) -> String
{
    match v
    {
        expr::Value::Unknown => "unknown".to_string(),
        expr::Value::FailedConstraint(_) => "failed".to_string(),
        expr::Value::Void => "void".to_string(),
        expr::Value::Integer(b) => format!("int {}", dec(b)),
        expr::Value::String(s) => format!("str {} {}", if s.utf8_contents.is_empty() { "-".to_string() } else { json::hex(s.utf8_contents.as_bytes()) }, s.encoding),
        expr::Value::Bool(b) => format!("bool {}", b),
        expr::Value::ExprBuiltInFunction(n) => format!("builtin {}", n),
        expr::Value::AsmBuiltInFunction(n) => format!("asmbuiltin {}", n),
        expr::Value::Function(i) => format!("fn {}", i),
    }
}


pub fn expr_sexp(e: &expr::Expr) -> String
{
    match e
    {
        expr::Expr::Literal(_, v) => format!("(lit {})", value_str(v)),
        expr::Expr::Variable(_, level, path) => format!("(var {} {})", level, path.join(".")),
        expr::Expr::UnaryOp(_, _, op, inner) => format!("(un {:?} {})", op, expr_sexp(inner)),
        expr::Expr::BinaryOp(_, _, op, l, r) => format!("(bin {:?} {} {})", op, expr_sexp(l), expr_sexp(r)),
        expr::Expr::TernaryOp(_, c, t, f) => format!("(tern {} {} {})", expr_sexp(c), expr_sexp(t), expr_sexp(f)),
        expr::Expr::Slice(_, _, hi, lo, inner) => format!("(slice {} {} {})", expr_sexp(hi), expr_sexp(lo), expr_sexp(inner)),
        expr::Expr::SliceShort(_, _, size, inner) => format!("(sshort {} {})", expr_sexp(size), expr_sexp(inner)),
        expr::Expr::Block(_, es) => format!("(block{})", es.iter().map(|e| format!(" {}", expr_sexp(e))).collect::<String>()),
        expr::Expr::Call(_, f, args) => format!("(call {}{})", expr_sexp(f), args.iter().map(|e| format!(" {}", expr_sexp(e))).collect::<String>()),
        expr::Expr::Asm(_, _) => "(asm)".to_string(),
    }
}


fn first_error(report: &diagn::Report) -> String
{
    for m in report.verif_messages()
    {
        if m.kind == diagn::MessageKind::Error
        {
            // follow the first inner message down to a leaf; the key is the last
            // error-kind description on that path
            let mut cur = m;
            let mut key = m.descr.clone();
            while let Some(inner) = cur.inner.first()
            {
                cur = inner;
                if cur.kind == diagn::MessageKind::Error { key = cur.descr.clone(); }
            }
            return key;
        }
    }
    "?".to_string()
}


/// expr <text_hex> : expr::parse on a fresh walker, then Expr::eval with the dummy provider
fn op_expr(f: &[String]) -> String
{
    let text = json::unhex_str(&f[1]);
    let mut report = diagn::Report::new();
    let mut walker = syntax::Walker::new(&text, 0, 0);
    let parsed = expr::parse(&mut report, &mut walker);
    match parsed
    {
        Err(()) => format!("{{\"parse_err\":{}}}", json::string(&first_error(&report))),
        Ok(e) =>
        {
            walker.skip_ignorable();
            let over = walker.is_over();
            let tree = expr_sexp(&e);
            let mut report = diagn::Report::new();
            let res = e.eval(&mut report, &mut expr::dummy_eval_query);
            let r = match res
            {
                Ok(v) => format!("ok {}", value_str(&v)),
                Err(()) => format!("err {}", first_error(&report)),
            };
            format!("{{\"tree\":{},\"over\":{},\"result\":{}}}", json::string(&tree), over, json::string(&r))
        }
    }
}


fn kind_name(k: syntax::TokenKind) -> String { format!("{:?}", k) }


/// tok <text_hex> : repeated decide_next_token over the text (byte lengths)
fn op_tok(f: &[String]) -> String
{
    let text = json::unhex_str(&f[1]);
    let mut i = 0;
    let mut out: Vec<String> = Vec::new();
    while i < text.len()
    {
        let (kind, len) = syntax::decide_next_token(&text[i..]);
        out.push(format!("{}:{}", kind_name(kind), len));
        i += len.max(1);
    }
    format!("{{\"toks\":{}}}", json::string(&out.join(" ")))
}


/// lit <text_hex> : syntax::excerpt_as_bigint
fn op_lit(f: &[String]) -> String
{
    let text = json::unhex_str(&f[1]);
    let mut report = diagn::Report::new();
    match syntax::excerpt_as_bigint(Some(&mut report), diagn::Span::new_dummy(), &text)
    {
        Ok(b) => format!("{{\"ok\":{}}}", json::string(&dec(&b))),
        Err(()) => format!("{{\"err\":{}}}", json::string(&first_error(&report))),
    }
}


fn format_name(fmt: &crate::driver::OutputFormat) -> String
{
    use crate::driver::OutputFormat as F;
    match fmt
    {
        F::Binary => "Binary".to_string(),
        F::Annotated { base, group } => format!("Annotated base={} group={}", base, group),
        F::BinStr => "BinStr".to_string(),
        F::HexStr => "HexStr".to_string(),
        F::BinDump => "BinDump".to_string(),
        F::HexDump => "HexDump".to_string(),
        F::Mif => "Mif".to_string(),
        F::IntelHex { address_unit } => format!("IntelHex address_unit={}", address_unit),
        F::DecComma => "DecComma".to_string(),
        F::HexComma => "HexComma".to_string(),
        F::DecSpace => "DecSpace".to_string(),
        F::HexSpace => "HexSpace".to_string(),
        F::DecC => "DecC".to_string(),
        F::HexC => "HexC".to_string(),
        F::LogiSim8 => "LogiSim8".to_string(),
        F::LogiSim16 => "LogiSim16".to_string(),
        F::AddressSpan => "AddressSpan".to_string(),
        F::TCGame { base, group } => format!("TCGame base={} group={}", base, group),
        F::Symbols => "Symbols".to_string(),
        F::SymbolsMesenMlb => "SymbolsMesenMlb".to_string(),
    }
}


/// ofmt <format_string_hex> : driver::parse_output_format
fn op_ofmt(f: &[String]) -> String
{
    let text = json::unhex_str(&f[1]);
    let mut report = diagn::Report::new();
    match crate::driver::parse_output_format(&mut report, &text)
    {
        Ok(fmt) => format!("{{\"ok\":{}}}", json::string(&format_name(&fmt))),
        Err(()) => format!("{{\"err\":{}}}", json::string(&first_error(&report))),
    }
}


/// fmt <format_string_hex> <bits|-> <spans off:size,..|->  (offset `n` = no offset)
fn op_fmt(f: &[String]) -> String
{
    let text = json::unhex_str(&f[1]);
    let mut report = diagn::Report::new();
    let fmt = match crate::driver::parse_output_format(&mut report, &text)
    {
        Ok(fmt) => fmt,
        Err(()) => return format!("{{\"err\":{}}}", json::string(&first_error(&report))),
    };
    let mut out = util::BitVec::new();
    if f[2] != "-"
    {
        for (i, c) in f[2].chars().enumerate()
        {
            out.write_bit(i, c == '1');
        }
    }
    if f[3] != "-"
    {
        for sp in f[3].split(',')
        {
            let mut it = sp.split(':');
            let off = it.next().unwrap();
            let size: usize = it.next().unwrap().parse().unwrap();
            let offset = if off == "n" { None } else { Some(off.parse::<usize>().unwrap()) };
            out.mark_span(offset, size, util::BigInt::new(0, None), diagn::Span::new_dummy());
        }
    }
    let fileserver = util::FileServerMock::new();
    let decls = asm::decls::init(&mut report).unwrap();
    let defs = asm::defs::init();
    let bytes = crate::driver::format_output(&fileserver, &decls, &defs, &out, fmt);
    format!("{{\"out\":\"{}\"}}", json::hex(&bytes))
}


/// ovl <pos:size,...|-> : util::OverlapChecker, one accept/reject letter per step
fn op_ovl(f: &[String]) -> String
{
    let mut checker = util::OverlapChecker::new();
    let mut out = String::new();
    if f[1] != "-"
    {
        for ps in f[1].split(',')
        {
            let mut it = ps.split(':');
            let p: usize = it.next().unwrap().parse().unwrap();
            let s: usize = it.next().unwrap().parse().unwrap();
            let mut report = diagn::Report::new();
            match checker.check_and_insert(&mut report, diagn::Span::new_dummy(), p, s)
            {
                Ok(()) => out.push('a'),
                Err(()) => out.push('r'),
            }
        }
    }
    format!("{{\"steps\":\"{}\"}}", out)
}


/// lc <text_hex> <byte index> <line> : CharCounter line/column at index, byte range of line
fn op_lc(f: &[String]) -> String
{
    let text = json::unhex_str(&f[1]);
    let index: usize = f[2].parse().unwrap();
    let line: usize = f[3].parse().unwrap();
    let counter = util::CharCounter::new(&text);
    let (l, c) = counter.get_line_column_at_index(index);
    let (a, b) = counter.get_index_range_of_line(line);
    let ex = std::panic::catch_unwind(std::panic::AssertUnwindSafe(|| counter.get_excerpt(a, b).to_string()));
    let exs = match ex { Ok(s) => if s.is_empty() { "-".to_string() } else { json::hex(s.as_bytes()) }, Err(_) => "panic".to_string() };
    format!("{{\"lc\":\"{} {} {} {} {} {}\"}}", l, c, a, b, counter.get_line_count(), exs)
}


/// nav <current_hex> <relative_hex> : util::filename_navigate
fn op_nav(f: &[String]) -> String
{
    let cur = json::unhex_str(&f[1]);
    let rel = json::unhex_str(&f[2]);
    let mut report = diagn::Report::new();
    match util::filename_navigate(&mut report, diagn::Span::new_dummy(), &cur, &rel)
    {
        Ok(p) => format!("{{\"ok\":{}}}", json::string(&p)),
        Err(()) => format!("{{\"err\":{}}}", json::string(&first_error(&report))),
    }
}


/// File server for the `drv` op: in-memory files, a log of writes, injected faults.
pub struct FaultyFileServer
{
    names: Vec<String>,
    contents: Vec<Vec<u8>>,
    pub writes: Vec<(String, Vec<u8>)>,
    pub unreadable: Vec<String>,
    pub unwritable: Vec<String>,
}

impl FaultyFileServer
{
    pub fn new() -> FaultyFileServer
    {
        FaultyFileServer { names: Vec::new(), contents: Vec::new(), writes: Vec::new(), unreadable: Vec::new(), unwritable: Vec::new() }
    }

    pub fn add(&mut self, name: String, content: Vec<u8>)
    {
        self.names.push(name);
        self.contents.push(content);
    }
}

impl util::FileServer for FaultyFileServer
{
    fn get_handle(&mut self, report: &mut diagn::Report, span: Option<diagn::Span>, filename: &str) -> Result<util::FileServerHandle, ()>
    {
        match self.names.iter().position(|n| n == filename)
        {
            Some(i) if !self.unreadable.iter().any(|n| n == filename) => Ok(i),
            _ =>
            {
                let descr = format!("file not found: `{}`", filename);
                match span { Some(s) => report.error_span(descr, s), None => report.error(descr) };
                Err(())
            }
        }
    }

    fn get_filename(&self, file_handle: util::FileServerHandle) -> &str
    {
        &self.names[file_handle]
    }

    fn get_bytes(&self, _report: &mut diagn::Report, _span: Option<diagn::Span>, file_handle: util::FileServerHandle) -> Result<Vec<u8>, ()>
    {
        Ok(self.contents[file_handle].clone())
    }

    fn write_bytes(&mut self, report: &mut diagn::Report, span: Option<diagn::Span>, filename: &str, data: &Vec<u8>) -> Result<(), ()>
    {
        if self.unwritable.iter().any(|n| n == filename)
        {
            let descr = format!("could not write file: `{}`", filename);
            match span { Some(s) => report.error_span(descr, s), None => report.error(descr) };
            return Err(());
        }
        self.writes.push((filename.to_string(), data.clone()));
        Ok(())
    }
}


/// drv <nfiles> (<name_hex> <content_hex>)* <faults r:namehex,w:namehex,..|-> <argv_hex>*
/// driver::drive with argv[0] = "customasm"
fn op_drv(f: &[String]) -> String
{
    let nfiles: usize = f[1].parse().unwrap();
    let mut fs = FaultyFileServer::new();
    for i in 0..nfiles
    {
        fs.add(json::unhex_str(&f[2 + 2 * i]), json::unhex(&f[3 + 2 * i]));
    }
    let faults = &f[2 + 2 * nfiles];
    if faults != "-"
    {
        for ft in faults.split(',')
        {
            let name = json::unhex_str(&ft[2..]);
            if ft.starts_with("r:") { fs.unreadable.push(name); } else { fs.unwritable.push(name); }
        }
    }
    let mut argv = vec!["customasm".to_string()];
    for a in &f[(3 + 2 * nfiles)..]
    {
        argv.push(json::unhex_str(a));
    }
    let mut report = diagn::Report::new();
    let result = crate::driver::drive(&mut report, &argv, &mut fs);
    let msgs: Vec<String> = report.verif_messages().iter().map(|m| message_json(m, &fs)).collect();
    let nerrors = report.verif_messages().iter().filter(|m| m.kind == diagn::MessageKind::Error).count();
    let writes: Vec<String> = fs.writes.iter().map(|(n, d)| format!("{{\"name\":{},\"data\":\"{}\"}}", json::string(n), json::hex(d))).collect();
    let (ok, has_output, iters) = match &result
    {
        Ok(r) => (true, r.output.is_some(), r.iterations_taken),
        Err(()) => (false, false, None),
    };
    format!("{{\"ok\":{},\"has_output\":{},\"iters\":{},\"nerrors\":{},\"messages\":[{}],\"writes\":[{}]}}",
        ok, has_output, match iters { Some(i) => i.to_string(), None => "null".to_string() }, nerrors, msgs.join(","), writes.join(","))
}


fn opt_expr(e: &Option<expr::Expr>) -> String
{
    match e { Some(e) => expr_sexp(e), None => "-".to_string() }
}


fn hex_or_dash(s: &str) -> String
{
    if s.is_empty() { "-".to_string() } else { json::hex(s.as_bytes()) }
}


pub fn nodes_sexp(nodes: &Vec<asm::AstAny>) -> String
{
    nodes.iter().map(|n| format!(" {}", node_sexp(n))).collect::<String>()
}


pub fn node_sexp(n: &asm::AstAny) -> String
{
    match n
    {
        asm::AstAny::DirectiveAddr(d) => format!("(addr {})", expr_sexp(&d.expr)),
        asm::AstAny::DirectiveAlign(d) => format!("(align {})", expr_sexp(&d.expr)),
        asm::AstAny::DirectiveAssert(d) => format!("(assert {})", expr_sexp(&d.condition_expr)),
        asm::AstAny::DirectiveRes(d) => format!("(res {})", expr_sexp(&d.expr)),
        asm::AstAny::DirectiveBank(d) => format!("(bank {})", d.name),
        asm::AstAny::DirectiveBankdef(d) => format!(
            "(bankdef {} bits={} labelalign={} addr={} addr_end={} size={} outp={} fill={})",
            d.name, opt_expr(&d.addr_unit), opt_expr(&d.label_align), opt_expr(&d.addr_start),
            opt_expr(&d.addr_end), opt_expr(&d.addr_size), opt_expr(&d.output_offset), d.fill),
        asm::AstAny::DirectiveBits(_) => "(bits)".to_string(),
        asm::AstAny::DirectiveData(d) => format!(
            "(data {}{})",
            match d.elem_size { Some(s) => s.to_string(), None => "-".to_string() },
            d.elems.iter().map(|e| format!(" {}", expr_sexp(e))).collect::<String>()),
        asm::AstAny::DirectiveFn(d) => format!(
            "(fn {} ({}) {})", d.name,
            d.params.iter().map(|p| p.name.clone()).collect::<Vec<_>>().join(" "),
            expr_sexp(&d.body)),
        asm::AstAny::DirectiveIf(d) => format!(
            "(if {} (then{}) {})", expr_sexp(&d.condition_expr), nodes_sexp(&d.true_arm.nodes),
            match &d.false_arm { Some(f) => format!("(else{})", nodes_sexp(&f.nodes)), None => "-".to_string() }),
        asm::AstAny::DirectiveInclude(d) => format!("(include {})", hex_or_dash(&d.filename)),
        asm::AstAny::DirectiveLabelAlign(_) => "(labelalign)".to_string(),
        asm::AstAny::DirectiveNoEmit(_) => "(noemit)".to_string(),
        asm::AstAny::DirectiveOnce(_) => "(once)".to_string(),
        asm::AstAny::DirectiveRuledef(d) => format!(
            "(ruledef {} sub={}{})",
            match &d.name { Some(n) => n.clone(), None => "-".to_string() },
            d.is_subruledef,
            d.rules.iter().map(|r| format!(
                " (rule [{}] {})",
                r.pattern.iter().map(|p| match p
                {
                    asm::AstRulePatternPart::Whitespace => "ws".to_string(),
                    asm::AstRulePatternPart::Exact(c) => format!("x{}", json::hex(c.to_string().as_bytes())),
                    asm::AstRulePatternPart::Parameter(p) => format!("{{{}:{}}}", p.name, match &p.typ
                    {
                        asm::AstRuleParameterType::Unspecified => "-".to_string(),
                        asm::AstRuleParameterType::Ruledef(n) => format!("r{}", n),
                        asm::AstRuleParameterType::Unsigned(n) => format!("u{}", n),
                        asm::AstRuleParameterType::Signed(n) => format!("s{}", n),
                        asm::AstRuleParameterType::Integer(n) => format!("i{}", n),
                    }),
                }).collect::<Vec<_>>().join(" "),
                expr_sexp(&r.expr))).collect::<String>()),
        asm::AstAny::Instruction(d) => format!("(instr {})", hex_or_dash(&d.src)),
        asm::AstAny::Symbol(d) => format!(
            "(sym {} {} {} {})", d.hierarchy_level, d.name,
            match &d.kind
            {
                asm::AstSymbolKind::Label => "label".to_string(),
                asm::AstSymbolKind::Constant(c) => format!("const {}", expr_sexp(&c.expr)),
            },
            d.no_emit),
    }
}


/// parse <text_hex> : asm::parser::parse on one file
fn op_parse(f: &[String]) -> String
{
    let text = json::unhex_str(&f[1]);
    let mut report = diagn::Report::new();
    let mut walker = syntax::Walker::new(&text, 0, 0);
    match asm::parser::parse(&mut report, &mut walker)
    {
        Ok(ast) => format!("{{\"ok\":{}}}", json::string(&nodes_sexp(&ast.nodes))),
        Err(()) => format!("{{\"err\":{}}}", json::string(&first_error(&report))),
    }
}
