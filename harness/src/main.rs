//! casm-oracle: answers line-protocol operations by calling the real customasm code
//! (path dependency on /repo, built from its current working tree) in-process.
//! One JSON object per answer line.

#![allow(dead_code)]

use customasm::*;
use std::io::{BufRead, Write};

#[path = "/repo/src/driver.rs"]
pub mod driver;

mod ops;
mod json;

static PANIC_AT: std::sync::Mutex<String> = std::sync::Mutex::new(String::new());

fn main()
{
    // keep panics quiet: they are reported as an answer, not on stderr; the place is remembered
    std::panic::set_hook(Box::new(|info|
    {
        let at = info.location().map(|l| format!("{}:{}", l.file(), l.line())).unwrap_or_default();
        *PANIC_AT.lock().unwrap() = at;
    }));

    let args: Vec<String> = std::env::args().collect();
    let input: Box<dyn BufRead> = if args.len() > 1
    {
        Box::new(std::io::BufReader::new(std::fs::File::open(&args[1]).unwrap()))
    }
    else
    {
        Box::new(std::io::BufReader::new(std::io::stdin()))
    };

    // answers go to the file named by the second argument (the code under test prints to
    // stdout itself), or to stdout
    let mut out: Box<dyn Write> = if args.len() > 2
    {
        Box::new(std::io::BufWriter::new(std::fs::File::create(&args[2]).unwrap()))
    }
    else
    {
        Box::new(std::io::BufWriter::new(std::io::stdout()))
    };

    for line in input.lines()
    {
        let line = line.unwrap();
        let line = line.trim();
        if line.is_empty() || line.starts_with('#')
        {
            writeln!(out, "{{\"skip\":true}}").unwrap();
            continue;
        }

        let fields: Vec<String> = line.split(' ').map(|s| s.to_string()).collect();
        let result = std::panic::catch_unwind(move || ops::dispatch(&fields));

        match result
        {
            Ok(answer) => { writeln!(out, "{}", answer).unwrap(); out.flush().unwrap(); }
            Err(e) =>
            {
                let msg = if let Some(s) = e.downcast_ref::<String>() { s.clone() }
                    else if let Some(s) = e.downcast_ref::<&str>() { s.to_string() }
                    else { "?".to_string() };
                let at = PANIC_AT.lock().unwrap().clone();
                writeln!(out, "{{\"panic\":{},\"at\":{}}}", json::string(&msg), json::string(&at)).unwrap();
                out.flush().unwrap();
            }
        }
    }
}
