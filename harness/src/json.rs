pub fn string(s: &str) -> String
{
    let mut r = String::from("\"");
    for c in s.chars()
    {
        match c
        {
            '"' => r.push_str("\\\""),
            '\\' => r.push_str("\\\\"),
            '\n' => r.push_str("\\n"),
            '\r' => r.push_str("\\r"),
            '\t' => r.push_str("\\t"),
            c if (c as u32) < 0x20 => r.push_str(&format!("\\u{:04x}", c as u32)),
            c => r.push(c),
        }
    }
    r.push('"');
    r
}

pub fn hex(bytes: &[u8]) -> String
{
    let mut r = String::new();
    for b in bytes { r.push_str(&format!("{:02x}", b)); }
    r
}

pub fn unhex(s: &str) -> Vec<u8>
{
    if s == "-" { return Vec::new(); }
    let b = s.as_bytes();
    let mut r = Vec::new();
    let mut i = 0;
    while i + 1 < b.len()
    {
        r.push(u8::from_str_radix(&s[i..i + 2], 16).unwrap());
        i += 2;
    }
    r
}

pub fn unhex_str(s: &str) -> String
{
    String::from_utf8(unhex(s)).unwrap()
}
