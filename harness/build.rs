fn main() {
    println!("cargo:rustc-env=VERGEN_SEMVER_LIGHTWEIGHT=verif");
    println!("cargo:rustc-env=VERGEN_COMMIT_DATE=1970-01-01");
    println!("cargo:rustc-env=VERGEN_TARGET_TRIPLE=verif");
    println!("cargo:rerun-if-changed=build.rs");
}
