#!/bin/bash
# tools/seed_verify.sh <prop> <variant> : confirm a seeded change in its scratch worktree
# (demo passes without, tests pass and demo fails with), then store it under /verif/seeded.
P=$1; V=$2; WT=/tmp/mut/$P; OUT=/tmp/mut/$P-out/${3:-$V}
set -u
cd $WT || exit 2
git checkout -q -- . ; git clean -fdq -e target
export CARGO_NET_OFFLINE=true CARGO_TARGET_DIR=$WT/target
cp -r $OUT/* $WT/ 2>/dev/null; rm -f $WT/patch.diff.applied
bash ./demo.sh > /tmp/mut/$P-$V-demo0.log 2>&1; D0=$?
git apply $OUT/patch.diff || { echo "patch does not apply"; exit 2; }
T=$(cargo test --offline 2>&1 | grep -E "^test result" | head -1)
bash ./demo.sh > /tmp/mut/$P-$V-demo1.log 2>&1; D1=$?
git checkout -q -- . ; git clean -fdq -e target
echo "$P/$V: demo without=$D0 with=$D1 ; tests with change: $T"
if [ $D0 -eq 0 ] && [ $D1 -ne 0 ] && echo "$T" | grep -q "605 passed; 0 failed"; then
  ID=$P-$V; mkdir -p /verif/seeded/$ID; cp -r $OUT/* /verif/seeded/$ID/; echo CONFIRMED $ID
else
  echo NOT-CONFIRMED
fi
