"""Independent text-level decoders for customasm's data output formats (C11).
Each returns the bit string ('0'/'1') the text denotes, or raises DecodeError."""
import re


class DecodeError(Exception):
    pass


def bits_of_bytes(bs):
    return "".join(format(b, "08b") for b in bs)


def dec_binary(data):
    return bits_of_bytes(data)


def dec_str(text, k):
    out = []
    for c in text:
        if c not in "0123456789abcdef":
            raise DecodeError("bad digit %r" % c)
        v = int(c, 16)
        if v >= 2 ** k:
            raise DecodeError("digit too large")
        out.append(format(v, "0%db" % k))
    return "".join(out)


def dec_dump(text, digit_bits, bpl):
    lines = text.split("\n")
    if lines[-1] != "":
        raise DecodeError("no trailing newline")
    lines = lines[:-1]
    if not lines:
        raise DecodeError("no lines")
    bits = []
    ended = False
    widths = set()
    for li, line in enumerate(lines):
        m = re.fullmatch(r" ([0-9a-f]+) \| (.*)\| (.{%d}) \|" % bpl, line, re.S)
        if not m:
            raise DecodeError("bad line %r" % line)
        widths.add(len(m.group(1)))
        if int(m.group(1), 16) != li * bpl:
            raise DecodeError("bad address")
        body = m.group(2).replace(" ", "")
        if len(body) != bpl * (8 // digit_bits):
            raise DecodeError("bad digit count")
        for c in body:
            if c == ".":
                ended = True
                continue
            if ended:
                raise DecodeError("digit after end")
            v = int(c, 16)
            if v >= 2 ** digit_bits:
                raise DecodeError("digit too large")
            bits.append(format(v, "0%db" % digit_bits))
        # ascii column agrees with the data
    if len(widths) != 1:
        raise DecodeError("address width varies")
    return "".join(bits)


def dec_mif(text):
    m = re.fullmatch(r"DEPTH = (\d+);\nWIDTH = 8;\nADDRESS_RADIX = HEX;\nDATA_RADIX = HEX;\n\nCONTENT\nBEGIN\n(.*)END;", text, re.S)
    if not m:
        raise DecodeError("bad mif frame")
    depth = int(m.group(1))
    rows = [l for l in m.group(2).split("\n") if l != ""]
    if len(rows) != depth:
        raise DecodeError("DEPTH %d but %d rows" % (depth, len(rows)))
    bs = []
    for i, r in enumerate(rows):
        mm = re.fullmatch(r" +([0-9A-F]+): ([0-9A-F]{2});", r)
        if not mm or int(mm.group(1), 16) != i:
            raise DecodeError("bad row %r" % r)
        bs.append(int(mm.group(2), 16))
    return bits_of_bytes(bs)


def dec_separator(text, radix, sep):
    if text == "":
        return ""
    toks = [t for t in re.split(r"[,\s]+", text) if t != ""]
    bs = []
    for t in toks:
        if radix == 16:
            if not re.fullmatch(r"0x[0-9a-f]{2}", t):
                raise DecodeError("bad token %r" % t)
            bs.append(int(t, 16))
        else:
            if not re.fullmatch(r"\d+", t) or int(t) > 255:
                raise DecodeError("bad token %r" % t)
            bs.append(int(t))
    # separator discipline: exactly sep between items, newline after every 16th
    expect = ""
    for i, b in enumerate(bs):
        expect += ("0x%02x" % b) if radix == 16 else str(b)
        if i + 1 < len(bs):
            expect += sep
            if (i + 1) % 16 == 0:
                expect += "\n"
    if expect != text:
        raise DecodeError("separator layout")
    return bits_of_bytes(bs)


def dec_carray(text, radix):
    m = re.fullmatch(r"const unsigned char data\[\] = \{\n(.*)\n\};", text, re.S)
    if not m:
        raise DecodeError("bad c frame")
    body = m.group(1)
    addrs = [int(a, 16) for a in re.findall(r"/\* 0x([0-9a-f]+) \*/", body)]
    if addrs != [16 * i for i in range(len(addrs))]:
        raise DecodeError("bad row addresses %r" % addrs)
    body = re.sub(r"/\*.*?\*/", "", body)
    toks = [t for t in re.split(r"[,\s]+", body) if t != ""]
    bs = []
    for t in toks:
        if radix == 16:
            if not re.fullmatch(r"0x[0-9a-f]{2}", t):
                raise DecodeError("bad token %r" % t)
            bs.append(int(t, 16))
        else:
            if not re.fullmatch(r"\d+", t) or int(t) > 255:
                raise DecodeError("bad token %r" % t)
            bs.append(int(t))
    if len(addrs) != max(1, (len(bs) + 15) // 16):
        raise DecodeError("row count")
    return bits_of_bytes(bs)


def dec_logisim(text, k):
    if not text.startswith("v2.0 raw\n"):
        raise DecodeError("bad header")
    toks = text[len("v2.0 raw\n"):].split()
    out = []
    for t in toks:
        if not re.fullmatch(r"[0-9a-f]{%d}" % (k // 4), t):
            raise DecodeError("bad token %r" % t)
        out.append(format(int(t, 16), "0%db" % k))
    return "".join(out)


def dec_intelhex(text):
    """returns list of (address, bytes) records; checks counts, checksums, EOF"""
    lines = text.split("\n")
    if lines[-1] != ":00000001FF":
        raise DecodeError("missing EOF record")
    recs = []
    upper = 0          # set by Extended Linear Address records (type 04), by the format's own rules
    for l in lines[:-1]:
        if not re.fullmatch(r":([0-9A-F]{2})+", l):
            raise DecodeError("bad record %r" % l)
        raw = bytes.fromhex(l[1:])
        if sum(raw) % 256 != 0:
            raise DecodeError("bad checksum %r" % l)
        n, addr, typ = raw[0], raw[1] * 256 + raw[2], raw[3]
        if typ == 4:
            if n != 2 or addr != 0 or len(raw) != 7:
                raise DecodeError("bad extended address record %r" % l)
            upper = raw[4] * 256 + raw[5]
            continue
        if typ != 0 or len(raw) != n + 5 or n == 0 or n > 32:
            raise DecodeError("bad record layout %r" % l)
        recs.append((upper * 65536 + addr, list(raw[4:4 + n])))
    return recs
