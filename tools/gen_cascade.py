"""Programs whose instruction sizes depend on (forward-referenced) values: the inputs on
which the iterative resolution actually has to work (C02, C09, C08, C01)."""

RULES = """#ruledef
{
    jmp {addr} => { assert(addr < 0x10), 0x1 @ addr`4 }
    jmp {addr} => { assert(addr >= 0x10), 0x20 @ addr`16 }
    br {addr} => { rel = addr - $ - 2, assert(rel <= 127 && rel >= -128), 0x30 @ rel`8 }
    br {addr} => { rel = addr - $ - 3, assert(rel > 127 || rel < -128), 0x31 @ rel`16 }
    ldi {x: u4} => 0x4 @ x
    ldi {x: u8} => 0x50 @ x
    ldi {x: u16} => 0x51 @ x
    lds {x: s8} => 0x60 @ x
    lds {x: i16} => 0x61 @ x
    mov {r: reg}, {x: u8} => 0x7 @ r @ x
    mov {r: reg}, {s: reg} => 0x8 @ r @ s @ 0x0
    nop => 0x00
    two {a}, {b} => asm { ldi {a}
        ldi {b} }
    far {a} => asm {
        here:
        jmp {a}
        br here
    }
    jr {addr: u16} => 0x10 @ addr
    jr {addr} => { rel = addr - $ - 2, assert(rel >= -8 && rel <= 7), 0x21 @ rel`8 }
    ref {x} => 0xcc @ x`8
    pair {x}, {addr} => 0xdd @ x`8 @ addr`8
    gr {x} => { assert(x < %(T)d), 0xa1 }
    gr {x} => { assert(x >= %(T)d), 0xa2a2 }
    sh {x} => { assert(x < %(U)d), 0xb2b2 }
    sh {x} => { assert(x >= %(U)d), 0xb1 }
%(BLOCKS)s
}
#ruledef second
{
    jmp {addr: u8}, x => 0x9 @ addr
    ld {x: u16} => 0xd0 @ x
    st {x: u8} => 0xe0 @ x
}
#ruledef third
{
    jmp {addr: u4}, x => 0xc @ addr
    ld {x: u8} => 0xd1 @ x
    st {x: u16} => 0xe1 @ x
}
#subruledef reg
{
    r0 => 0x0
    r1 => 0x1
    sp => 0xf
}
#fn half(x) => x / 2
"""


def gen_block(rng, k):
    """an asm-block macro with local labels and instructions that grow/shrink with those labels"""
    labs = ["m1", "m2"][: rng.randrange(1, 3)]
    body = []
    pend = list(labs)
    for _ in range(rng.randrange(2, 6)):
        if pend and rng.random() < 0.45:
            body.append("      %s:" % pend.pop(0))
        opd = rng.choice(labs + ["{a}"])
        body.append("        %s %s" % (rng.choice(["ref", "gr", "sh", "gr", "sh", "ldi", "jr"]), opd))
    for l in pend:
        body.append("      %s:" % l)
    return "    blk%d {a} => asm {\n%s\n    }" % (k, "\n".join(body))


def gen_program(rng, n=None):
    n = n or rng.randrange(3, 14)
    nblk = rng.randrange(0, 3)
    rules = RULES % {"T": rng.choice([2, 3, 4, 5, 6, 8, 12]), "U": rng.choice([2, 3, 4, 5, 6, 8, 12]),
                     "BLOCKS": "\n".join(gen_block(rng, k) for k in range(nblk))}
    small = rng.random() < 0.4
    labels = ["l%d" % i for i in range(rng.randrange(1, 5))]
    consts = []
    lines = []
    # name collisions (findings F30/F31): statically known constants and labels named like rule
    # parameters, so that the statically-known analysis must not confuse a parameter with a global
    collide = rng.random() < 0.3
    if collide:
        pnames = ["x", "addr", "a", "b", "r", "s", "rel", "pc"]
        rng.shuffle(pnames)
        k = rng.randrange(1, 4)
        for nm in pnames[:k]:
            lines.append("%s = %s" % (nm, rng.choice(["1", "3", "0x10", "2 + 2"])))
            consts.append(nm)
        if rng.random() < 0.5:
            labels = pnames[k:k + len(labels)] or labels
    pending = list(labels)
    rng.shuffle(pending)
    def operand():
        r = rng.random()
        if r < 0.45:
            return rng.choice(labels)
        if r < 0.55 and consts:
            return rng.choice(consts)
        if r < 0.65:
            return "%s + %d" % (rng.choice(labels), rng.randrange(0, 20))
        if r < 0.7:
            return "half(%s)" % rng.choice(labels)
        if small:
            return str(rng.randrange(0, 24))
        return str(rng.choice([0, 1, 5, 15, 16, 17, 100, 127, 128, 200, 255, 256, 300, 1000, 65535]))
    for i in range(n):
        if pending and rng.random() < 0.35:
            lines.append(pending.pop() + ":")
        r = rng.random()
        if r < 0.25:
            lines.append("    jmp " + operand())
        elif r < 0.33:
            lines.append("    br " + operand())
        elif r < 0.38:
            lines.append("    jr " + operand())
        elif r < 0.42:
            lines.append("    %s %s" % (rng.choice(["ld", "st", "gr", "sh", "ref"]), operand()))
        elif r < 0.44 or (collide and r < 0.5):
            lines.append("    pair %s, %s" % (operand(), operand()))
        elif r < 0.46 and nblk:
            lines.append("    blk%d %s" % (rng.randrange(nblk), operand()))
        elif r < 0.54:
            lines.append("    ldi " + operand())
        elif r < 0.58:
            lines.append("    lds " + rng.choice(["-1", "-128", "-129", "127", "128", operand()]))
        elif r < 0.64:
            lines.append("    mov %s, %s" % (rng.choice(["r0", "r1", "sp", "R1"]), rng.choice(["r0", "sp", "7", operand()])))
        elif r < 0.7:
            lines.append("    #d8 %s" % rng.choice(["1", "0xff", operand() + "`8" if rng.random() < 0.5 else "12"]))
        elif r < 0.75:
            lines.append("    #d16 %s" % operand())
        elif r < 0.8:
            if rng.random() < 0.45:
                # a reserve whose size depends on (forward) labels: the layout after it moves with them
                a, b = rng.choice(labels), rng.choice(labels)
                lines.append("    #res " + rng.choice(["(%s - %s) & 7" % (a, b), "%s & 3" % a, "(%s + %d) & 3" % (a, rng.randrange(4)),
                                                       "(%s - $) & 7" % a]))
            else:
                lines.append("    #res %d" % rng.randrange(0, 140))
        elif r < 0.84:
            if rng.random() < 0.3:
                lines.append("    #align ((%s & 3) + 1) * 8" % rng.choice(labels))
            else:
                lines.append("    #align %d" % rng.choice([8, 16, 32, 64]))
        elif r < 0.9:
            name = "c%d" % len(consts)
            consts.append(name)
            lines.append("%s = %s" % (name, rng.choice(["$ + 2", "%s - $" % rng.choice(labels), "($ >= 4) ? 0x00 : 0x0000", "%s * 2" % rng.choice(labels), "12"])))
        elif r < 0.94:
            lines.append("    two %s, %s" % (operand(), operand()))
        elif r < 0.97:
            lines.append("    far " + operand())
        else:
            lines.append("    #assert %s %s %d" % (rng.choice(labels), rng.choice(["<", ">=", "!="]), rng.randrange(0, 300)))
    for l in pending:
        lines.append(l + ":")
    lines.append("    nop")
    return rules + "\n".join(lines) + "\n"


BLOCK_RULES = """#ruledef
{
    nop => 0x00
    ref {x} => 0xcc @ x`8
    pair {x}, {addr} => 0xdd @ x`8 @ addr`8
    gr {x} => { assert(x < %(T)d), 0xa1 }
    gr {x} => { assert(x >= %(T)d), 0xa2a2 }
    sh {x} => { assert(x < %(U)d), 0xb2b2 }
    sh {x} => { assert(x >= %(U)d), 0xb1 }
    gg {x} => { assert(x < %(V)d), 0xc1 }
    gg {x} => { assert(x >= %(V)d), 0xc2c2c2 }
%(BLOCKS)s
}
"""


def gen_block_program(rng):
    """programs dominated by asm blocks with several local labels whose positions move in opposite
    directions between inner passes (growing and shrinking instructions)"""
    def block(k):
        labs = ["m1", "m2", "m3"][: rng.randrange(2, 4)]
        body, pend = [], list(labs)
        for _ in range(rng.randrange(2, 7)):
            if pend and rng.random() < 0.5:
                body.append("      %s:" % pend.pop(0))
            body.append("        %s %s" % (rng.choice(["ref", "gr", "sh", "gg", "gr", "sh"]), rng.choice(labs + (["{a}"] if rng.random() < 0.3 else []))))
        for l in pend:
            body.append("      %s:" % l)
        return "    blk%d {a} => asm {\n%s\n    }" % (k, "\n".join(body))
    nblk = rng.randrange(1, 3)
    rules = BLOCK_RULES % {"T": rng.randrange(1, 9), "U": rng.randrange(1, 9), "V": rng.randrange(1, 9),
                           "BLOCKS": "\n".join(block(k) for k in range(nblk))}
    lines = []
    for _ in range(rng.randrange(0, 3)):
        lines.append("    " + rng.choice(["nop", "gr end", "sh end", "ref end"]))
    lines.append("start:")
    for _ in range(rng.randrange(1, 3)):
        lines.append("    blk%d %s" % (rng.randrange(nblk), rng.choice(["end", "start", "3", "7"])))
    lines.append("end:")
    return rules + "\n".join(lines) + "\n"


def gen_file_constant_program(rng):
    """a statically known constant that only the first pass can evaluate (it reads a file), declared
    after items that consume it; mostly without labels, so that the first pass changes nothing else"""
    rules = "#ruledef\n{\n    halt => 0x55\n    emit {v} => 0x10 @ v`8\n    wide {v} => { assert(v < 4), 0x20 }\n    wide {v} => { assert(v >= 4), 0x3000 }\n}\n"
    if rng.random() < 0.3:
        # a symbol named like a built-in inclusion function that holds a function: the statically known call
        # `name(arg)` means the built-in in the resolver, and must mean it in the constant pre-pass too
        name = rng.choice(["incbin", "incbinstr", "inchexstr"])
        held, arg = rng.choice([("le", "0x1234"), ("le", "0x12345678"), ("le", "0x1234"), ("strlen", '"ab"'), ("strlen", '"main.asm"'),
                                ("utf8", '"ab"'), ("f", "8"), ("5", "8"), ("le", '"main.asm"')])
        lines = ["#fn f(a) => a + 1", "%s = %s" % (name, held), "y = %s(%s)" % (name, arg)]
        lines.append(rng.choice(["#d16 y`16", "#d y", "    emit y", "#res y > 0 ? 1 : 0"]))
        if rng.random() < 0.5:
            lines.insert(rng.randrange(1, len(lines)), rng.choice(["#d8 1", "    halt", "lab:"]))
        return rules + "\n".join(lines) + "\n"
    cname = rng.choice(["c", "k", "size"])
    uses = ["#res %s" % cname, "#res %s * 2" % cname, "#res %s - %s" % (cname, cname), "#d8 %s" % cname, "    emit %s" % cname,
            "    wide %s" % cname, "#res (%s > 2 ? 1 : 0)" % cname]
    fixed = ["#d8 1", "    halt", "#res 1", "#d16 0x1234"]
    lines = []
    for _ in range(rng.randrange(1, 4)):
        lines.append(rng.choice(uses) if rng.random() < 0.7 else rng.choice(fixed))
    if rng.random() < 0.2:
        lines.insert(rng.randrange(len(lines) + 1), "lab:")
    hi = rng.randrange(0, 4)
    value = rng.choice(['incbin("main.asm")[%d:0]' % hi, 'incbin("main.asm")[%d:%d]' % (hi + 8, 8), 'incbin("main.asm")[%d:0] + 1' % hi,
                        'incbin("main.asm", 0, 1)[%d:0]' % hi])
    lines.append("%s = %s" % (cname, value))
    if rng.random() < 0.4:
        lines.append("d2 = %s + 1" % cname)
    for _ in range(rng.randrange(0, 3)):
        lines.append(rng.choice(uses + fixed))
    return (rules if rng.random() < 0.8 else rules.replace("halt => 0x55\n", "")) + "\n".join(lines) + "\n"


def gen_nested_token_program(rng):
    """parameterless sub-rule alternatives whose productions read the address or a label (`here => $`8`,
    `back => mid`8`), used as operands after an instruction that shrinks once a forward label is known"""
    alts = rng.sample(["here => $`8", "back => mid`8", "fwdt => fwd`8", "lit => 0x55", "two => ($ + 2)`8"], rng.randrange(2, 5))
    sub = "#subruledef place\n{\n" + "".join("    %s\n" % a for a in alts) + "}\n"
    rules = ("#ruledef\n{\n    ld {x} => { assert(x < %d), 0x1 @ x`4 }\n    ld {x} => 0xff @ x`16\n"
             "    mark {p: place} => 0x30 @ p\n    mark2 {p: place}, {q: place} => 0x31 @ p @ q\n    nop => 0x00\n}\n" % rng.choice([0x10, 8, 4]))
    names = [a.split(" ")[0] for a in alts]
    lines = []
    for _ in range(rng.randrange(0, 2)):
        lines.append("    nop")
    lines.append("    ld fwd")
    lines.append("mid:")
    for _ in range(rng.randrange(1, 4)):
        if rng.random() < 0.7:
            lines.append("    mark %s" % rng.choice(names))
        else:
            lines.append("    mark2 %s, %s" % (rng.choice(names), rng.choice(names)))
        if rng.random() < 0.3:
            lines.append("    ld fwd")
    for _ in range(rng.randrange(0, 3)):
        lines.append("    nop")
    lines.append("fwd:")
    if rng.random() < 0.5:
        lines.append("    nop")
    return sub + rules + "\n".join(lines) + "\n"


def gen_bool_constant_program(rng):
    """boolean (and string) constants that depend on labels through other constants, read by a rule's ternary
    before they are declared: a flip of such a constant between two passes must count as a change"""
    thr = rng.randrange(2, 7)
    ndata = rng.randrange(2, 7)
    rules = "#ruledef\n{\n    ld => far ? 0xaabb : 0xcc\n    st => (far && near) ? 0x11 : 0x2222\n    nm => tag == \"a\" ? 0x33 : 0x4444\n    nop => 0x00\n}\n"
    lines = []
    for _ in range(rng.randrange(1, 4)):
        lines.append("    " + rng.choice(["ld", "ld", "st", "nm", "nop"]))
    lines.append("far = dist > %d" % thr)
    lines.append("near = dist < %d" % (thr + rng.randrange(1, 6)))
    lines.append("tag = dist > %d ? \"a\" : \"b\"" % rng.randrange(2, 8))
    lines.append("dist = end + 0" if rng.random() < 0.7 else "dist = end - start")
    lines.append("start:")
    lines.append("    #d8 " + ", ".join(str(i + 1) for i in range(ndata)))
    for _ in range(rng.randrange(0, 3)):
        lines.append("    " + rng.choice(["ld", "st", "nm"]))
    lines.append("end:")
    if rng.random() < 0.6:
        lines.append("#assert end >= %d" % rng.randrange(1, ndata + 1))
    return rules + "\n".join(lines) + "\n"


def gen_any(rng):
    r = rng.random()
    if r < 0.1:
        return gen_file_constant_program(rng)
    if r < 0.16:
        return gen_nested_token_program(rng)
    if r < 0.22:
        return gen_bool_constant_program(rng)
    return gen_block_program(rng) if r < 0.46 else gen_program(rng)
