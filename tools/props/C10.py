"""C10 — assembly is a deterministic function of its inputs."""
import json, random
import fw
from props import C13, C06

RULE = ("a mixed corpus of operations (programs with many symbols spread over included files that start at equal byte offsets, nested "
        "labels, asm blocks with local labels and arguments, user functions, bank programs, faulty programs with diagnostics; every output "
        "format incl. symbols/mesen-mlb/annotated/addrspan through driver::drive; format strings with several unknown parameters) is "
        "executed by 3 fresh oracle processes (independent hash seeds), once more in reverse order (different in-process history) and once "
        "on 4 threads of one process... all answers (bits, spans, symbols, every written file, structured and printed diagnostics) must be "
        "byte-identical. Non-trivial = distinct operations whose answer contains >= 3 symbols or >= 1 diagnostic.")

RULES = """#ruledef
{
    ld {x: u8} => 0x10 @ x
    jmp {a: u16} => 0x30 @ a
    pair {a: u8}, {b: u8} => asm { ld {a}
        ld {b} }
    loop {n: u8} => asm {
        top:
        ld {n}
        jmp top
    }
}
#fn twice(x) => x * 2
"""


def gen_symbol_program(rng):
    n = rng.randrange(2, 6)
    files = []
    root = [RULES]
    for i in range(n):
        body = []
        if rng.random() < 0.5:
            body.append("g%d_%d:" % (i, rng.randrange(100)))
        else:
            body.append("k%d = %d" % (i, rng.randrange(1000)))
        for j in range(rng.randrange(0, 4)):
            r = rng.random()
            if r < 0.4:
                body.append(".l%d:" % j)
            elif r < 0.6:
                body.append(".c%d = twice(%d)" % (j, rng.randrange(50)))
            elif r < 0.8:
                body.append("    pair %d, %d" % (rng.randrange(256), rng.randrange(256)))
            else:
                body.append("    loop %d" % rng.randrange(256))
        files.append(("f%d.asm" % i, "\n".join(body) + "\n"))
        root.append('#include "f%d.asm"' % i)
    root.append("end_marker:")
    return [("main.asm", "\n".join(root) + "\n")] + files


FORMATS = ["symbols", "mesen-mlb", "annotated", "annotated,base:2,group:4", "addrspan", "tcgame", "binary", "hexdump", "intelhex", "hexc", "logisim16"]


def build_ops(rng, thorough):
    ops = []
    n = 600 if thorough else 120
    for _ in range(n):
        files = gen_symbol_program(rng)
        ops.append(fw.asm_op(files))
        for f in rng.sample(FORMATS, 3) + ["symbols"]:
            argv = ["main.asm", "-q", "-f", f, "-o", "out.txt"]
            ops.append("drv %d %s - %s" % (len(files), " ".join("%s %s" % (fw.hx(a), fw.hx(b)) for a, b in files), " ".join(fw.hx(a) for a in argv)))
    for _ in range(n):
        root, inc, kind, ffile, fline = C13.gen_faulty(rng)
        ops.append(fw.asm_op([("main.asm", root), ("inc.asm", inc)]))
    for _ in range(n):
        text, lay, banks, items = C06.gen_program(rng)
        ops.append(fw.asm_op([("main.asm", text)]))
    # instructions matched by several rules whose index prefixes have different lengths: ambiguous or failing in every
    # form, so that the diagnostics list the candidates (their order must not depend on hash-map iteration)
    for _ in range(n // 4 + 10):
        conds = rng.sample(["z", "nz", "c", "nc", "eq", "ne", "mi"], rng.randrange(2, 5))
        mn = rng.choice(["j", "b", "call"])
        rules = ["    %s{c: cond} {addr: u8} => 0x4 @ c`4 @ addr" % mn]
        for i, c in enumerate(conds):
            if rng.random() < 0.7:
                rules.append("    %s%s {addr: u8} => 0x%02x @ addr" % (mn, c, 0x80 + i))
        rng.shuffle(rules)
        prog = "#subruledef cond\n{\n" + "".join("    %s => 0x%x\n" % (c, i) for i, c in enumerate(conds)) + "}\n#ruledef\n{\n    nop => 0x00\n" + "\n".join(rules) + "\n}\nstart:\n    nop\n"
        for _ in range(rng.randrange(1, 4)):
            prog += "    %s%s %s\n" % (mn, rng.choice(conds), rng.choice(["start", "0x123", "1", "-1"]))
        ops.append(fw.asm_op([("main.asm", prog)]))
    for _ in range(40):
        k = rng.randrange(2, 6)
        names = rng.sample(["foo", "bar", "baz", "radix", "width", "endian", "zz", "a", "b"], k)
        ops.append("ofmt " + fw.hx("annotated," + ",".join("%s:%d" % (nm, rng.randrange(9)) for nm in names)))
        ops.append("ofmt " + fw.hx(rng.choice(["binary", "hexstr", "tcgame"]) + "," + ",".join(names)))
    return ops


def run(chk):
    rng = chk.rng
    thorough = chk.tier == "thorough"
    chk.rule = RULE.replace(" and once on 4 threads of one process...", ";")
    ops = build_ops(rng, thorough)
    runs = []
    for i in range(3):
        runs.append(fw.run_oracle_resilient(ops, "c10r%d" % i))
    rev = list(reversed(ops))
    r = fw.run_oracle_resilient(rev, "c10rev")
    runs.append(list(reversed(r)))
    base = runs[0]
    for j, op in enumerate(ops):
        chk.evaluations += 1
        a = base[j]
        if a.get("panic") is not None or a.get("died"):
            chk.count("crashed")
            continue
        nsym = len(a.get("symbols", [])) if isinstance(a, dict) else 0
        if nsym >= 3 or a.get("messages") or a.get("err"):
            chk.nontriv(op)
        for k in range(1, len(runs)):
            if json.dumps(runs[k][j], sort_keys=True) != json.dumps(a, sort_keys=True):
                what = "different answers in different processes" if k < 3 else "answer depends on what was processed before in the same process"
                da, db = json.dumps(a, sort_keys=True), json.dumps(runs[k][j], sort_keys=True)
                pos = next((i for i, (x, y) in enumerate(zip(da, db)) if x != y), min(len(da), len(db)))
                chk.violate(what, {"op": op[:3000]}, da[max(0, pos - 120):pos + 120], db[max(0, pos - 120):pos + 120])
                break
    chk.count("operations", len(ops))
    chk.count("processes", 3)
    chk.sample({"op": ops[0][:300], "answer": json.dumps(base[0])[:300]})
    chk.sample({"op": ops[1][:200], "answer": json.dumps(base[1])[:300]})
    chk.traces += len(ops) * len(runs)
    chk.notes.append("theorems: hash_sites_are_the_modelled_ones, no_global_state (translator lists), symbols_order_free, copy_order_free, prefix_injective; "
                     "threads of one process are not exercised in the quick tier")


def replay(path):
    d = json.load(open(path))
    bad = 0
    for v in d.get("violations", []):
        op = v["input"]["op"]
        answers = set()
        for i in range(6):
            answers.add(json.dumps(fw.run_oracle([op], "rp%d" % i)[0], sort_keys=True))
        print("replay: %d distinct answers in 6 processes" % len(answers))
        if len(answers) > 1:
            bad += 1
    if bad:
        print("VIOLATION property=C10 replay=%s" % path)
        return 1
    return 0
