"""C12 — listings and symbol tables tell the truth about the output."""
import json, os, re
import fw, gen_isa

RULE = ("generated programs (instruction sets of C01; global and nested labels, constants - some declared #const(noemit) -, #d4..#d32 "
        "elements (bit-granular items), #res, #align, #addr, two banks switched back and forth, the tail of the program in an "
        "included file) assembled by asm::assemble and rendered by driver::format_output as annotated (every base 2..128 and group "
        "1..9), tcgame (base 2/16), addrspan, symbols and mesen-mlb. Each listing is parsed back and checked row by row against the "
        "spans, bits and symbol definitions of the same run and against the source text: one row per recorded span in output order, "
        "position q*G+r = span offset, address, data digits = the output bits at that position, excerpt = the source bytes of the "
        "span, which lie on the line of the item whose definition-computed encoding they carry; label rows carry the label's value; "
        "symbol tables = exactly the declared, non-suppressed, integer-valued symbols in declaration order with their final values; "
        "mesen offsets = (address - bank start) * address unit / 8 + outp/8 - 16 for labels outside the header (banks with 8-, 16- and 32-bit units, a bank without output).  The Lean listing model renders the same "
        "spans and must agree byte for byte. Non-trivial = distinct programs with at least three emitted items.")

BASES = [2, 4, 8, 16, 32, 64, 128]


def bpd_of(base):
    return bin(base - 1).count("1")


def digit_val(c):
    o = ord(c)
    return o - 48 if o <= 57 else (o - 97 + 10)


def sorted_spans(spans):
    return sorted(spans, key=lambda s: (-1 if s["offset"] is None else s["offset"]))   # stable


def line_col(text_bytes, idx):
    pre = text_bytes[:idx]
    # the address-span format counts lines and columns from zero
    line = pre.count(b"\n")
    col = len(pre[pre.rfind(b"\n") + 1:].decode("utf-8", "replace"))
    return line, col


def check_annotated(chk, inp, text, base, group, bits, spans, files, tc=False):
    bpd = bpd_of(base)
    bpg = bpd * group
    lines = text.split("\n")
    pre = "#" if tc else ""
    if not re.match(r"^%s +outp \| +addr \| data \(base %d\)$" % (re.escape(pre), base), lines[0]) or lines[1] != "":
        return "header: %r" % lines[:2]
    body = lines[2:]
    if body and body[-1] == "":
        body = body[:-1]
    ss = sorted_spans(spans)
    rows = []
    if tc:
        if len(body) != 3 * len(ss):
            return "row count %d for %d spans" % (len(body) // 3, len(ss))
        for i in range(0, len(body), 3):
            m = re.match(r"^#  +(--|[0-9a-f]+): *(-|[0-9a-f]+) \| +(-?[0-9a-f]+) $", body[i])
            if not m or not body[i + 1].startswith("# "):
                return "row syntax: %r" % body[i:i + 3]
            rows.append((m.group(1), m.group(2), m.group(3), body[i + 2], body[i + 1][2:]))
    else:
        if len(body) != len(ss):
            return "row count %d for %d spans" % (len(body), len(ss))
        for l in body:
            m = re.match(r"^ +(--|[0-9a-f]+): *(-|[0-9a-f]+) \| +(-?[0-9a-f]+) \| (.*?) ; (.*)$", l, re.S)
            if not m:
                return "row syntax: %r" % l
            rows.append(m.groups())
    for (q, r, addr, data, excerpt), s in zip(rows, ss):
        if s["offset"] is None:
            if q != "--":
                return "row without position expected: %r" % (q,)
            continue
        off = int(q, 16) * bpg + int(r, 16)
        if off != s["offset"]:
            return "row position %d, span offset %d" % (off, s["offset"])
        if int(addr, 16) != int(s["addr"]["v"]):
            return "row address %s, span address %s" % (addr, s["addr"]["v"])
        d = data.strip(" ")
        digs = []
        for grp in d.split(" "):
            if not grp:
                continue
            if tc:
                p = "0b" if base == 2 else "0x"
                if not grp.startswith(p):
                    return "tcgame group without prefix: %r" % grp
                grp = grp[2:]
            digs += [digit_val(c) for c in grp]
        nd = (s["size"] + bpd - 1) // bpd
        if len(digs) != nd:
            return "%d digits for a %d-bit item in base %d" % (len(digs), s["size"], base)
        got = "".join(format(x, "0%db" % bpd) for x in digs)
        want = (bits[off:off + nd * bpd] + "0" * (nd * bpd))[:nd * bpd]
        if got != want:
            return "row data %s, output bits %s at %d" % (got, want, off)
        src = files[s["src"]["file"]].encode()
        if excerpt.encode() != src[s["src"]["start"]:s["src"]["end"]]:
            return "excerpt %r is not the source text of the span" % excerpt
    return None


def check_addrspan(text, spans, files):
    lines = text.split("\n")
    if lines[0] != "; physical address : bit offset | logical address | file : line start : column start : line end : column end":
        return "header"
    body = [l for l in lines[1:] if l != ""]
    ss = sorted_spans(spans)
    if len(body) != len(ss):
        return "row count %d for %d spans" % (len(body), len(ss))
    for l, s in zip(body, ss):
        m = re.match(r"^(-|[0-9a-f]+):(-|[0-9a-f]+) \| (-?[0-9a-f]+) \| (.*):(\d+):(\d+):(\d+):(\d+)$", l)
        if not m:
            return "row syntax %r" % l
        if s["offset"] is not None and int(m.group(1), 16) * 8 + int(m.group(2), 16) != s["offset"]:
            return "position"
        if int(m.group(3), 16) != int(s["addr"]["v"]):
            return "address"
        src = files[s["src"]["file"]].encode()
        a = line_col(src, s["src"]["start"])
        b = line_col(src, s["src"]["end"])
        if m.group(4) != s["src"]["file"] or (int(m.group(5)), int(m.group(6))) != a or (int(m.group(7)), int(m.group(8))) != b:
            return "location %s, expected %s:%s:%s" % (l.split("|")[-1], s["src"]["file"], a, b)
    return None


def emitted_symbols(symdefs):
    return [(d["name"], int(d["value"].split(" ")[1])) for d in symdefs if not d["no_emit"] and d["value"].startswith("int ")]


def check_symbols(text, symdefs):
    want = ["%s = 0x%s" % (n, ("-%x" % -v) if v < 0 else "%x" % v) for n, v in emitted_symbols(symdefs)]
    got = [l for l in text.split("\n") if l != ""]
    return None if got == want else "listed %s, declared and emitted %s" % (got[:6], want[:6])


def check_mesen(text, symdefs):
    want = []
    for d in symdefs:
        if d["no_emit"] or not d["value"].startswith("int ") or d["kind"] != "Label" or d["bank"] is None:
            continue
        v = int(d["value"].split(" ")[1])
        a0 = int(d["bank"]["addr_start"]["v"])
        nm = d["name"].replace(".", "_")
        if d["bank"]["outp"] is None:
            want.append("R:%x:%s" % (v, nm))
        else:
            off = (v - a0) * d["bank"].get("addr_unit", 8) // 8 + d["bank"]["outp"] // 8 - 16
            if v >= a0 and off >= 0:
                want.append("P:%x:%s" % (off, nm))
    got = [l for l in text.split("\n") if l != ""]
    return None if got == want else "listed %s, expected %s" % (got[:6], want[:6])


def gen_mesen(rng):
    """a 16-byte header bank, a PRG bank behind it whose address unit is 8, 16 or 32 bits, a bank without output: (program,
    the lines the Mesen label file must have: P:<byte offset in the file - 16> for labels of banks with output, none for
    labels inside the header, R:<address> for labels of banks without output)"""
    unit = rng.choice([8, 16, 16, 32, 4])
    a0 = rng.choice([0, 0x8000, 0xc000, 0x10])
    # (a bank of 4-bit units may start on a half byte: offsets are computed in bits before dividing)
    half = 4 if unit == 4 and rng.random() < 0.6 else 0
    lines = ["#bankdef header { #addr 0, #size 0x10, #outp 0 }",
             "#bankdef prg { #bits %d, #addr 0x%x, #size 0x200, #outp 8 * 0x10 + %d }" % (unit, a0, half),
             "#bankdef ram { #bits %d, #addr 0x%x, #size 0x100 }" % (rng.choice([8, 16]), rng.choice([0, 0x200])),
             "#bank header"]
    want = []
    k = 0
    pos = 0
    for i in range(16):
        if rng.random() < 0.15:
            lines.append("h%d:" % k); k += 1          # inside the header: no P: line
        lines.append("    #d8 %d" % rng.randrange(256))
    if rng.random() < 0.5:
        lines.append("hend:")                          # at file offset 0x10, in the header bank: PRG offset 0
        want.append("P:0:hend")
    lines.append("#bank prg")
    pos = 0
    for i in range(rng.randrange(2, 9)):
        if rng.random() < 0.6:
            nm = "p%d" % i
            if rng.random() < 0.3 and i:
                nm = "p%d.in" % (i - 1) if ("p%d:" % (i - 1)) in lines else nm
            lines.append((("." + nm.split(".")[1]) if "." in nm else nm) + ":")
            want.append("P:%x:%s" % ((pos + half) // 8, nm.replace(".", "_")))
        n = rng.randrange(1, 4)
        lines.append("    #d%d %s" % (unit, ", ".join(str(rng.randrange(1 << min(unit, 16))) for _ in range(n))))
        pos += unit * n
    lines.append("#bank ram")
    runit = int(lines[2].split("#bits ")[1].split(",")[0])
    ra0 = int(lines[2].split("#addr ")[1].split(",")[0], 16)
    rpos = 0
    for i in range(rng.randrange(1, 4)):
        lines.append("r%d:" % i)
        want.append("R:%x:r%d" % (ra0 + rpos // runit, i))
        n = rng.randrange(1, 4)
        lines.append("    #res %d" % n)
        rpos += n * runit
    return "\n".join(lines) + "\n", want


KNOWN = {}


def run(chk):
    rng = chk.rng
    thorough = chk.tier == "thorough"
    chk.rule = RULE
    KNOWN.clear()
    KNOWN.update({k["id"]: k for k in fw.known_findings("C12") if k["status"] == "open"})
    n = 2500 if thorough else 300
    jobs = []       # (program struct, files dict, linemap, asm fields)
    for i in range(n):
        p = gen_isa.gen_prog(rng, faults=False, banks=(rng.random() < 0.4))
        consts = [it[1] for it in p.items if it[0] == "const"]
        noemit = set(c for c in consts if rng.random() < 0.4)
        lm = []
        text = gen_isa.render(p, rng, linemap=lm, noemit=noemit)
        if rng.random() < 0.5:
            # characters of two, three and four bytes in trailing comments: byte offsets and character columns part ways
            tl = text.split("\n")
            for ln, _ in lm:
                if rng.random() < 0.3 and not tl[ln - 1].rstrip().endswith("{"):
                    tl[ln - 1] += rng.choice([" ; é", " ; ünï ✓", "\t;* 𝄞 *;", " ; →"])
            text = "\n".join(tl)
        # data elements whose text is known to the generator, in forms whose span the parser assembles from parts: short slices
        # (finding F67, repaired: `7`8` was listed as "`8"), slices, concatenations, and operands in parentheses (finding F80, repaired)
        tail_elems = []
        if rng.random() < 0.5:
            tail_elems = rng.sample(["7`8", "0x3c5[11:4]", "3`4 @ 1`4", "le(0x12)", "1 + 2`8", "(1 + 2)", "2 * (1 + 2)", "(1 + 2) * 2"], 3)
            text += "#d8 " + rng.choice([", ", " , ", ","]).join(tail_elems) + "\n"
        extra = {}
        if rng.random() < 0.5:
            # a symbol whose value is not an integer (it is not listed), with a nested label (which is)
            text += rng.choice(["BFLAG = 1 == 1\n", "BFLAG = \"text\" == \"text\"\n", "#const(noemit) BFLAG = false\n"]) + ".sub:\n    #d8 7\n"
            extra = {"BFLAG": "noemit" in text.split("BFLAG")[0].split("\n")[-1], "BFLAG.sub": False}
        files = [("main.asm", text)]
        # the tail of the program in an included file
        lines = text.split("\n")
        first_item = lm[0][0] if lm else len(lines)
        if rng.random() < 0.4 and len(lines) - first_item > 3:
            cut = rng.randrange(first_item, len(lines) - 1)
            files = [("main.asm", "\n".join(lines[:cut]) + "\n#include \"part.asm\"\n"), ("part.asm", "\n".join(lines[cut:]))]
            lm = [((ln, "main.asm") if ln <= cut else (ln - cut, "part.asm"), ii) for ln, ii in lm]
        else:
            lm = [((ln, "main.asm"), ii) for ln, ii in lm]
        jobs.append((p, dict(files), dict(lm), fw.asm_op(files), noemit, extra, tail_elems))
    fmts = []
    for j, job in enumerate(jobs):
        b, g = rng.choice(BASES), rng.randrange(1, 10)
        if rng.random() < 0.02:
            # a group wider than any run-time width `format!` accepts (finding F66b, repaired: 65536 panicked where 65535 worked)
            g = rng.choice([65535, 65536, 65537, 70000])
        fmts.append([("annotated,base:%d,group:%d" % (b, g), ("annotated", b, g)),
                     ("annotated", ("annotated", 16, 2)) if rng.random() < 0.5 else ("annotatedbin", ("annotated", 2, 8)),
                     rng.choice([("tcgame", ("tcgame", 16, 2)), ("tcgamebin", ("tcgame", 2, 8)), ("tcgame,base:2,group:%d" % g, ("tcgame", 2, g)), ("tcgame,group:%d" % g, ("tcgame", 16, g))]),
                     ("addrspan", ("addrspan", 0, 0)), ("symbols", ("symbols", 0, 0)), ("mesen-mlb", ("mesen", 0, 0))])
    ops, meta = [], []
    for j, job in enumerate(jobs):
        for fs, kind in fmts[j]:
            ops.append("lst %s %s" % (fw.hx(fs), job[3]))
            meta.append((j, fs, kind))
    impl = fw.run_oracle_resilient(ops, "c12")
    mops, mfor = [], []
    for (j, fs, kind), a in zip(meta, impl):
        chk.evaluations += 1
        p, files, lm, _, noemit, extra, tail_elems = jobs[j]
        inp = {"format": fs, "files": files}
        if "text" not in a:
            chk.count("not_assembled")
            if a.get("panic") is not None or a.get("died"):
                chk.violate("rendering crashed", inp, "text", str(a)[:200])
            continue
        text = bytes.fromhex(a["text"]).decode("utf-8", "replace")
        out = a["output"]
        bits, spans = out["bits"], out["spans"]
        if kind[0] == "annotated" and len([s for s in spans if s["size"] > 0]) >= 3:
            chk.nontriv(files["main.asm"])
        chk.count("format_" + kind[0])
        err = None
        if kind[0] in ("annotated", "tcgame"):
            err = check_annotated(chk, inp, text, kind[1], kind[2], bits, spans, files, tc=(kind[0] == "tcgame"))
            if err is None and kind[0] == "annotated":
                # the row's data are the encoding of the item on the span's source line (language definition)
                e = gen_isa.expected(p)
                tail_seen = []
                for s in spans:
                    if s["offset"] is None or s["size"] == 0:
                        continue
                    src = files[s["src"]["file"]].encode()
                    ln = src[:s["src"]["start"]].count(b"\n") + 1
                    ii = lm.get((ln, s["src"]["file"]))
                    exc = src[s["src"]["start"]:s["src"]["end"]]
                    line = src.split(b"\n")[ln - 1]
                    if ii is None and extra and exc == b"7" and line.strip() == b"#d8 7":
                        continue
                    if ii is None and tail_elems and line.startswith(b"#d8 "):
                        tail_seen.append(exc.decode())
                        continue
                    if ii is None:
                        err = "span on line %d of %s which holds no item" % (ln, s["src"]["file"]); break
                    it = p.items[ii]
                    # the row's text is the item's own text, by the generator's knowledge of the line (not by the recorded span):
                    # an instruction is its line without indentation and trailing comment, a data element one of the pieces between commas
                    col = s["src"]["start"] - (len(b"\n".join(src.split(b"\n")[:ln - 1])) + (1 if ln > 1 else 0))
                    before, after = line[:col], line[col + len(exc):]
                    if it[0] == "instr" and (before.strip() != b"" or not (after.strip() == b"" or after.strip().startswith(b";"))):
                        err = "line %d: the row's text %r is not the instruction on the line %r" % (ln, exc, line); break
                    if it[0] == "data":
                        body_ = line.split(b";")[0].strip()
                        pieces = [x.strip() for x in body_.split(b" ", 1)[1].split(b",")] if b" " in body_ else []
                        if exc not in pieces:
                            err = "line %d: the row's text %r is none of the data elements %r" % (ln, exc, pieces); break
                    if it[0] == "instr":
                        enc = gen_isa.encode(p.rules[it[1]], [v for _, v in it[2]], p.addr)
                        if bits[s["offset"]:s["offset"] + s["size"]] != enc:
                            err = "line %d: bits at the row's position are not the instruction's encoding" % ln; break
                    elif it[0] != "data":
                        err = "emitted item attributed to a line holding %s" % it[0]; break
                if err is None and tail_elems and tail_seen != tail_elems:
                    wrong = [(w, g) for w, g in zip(tail_elems, tail_seen) if w != g]
                    if len(tail_seen) == len(tail_elems) and all(w.startswith("(") or w.endswith(")") for w, g in wrong) and "F80" in KNOWN:
                        chk.known("F80", KNOWN["F80"]["observed"])
                        chk.count("paren_clipped_F80")
                    else:
                        err = "the rows of the data elements %r carry the texts %r" % (tail_elems, tail_seen)
            mops.append("lst %s %d %d %s %s %s" % (kind[0], kind[1], kind[2], bits or "-",
                        ",".join("%s:%d:%s:%d:%d:%d" % ("n" if s["offset"] is None else s["offset"], s["size"], s["addr"]["v"],
                                                       list(files).index(s["src"]["file"]), s["src"]["start"], s["src"]["end"]) for s in spans) or "-",
                        ",".join("%s=%s" % (fw.hx(nm), fw.hx(c) if c else "-") for nm, c in files.items())))
            mfor.append((inp, a["text"]))
        elif kind[0] == "addrspan":
            err = check_addrspan(text, spans, files)
            mops.append("lst addrspan 0 0 - %s %s" % (
                        ",".join("%s:%d:%s:%d:%d:%d" % ("n" if s["offset"] is None else s["offset"], s["size"], s["addr"]["v"],
                                                       list(files).index(s["src"]["file"]), s["src"]["start"], s["src"]["end"]) for s in spans) or "-",
                        ",".join("%s=%s" % (fw.hx(nm), fw.hx(c) if c else "-") for nm, c in files.items())))
            mfor.append((inp, a["text"]))
        else:
            sd = a["symdefs"]
            # declared symbols by the generator: names and noemit flags must be what the run reports
            decl = set(it[1] for it in p.items if it[0] in ("label", "const")) | set(extra)
            if set(d["name"] for d in sd) != decl or set(d["name"] for d in sd if d["no_emit"]) != noemit | set(k for k, v in extra.items() if v):
                err = "declared symbols %s / suppressed %s differ from the program's %s / %s" % (sorted(d["name"] for d in sd)[:8], sorted(d["name"] for d in sd if d["no_emit"]), sorted(decl)[:8], sorted(noemit))
            else:
                err = check_symbols(text, sd) if kind[0] == "symbols" else check_mesen(text, sd)
                if err is None and kind[0] == "symbols":
                    e = gen_isa.expected(p)
                    got = dict(emitted_symbols(sd))
                    want = {k: v for k, v in e[2].items() if k not in noemit} if e[0] == "ok" else None
                    if extra and not extra["BFLAG"] and not re.search(r"^BFLAG =", text, re.M):
                        # the statement: exactly the declared, non-suppressed symbols - a boolean constant is one (finding F68)
                        if "F68" in KNOWN:
                            chk.known("F68", KNOWN["F68"]["observed"])
                            chk.count("non_integer_constant_omitted_F68")
                        else:
                            err = "the declared constant BFLAG (a boolean) is not listed"
                    if extra and "BFLAG.sub" not in got:
                        err = "the label nested under a non-integer constant is not listed"
                    got.pop("BFLAG.sub", None)
                    if err is None and want is not None and got != want:
                        err = "listed values %s, values by the language definition %s" % (sorted(got.items())[:6], sorted(want.items())[:6])
            rows = []
            for d in sd:
                if d["no_emit"] or not d["value"].startswith("int "):
                    continue
                b = "-" if d["bank"] is None else "%s/%s/%s" % (d["bank"]["addr_start"]["v"], d["bank"].get("addr_unit", 8), "n" if d["bank"]["outp"] is None else d["bank"]["outp"])
                rows.append("%s:%s:%s:%s" % (fw.hx(d["name"]), "c" if d["kind"] == "Constant" else "l", d["value"].split(" ")[1], b))
            mops.append("lsy %s %s" % (kind[0], ",".join(rows) or "-"))
            mfor.append((inp, a["text"] or "-"))
        if err:
            chk.violate("the %s listing does not describe the output" % kind[0], inp, "rows consistent with spans, bits, symbols and source", err + " | " + text[:300])
    # ---- Mesen label files for banks whose address unit is not a byte
    mcases = [gen_mesen(rng) for _ in range(1500 if thorough else 200)]
    mo = ["lst %s %s" % (fw.hx("mesen-mlb"), fw.asm_op([("main.asm", t)])) for t, _ in mcases]
    mimpl = fw.run_oracle_resilient(mo, "c12m")
    for (t, want), a in zip(mcases, mimpl):
        chk.evaluations += 1
        inp = {"format": "mesen-mlb", "files": {"main.asm": t}}
        if "text" not in a:
            chk.violate("no Mesen label file for a well-formed program", inp, "\n".join(want), str(a)[:300])
            continue
        text = bytes.fromhex(a["text"]).decode("utf-8", "replace")
        chk.nontriv(t)
        chk.count("mesen_units")
        if [l for l in text.split("\n") if l] != want:
            chk.violate("the Mesen label file is not consistent with the layout", inp, "\n".join(want), text[:300])
        rows = []
        for d in a["symdefs"]:
            if d["no_emit"] or not d["value"].startswith("int "):
                continue
            b = "-" if d["bank"] is None else "%s/%s/%s" % (d["bank"]["addr_start"]["v"], d["bank"].get("addr_unit", 8), "n" if d["bank"]["outp"] is None else d["bank"]["outp"])
            rows.append("%s:%s:%s:%s" % (fw.hx(d["name"]), "c" if d["kind"] == "Constant" else "l", d["value"].split(" ")[1], b))
        mops.append("lsy mesen %s" % (",".join(rows) or "-"))
        mfor.append((inp, a["text"] or "-"))
    model = fw.run_model(mops, "c12")
    for (inp, itext), m in zip(mfor, model):
        chk.evaluations += 1
        if m != itext:
            chk.disagree("%s %s" % (inp["format"], inp["files"]["main.asm"][-300:]),
                         bytes.fromhex(m).decode("utf-8", "replace")[:300] if re.fullmatch(r"[0-9a-f]*", m) else m[:200],
                         bytes.fromhex(itext).decode("utf-8", "replace")[:300] if itext != "-" else "-")
    chk.sample({"format": meta[0][1], "listing": bytes.fromhex(impl[0]["text"]).decode("utf-8", "replace")[:600] if "text" in impl[0] else str(impl[0])[:200]})
    chk.traces += len(ops) + len(mops)


def replay(path):
    d = json.load(open(path))
    bad = 0
    for v in d.get("violations", []):
        inp = v["input"]
        files = list(inp["files"].items())
        a = fw.run_oracle_resilient(["lst %s %s" % (fw.hx(inp["format"]), fw.asm_op(files))], "rp")[0]
        t = bytes.fromhex(a["text"]).decode("utf-8", "replace") if "text" in a else str(a)
        print("replay ->", t[:300])
        if v["got"].split(" | ", 1)[-1][:200] == t[:200]:
            bad += 1
    if bad:
        print("VIOLATION property=C12 replay=%s" % path)
        return 1
    return 0
