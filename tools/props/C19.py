"""C19 — resource limits are diagnosed, not crashed into."""
import json, os, subprocess, time, resource, tempfile, re
import concurrent.futures as cf
import fw, c19_families as F

TIME_LIMIT = 20
RULE = ("directed input families parameterised by magnitude, run on the real customasm binary (built from /repo's working tree) under "
        "ulimit -v 4 GiB with a %d s limit: nesting depth / chain length of every bracket, operator and directive form "
        "(parentheses, unary chains, + and @ chains, ternaries, slices, blocks, call arguments, #if/#elif, braces, nested labels, asm "
        "macro chains, function chains, sub-rule chains, very long lines/identifiers/strings, many rules/parameters) up to 10^5; "
        "recursion cycles of length 1..4 through functions, asm blocks, rules calling functions, left- and right-recursive sub-rules "
        "and constants; operands 2^k (k = 3..65, 100, 1000, and shift amounts up to 2^(2^33)) in every numeric position (shift "
        "amounts, slice bounds, width suffixes, typed widths, #res/#align/#addr, every #bankdef field, #bits, #labelalign, incbin "
        "ranges, --iters). Accepted outcomes: exit 0 with output, or exit 1 with an error diagnostic and no output file; never a "
        "signal, a panic message, a timeout or an allocation failure. Small members of each family also go through the in-process "
        "oracle and the Lean model. Non-trivial = (family, magnitude) pairs beyond the documented limits." % TIME_LIMIT)

DEPTHS_Q = [10, 49, 50, 51, 200, 1000, 100000]
DEPTHS_T = [10, 30, 49, 50, 51, 60, 100, 200, 500, 1000, 3000, 10000, 30000, 100000]
MAGS_Q = [8, 24, 31, 32, 33, 63, 64, 65, 1000]
MAGS_T = [3, 8, 16, 24, 31, 32, 33, 40, 48, 62, 63, 64, 65, 100, 1000, 4096]
SMALL_ONLY = {"many_params": 12, "many_rules": 10000, "label_nesting": 1000, "subrule_nesting": 10000, "asm_macro_nesting": 10000,
              "fn_call_depth": 10000}


def run_one(binary, work, name, k, prog, extra):
    d = tempfile.mkdtemp(dir=work)
    open(os.path.join(d, "main.asm"), "w").write(prog)
    open(os.path.join(d, "data.bin"), "wb").write(b"\x01\x02\x03\x04")

    def lim():
        resource.setrlimit(resource.RLIMIT_AS, (4 << 30, 4 << 30))
        resource.setrlimit(resource.RLIMIT_CORE, (0, 0))
    t0 = time.time()
    try:
        r = subprocess.run([binary, "main.asm", "-f", "hexstr", "-o", "out.txt", "-q"] + extra, cwd=d, capture_output=True,
                           timeout=TIME_LIMIT, preexec_fn=lim)
        rc, err = r.returncode, (r.stderr + r.stdout).decode(errors="replace")
    except subprocess.TimeoutExpired:
        rc, err = "timeout", ""
    dt = time.time() - t0
    has_out = os.path.exists(os.path.join(d, "out.txt"))
    subprocess.run(["rm", "-rf", d])
    err = re.sub(r"\x1b\[[0-9;]*m", "", err)
    if rc == "timeout":
        verdict = "timeout"
    elif isinstance(rc, int) and rc < 0:
        verdict = "signal %d: %s" % (-rc, err.strip().split("\n")[0][:100])
    elif "panicked" in err or "overflowed its stack" in err or "memory allocation" in err:
        verdict = "crash: " + err.strip().split("\n")[0][:100]
    elif rc == 0:
        verdict = "ok" if has_out and "error" not in err else "exit 0 without output or with an error"
    elif rc == 1:
        verdict = "diagnosed" if ("error" in err and not has_out) else "exit 1 without diagnostic or with an output file"
    else:
        verdict = "exit %s" % rc
    return name, k, verdict, round(dt, 2), err.strip().split("\n")[0][:100]


def attribute(known, name, k, verdict):
    for f in known.values():
        s = f["signature"]
        if re.sub(r"_minus\d+$", "", name) in s["families"] and k >= s["min_magnitude"]:
            return f
    return None


def jobs_for(tier):
    thorough = tier == "thorough"
    jobs = []
    for name, f in F.depth_families().items():
        for k in (DEPTHS_T if thorough else DEPTHS_Q):
            if k > SMALL_ONLY.get(name, 10 ** 9):
                continue
            jobs.append((name, k, f(k), []))
    for name, f in F.cycle_families().items():
        for k in [1, 2, 3, 4]:
            jobs.append((name, k, f(k), []))
    for name, f in F.magnitude_families().items():
        ks = list(MAGS_T if thorough else MAGS_Q)
        if name == "shift_left_amount":
            ks += [1 << 20, 1 << 33]
        if name == "mul_small_by_huge_chain":
            ks = [1, 10]
        for k in ks:
            p = f(k)
            if p is None:
                continue
            extra = []
            if isinstance(p, tuple):
                p, extra = p
            jobs.append((name, k, p, extra))
    # the last values below the machine-word boundaries: 2^k - 1 and 2^k - 8 for k = 32, 64
    for delta in (1, 8):
        for name, f in F.magnitude_families(delta).items():
            for k in (32, 64):
                p = f(k)
                if p is None or isinstance(p, tuple):
                    continue
                jobs.append((name + "_minus%d" % delta, k, p, []))
    return jobs


def run(chk):
    chk.rule = RULE
    binary = fw.build_real_binary()
    work = os.path.join(fw.CACHE, "c19")
    os.makedirs(work, exist_ok=True)
    known = {k["id"]: k for k in fw.known_findings("C19") if k["status"] == "open"}
    jobs = jobs_for(chk.tier)
    # the witnesses of the recorded findings always run
    fams = dict(F.depth_families()); fams.update(F.cycle_families()); fams.update(F.magnitude_families())
    for f in known.values():
        n, k = f["replay"]["family"], f["replay"]["magnitude"]
        if not any(j[0] == n and j[1] == k for j in jobs):
            jobs.append((n, k, fams[n](k), []))
    # known-bad members are run once per finding (the witness); other members of those families above the threshold are skipped in
    # the quick tier to keep the run short
    if chk.tier != "thorough":
        wit = set((f["replay"]["family"], f["replay"]["magnitude"]) for f in known.values())
        jobs = [j for j in jobs if (j[0], j[1]) in wit or attribute(known, j[0], j[1], "") is None]
    with cf.ThreadPoolExecutor(12) as ex:
        res = list(ex.map(lambda j: run_one(binary, work, *j), jobs))
    for (name, k, verdict, dt, first), j in zip(res, jobs):
        chk.evaluations += 1
        chk.count(verdict.split(":")[0].split(" ")[0])
        if k >= 50:
            chk.nontriv((name, k))
        if verdict in ("ok", "diagnosed"):
            continue
        f = attribute(known, name, k, verdict)
        inp = {"family": name, "magnitude": k, "program_head": j[2][:200], "argv_extra": j[3]}
        if f is not None:
            chk.known(f["id"], f["observed"])
        else:
            chk.violate("a resource limit is crashed into instead of diagnosed", inp, "exit 0 with output, or exit 1 with a diagnostic, within %d s and 4 GiB" % TIME_LIMIT,
                        "%s after %.1f s" % (verdict, dt))
    for f in known.values():
        if f["id"] not in chk.known_hits:
            chk.notes.append("known finding %s no longer reproduces on its witness" % f["id"])
    # ---- small members through the in-process oracle and the model (error classes must agree)
    ops, what = [], []
    for name, f in list(F.depth_families().items()) + list(F.cycle_families().items()):
        for k in ([10, 49, 50, 51, 60] if name in F.depth_families() else [1, 2, 3, 4]):
            if k > SMALL_ONLY.get(name, 10 ** 9) or attribute(known, name, k, "") is not None:
                continue
            ops.append(fw.asm_op([("main.asm", f(k))]))
            what.append((name, k))
    for name, f in F.magnitude_families().items():
        if name.startswith("incbin") or name in ("iters_option", "mul_small_by_huge_chain"):
            continue
        # (only magnitudes whose answer is an error or a small output: the model builds its output bit by bit)
        for k in ([8] if name in ("repeated_squaring", "res_size", "align_size", "addr_value", "bankdef_outp", "bankdef_size_fill", "data_width_suffix") else [8, 64, 65, 100]):
            p = f(k)
            if p is None or isinstance(p, tuple) or (attribute(known, name, k, "") is not None):
                continue
            ops.append(fw.asm_op([("main.asm", p)]))
            what.append((name, k))
    for i, t in enumerate(F.word_edge_positions()):
        ops.append(fw.asm_op([("main.asm", t)]))
        what.append(("word_edge_position", i))
    impl = fw.run_oracle_resilient(ops, "c19")
    model = fw.run_model(ops, "c19", timeout=3000)
    for (name, k), a, m in zip(what, impl, model):
        chk.evaluations += 1
        il = fw.asm_line(a)
        if il != m:
            chk.disagree("%s magnitude %d" % (name, k), m[:200], il[:200])
        if il == "panic":
            chk.violate("the assembler crashed in-process", {"family": name, "magnitude": k}, "result or error", str(a)[:200])
    chk.sample({"family": res[0][0], "magnitude": res[0][1], "verdict": res[0][2], "seconds": res[0][3]})
    chk.traces += len(jobs) + len(ops)


def replay(path):
    d = json.load(open(path))
    binary = fw.build_real_binary()
    work = os.path.join(fw.CACHE, "c19")
    os.makedirs(work, exist_ok=True)
    fams = dict(F.depth_families()); fams.update(F.cycle_families()); fams.update(F.magnitude_families())
    bad = 0
    for v in d.get("violations", []):
        inp = v["input"]
        if "program_head" not in inp:
            continue
        mm = re.match(r"(.*)_minus(\d+)$", inp["family"])
        p = F.magnitude_families(int(mm.group(2)))[mm.group(1)](inp["magnitude"]) if mm else fams[inp["family"]](inp["magnitude"])
        extra = []
        if isinstance(p, tuple):
            p, extra = p
        r = run_one(binary, work, inp["family"], inp["magnitude"], p, extra)
        print("replay ->", r)
        if r[2] not in ("ok", "diagnosed"):
            bad += 1
    if bad:
        print("VIOLATION property=C19 replay=%s" % path)
        return 1
    return 0
