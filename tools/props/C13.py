"""C13 — diagnostics point at the fault."""
import json, re
import fw

RULE = ("(1) CharCounter on random texts of 1-4-byte characters and line breaks at every kind of byte index (model vs implementation; on "
        "character boundaries also vs the definition: line = line breaks before, column = characters since the last line break); "
        "(2) valid two-file programs with non-ASCII characters in comments and strings, one fault of five kinds injected on a chosen line of "
        "the root or the included file: the first error must lie on that line of that file, and every location of every message must be a "
        "range on character boundaries inside an existing file whose printed line:column matches the definition. Non-trivial = distinct "
        "texts containing a multi-byte character before the queried index, and distinct faulty programs.")

CHARS = ["a", "b", " ", "\t", "x", "1", ";", "é", "ß", "€", "中", "😀", "\n", "\n", "\r"]


def spec_linecol(data, index):
    pre = data[:index]
    line = pre.count(b"\n")
    last = pre.rfind(b"\n")
    col = len(pre[last + 1:].decode("utf-8"))
    return line, col


def is_boundary(data, i):
    if i > len(data):
        return False
    try:
        data[:i].decode("utf-8")
        return True
    except UnicodeDecodeError:
        return False


RULES = """#ruledef
{
    ld {x: u8} => 0x10 @ x
    add {x: u8}, {y: u8} => 0x20 @ x @ y
    jmp {a: u16} => 0x30 @ a
    nop => 0x00
}
"""

COMMENTS = ["", "", " ; plain", " ; cömment é", " ; 中文 😀", " ;* blöck *;", " ; ß"]


def gen_lines(rng, n, labels, prefix):
    """valid lines; returns list of (text, kind) where kind marks lines a fault may replace"""
    out = []
    for i in range(n):
        r = rng.random()
        c = rng.choice(COMMENTS)
        if r < 0.2:
            name = "%s%d" % (prefix, i)
            labels.append(name)
            out.append((name + ":" + c, "label"))
        elif r < 0.5:
            out.append(("    ld %d%s" % (rng.randrange(256), c), "instr"))
        elif r < 0.65:
            out.append(("    add %d, %d%s" % (rng.randrange(256), rng.randrange(256), c), "instr"))
        elif r < 0.75 and labels:
            out.append(("    jmp %s%s" % (rng.choice(labels), c), "instr"))
        elif r < 0.85:
            out.append(('    #d "%s", 0x12%s' % (rng.choice(["é", "ab", "中", "x😀", "~"]), c), "data"))
        elif r < 0.9:
            out.append(("    nop" + c, "instr"))
        else:
            out.append((c.strip() or "; empty", "comment"))
    return out


def gen_faulty(rng):
    labels = []
    root = gen_lines(rng, rng.randrange(3, 10), labels, "r")
    inc = gen_lines(rng, rng.randrange(2, 7), labels, "i")
    kinds = ["unknown_instr", "undefined_symbol", "out_of_range", "duplicate_label", "malformed", "missing_operand", "multiline"]
    kind = rng.choice(kinds)
    in_inc = rng.random() < 0.4
    target = inc if in_inc else root
    idx = rng.randrange(len(target) + 1)
    comment = rng.choice(COMMENTS)
    if kind == "unknown_instr":
        line = "    frob %d%s" % (rng.randrange(10), comment)
    elif kind == "undefined_symbol":
        line = "    ld undefined_%d%s" % (rng.randrange(100), comment)
    elif kind == "out_of_range":
        line = "    ld %d%s" % (rng.choice([256, 300, 65536, -1]), comment)
    elif kind == "duplicate_label":
        cands = [l for l in labels]
        if not cands:
            target.insert(0, ("dup0:", "label"))
            labels.append("dup0")
            idx = max(idx, 1)
            cands = ["dup0"]
        line = None
        # duplicate a label that is declared before the insertion point in program order
        name = rng.choice(cands)
        line = name + ":" + comment
    elif kind == "missing_operand":
        # an operand missing at the end of the line; the next line starts with `#`, which cannot continue an
        # expression (a next line that *can* be read as an operand is the recorded finding F23)
        line = rng.choice(["    #d8 1 +", "    #res", "    #addr", "    #align", "    #d8 (1 +", "    #d8 1 *"]) + comment
    else:
        line = rng.choice(["    #d8 ,", "    #d8 (1", "    #bogus 1", "    #res 1 2", "    ld 1 +", "    #d8 1 2", "    #align )", "    #addr 1,"]) + comment
    if kind == "multiline":
        # a block written over several lines whose fault is on an inner line (not the first one)
        which = rng.randrange(3)
        if which == 0:
            fields = ["    #addr 0x100", "    #size 0x10", "    #outp 0"]
            bad = rng.choice(["    #sizee 4", "    #adr 1", "    #outpt 8", "    #bitz 8"])
            k = rng.randrange(1, len(fields) + 1)
            block = [("#bankdef faultbank", "x"), ("{", "x")] + [(f, "x") for f in fields[:k]] + [(bad + comment, "FAULT")] + [(f, "x") for f in fields[k:]] + [("}", "x")]
        elif which == 1:
            block = [("#ruledef", "x"), ("{", "x"), ("    okone {v: u8} => 0x20 @ v", "x"), (rng.choice(["    bad {v: u8} 0x21 @ v", "    bad {v: } => 0x21", "    => 0x22"]) + comment, "FAULT"),
                     ("    oktwo => 0x23", "x"), ("}", "x")]
        elif which == 2:
            block = [("#if 1 == 1", "x"), ("{", "x"), ("    #d8 1", "x"), (rng.choice(["    #d8 ,", "    #bogus 3", "    #d8 (2"]) + comment, "FAULT"), ("    #d8 3", "x"), ("}", "x")]
        block = [(t, ("blk0" if j == 0 else k if k == "FAULT" else "blk")) for j, (t, k) in enumerate(block)]
        for j, ent in enumerate(block):
            target.insert(idx + j, ent)
    else:
        target.insert(idx, (line, "FAULT"))
    if kind == "missing_operand":
        target.insert(idx + 1, ("    #d8 0x12", "data"))
    # (the include line never splits a multi-line block)
    allowed = [q for q in range(len(root) + 1) if q == len(root) or not (root[q][1] == "blk" or (kind == "multiline" and root[q][1] == "FAULT"))]
    inc_pos = rng.choice(allowed)
    root.insert(inc_pos, ('#include "inc.asm"', "include"))
    root_text = RULES + "\n".join(t for t, _ in root) + "\n"
    inc_text = "\n".join(t for t, _ in inc) + "\n"
    if in_inc:
        fline = [k for _, k in inc].index("FAULT")
        ffile = "inc.asm"
    else:
        fline = RULES.count("\n") + [k for _, k in root].index("FAULT")
        ffile = "main.asm"
    if kind == "duplicate_label":
        # the error is reported at the *second* declaration in program order; recompute which that is
        order = []
        for i, (t, k) in enumerate(root):
            if k == "include":
                for j, (t2, k2) in enumerate(inc):
                    order.append(("inc.asm", j, t2))
            else:
                order.append(("main.asm", RULES.count("\n") + i, t))
        name = line.split(":")[0].strip()
        decls = [(f, l) for f, l, t in order if t.split(";")[0].strip() == name + ":"]
        if len(decls) >= 2:
            ffile, fline = decls[1]
    return root_text, inc_text, kind, ffile, fline


def walk_msgs(msgs, under_subst=False):
    for m in msgs:
        m["_under_subst"] = under_subst
        yield m
        for x in walk_msgs(m.get("inner", []), under_subst or m.get("descr", "").startswith("match attempted:")):
            yield x


def gen_macro_fault(rng):
    """an out-of-range argument reaches a typed parameter through the `{x}` of an asm block: the inner messages are located
    in the substituted text (finding F48 when that text is longer than what it replaces)"""
    filler = rng.choice(["", "; é\n", "#d8 1 ; ✓\n", "x = 5\n"])
    expr = " + ".join(["0x100"] * rng.randrange(1, 7))
    rules = "#ruledef\n{\n    ld {x: u8} => 0xaa @ x\n    ld2 {x} => asm { ld {x} }%s\n}\n" % rng.choice(["", " ; é", " ; 𝄞"])
    call = "ld2 %s%s\n" % (expr, rng.choice(["", " ; ü"]))
    if rng.random() < 0.5:
        root = filler + call + rules
        fline = filler.count("\n")
    else:
        root = rules + filler + call
        fline = (rules + filler).count("\n")
    if rng.random() < 0.3:
        root = root.rstrip("\n")
    return root, "", "macro_range", "main.asm", fline


def run(chk):
    rng = chk.rng
    thorough = chk.tier == "thorough"
    chk.rule = RULE
    # ---------------- CharCounter
    cases = []
    for _ in range(100000 if thorough else 12000):
        n = rng.randrange(0, 30)
        text = "".join(rng.choice(CHARS) for _ in range(n))
        data = text.encode("utf-8")
        if rng.random() < 0.85:
            k = rng.randrange(0, len(text) + 1)
            index = len(text[:k].encode("utf-8"))
        else:
            index = rng.randrange(0, len(data) + 3)
        line = rng.randrange(0, text.count("\n") + 3)
        cases.append((text, data, index, line))
    ops = ["lc %s %d %d" % (fw.hx(d), i, l) for _, d, i, l in cases]
    impl = fw.run_oracle_resilient(ops, "c13")
    model = fw.run_model(ops, "c13")
    for (text, data, index, line), op, a, m in zip(cases, ops, impl, model):
        chk.evaluations += 1
        ia = a.get("lc", json.dumps(a))
        if ia != m:
            chk.disagree(op, m, ia)
        if a.get("panic") is not None or "lc" not in a:
            chk.violate("CharCounter crashed", {"op": op, "text": text}, "line/column", a)
            continue
        f = ia.split()
        if is_boundary(data, index):
            el, ec = spec_linecol(data, index)
            if any(ord(c) > 127 for c in data[:index].decode()):
                chk.nontriv((text, index))
            if (int(f[0]), int(f[1])) != (el, ec):
                chk.violate("line/column differs from the definition", {"op": op, "text": text, "index": index}, "%d %d" % (el, ec), ia)
        # byte range of the line and its excerpt
        lines = data.split(b"\n")
        if line < len(lines):
            begin = sum(len(x) + 1 for x in lines[:line])
            end = begin + len(lines[line]) + (1 if line + 1 < len(lines) else 0)
            exp = (begin, end)
        else:
            exp = (len(data), len(data))
        if (int(f[2]), int(f[3])) != exp:
            chk.violate("byte range of a line differs from the definition", {"op": op, "text": text, "line": line}, str(exp), ia)
        if f[5] == "panic":
            chk.violate("excerpt of a line panics", {"op": op, "text": text, "line": line}, "excerpt", ia)
    chk.sample({"op": ops[0], "impl": impl[0], "model": model[0]})
    chk.traces += len(ops)

    # ---------------- known findings of this property
    for k in fw.known_findings("C13"):
        if k["status"] != "open":
            continue
        a = fw.run_oracle([fw.asm_op([("main.asm", k["replay"]["program"])])], "c13kf")[0]
        if k.get("signature", {}).get("classifier") == "span_in_substituted_text":
            data = k["replay"]["program"].encode()
            bad = [m for m in walk_msgs(a.get("messages", [])) if m.get("span") and m.get("_under_subst") and
                   not (m["span"]["start"] <= m["span"]["end"] <= len(data) and is_boundary(data, m["span"]["start"]) and is_boundary(data, m["span"]["end"]))]
            if bad:
                chk.known(k["id"], k["observed"])
            else:
                chk.notes.append("known finding %s no longer reproduces" % k["id"])
            continue
        errs = [m for m in a.get("messages", []) if m["kind"] == "error"]
        line = None
        if errs and errs[0].get("span"):
            line = k["replay"]["program"].encode()[:errs[0]["span"]["start"]].count(b"\n") + 1
        if line == k["replay"]["observed_line"]:
            chk.known(k["id"], k["observed"])
        else:
            chk.notes.append("known finding %s no longer reproduces (first error on line %s)" % (k["id"], line))

    # ---------------- single-fault programs
    progs = [gen_faulty(rng) for _ in range(20000 if thorough else 2500)] + [gen_macro_fault(rng) for _ in range(600 if thorough else 80)]
    known = {k["id"]: k for k in fw.known_findings("C13") if k["status"] == "open"}
    aops = [fw.asm_op([("main.asm", r), ("inc.asm", i)]) for r, i, _, _, _ in progs]
    impl = fw.run_oracle_resilient(aops, "c13p")
    for (root, inc, kind, ffile, fline), a in zip(progs, impl):
        chk.evaluations += 1
        files = {"main.asm": root.encode(), "inc.asm": inc.encode()}
        inp = {"files": {"main.asm": root, "inc.asm": inc}, "fault": kind, "fault_file": ffile, "fault_line": fline + 1}
        if a.get("panic") is not None or a.get("died"):
            chk.violate("faulty program crashed the assembler", inp, "error diagnostic", str(a)[:300])
            continue
        chk.count("fault_" + kind)
        msgs = a.get("messages", [])
        errs = [m for m in msgs if m["kind"] == "error"]
        if not errs or a.get("output") is not None:
            chk.violate("fault not reported", inp, "an error and no output", {"messages": fw.all_descr(msgs)})
            continue
        chk.nontriv((root, inc))
        # first error on the faulty line of the right file
        first = errs[0]
        sp = first.get("span")
        if sp is None:
            chk.violate("first error has no location", inp, "%s:%d" % (ffile, fline + 1), first["descr"])
        else:
            data = files.get(sp["file"])
            if data is None:
                chk.violate("location names a non-existing file", inp, "existing file", sp)
            else:
                line = data[:sp["start"]].count(b"\n")
                if sp["file"] != ffile or line != fline:
                    chk.violate("first error is not on the faulty line", inp, "%s:%d" % (ffile, fline + 1), "%s:%d %s" % (sp["file"], line + 1, first["descr"]))
        # every location: existing file, inside it, on character boundaries; printed line:col = definition
        printed = re.findall(r"--> ([^:\n]+):(\d+):(\d+):", a.get("printed", ""))
        expected = []
        for m in walk_msgs(msgs):
            sp = m.get("span")
            if sp is None:
                continue
            data = files.get(sp["file"])
            if data is None:
                chk.violate("location names a non-existing file", inp, "existing file", sp)
                continue
            if not (sp["start"] <= sp["end"] <= len(data)) or not is_boundary(data, sp["start"]) or not is_boundary(data, sp["end"]):
                if m.get("_under_subst") and "F48" in known:
                    # located in the substituted text of an asm block, laid over the rule's source
                    chk.known("F48", known["F48"]["observed"])
                    chk.count("subst_span_F48")
                    expected = None
                    break
                chk.violate("location is not a byte range on character boundaries inside the file", inp, "valid range", sp)
                continue
            l, c = spec_linecol(data, sp["start"])
            expected.append((sp["file"], str(l + 1), str(c + 1)))
        if expected is not None and printed != expected:
            chk.violate("printed line:column differs from the definition", inp, expected, printed)
    chk.sample({"files": {"main.asm": progs[0][0], "inc.asm": progs[0][1]}, "fault": progs[0][2], "expected": "%s:%d" % (progs[0][3], progs[0][4] + 1),
                "first": (impl[0].get("messages") or [{}])[0].get("descr")})
    chk.traces += len(aops)
    chk.notes.append("theorems: linecol_correct, linecol_past_end, line_range_correct, join_hull, error_token_is_one_character")


def replay(path):
    d = json.load(open(path))
    bad = 0
    for v in d.get("violations", []):
        inp = v["input"]
        if "op" in inp:
            a = fw.run_oracle([inp["op"]], "rp")[0]
            print("replay", inp["op"], "->", a, "expected", v["expected"])
            bad += 1
        else:
            a = fw.run_oracle([fw.asm_op([("main.asm", inp["files"]["main.asm"]), ("inc.asm", inp["files"]["inc.asm"])])], "rp")[0]
            print("replay program ->", (a.get("printed") or str(a))[:600])
            bad += 1
    if bad:
        print("VIOLATION property=C13 replay=%s" % path)
        return 1
    return 0
