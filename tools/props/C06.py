"""C06 — output layout is safe: no overlap, nothing leaves its bank, gaps are zero."""
import json
import fw

RULE = ("(1) random insertion histories (positions 0..64, sizes 0..12, equal positions and zero sizes included) through util::OverlapChecker "
        "vs the Lean model, with an independent interval-set reference; (2) random bank tables (0..4 banks, units 1..32 bits, sizes, outp "
        "with gaps/overlaps, fill, labelalign) x item sequences (data of 1..24 bits, #res, #align, #addr forward/backward, labels, bank "
        "switches) assembled by asm::assemble vs the Lean layout model (error class, bits, spans); layout invariants recomputed from the "
        "implementation's spans and bits. Non-trivial = distinct accepted programs with >= 2 emitted items, and distinct histories with >= 1 rejection.")

ERRMAP = [
    ("overlaps with bank", "bankOverlap"),
    ("usage of the default bank", "defaultBank"),
    ("output out of range for bank", "outOfRange"),
    ("address is out of bank range", "outOfRange"),
    ("output to non-writable bank", "nonWritable"),
    ("output overlap", "overlap"),
    ("position is not aligned to an address", "misaligned"),
    ("value is out of supported range", "valueRange"),
    ("invalid alignment size", "valueRange"),
]


def classify(ans):
    if ans.get("panic") is not None or ans.get("died"):
        return ("panic", str(ans)[:200])
    if ans.get("output") is not None and not ans.get("has_errors"):
        o = ans["output"]
        spans = ",".join("%s:%d:%s" % ("n" if s["offset"] is None else s["offset"], s["size"], s["addr"]["v"]) for s in o["spans"]) or "-"
        return ("ok", "%s %s" % (o["bits"] or "-", spans))
    if ans.get("output") is None and ans.get("has_errors"):
        ds = fw.all_descr(ans.get("messages", []))
        for d in ds:
            for pat, cls in ERRMAP:
                if pat in d:
                    return ("err", cls)
        return ("err", "other:" + "|".join(ds)[:120])
    return ("inconsistent", str(ans)[:200])


def gen_history(rng):
    n = rng.randrange(1, 14)
    return [(rng.randrange(0, 48), rng.choice([0, 0, 1, 1, 2, 3, 4, 8, 12])) for _ in range(n)]


def ref_history(hist):
    """reference: accept iff size == 0 or the range is disjoint from all accepted positive ranges"""
    acc, out = [], ""
    for p, s in hist:
        if s == 0 or all(p + s <= q or q + t <= p for q, t in acc):
            out += "a"
            if s > 0:
                acc.append((p, s))
        else:
            out += "r"
    return out


def gen_program(rng):
    nb = rng.choice([0, 1, 1, 2, 2, 3, 4])
    banks = []
    outp_next = 0
    for k in range(nb):
        unit = rng.choice([8, 8, 8, 1, 3, 4, 16, 24, 32])
        addr = rng.choice([0, 0, 0x10, 0x100, 0x8000, 5])
        size = rng.choice([None, 1, 2, 4, 8, 16, 16, 32])
        r = rng.random()
        if r < 0.12:
            outp = None
        elif r < 0.2:
            outp = rng.randrange(0, 40)          # may overlap another bank
        else:
            outp = outp_next + rng.choice([0, 0, 0, 8, 3])
        if outp is not None:
            outp_next = outp + (size * unit if size is not None else 64)
        fill = rng.random() < 0.3
        la = rng.choice([None, None, None, unit, 2 * unit, 16])
        banks.append({"unit": unit, "addr": addr, "size": size, "outp": outp, "fill": fill, "la": la})
    if rng.random() < 0.5:
        # the order in which banks are defined is not the order of their places in the output
        rng.shuffle(banks)
    lines, items = [], []
    # items before any bankdef (default bank)
    def emit_items(count, cur_bank):
        have_global = [False]
        for _ in range(count):
            unit = banks[cur_bank - 1]["unit"] if cur_bank > 0 else 8
            r = rng.random()
            if r < 0.4:
                n = rng.choice([unit, unit, unit, 2 * unit, 1, 3, 4, 8])
                n = max(1, min(n, 48))
                bits = "".join(rng.choice("01") for _ in range(n))
                # the same bits emitted by a data directive or by an instruction of the rule set below
                lines.append(("#d%d 0b%s" if rng.random() < 0.65 else "i%d 0b%s") % (n, bits))
                items.append("e" + bits)
            elif r < 0.55:
                i = len(lines)
                if have_global[0] and rng.random() < 0.3:
                    lines.append(".x%d:" % i)
                    items.append("l1")
                else:
                    lines.append("g%d:" % i)
                    items.append("l0")
                    have_global[0] = True
            elif r < 0.67:
                n = rng.choice([0, 1, 1, 2, 3, 8])
                lines.append("#res %d" % n)
                items.append("r%d" % (n * unit))
            elif r < 0.77:
                n = rng.choice([unit, 2 * unit, 4 * unit, 8, 16, 5, 0] if rng.random() < 0.9 else [0])
                lines.append("#align %d" % n)
                items.append("a%d" % n)
            elif r < 0.87:
                base = banks[cur_bank - 1]["addr"] if cur_bank > 0 else 0
                a = base + rng.choice([0, 1, 2, 3, 4, 8, 15, 16, 40, -1])
                lines.append("#addr %s" % (str(a) if a >= 0 else "-%d" % -a))
                items.append("d%d" % a)
            elif r < 0.93 and nb > 0:
                k = rng.randrange(1, nb + 1)
                lines.append("#bank b%d" % k)
                items.append("b%d" % k)
                cur_bank = k
                have_global[0] = have_global[0]
            else:
                if have_global[0] and rng.random() < 0.3:
                    lines.append(".c%d = %d" % (len(lines), rng.randrange(100)))
                    items.append("c1")
                else:
                    lines.append("c%d = %d" % (len(lines), rng.randrange(100)))
                    items.append("c0")
                    have_global[0] = True
        return cur_bank
    cur = 0
    if nb == 0 or rng.random() < 0.08:
        cur = emit_items(rng.randrange(1, 6), 0)
    for k, b in enumerate(banks, 1):
        fields = ["bits = %d" % b["unit"], "addr = %d" % b["addr"]]
        if b["size"] is not None:
            fields.append("size = %d" % b["size"])
        if b["outp"] is not None:
            fields.append("outp = %d" % b["outp"])
        if b["fill"]:
            fields.append(rng.choice(["fill = true", "fill = true", "fill"]))
        elif rng.random() < 0.3:
            fields.append("fill = false")       # (finding F65, repaired: any value used to mean true)
        if b["la"] is not None:
            fields.append("labelalign = %d" % b["la"])
        rng.shuffle(fields)
        lines.append("#bankdef b%d { %s }" % (k, ", ".join(fields)))
        items.append("b%d" % k)
        cur = k
        if rng.random() < 0.5:
            cur = emit_items(rng.randrange(0, 5), cur)
    if nb > 0:
        cur = emit_items(rng.randrange(0, 10), cur)
    bank_field = ",".join("%d:%d:%s:%s:%s:%d" % (b["addr"], b["unit"], "-" if b["la"] is None else b["la"],
                                                 "-" if b["size"] is None else b["size"] * b["unit"],
                                                 "-" if b["outp"] is None else b["outp"], 1 if b["fill"] else 0) for b in banks) or "-"
    rules = "#ruledef\n{\n" + "".join("    i%d {x} => x`%d\n" % (n, n) for n in range(1, 49)) + "}\n"
    return rules + "\n".join(lines) + "\n", "lay %s %s" % (bank_field, ",".join(items) or "-"), banks, items


def layout_oracle(ans, banks, items):
    """the property statement, recomputed from the implementation's own spans and bits. Returns list of complaints."""
    out = ans["output"]
    bits, spans = out["bits"], out["spans"]
    bad = []
    emitted = [s for s in spans if s["offset"] is not None and s["size"] > 0]
    # 1. no two items share a bit
    iv = sorted((s["offset"], s["offset"] + s["size"]) for s in emitted)
    for (a, b), (c, d) in zip(iv, iv[1:]):
        if c < b:
            bad.append("items [%d,%d) and [%d,%d) overlap" % (a, b, c, d))
    # walk the items to know each span's bank and expected bits
    cur_bank = 0
    si = 0
    written = [None] * len(bits)
    allb = [{"unit": 8, "addr": 0, "size": None, "outp": 0, "fill": False}] + banks
    for it in items:
        if it[0] == "b":
            cur_bank = int(it[1:])
            continue
        if it[0] == "l":
            si += 1
            continue
        if it[0] == "e":
            if si >= len(spans):
                bad.append("missing span for item")
                break
            s = spans[si]
            si += 1
            b = allb[cur_bank]
            if s["offset"] is None:
                bad.append("emitted item without output position")
                continue
            pos, size, addr = s["offset"], s["size"], int(s["addr"]["v"])
            if size != len(it) - 1:
                bad.append("span size %d for %d data bits" % (size, len(it) - 1))
            # 2. inside the bank's output window and address range
            if b["outp"] is None or pos < b["outp"]:
                bad.append("item at %d before its bank's outp" % pos)
            elif b["size"] is not None and pos + size > b["outp"] + b["size"] * b["unit"]:
                bad.append("item [%d,%d) leaves the bank window ending at %d" % (pos, pos + size, b["outp"] + b["size"] * b["unit"]))
            if addr < b["addr"] or (b["size"] is not None and addr >= b["addr"] + b["size"]):
                bad.append("address %d outside the bank's address range" % addr)
            # 3. position formula
            if b["outp"] is not None and (pos - b["outp"]) // b["unit"] != addr - b["addr"]:
                bad.append("position %d does not correspond to address %d" % (pos, addr))
            # 4. bits at that position
            if bits[pos:pos + size] != it[1:]:
                bad.append("bits at %d are %s, item emitted %s" % (pos, bits[pos:pos + size], it[1:]))
            for i in range(pos, min(pos + size, len(written))):
                written[i] = True
    # 4b. every bit not written is zero
    for i, c in enumerate(bits):
        if not written[i] and c != "0":
            bad.append("unwritten bit %d is 1" % i)
            break
    # 5. length: last written bit or end of the last filled bank
    ends = [s["offset"] + s["size"] for s in emitted]
    ends += [b["outp"] + b["size"] * b["unit"] for b in banks if b["fill"] and b["size"] and b["outp"] is not None]
    exp_len = max(ends) if ends else 0
    if len(bits) != exp_len:
        bad.append("output length %d, expected %d" % (len(bits), exp_len))
    return bad


def run(chk):
    rng = chk.rng
    thorough = chk.tier == "thorough"
    chk.rule = RULE
    # ---------------- overlap checker histories
    hists = [gen_history(rng) for _ in range(200000 if thorough else 20000)]
    hists += [[(0, 8), (0, 0), (0, 8)], [(0, 8), (8, 0), (4, 1)], [(5, 0), (5, 0)]]
    ops = ["ovl " + ",".join("%d:%d" % ps for ps in h) for h in hists]
    impl = fw.run_oracle(ops, "c06o")
    model = fw.run_model(ops, "c06o")
    for h, op, a, m in zip(hists, ops, impl, model):
        chk.evaluations += 1
        ia = a.get("steps", json.dumps(a))
        if ia != m:
            chk.disagree(op, m, ia)
        ref = ref_history(h)
        if "r" in ref:
            chk.nontriv(op)
        if ia != ref:
            chk.violate("overlap checker accepts/rejects differently from interval disjointness", {"op": op}, ref, ia)
    chk.sample({"op": ops[0], "impl": impl[0], "model": model[0]})
    chk.traces += len(ops)
    # ---------------- bank programs
    n = 40000 if thorough else 5000
    progs = [gen_program(rng) for _ in range(n)]
    aops = [fw.asm_op([("main.asm", p[0])]) for p in progs]
    impl = fw.run_oracle_resilient(aops, "c06p")
    model = fw.run_model([p[1] for p in progs], "c06p")
    for (text, lay, banks, items), a, m in zip(progs, impl, model):
        chk.evaluations += 1
        kind, data = classify(a)
        il = "ok " + data if kind == "ok" else ("err " + data if kind == "err" else kind + " " + data)
        chk.count("prog_" + (kind if kind != "err" else "err_" + data.split(":")[0]))
        if il != m:
            chk.disagree(lay, m, il, "program:\n" + text)
        if kind in ("panic", "inconsistent"):
            chk.violate("bank program crashed or inconsistent", {"program": text}, "ok or error", data)
            continue
        if kind == "ok":
            if sum(1 for i in items if i[0] == "e") >= 2:
                chk.nontriv(text)
            bad = layout_oracle(a, banks, items)
            # "using the default bank after defining banks is rejected": an emitting item before the first bank switch
            if banks:
                for it in items:
                    if it[0] == "b":
                        break
                    if it[0] == "e":
                        bad.append("an item is emitted in the default bank although banks are defined, and the program was accepted")
                        break
            if bad:
                chk.violate("layout invariant broken", {"program": text}, "C06 layout statement", "; ".join(bad[:4]))
    for j in (0, len(progs) // 2):
        chk.sample({"program": progs[j][0], "model_op": progs[j][1], "impl": classify(impl[j]), "model": model[j]})
    chk.traces += len(aops)
    chk.notes.append("theorems: insert_accept/insert_reject/insert_iff_disjoint, history_inv, no_two_items_share_a_bit (overlap checker); layout theorems in C06 part 2")


def replay(path):
    d = json.load(open(path))
    bad = 0
    for v in d.get("violations", []):
        inp = v["input"]
        if "op" in inp:
            a = fw.run_oracle([inp["op"]], "rp")[0]
            print("replay", inp["op"], "->", a, "expected", v["expected"])
            if a.get("steps") != v["expected"]:
                bad += 1
        else:
            a = fw.run_oracle([fw.asm_op([("main.asm", inp["program"])])], "rp")[0]
            print("replay program", repr(inp["program"]), "->", classify(a))
            bad += 1 if classify(a)[0] != "err" else 0
    if bad:
        print("VIOLATION property=C06 replay=%s" % path)
        return 1
    return 0
