"""C01 — assembled bits equal the language definition (size-static programs)."""
import json, os
import fw, gen_isa

RULE = ("generated instruction sets (mnemonics sharing prefixes, dotted and digit-leading; literal, register (sub-rule), typed u/s/i of "
        "many widths and untyped operands; punctuation wrappers; operator-like separators; productions with concatenation, slices, "
        "le(), half swaps and references to labels; two rules with one pattern and different fixed sizes, or equal sizes = ambiguous) "
        "split over one to three rule blocks, x programs over them (global and nested labels, forward and backward references, "
        "constants incl. label-dependent ones, #d4..#d32, #res, #align, #addr, two banks with switching back and forth) x operand "
        "values at every range boundary, with one fault in a fifth of the programs (out-of-range argument or datum, undefined symbol, "
        "no matching rule, ambiguous rules). The expected bits and symbol values are computed from the program structure by the "
        "generator (never by an assembler); asm::assemble and the Lean model are run on every program under budget 10 and, for a third, budget 3 (where a convergence error is admitted, different bits never). "
        "Non-trivial = distinct programs with a forward reference.")


def run(chk):
    rng = chk.rng
    thorough = chk.tier == "thorough"
    chk.rule = RULE
    n = 12000 if thorough else 1500
    progs, texts, ops, budgets = [], [], [], []
    for i in range(n):
        p = gen_isa.gen_prog(rng, banks=(rng.random() < 0.35), prodref=True, subs=True)
        order = list(range(len(p.rules)))
        blocks = rng.choice([1, 1, 2, 3])
        if blocks > 1:
            rng.shuffle(order)
        t = gen_isa.render(p, rng, rule_order=order, blocks=blocks)
        progs.append(p); texts.append(t)
        budgets.append(rng.choice([10, 10, 3]))
        ops.append(fw.asm_op([("main.asm", t)], max_iter=budgets[-1]))
    impl = fw.run_oracle_resilient(ops, "c01")
    model = fw.run_model(ops, "c01", timeout=3000)
    for p, t, a, m, budget in zip(progs, texts, impl, model, budgets):
        chk.evaluations += 1
        il = fw.asm_line(a)
        if il != m:
            chk.disagree(t[-600:], m[:250], il[:250])
        e = gen_isa.expected(p)
        fwd = False
        seen = set()
        for it in p.items:
            if it[0] == "label":
                seen.add(it[1])
            elif it[0] in ("instr", "data") and it[2]:
                for spec, _ in it[2]:
                    if spec[0] in ("sym", "sym+") and spec[1] in p.addr and spec[1] not in seen:
                        fwd = True
        if fwd:
            chk.nontriv(t)
        inp = {"program": t}
        if il == "panic" or il.startswith("inconsistent"):
            chk.violate("crash or output with errors", inp, str(e)[:200], il)
            continue
        if e[0] == "err":
            chk.count("rejected_" + e[1])
            if not il.startswith("err"):
                chk.violate("a program the rules reject (%s) was assembled" % e[1], inp, "error", il[:300])
            continue
        chk.count("accepted" + ("_banks" if p.banks else ""))
        if not il.startswith("ok"):
            if budget < 10 and "converge" in il:
                chk.count("budget_3_not_enough")       # the budget decides whether, never what (C09)
            else:
                chk.violate("a well-formed program was rejected", inp, "bits " + e[1][:200], il[:300])
            continue
        bits = il.split(" ")[1]
        bits = "" if bits == "-" else bits
        syms = dict((x.split("=")[0], int(x.split("=")[1].split(":")[0])) for x in il.split(" syms=")[1].split(",") if "=" in x)
        if bits != e[1]:
            d = next((i for i in range(min(len(bits), len(e[1]))) if bits[i] != e[1][i]), min(len(bits), len(e[1])))
            chk.violate("emitted bits differ from the language definition (first difference at bit %d; lengths %d/%d)" % (d, len(bits), len(e[1])),
                        inp, e[1][max(0, d - 16):d + 48], bits[max(0, d - 16):d + 48])
        elif syms != e[2]:
            chk.violate("symbol values differ from the language definition", inp, str(e[2])[:300], str(syms)[:300])
    chk.sample({"program": texts[0][-500:], "expected": str(gen_isa.expected(progs[0]))[:200], "impl": fw.asm_line(impl[0])[:200]})
    chk.traces += len(ops)


def replay(path):
    d = json.load(open(path))
    bad = 0
    for v in d.get("violations", []):
        t = v["input"]["program"]
        il = fw.asm_line(fw.run_oracle_resilient([fw.asm_op([("main.asm", t)])], "rp")[0])
        print("replay ->", il[:160], "| expected", str(v["expected"])[:80])
        if v["expected"] == "error":
            bad += 0 if il.startswith("err") else 1
        elif not il.startswith("ok") or v["got"] in il or True:
            bits = il.split(" ")[1] if il.startswith("ok") else ""
            bad += 0 if (il.startswith("ok") and v["expected"] in bits and not v["what"].startswith("symbol")) else 1
    if bad:
        print("VIOLATION property=C01 replay=%s" % path)
        return 1
    return 0
