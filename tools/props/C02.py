"""C02 — a successful result is a genuine fixed point, never a stale guess."""
import json, os
import fw, gen_cascade
from props import C03

RULE = ("programs whose instruction sizes depend on forward-referenced values (short/long jumps selected by assert, $-relative branches, "
        "typed widths, sub-rules, asm-block macros with local labels, functions, $-dependent constants of varying size, #res/#align, "
        "#assert) and the repository's test inputs, assembled under budgets 1..12 and the four optimisation settings by asm::assemble and by "
        "the Lean model (bits, spans, symbols, pass count, first error compared); for every successful implementation result the complete "
        "final resolver state (every symbol value with its size, every instruction/data encoding, reserve/align/addr values) is dumped and "
        "re-checked by ONE strict, non-first pass of the Lean model (`certify`): it must be accepted, stable, silent and unchanged. "
        "Non-trivial = distinct (program, budget) that succeed after more than one pass.")


def gen_cases(rng, n):
    base = [t for t in C03.corpus_files() if "#ruledef" in t or "#d" in t]
    cases = []
    for i in range(n):
        r = rng.random()
        # asm blocks with several moving labels get their own share: a stale inner label is only visible there
        prog = gen_cascade.gen_block_program(rng) if r < 0.35 else gen_cascade.gen_program(rng) if r < 0.8 else rng.choice(base)
        for b in rng.sample([1, 2, 3, 4, 5, 6, 8, 10, 12], 3):
            cases.append((prog, b, rng.random() < 0.75, rng.random() < 0.75))
    return cases


def run(chk):
    rng = chk.rng
    thorough = chk.tier == "thorough"
    chk.rule = RULE
    corpus = sorted(os.listdir(os.path.join(fw.VERIF, "corpus", "C02"))) if os.path.isdir(os.path.join(fw.VERIF, "corpus", "C02")) else []
    cases = [(open(os.path.join(fw.VERIF, "corpus", "C02", f)).read(), b, True, True) for f in corpus for b in (2, 3, 10)]
    cases += gen_cases(rng, 6000 if thorough else 700)
    ops = [fw.asm_op([("main.asm", p)], max_iter=b, opt_s=s, opt_m=m) for p, b, s, m in cases]
    impl = fw.run_oracle_resilient(ops, "c02")
    model = fw.run_model(ops, "c02", timeout=3000)
    cert_ops, cert_idx = [], []
    for i, ((p, b, s, m_), op, a, m) in enumerate(zip(cases, ops, impl, model)):
        chk.evaluations += 1
        il = fw.asm_line(a)
        if il != m:
            chk.disagree("budget=%d optS=%s optM=%s program:\n%s" % (b, s, m_, p[-600:]), m[:300], il[:300])
        inp = {"program": p, "budget": b, "opt_static": s, "opt_matcher": m_}
        if il == "panic" or il.startswith("inconsistent"):
            chk.violate("assembler crashed or delivered output with errors", inp, "result or error", str(a)[:200])
            continue
        chk.count("ok" if il.startswith("ok") else "err_" + il[4:40])
        if il.startswith("ok"):
            if a.get("iters", 0) and a["iters"] > 1:
                chk.nontriv((p, b))
            if a.get("state"):
                cert_ops.append("cert %s %s" % (a["state"], op))
                cert_idx.append(i)
    certs = fw.run_model(cert_ops, "c02c", timeout=3000)
    for i, c in zip(cert_idx, certs):
        chk.evaluations += 1
        p, b, s, m_ = cases[i]
        chk.count("certified" if c == "fixed-point" else "cert_failed")
        if c != "fixed-point":
            chk.violate("the successful result is not a fixed point of a strict pass", {"program": p, "budget": b, "opt_static": s, "opt_matcher": m_},
                        "fixed-point", c + " | result: " + fw.asm_line(impl[i])[:200])
    j = next((k for k in range(len(cases)) if fw.asm_line(impl[k]).startswith("ok") and impl[k].get("iters", 0) > 2), 0)
    chk.sample({"program": cases[j][0][-400:], "budget": cases[j][1], "impl": fw.asm_line(impl[j])[:300], "model": model[j][:300]})
    chk.traces += len(ops) + len(cert_ops)
    chk.notes.append("certificates checked: %d" % len(cert_ops))


def replay(path):
    d = json.load(open(path))
    bad = 0
    for v in d.get("violations", []):
        inp = v["input"]
        op = fw.asm_op([("main.asm", inp["program"])], max_iter=inp["budget"], opt_s=inp["opt_static"], opt_m=inp["opt_matcher"])
        a = fw.run_oracle_resilient([op], "rp")[0]
        line = fw.asm_line(a)
        c = fw.run_model(["cert %s %s" % (a["state"], op)], "rp")[0] if a.get("state") else "-"
        print("replay budget", inp["budget"], "->", line[:200], "| certificate:", c)
        if line.startswith("ok") and c != "fixed-point":
            bad += 1
    if bad:
        print("VIOLATION property=C02 replay=%s" % path)
        return 1
    return 0
