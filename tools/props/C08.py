"""C08 — the two optimisation switches never change any result."""
import json, os
import fw, gen_cascade, gen_isa
from props import C03

COMBOS = [(True, True), (True, False), (False, True), (False, False)]
BIG = 30
RULE = ("generated instruction sets with prefix-sharing / digit-leading / dotted mnemonics (and rules that begin with a parameter, with instructions beginning with a string, number or parenthesis) and size-static programs over them (with -d "
        "defines overriding their constants), size-cascading programs and asm-block programs, the repository's test inputs and "
        "token-level mutants of them; each assembled by asm::assemble under the four combinations of the two switches at budget 30 and "
        "at two tighter budgets, and by the Lean model: at a generous budget all four must agree on success, bits, spans and symbols "
        "(failures: all four fail); at a tight budget a setting may differ only by failing to converge (finding F29); a difference "
        "between the matcher settings is attributed to finding F10 only when the model says every differing instruction has an ignorable "
        "token inside the leading literal the prefix index reads. Non-trivial = distinct programs with at least one instruction.")


def body(line):
    return line.split(" iters=")[0] + " syms=" + line.split(" syms=")[1] if line.startswith("ok") else "err"


def gen_param_leading(rng):
    """rules whose pattern begins with a parameter (they live in the empty-prefix bucket of the index) and
    instructions whose first token is a string, a number, a parenthesis or an identifier"""
    rules, lines = [], []
    tails = ["", " emit", ", {n: u8}", " + {n: u8}", " !"]
    used = rng.sample(tails, rng.randrange(1, 4))
    for i, t in enumerate(used):
        prod = "0x%02x @ x" % (0xa0 + i) + (" @ n" if "{n" in t else "")
        rules.append("    {x: u8}%s => %s" % (t, prod))
    if rng.random() < 0.5:
        rules.append("    ld {x: u8} => 0x11 @ x")
    lines.append("k = %d" % rng.randrange(0, 50))
    for _ in range(rng.randrange(2, 7)):
        first = rng.choice(['"A"', '"z"', "5", "0x10", "(2 + 3)", "k", '"B" + 1', "-1 + 2"])
        t = rng.choice(used)
        tail = t.replace("{n: u8}", rng.choice(["k", "7", '"C"']))
        lines.append(first + tail)
        if rng.random() < 0.2:
            lines.append("ld %s" % rng.choice(["1", "k"]))
    return "#ruledef\n{\n" + "\n".join(rules) + "\n}\n" + "\n".join(lines) + "\n"


def gen_slice_bound(rng):
    """slices whose *bounds* read a label, `$` or a label-dependent constant while the sliced value is a literal, behind an
    instruction that shrinks once its forward label is known (so the first-pass address is not the final one)"""
    rules = ["    ld {x} => { assert(x < 0x10), 0x11 @ x`8 }", "    ld {x} => 0x22 @ x`16",
             "    byteof {v: u32} => 0x55 @ v[$ * 8 + 7 : $ * 8]",
             "    pick {v: u32}, {k} => 0x66 @ v[k * 8 + 7 : k * 8]",
             "    low {v: u32}, {k} => 0x77 @ (v`(k * 8))`24"]
    lines = ["#ruledef", "{"] + rng.sample(rules[2:], rng.randrange(1, 4)) + rules[:2] + ["}"]
    body = ["ld fwd"]
    for _ in range(rng.randrange(1, 5)):
        v = "0x%08x" % rng.randrange(1 << 32)
        r = rng.random()
        if r < 0.25 and any("byteof" in l for l in lines):
            body.append("byteof " + v)
        elif r < 0.5 and any("pick" in l for l in lines):
            body.append("pick %s, %s" % (v, rng.choice(["fwd", "fwd - 1", "mid", "k1"])))
        elif r < 0.65 and any("low" in l for l in lines):
            body.append("low %s, %s" % (v, rng.choice(["fwd", "mid", "k1"])))
        elif r < 0.85:
            body.append("#d8 %s[%s * 8 + 7 : %s * 8]" % (v, *[rng.choice(["fwd", "mid"])] * 2))
        else:
            body.append("c%d = %s[mid * 8 + 7 : mid * 8]" % (len(body), v))
            body.append("#d8 c%d" % (len(body) - 1))
        if rng.random() < 0.3:
            body.append("ld fwd")
    k = rng.randrange(0, len(body))
    body.insert(k, "mid:")
    body.append("fwd:")
    body.append("k1 = fwd - 1")
    if rng.random() < 0.5:
        body.append("#d8 0xee")
    return "\n".join(lines + body) + "\n"


def gen_prefix_bucket(rng):
    """rules that reach the same number of literal parts through different routes: a long literal prefix, a short prefix
    followed by a sub-rule that spells the rest, a pattern that begins with a sub-rule: every bucket of the index counts"""
    m = rng.choice(["ld", "mv", "add", "x"])
    big, small = rng.sample([8, 16, 24], 2) if rng.random() < 0.8 else (8, 8)
    def enc(tag, bits):
        return "0x%0*x" % (bits // 4, rng.randrange(1 << bits)) if bits else "0x%x" % tag
    out = ["#subruledef suffix", "{", "    .b => 0x0", "    .w => 0x1", "}", "#subruledef reg", "{", "    r0 => 0x0", "    r1 => 0x1", "}", "#ruledef", "{"]
    rules = ["    %s.w {x: u8} => %s @ x" % (m, enc(1, big)),
             "    %s{s: suffix} {x: u8} => %s @ s`4 @ 0x0`4 @ x" % (m, enc(2, small)),
             "    r1++ => %s" % enc(3, big + 8),
             "    {r: reg}++ => %s @ r`8" % enc(4, small)]
    if rng.random() < 0.5:
        rules.append("    %s.{t} {x: u8} => %s @ t`8 @ x" % (m, enc(5, rng.choice([8, 16]))))
    rng.shuffle(rules)
    out += rules + ["}"]
    for _ in range(rng.randrange(2, 7)):
        out.append(rng.choice(["%s.b %d" % (m, rng.randrange(256)), "%s.w %d" % (m, rng.randrange(256)), "r0++", "r1++", "%s.w lab" % m]))
    out.append("lab:")
    return "\n".join(out) + "\n"


def gen_cases(rng, n):
    base = C03.corpus_files()
    cases = []
    for i in range(n):
        r = rng.random()
        defs = None
        if r < 0.06:
            cases.append((gen_param_leading(rng), None, [BIG] + rng.sample([1, 2, 3, 4, 10], 2)))
            continue
        if i % 12 == 5:
            cases.append((gen_slice_bound(rng), None, [BIG] + rng.sample([2, 3, 4, 10], 2)))
            continue
        if i % 12 == 9:
            cases.append((gen_prefix_bucket(rng), None, [BIG] + rng.sample([2, 3, 4, 10], 2)))
            continue
        if r < 0.11:
            # constants only the resolver can evaluate, declared after their readers; symbols named like built-in functions
            cases.append((gen_cascade.gen_file_constant_program(rng), None, [BIG] + rng.sample([1, 2, 3, 4, 10], 2)))
            continue
        if r < 0.4:
            p = gen_isa.gen_prog(rng)
            text = gen_isa.render(p, rng)
            consts = [it[1] for it in p.items if it[0] == "const"]
            if consts and rng.random() < 0.6:
                defs = [(c, "i%d" % rng.choice([0, 1, 7, 100])) for c in consts if rng.random() < 0.7] or None
        elif r < 0.7:
            text = gen_cascade.gen_any(rng)
        elif r < 0.85:
            text = rng.choice(base)
        else:
            text = C03.mutate(rng, rng.choice(base))
        cases.append((text, defs, [BIG] + rng.sample([1, 2, 3, 4, 10], 2)))
    return cases


def run(chk):
    rng = chk.rng
    thorough = chk.tier == "thorough"
    chk.rule = RULE
    cdir = os.path.join(fw.VERIF, "corpus", "C08")
    cases = [(open(os.path.join(cdir, f)).read(), None, [BIG, 1, 2]) for f in sorted(os.listdir(cdir))] if os.path.isdir(cdir) else []
    cases += gen_cases(rng, 4000 if thorough else 450)
    ops, idx = [], []
    for ci, (text, defs, budgets) in enumerate(cases):
        for b in budgets:
            for (s, m) in COMBOS:
                ops.append(fw.asm_op([("main.asm", text)], max_iter=b, opt_s=s, opt_m=m, defs=defs))
                idx.append((ci, b, s, m))
    impl = fw.run_oracle_resilient(ops, "c08")
    model = fw.run_model(ops, "c08", timeout=3000)
    lines = [fw.asm_line(a) for a in impl]
    for op, il, ml, (ci, b, s, m) in zip(ops, lines, model, idx):
        chk.evaluations += 1
        if il != ml:
            chk.disagree("budget=%d optS=%s optM=%s program:\n%s" % (b, s, m, cases[ci][0][-500:]), ml[:250], il[:250])
    known = {k["id"]: k for k in fw.known_findings("C08") if k["status"] == "open"}
    mdiff_ops, mdiff_for = [], []
    k = 0
    for ci, (text, defs, budgets) in enumerate(cases):
        if "\n" in text and any(w in text for w in ("#ruledef", "#d")):
            chk.nontriv(text)
        per_budget = {}
        for b in budgets:
            per_budget[b] = [(COMBOS[j], lines[k + j]) for j in range(4)]
            k += 4
        inp = {"program": text, "defines": defs, "budgets": budgets}
        big = per_budget[BIG]
        if any(l == "panic" or l.startswith("inconsistent") for b in budgets for _, l in per_budget[b]):
            chk.violate("crash or output with errors", inp, "result or error", str(per_budget)[:300])
            continue
        bodies = [body(l) for _, l in big]
        chk.count("generous_" + ("ok" if bodies[0] != "err" else "err"))
        if len(set(bodies)) > 1:
            # matcher switch difference? static switch difference?
            same_m = bodies[0] == bodies[2] and bodies[1] == bodies[3]   # optS irrelevant
            if same_m:
                mdiff_ops.append("mdiff " + fw.asm_op([("main.asm", text)], max_iter=BIG, defs=defs))
                mdiff_for.append((inp, [(c, l[:120]) for c, l in big]))
            else:
                chk.violate("the optimisation switches change the result at budget %d" % BIG, inp, "four identical results",
                            [(c, l[:160]) for c, l in big])
            continue
        for b in budgets:
            if b == BIG:
                continue
            bs = [body(l) for _, l in per_budget[b]]
            if len(set(bs)) == 1:
                continue
            oks = set(x for x in bs if x != "err")
            errs = [l for (_, l) in per_budget[b] if not l.startswith("ok")]
            if len(oks) == 1 and list(oks)[0] == bodies[0] and all("converge" in e for e in errs):
                if "F29" in known:
                    chk.known("F29", known["F29"]["observed"])
                    chk.count("tight_budget_difference_F29")
                else:
                    chk.violate("a tight budget succeeds under one setting and fails to converge under another", inp,
                                "same outcome under the four settings", [(c, l[:100]) for c, l in per_budget[b]])
            else:
                chk.violate("the optimisation switches change the result at budget %d" % b, inp, "four identical results or convergence errors",
                            [(c, l[:160]) for c, l in per_budget[b]])
    # recorded findings that the random stream does not reach: replay their witnesses under the four settings
    for kf in known.values():
        if kf.get("signature", {}).get("classifier") == "witness_only":
            rs = [fw.asm_line(a) for a in fw.run_oracle_resilient([fw.asm_op([("main.asm", kf["replay"]["program"])], max_iter=BIG, opt_s=s_, opt_m=m_) for (s_, m_) in COMBOS], "c08k")]
            if len(set(body(l) for l in rs)) > 1:
                chk.known(kf["id"], kf["observed"])
            else:
                chk.notes.append("known finding %s no longer reproduces" % kf["id"])
    # the decidable hypotheses of the theorem `assemble_switch_success` (the two front ends related, the facts about
    # constants), evaluated by the model on every program: they are part of what ties the theorem to this input
    frel_ops = ["frel " + fw.asm_op([("main.asm", text)], max_iter=BIG, defs=defs) for (text, defs, budgets) in cases]
    fres = fw.run_model(frel_ops, "c08f", timeout=3000)
    for (text, defs, budgets), r in zip(cases, fres):
        chk.evaluations += 1
        if r in ("frel related oks", "frel same-error"):
            chk.count("front_ends_related_" + ("ok" if r.endswith("oks") else "err"))
        else:
            chk.disagree("hypotheses of assemble_switch_success (FrontRel, frontOKSb) on program:\n%s" % text[-500:], "frel related oks", r)
    if mdiff_ops:
        res = fw.run_model(mdiff_ops, "c08m")
        for (inp, got), r in zip(mdiff_for, res):
            parts = r.split(" ")
            if parts[0] == "mdiff" and int(parts[1]) > 0 and parts[1] == parts[2] and "F10" in known:
                chk.known("F10", known["F10"]["observed"])
                chk.count("matcher_difference_F10")
            else:
                chk.violate("the matcher optimisation changes the result", inp, "identical results", {"results": got, "model_attribution": r})
    chk.sample({"program": cases[-1][0][-300:], "results": [(idx[-4 + j], lines[-4 + j][:80]) for j in range(4)]})
    chk.traces += len(ops)


def replay(path):
    d = json.load(open(path))
    bad = 0
    for v in d.get("violations", []):
        inp = v["input"]
        for b in inp["budgets"]:
            ops = [fw.asm_op([("main.asm", inp["program"])], max_iter=b, opt_s=s, opt_m=m, defs=[tuple(x) for x in inp["defines"]] if inp.get("defines") else None) for s, m in COMBOS]
            ls = [body(fw.asm_line(a)) for a in fw.run_oracle_resilient(ops, "rp")]
            print("replay budget", b, "->", [l[:60] for l in ls])
            if len(set(ls)) > 1:
                bad += 1
    if bad:
        print("VIOLATION property=C08 replay=%s" % path)
        return 1
    return 0
