"""C05 — expressions compute exact unbounded-integer mathematics with tracked sizes."""
import json
import fw, pyexpr

RULE = ("random expression trees (depth <= 6) over every operator, literal form (all radix prefixes, underscores, big), booleans, "
        "strings with escapes and encodings, slices, concatenation, built-ins; rendered with minimal and with full parentheses; each run "
        "through expr::parse + Expr::eval (oracle), the Lean model (tree, consumed-all flag and value compared) and the Python reference "
        "(ordinary integer mathematics). Non-trivial = distinct source texts with at least one operator whose evaluation succeeded or "
        "raised one of the statement's error classes.")


def impl_line(a):
    if "parse_err" in a:
        return "parse-err " + a["parse_err"]
    if "tree" in a:
        return "%s | %s | %s" % (a["tree"], "true" if a["over"] else "false", a["result"])
    return json.dumps(a)


def literal_cases(rng, n):
    out = []
    for _ in range(n):
        radix, prefix = rng.choice([(10, ""), (16, "0x"), (2, "0b"), (8, "0o"), (16, "$"), (2, "%")])
        nd = rng.randrange(1, 40)
        digs = "0123456789abcdefghijklmnopqrstuvwxyz"[:radix]
        d = "".join(rng.choice(digs) for _ in range(nd))
        if rng.random() < 0.3:
            d = d.upper()
        # underscores anywhere after the first digit (the tokenizer needs a digit first for radix 10)
        t = list(d)
        for _ in range(rng.randrange(0, 3)):
            t.insert(rng.randrange(1, len(t) + 1), "_")
        text = prefix + "".join(t)
        if prefix == "" and text[0] == "0" and len(text) > 1 and text[1] in "bxo":
            continue
        v = int(d, radix)
        bits = {2: 1, 8: 3, 16: 4}.get(radix)
        exp = "ok %d %s" % (v, "-" if bits is None else bits * nd)
        if rng.random() < 0.08:
            bad = rng.choice("zZ9g!") if radix != 10 else rng.choice("afZ")
            if bad.lower() not in digs and bad.isalnum():
                text = text + bad
                exp = "err invalid digits"
        out.append((text, exp))
    out += [("0x", "err invalid value"), ("0b_", "err invalid value"), ("0", "ok 0 -"), ("0x0", "ok 0 4"), ("00", "ok 0 -"), ("0b0000", "ok 0 4")]
    return out


def run(chk):
    rng = chk.rng
    thorough = chk.tier == "thorough"
    chk.rule = RULE
    for k in fw.known_findings("C05"):
        if k["status"] != "open":
            continue
        ans = fw.run_oracle(k["replay"]["ops"], "c05kf")
        if [impl_line(a).split(" | ")[-1] for a in ans] == k["replay"]["observed_results"]:
            chk.known(k["id"], k["observed"])
        else:
            chk.notes.append("known finding %s no longer reproduces: %s" % (k["id"], ans))

    # ------------- literals
    lits = literal_cases(rng, 20000 if thorough else 3000)
    ops = ["lit " + fw.hx(t) for t, _ in lits]
    impl = fw.run_oracle(ops, "c05l")
    model = fw.run_model(ops, "c05l")
    for (text, exp), op, a, m in zip(lits, ops, impl, model):
        chk.evaluations += 1
        ia = ("ok " + a["ok"]) if "ok" in a else ("err " + a.get("err", "?")) if "err" in a else json.dumps(a)
        if ia != m:
            chk.disagree("lit " + text, m, ia)
        if ia != exp:
            chk.violate("numeric literal value/size", {"op": op, "text": text}, exp, ia)
        chk.nontriv(("lit", text))
        chk.count("lit_ok" if ia.startswith("ok") else "lit_err")
    chk.sample({"lit": lits[0][0], "impl": impl[0], "model": model[0], "expected": lits[0][1]})
    chk.traces += len(ops)

    # ------------- expressions
    n = 60000 if thorough else 8000
    cases = []
    for i in range(n):
        want = rng.choice(["int", "int", "int", "sized", "bool", "str"])
        tree = pyexpr.gen(rng, rng.randrange(1, 7), want)
        for full in ((False, True) if i % 4 == 0 else (False,)):
            try:
                text = pyexpr.render(tree, full)
            except RecursionError:
                continue
            cases.append((tree, text))
    ops = ["expr " + fw.hx(t) for _, t in cases]
    impl = fw.run_oracle_resilient(ops, "c05e")
    model = fw.run_model(ops, "c05e")
    for (tree, text), op, a, m in zip(cases, ops, impl, model):
        chk.evaluations += 1
        il = impl_line(a)
        if il != m:
            chk.disagree("expr " + text, m, il)
        # reference value
        try:
            ref = repr(pyexpr.evaluate(tree, unsigned_strings=True))
            exp = "ok " + ref
        except pyexpr.Err as e:
            exp = "err"
            chk.count("ref_err_" + str(e))
        except (OverflowError, MemoryError, RecursionError):
            continue
        res = il.split(" | ")[-1] if " | " in il else il
        over = (" | true | " in il)
        got = "err" if (res.startswith("err") or res.startswith("parse-err")) else res
        if a.get("panic") is not None or a.get("died"):
            chk.violate("expression evaluation crashed", {"op": op, "text": text}, exp, a)
            continue
        if exp != "err":
            chk.nontriv(text)
        chk.count("expr_ok" if got != "err" else "expr_err")
        if got != exp or (exp != "err" and not over):
            # F20: strings whose first encoded byte is >= 0x80 are read as negative integers
            try:
                signed = "ok " + repr(pyexpr.evaluate(tree, unsigned_strings=False))
            except pyexpr.Err:
                signed = "err"
            if signed == got and pyexpr.first_str_byte_high(tree):
                chk.known_hits["F20"] = chk.known_hits.get("F20", 0) + 1
                continue
            chk.violate("expression value differs from integer mathematics", {"op": op, "text": text}, exp, il)
    # ------------- bounds at the top of usize: an error, never a wrapped bound (F49, repaired) and never a crash
    edge = ["0xab[0xffffffffffffffff:0]", "0xab[0xffffffffffffffff:0xffffffffffffffff]", "(1 + 2)[0xffffffffffffffff:3]",
            "0xab[0x10000000000000000:0]", "0xab[3:0xffffffffffffffff]", "sizeof(0xab[0xffffffffffffffff:0])"]
    eops = ["expr " + fw.hx(t) for t in edge]
    eimpl = fw.run_oracle_resilient(eops, "c05x")
    emodel = fw.run_model(eops, "c05x")
    for t, op, a, m in zip(edge, eops, eimpl, emodel):
        chk.evaluations += 1
        il = impl_line(a)
        if il != m:
            chk.disagree("expr " + t, m, il)
        res = il.split(" | ")[-1] if " | " in il else il
        chk.count("edge_slice")
        if a.get("panic") is not None or a.get("died") or not (res.startswith("err") or res.startswith("parse-err")):
            chk.violate("a slice bound at the top of usize is not diagnosed", {"op": op, "text": t}, "err", il if "panic" not in a else a)
    chk.traces += len(eops)
    for j in (0, len(cases) // 2, len(cases) - 1):
        chk.sample({"expr": cases[j][1], "impl": impl_line(impl[j]), "model": model[j]})
    chk.traces += len(ops)
    chk.notes.append("value and tree of every expression compared between implementation and model; value compared with the Python reference")


def replay(path):
    d = json.load(open(path))
    bad = 0
    for v in d.get("violations", []):
        a = fw.run_oracle([v["input"]["op"]], "rp")[0]
        print("replay", v["input"].get("text"), "->", impl_line(a) if "lit" not in v["input"]["op"][:3] else a, "expected", v["expected"])
        res = impl_line(a).split(" | ")[-1]
        if "ok" in a and isinstance(a["ok"], str):
            res = "ok " + a["ok"]
        exp = v["expected"]
        if (exp == "err") != (res.startswith("err") or res.startswith("parse-err")) or (exp != "err" and res != exp):
            bad += 1
    if bad:
        print("VIOLATION property=C05 replay=%s" % path)
        return 1
    return 0
