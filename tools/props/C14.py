"""C14 — file inclusion is relative, confined, acyclic and once-only where asked."""
import json, os, shutil, subprocess, tempfile
import fw

RULE = ("(1) util::filename_navigate on random (current, relative) pairs built from directory components, '.', '..', empty components, both "
        "slash styles, leading slashes and <std>/ vs the Lean model and an independent path-stack reference; (2) random inclusion graphs "
        "(2-6 files in up to 3 directories, chains, diamonds, cycles, self-inclusion, #once subsets, several spellings per edge) assembled "
        "by asm::assemble on the mock file server, marker bytes compared with the model's expansion and with a reference expansion; "
        "(3) incbin/incbinstr/inchexstr with every (start, length) around the file size and near the top of usize; (4) directory trees in which "
        "every use of an inclusion function (top level, constant, rule production, body of a user function, instruction argument, asm block) "
        "names a data file relative to the file the call is written in, against the reference navigation; (5) the real binary in a scratch "
        "directory (root given by a relative path, a directory literally named <std>, sentinel files one and two levels outside): every "
        "spelling that names a file outside the working directory or a disk file under <std>/ must be rejected, controls must assemble. Non-trivial = distinct navigations containing '..' "
        "or a leading slash, distinct graphs with >= 2 inclusion edges.")

COMPS = ["a", "b", "lib", "x.asm", "inc", "..", "..", ".", "", "d.e", "Z"]


def ref_navigate(cur, rel):
    """independent reference: a path stack"""
    if rel.startswith("<std>/"):
        return ("ok", rel)
    cur = cur.replace("\\", "/")
    nav = rel.replace("\\", "/")
    stack = [] if nav.startswith("/") else cur.split("/")[:-1]
    parts = [p for p in nav.split("/") if p not in ("", ".")]
    if not parts:
        return ("err", "invalid filename")
    out = []
    for p in stack + parts:
        if p == "..":
            if not out:
                return ("err", "cannot navigate out of project directory")
            out.pop()
        else:
            out.append(p)
    name = "/".join(out)
    if not out or name in ("", ".", "/"):
        return ("err", "invalid filename")
    return ("ok", name)


def gen_path(rng, n, absolute_ok=True):
    sep = rng.choice(["/", "/", "/", "\\"])
    s = sep.join(rng.choice(COMPS) for _ in range(n))
    if absolute_ok and rng.random() < 0.15:
        s = sep + s
    if rng.random() < 0.05:
        s = "<std>/" + s
    return s


def spell(rng, path):
    """an equivalent spelling of a '/'-separated relative path"""
    parts = path.split("/")
    out = []
    for p in parts:
        r = rng.random()
        if r < 0.15:
            out.append(".")
        if r > 0.9:
            out += ["zz", ".."]
        out.append(p)
    sep = "\\" if rng.random() < 0.2 else "/"
    s = sep.join(out)
    if rng.random() < 0.1:
        s = s.replace(sep, sep + sep, 1)
    return s


def relpath(frm, to):
    """relative name of `to` as seen from file `frm` (both project-root relative)"""
    fd = frm.split("/")[:-1]
    td = to.split("/")
    i = 0
    while i < len(fd) and i < len(td) - 1 and fd[i] == td[i]:
        i += 1
    return "/".join([".."] * (len(fd) - i) + td[i:])


def gen_graph(rng):
    dirs = ["", "lib/", "lib/sub/", "other/"]
    n = rng.randrange(2, 7)
    names = ["main.asm"] + ["%sf%d.asm" % (rng.choice(dirs), i) for i in range(1, n)]
    files = {}
    marker = 1
    for name in names:
        ops = []
        if rng.random() < 0.3:
            ops.append(("once",))
        for _ in range(rng.randrange(1, 5)):
            if rng.random() < 0.5:
                ops.append(("m", marker))
                marker += 1
            else:
                tgt = rng.choice(names) if rng.random() < 0.85 else "missing.asm"
                how = rng.random()
                if how < 0.7:
                    rel = spell(rng, relpath(name, tgt))
                elif how < 0.9:
                    rel = "/" + tgt
                else:
                    rel = "../" * rng.randrange(1, 4) + tgt
                ops.append(("i", rel))
        if rng.random() < 0.3:
            pos = rng.randrange(len(ops) + 1)
            ops.insert(pos, ("once",))
        files[name] = ops
    # one to three root files (they share the #once set); roots may also be included by other files
    return names, files, rng.choice([1, 1, 1, 2, 2, 3])


def gen_tree(rng):
    """a directory tree of source files and data files; every use of an inclusion function names a data file relative to the
    file in which the call is written: at top level, in a constant, in a rule's production (used from another file), in the
    body of a user function (called from another file), as an instruction argument, inside an asm block.
    Returns (files, expected bytes)."""
    dirs = ["", "lib/", "lib/sub/", "other/"]
    rng.shuffle(dirs)
    dirs = [""] + [d for d in dirs if d != ""][: rng.randrange(1, 4)]
    data = {}
    for i, d in enumerate(dirs):
        data[d + "d.bin"] = bytes([0x10 * (i + 1) + 1, 0x10 * (i + 1) + 2])
        if rng.random() < 0.5:
            data[d + "e.bin"] = bytes([0x10 * (i + 1) + 9])
    names = sorted(data)
    libs = [d + "f%d.asm" % i for i, d in enumerate(dirs[1:])]
    rng.shuffle(libs)

    def target(frm_dir):
        t = rng.choice(names)
        return spell(rng, relpath(frm_dir + "x", t)).replace("\\", "\\\\"), data[t]

    texts = {}
    expected = []
    uses = []          # lines of main.asm after the includes, with the bytes they must emit
    k = 0
    for lib in libs:
        ldir = lib[: lib.rindex("/") + 1]
        lines = []
        for _ in range(rng.randrange(1, 4)):
            k += 1
            rel, val = target(ldir)
            kind = rng.choice(["top", "const", "rule", "fn", "fn", "asm", "fnfn"])
            if kind == "top":
                lines.append('#d incbin("%s")' % rel); expected += list(val)
            elif kind == "const":
                lines.append('c%d = incbin("%s")' % (k, rel)); uses.append(("#d c%d" % k, val))
            elif kind == "rule":
                lines.append('#ruledef\n{\n    r%d => incbin("%s")\n}' % (k, rel)); uses.append(("r%d" % k, val))
            elif kind == "fn":
                lines.append('#fn f%d() => incbin("%s")' % (k, rel)); uses.append(("#d f%d()" % k, val))
            elif kind == "fnfn":
                lines.append('#fn f%d() => incbin("%s")\n#fn g%d() => f%d()' % (k, rel, k, k)); uses.append(("#d g%d()" % k, val))
            else:
                lines.append('#ruledef\n{\n    e%d {x} => x\n    a%d => asm { e%d incbin("%s") }\n}' % (k, k, k, rel)); uses.append(("a%d" % k, val))
        texts[lib] = "\n".join(lines) + "\n"
    main = ["#ruledef\n{\n    emit {x} => x\n}"] + ['#include "%s"' % spell(rng, l).replace("\\", "\\\\") for l in libs]
    rng.shuffle(uses)
    for line, val in uses:
        main.append(line); expected += list(val)
    for _ in range(rng.randrange(1, 3)):
        rel, val = target("")
        main.append(rng.choice(['#d incbin("%s")', 'emit incbin("%s")']) % rel); expected += list(val)
    files = [("main.asm", "\n".join(main) + "\n")] + [(l, texts[l]) for l in libs] + [(n, data[n]) for n in names]
    return files, expected


def render_file(ops):
    out = []
    for o in ops:
        if o[0] == "m":
            out.append("#d8 %d" % o[1])
        elif o[0] == "i":
            out.append('#include "%s"' % o[1].replace("\\", "\\\\"))
        else:
            out.append("#once")
    return "\n".join(out) + "\n"


def ref_expand(files, name, seen, once):
    if name in once:
        return []
    if name not in files:
        raise KeyError("notFound")
    ops = files[name]
    if any(o[0] == "once" for o in ops):
        once.add(name)
    out = []
    for o in ops:
        if o[0] == "m":
            out.append(o[1])
        elif o[0] == "i":
            k, p = ref_navigate(name, o[1])
            if k == "err":
                raise KeyError(p)
            if p in seen:
                raise KeyError("recursive")
            out += ref_expand(files, p, seen + [p], once)
    return out


ERR = [("recursive file inclusion", "recursive"), ("file not found", "notFound"), ("cannot navigate out of project directory", "cannot navigate out of project directory"),
       ("invalid filename", "invalid filename")]


def run(chk):
    rng = chk.rng
    thorough = chk.tier == "thorough"
    chk.rule = RULE
    # ---------------- navigation
    cases = []
    for _ in range(200000 if thorough else 20000):
        cur = gen_path(rng, rng.randrange(1, 5), absolute_ok=rng.random() < 0.3)
        rel = gen_path(rng, rng.randrange(1, 6))
        cases.append((cur, rel))
    ops = ["nav %s %s" % (fw.hx(c), fw.hx(r)) for c, r in cases]
    impl = fw.run_oracle(ops, "c14n")
    model = fw.run_model(ops, "c14n")
    for (cur, rel), op, a, m in zip(cases, ops, impl, model):
        chk.evaluations += 1
        ia = ("ok " + fw.hx(a["ok"])) if "ok" in a else "err " + a.get("err", "?")
        if ia != m:
            chk.disagree("nav %r %r" % (cur, rel), m, ia)
        k, p = ref_navigate(cur, rel)
        exp = ("ok " + fw.hx(p)) if k == "ok" else "err " + p
        if ".." in rel or rel[:1] in "/\\":
            chk.nontriv((cur, rel))
        if ia != exp:
            chk.violate("navigation differs from the reference", {"op": op, "current": cur, "relative": rel}, exp, ia)
        elif k == "ok" and not rel.startswith("<std>/") and ".." in p.split("/"):
            chk.violate("navigated path still contains '..'", {"op": op, "current": cur, "relative": rel}, "no '..'", p)
    chk.sample({"current": cases[0][0], "relative": cases[0][1], "impl": impl[0], "model": model[0]})
    chk.traces += len(ops)

    # ---------------- inclusion graphs
    graphs = [gen_graph(rng) for _ in range(30000 if thorough else 4000)]
    aops, mops = [], []
    for names, files, nroots in graphs:
        nroots = min(nroots, len(names))
        aops.append(fw.asm_op([(n, render_file(files[n])) for n in names], roots=nroots))
        mops.append("inc %s %s" % (",".join(fw.hx(n) for n in names[:nroots]), " ".join(
            "%s=%s" % (fw.hx(n), ";".join(("m%d" % o[1]) if o[0] == "m" else ("i" + fw.hx(o[1])) if o[0] == "i" else "o" for o in files[n])) for n in names)))
    impl = fw.run_oracle_resilient(aops, "c14g")
    model = fw.run_model(mops, "c14g")
    for (names, files, nroots), a, m in zip(graphs, impl, model):
        chk.evaluations += 1
        nroots = min(nroots, len(names))
        inp = {"files": {n: render_file(files[n]) for n in names}, "roots": names[:nroots]}
        if a.get("panic") is not None or a.get("died") or a.get("not_run"):
            chk.disagree(json.dumps(inp)[:300], m, "crash")
            chk.violate("inclusion crashed the assembler (no diagnostic)", inp, "expansion or error", str(a)[:200])
            continue
        if a.get("output") is not None and not a.get("has_errors"):
            bits = a["output"]["bits"]
            il = "ok " + " ".join(str(int(bits[i:i + 8], 2)) for i in range(0, len(bits), 8))
        else:
            ds = fw.all_descr(a.get("messages", []))
            cls = next((c for pat, c in ERR for d in ds if pat in d), "other:" + "|".join(ds)[:100])
            il = "err " + cls
        if il.strip() != m.strip():
            chk.disagree(json.dumps(inp)[:400], m, il)
        try:
            once, outl = set(), []
            for rt in names[:nroots]:
                outl += ref_expand(files, rt, [], once)
            exp = "ok " + " ".join(str(k) for k in outl)
        except KeyError as e:
            exp = "err " + e.args[0]
        except RecursionError:
            exp = "err recursive"
        if sum(1 for n in names for o in files[n] if o[0] == "i") >= 2:
            chk.nontriv(json.dumps(inp))
        chk.count("graph_" + il.split()[0] + ("_" + il.split(" ", 1)[1].split(":")[0] if il.startswith("err") else ""))
        if il.strip() != exp.strip():
            chk.violate("expansion differs from the reference (order, #once, cycle or path handling)", inp, exp, il)
    chk.sample({"files": {n: render_file(graphs[0][1][n]) for n in graphs[0][0]}, "model": model[0]})
    chk.traces += len(aops)

    # ---------------- incbin / incstr ranges
    rcases = []
    for _ in range(6000 if thorough else 1500):
        fn = rng.choice(["incbin", "incbinstr", "inchexstr"])
        n = rng.choice([0, 1, 2, 3, 5, 8, 16])
        if fn == "incbin":
            content = bytes(rng.randrange(256) for _ in range(n))
            units = n
        else:
            digs = "01" if fn == "incbinstr" else "0123456789abcdefABCDEF"
            s = "".join(rng.choice(digs) for _ in range(n))
            pos = rng.randrange(len(s) + 1)
            s = s[:pos] + rng.choice(["", "_", " ", "\n", "\r\n", "\t"]) + s[pos:]
            content = s.encode()
            units = n
        args = rng.choice([1, 2, 3])
        start = rng.randrange(0, units + 3)
        size = rng.randrange(0, units + 3)
        if rng.random() < 0.12:
            # arguments near the top of usize: start + size and start * bits-per-digit must not wrap (F42)
            big = [2 ** 64 - 1, 2 ** 64 - 2, 2 ** 63, 2 ** 62, 2 ** 64 - 1 - units, 2 ** 61 + 1]
            if rng.random() < 0.6:
                size = rng.choice(big)
            if rng.random() < 0.5:
                start = rng.choice(big)
        rcases.append((fn, content, units, args, start, size))
    aops, mops = [], []
    for fn, content, units, args, start, size in rcases:
        call = '%s("data.bin"%s%s)' % (fn, (", %d" % start) if args >= 2 else "", (", %d" % size) if args >= 3 else "")
        aops.append(fw.asm_op([("main.asm", "#d %s\n#d8 0xff\n" % call), ("data.bin", content)]))
        if fn == "incbin":
            mops.append("incbin %s %d %d %d" % (content.hex() or "-", args, start, size))
        else:
            mops.append("incstr %d %s %d %d %d" % (1 if fn == "incbinstr" else 4, fw.hx(content), args, start, size))
    impl = fw.run_oracle_resilient(aops, "c14r")
    model = fw.run_model(mops, "c14r")
    for (fn, content, units, args, start, size), a, m, mop in zip(rcases, impl, model, mops):
        chk.evaluations += 1
        k = 8 if fn == "incbin" else (1 if fn == "incbinstr" else 4)
        inp = {"call": fn, "file": content.hex(), "args": args, "start": start, "size": size}
        if a.get("panic") is not None or a.get("died"):
            chk.violate("inclusion function crashed", inp, "value or error", str(a)[:200])
            continue
        s0 = start if args >= 2 else 0
        e0 = s0 + size if args >= 3 else units
        if fn == "incbin":
            digits = list(content)
        else:
            digits = [int(c, 16) for c in content.decode() if c not in " _\n\r\t"]
        if a.get("output") is not None and not a.get("has_errors"):
            bits = a["output"]["bits"][:-8]
            got = "ok " + " ".join(str(int(bits[i:i + k], 2)) for i in range(0, len(bits), k))
        else:
            ds = fw.all_descr(a.get("messages", []))
            got = "err " + ("startsAfterEof" if any("starts after EOF" in d for d in ds) else "endsAfterEof" if any("ends after EOF" in d for d in ds) else "|".join(ds)[:80])
        if fn == "incbin":
            mm = m if not m.startswith("ok") else "ok " + " ".join(str(b) for b in bytes.fromhex(m[3:].replace("-", "")))
        else:
            mm = m
        if got.strip() != mm.strip():
            chk.disagree(mop, mm, got)
        # the statement: exactly the requested units, ranges past the end rejected
        if units == 0 and args == 1:
            exp = "ok"
        elif s0 >= units:
            exp = "err startsAfterEof"
        elif e0 > units:
            exp = "err endsAfterEof"
        else:
            exp = ("ok " + " ".join(str(d) for d in digits[s0:e0])).strip()
        if got.strip() != exp.strip():
            chk.violate("inclusion function does not return exactly the requested range", inp, exp, got)
    chk.traces += len(aops)
    # ---------------- inclusion functions are relative to the file that contains them
    tcases = [gen_tree(rng) for _ in range(3000 if thorough else 500)]
    corpus = os.path.join(fw.VERIF, "corpus", "C14")
    for fn_ in sorted(os.listdir(corpus)) if os.path.isdir(corpus) else []:
        if fn_.endswith(".json"):
            d = json.load(open(os.path.join(corpus, fn_)))
            tcases.insert(0, ([(n, c.encode("latin1") if n.endswith(".bin") else c) for n, c in d["files"]], d["expected"]))
    aops = [fw.asm_op(files) for files, _ in tcases]
    impl = fw.run_oracle_resilient(aops, "c14t")
    for (files, exp), a in zip(tcases, impl):
        chk.evaluations += 1
        inp = {"files": [(n, c if isinstance(c, str) else c.decode("latin1")) for n, c in files]}
        if a.get("panic") is not None or a.get("died") or a.get("not_run"):
            chk.violate("inclusion crashed the assembler (no diagnostic)", inp, "bytes", str(a)[:200])
            continue
        if a.get("output") is not None and not a.get("has_errors"):
            bits = a["output"]["bits"]
            got = "ok " + " ".join(str(int(bits[i:i + 8], 2)) for i in range(0, len(bits), 8))
        else:
            got = "err " + "|".join(fw.all_descr(a.get("messages", [])))[:160]
        chk.count("tree_" + got.split()[0])
        chk.nontriv(json.dumps(inp))
        if got.strip() != ("ok " + " ".join(str(b) for b in exp)).strip():
            chk.violate("an inclusion function is not resolved relative to the file that contains it", inp, "ok " + " ".join(str(b) for b in exp), got)
    chk.sample({"tree": [(n, c if isinstance(c, str) else c.hex()) for n, c in tcases[-1][0]], "expected": tcases[-1][1]})
    chk.traces += len(aops)
    # ---------------- the real file system: nothing outside the working directory can be named, <std>/ is the library only
    binary = fw.build_real_binary()
    tmp = tempfile.mkdtemp(prefix="c14-", dir=fw.CACHE)
    try:
        work = os.path.join(tmp, "outer", "work")
        os.makedirs(os.path.join(work, "lib", "sub"))
        os.makedirs(os.path.join(work, "<std>", "cpu"))
        SENT = "5e71"
        open(os.path.join(tmp, "outer", "sentinel.asm"), "w").write("#d16 0x5e71\n")
        open(os.path.join(tmp, "outer", "sentinel.bin"), "wb").write(bytes.fromhex(SENT))
        open(os.path.join(tmp, "sentinel.asm"), "w").write("#d16 0x5e71\n")
        open(os.path.join(tmp, "sentinel.bin"), "wb").write(bytes.fromhex(SENT))
        open(os.path.join(work, "lib", "x.asm"), "w").write("#d8 0xa1\n")
        open(os.path.join(work, "lib", "d.bin"), "wb").write(b"\xd1\xd2")
        open(os.path.join(work, "<std>", "local.asm"), "w").write("#d16 0x5e71\n")
        open(os.path.join(work, "<std>", "local.bin"), "wb").write(bytes.fromhex(SENT))
        open(os.path.join(work, "<std>", "cpu", "6502.asm"), "w").write("#d16 0x5e71\n")
        rcs = []
        # controls
        rcs.append(("main.asm", '#include "lib/x.asm"\n#d8 0xff\n', "a1ff"))
        rcs.append(("main.asm", '#d incbin("lib/d.bin")\n', "d1d2"))
        rcs.append(("main.asm", '#include "<std>/cpu/6502.asm"\nnop\n', "ea"))
        rcs.append(("lib/sub/main.asm", '#include "../x.asm"\n#d incbin("../d.bin")\n', "a1d1d2"))
        for _ in range(400 if thorough else 60):
            root = rng.choice(["main.asm", "main.asm", "lib/main.asm", "lib/sub/main.asm", "./main.asm", "lib/../main.asm"])
            depth = ref_navigate("", root)[1].count("/") if ref_navigate("", root)[0] == "ok" else 0
            ups = depth + rng.randrange(1, 3)
            tgt = rng.choice(["sentinel", "outer/sentinel", "work/../sentinel"]) if ups > depth + 1 else "sentinel"
            kind = rng.choice(["include", "incbin", "incbinstr"])
            ext = ".asm" if kind == "include" else ".bin"
            fam = rng.random()
            if fam < 0.45:
                rel = spell(rng, "/".join([".."] * ups + [tgt + ext]))
            elif fam < 0.75:
                rel = "<std>/" + "/".join([".."] * (ups + rng.randrange(0, 2)) + [tgt + ext])
                if rng.random() < 0.3:
                    rel = rel.replace("/", "\\")
            elif fam < 0.85:
                rel = rng.choice(["<std>/local", "<std>/./local", "<std>/cpu/../local"]) + ext
            elif fam < 0.93:
                rel = os.path.join(tmp, "outer", "sentinel" + ext)
            else:
                rel = "/" + "/".join([".."] * ups + [tgt + ext])
            lit = rel.replace("\\", "\\\\")
            text = ('#include "%s"\n' % lit) if kind == "include" else ('#d %s("%s")\n' % ("incbin" if kind == "incbin" else "inchexstr", lit))
            rcs.append((root, text, None))
        for root, text, want in rcs:
            chk.evaluations += 1
            rp = os.path.normpath(os.path.join(work, root))
            open(rp, "w").write(text)
            try:
                r = subprocess.run([binary, root, "-f", "hexstr", "-p", "-q"], cwd=work, stdout=subprocess.PIPE, stderr=subprocess.PIPE, timeout=20)
            finally:
                os.remove(rp)
            out = r.stdout.decode(errors="replace").strip()
            inp = {"root": root, "text": text, "cwd": "<scratch>/outer/work", "outside": ["<scratch>/outer/sentinel.*", "<scratch>/sentinel.*"]}
            chk.nontriv((root, text))
            if want is not None:
                chk.count("realfs_control")
                if r.returncode != 0 or out != want:
                    chk.violate("a file inside the working directory (or the built-in library) is not included", inp, want, "exit %d: %s %s" % (r.returncode, out[:80], r.stderr[-200:].decode(errors="replace")))
            else:
                chk.count("realfs_escape_exit_%d" % r.returncode)
                if r.returncode not in (0, 1):
                    chk.violate("the real binary ended abnormally", inp, "a diagnostic", "exit %d: %s" % (r.returncode, r.stderr[-200:].decode(errors="replace")))
                elif r.returncode == 0 or SENT in out:
                    chk.violate("a file outside the working directory (or a disk file under <std>/) was read", inp, "rejected", "exit %d: %s" % (r.returncode, out[:80]))
        chk.traces += len(rcs)
    finally:
        shutil.rmtree(tmp, ignore_errors=True)
    chk.notes.append("theorems: navigate_no_dotdot, escape_rejected(_deep), backslash_is_slash, std_passthrough, once_at_most_once, cycle_is_error, self_inclusion_error, markers_in_order, splice_at_point, incbin/incstr exact and rejection theorems")


def replay(path):
    d = json.load(open(path))
    for v in d.get("violations", []):
        print("replay input:", json.dumps(v["input"])[:500], "expected", v["expected"], "got", v["got"])
    if d.get("violations"):
        print("VIOLATION property=C14 replay=%s" % path)
        return 1
    return 0
