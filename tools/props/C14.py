"""C14 — file inclusion is relative, confined, acyclic and once-only where asked."""
import json, os, shutil, subprocess, tempfile
import fw

RULE = ("(1) util::filename_navigate on random (current, relative) pairs built from directory components, '.', '..', empty components, both "
        "slash styles, leading slashes and <std>/ vs the Lean model and an independent path-stack reference; (2) random inclusion graphs "
        "(2-6 files in up to 3 directories, chains, diamonds, cycles, self-inclusion, #once subsets, several spellings per edge) assembled "
        "by asm::assemble on the mock file server, marker bytes compared with the model's expansion and with a reference expansion; "
        "(3) incbin/incbinstr/inchexstr with every (start, length) around the file size. Non-trivial = distinct navigations containing '..' "
        "or a leading slash, distinct graphs with >= 2 inclusion edges.")

COMPS = ["a", "b", "lib", "x.asm", "inc", "..", "..", ".", "", "d.e", "Z"]


def ref_navigate(cur, rel):
    """independent reference: a path stack"""
    if rel.startswith("<std>/"):
        return ("ok", rel)
    cur = cur.replace("\\", "/")
    nav = rel.replace("\\", "/")
    stack = [] if nav.startswith("/") else cur.split("/")[:-1]
    parts = [p for p in nav.split("/") if p not in ("", ".")]
    if not parts:
        return ("err", "invalid filename")
    out = []
    for p in stack + parts:
        if p == "..":
            if not out:
                return ("err", "cannot navigate out of project directory")
            out.pop()
        else:
            out.append(p)
    name = "/".join(out)
    if not out or name in ("", ".", "/"):
        return ("err", "invalid filename")
    return ("ok", name)


def gen_path(rng, n, absolute_ok=True):
    sep = rng.choice(["/", "/", "/", "\\"])
    s = sep.join(rng.choice(COMPS) for _ in range(n))
    if absolute_ok and rng.random() < 0.15:
        s = sep + s
    if rng.random() < 0.05:
        s = "<std>/" + s
    return s


def spell(rng, path):
    """an equivalent spelling of a '/'-separated relative path"""
    parts = path.split("/")
    out = []
    for p in parts:
        r = rng.random()
        if r < 0.15:
            out.append(".")
        if r > 0.9:
            out += ["zz", ".."]
        out.append(p)
    sep = "\\" if rng.random() < 0.2 else "/"
    s = sep.join(out)
    if rng.random() < 0.1:
        s = s.replace(sep, sep + sep, 1)
    return s


def relpath(frm, to):
    """relative name of `to` as seen from file `frm` (both project-root relative)"""
    fd = frm.split("/")[:-1]
    td = to.split("/")
    i = 0
    while i < len(fd) and i < len(td) - 1 and fd[i] == td[i]:
        i += 1
    return "/".join([".."] * (len(fd) - i) + td[i:])


def gen_graph(rng):
    dirs = ["", "lib/", "lib/sub/", "other/"]
    n = rng.randrange(2, 7)
    names = ["main.asm"] + ["%sf%d.asm" % (rng.choice(dirs), i) for i in range(1, n)]
    files = {}
    marker = 1
    for name in names:
        ops = []
        if rng.random() < 0.3:
            ops.append(("once",))
        for _ in range(rng.randrange(1, 5)):
            if rng.random() < 0.5:
                ops.append(("m", marker))
                marker += 1
            else:
                tgt = rng.choice(names) if rng.random() < 0.85 else "missing.asm"
                how = rng.random()
                if how < 0.7:
                    rel = spell(rng, relpath(name, tgt))
                elif how < 0.9:
                    rel = "/" + tgt
                else:
                    rel = "../" * rng.randrange(1, 4) + tgt
                ops.append(("i", rel))
        if rng.random() < 0.3:
            pos = rng.randrange(len(ops) + 1)
            ops.insert(pos, ("once",))
        files[name] = ops
    # one to three root files (they share the #once set); roots may also be included by other files
    return names, files, rng.choice([1, 1, 1, 2, 2, 3])


def render_file(ops):
    out = []
    for o in ops:
        if o[0] == "m":
            out.append("#d8 %d" % o[1])
        elif o[0] == "i":
            out.append('#include "%s"' % o[1].replace("\\", "\\\\"))
        else:
            out.append("#once")
    return "\n".join(out) + "\n"


def ref_expand(files, name, seen, once):
    if name in once:
        return []
    if name not in files:
        raise KeyError("notFound")
    ops = files[name]
    if any(o[0] == "once" for o in ops):
        once.add(name)
    out = []
    for o in ops:
        if o[0] == "m":
            out.append(o[1])
        elif o[0] == "i":
            k, p = ref_navigate(name, o[1])
            if k == "err":
                raise KeyError(p)
            if p in seen:
                raise KeyError("recursive")
            out += ref_expand(files, p, seen + [p], once)
    return out


ERR = [("recursive file inclusion", "recursive"), ("file not found", "notFound"), ("cannot navigate out of project directory", "cannot navigate out of project directory"),
       ("invalid filename", "invalid filename")]


def run(chk):
    rng = chk.rng
    thorough = chk.tier == "thorough"
    chk.rule = RULE
    # ---------------- navigation
    cases = []
    for _ in range(200000 if thorough else 20000):
        cur = gen_path(rng, rng.randrange(1, 5), absolute_ok=rng.random() < 0.3)
        rel = gen_path(rng, rng.randrange(1, 6))
        cases.append((cur, rel))
    ops = ["nav %s %s" % (fw.hx(c), fw.hx(r)) for c, r in cases]
    impl = fw.run_oracle(ops, "c14n")
    model = fw.run_model(ops, "c14n")
    for (cur, rel), op, a, m in zip(cases, ops, impl, model):
        chk.evaluations += 1
        ia = ("ok " + fw.hx(a["ok"])) if "ok" in a else "err " + a.get("err", "?")
        if ia != m:
            chk.disagree("nav %r %r" % (cur, rel), m, ia)
        k, p = ref_navigate(cur, rel)
        exp = ("ok " + fw.hx(p)) if k == "ok" else "err " + p
        if ".." in rel or rel[:1] in "/\\":
            chk.nontriv((cur, rel))
        if ia != exp:
            chk.violate("navigation differs from the reference", {"op": op, "current": cur, "relative": rel}, exp, ia)
        elif k == "ok" and not rel.startswith("<std>/") and ".." in p.split("/"):
            chk.violate("navigated path still contains '..'", {"op": op, "current": cur, "relative": rel}, "no '..'", p)
    chk.sample({"current": cases[0][0], "relative": cases[0][1], "impl": impl[0], "model": model[0]})
    chk.traces += len(ops)

    # ---------------- inclusion graphs
    graphs = [gen_graph(rng) for _ in range(30000 if thorough else 4000)]
    aops, mops = [], []
    for names, files, nroots in graphs:
        nroots = min(nroots, len(names))
        aops.append(fw.asm_op([(n, render_file(files[n])) for n in names], roots=nroots))
        mops.append("inc %s %s" % (",".join(fw.hx(n) for n in names[:nroots]), " ".join(
            "%s=%s" % (fw.hx(n), ";".join(("m%d" % o[1]) if o[0] == "m" else ("i" + fw.hx(o[1])) if o[0] == "i" else "o" for o in files[n])) for n in names)))
    impl = fw.run_oracle_resilient(aops, "c14g")
    model = fw.run_model(mops, "c14g")
    for (names, files, nroots), a, m in zip(graphs, impl, model):
        chk.evaluations += 1
        nroots = min(nroots, len(names))
        inp = {"files": {n: render_file(files[n]) for n in names}, "roots": names[:nroots]}
        if a.get("panic") is not None or a.get("died") or a.get("not_run"):
            chk.disagree(json.dumps(inp)[:300], m, "crash")
            chk.violate("inclusion crashed the assembler (no diagnostic)", inp, "expansion or error", str(a)[:200])
            continue
        if a.get("output") is not None and not a.get("has_errors"):
            bits = a["output"]["bits"]
            il = "ok " + " ".join(str(int(bits[i:i + 8], 2)) for i in range(0, len(bits), 8))
        else:
            ds = fw.all_descr(a.get("messages", []))
            cls = next((c for pat, c in ERR for d in ds if pat in d), "other:" + "|".join(ds)[:100])
            il = "err " + cls
        if il.strip() != m.strip():
            chk.disagree(json.dumps(inp)[:400], m, il)
        try:
            once, outl = set(), []
            for rt in names[:nroots]:
                outl += ref_expand(files, rt, [], once)
            exp = "ok " + " ".join(str(k) for k in outl)
        except KeyError as e:
            exp = "err " + e.args[0]
        except RecursionError:
            exp = "err recursive"
        if sum(1 for n in names for o in files[n] if o[0] == "i") >= 2:
            chk.nontriv(json.dumps(inp))
        chk.count("graph_" + il.split()[0] + ("_" + il.split(" ", 1)[1].split(":")[0] if il.startswith("err") else ""))
        if il.strip() != exp.strip():
            chk.violate("expansion differs from the reference (order, #once, cycle or path handling)", inp, exp, il)
    chk.sample({"files": {n: render_file(graphs[0][1][n]) for n in graphs[0][0]}, "model": model[0]})
    chk.traces += len(aops)

    # ---------------- incbin / incstr ranges
    rcases = []
    for _ in range(6000 if thorough else 1500):
        fn = rng.choice(["incbin", "incbinstr", "inchexstr"])
        n = rng.choice([0, 1, 2, 3, 5, 8, 16])
        if fn == "incbin":
            content = bytes(rng.randrange(256) for _ in range(n))
            units = n
        else:
            digs = "01" if fn == "incbinstr" else "0123456789abcdefABCDEF"
            s = "".join(rng.choice(digs) for _ in range(n))
            pos = rng.randrange(len(s) + 1)
            s = s[:pos] + rng.choice(["", "_", " ", "\n", "\r\n", "\t"]) + s[pos:]
            content = s.encode()
            units = n
        args = rng.choice([1, 2, 3])
        start = rng.randrange(0, units + 3)
        size = rng.randrange(0, units + 3)
        rcases.append((fn, content, units, args, start, size))
    aops, mops = [], []
    for fn, content, units, args, start, size in rcases:
        call = '%s("data.bin"%s%s)' % (fn, (", %d" % start) if args >= 2 else "", (", %d" % size) if args >= 3 else "")
        aops.append(fw.asm_op([("main.asm", "#d %s\n#d8 0xff\n" % call), ("data.bin", content)]))
        if fn == "incbin":
            mops.append("incbin %s %d %d %d" % (content.hex() or "-", args, start, size))
        else:
            mops.append("incstr %d %s %d %d %d" % (1 if fn == "incbinstr" else 4, fw.hx(content), args, start, size))
    impl = fw.run_oracle_resilient(aops, "c14r")
    model = fw.run_model(mops, "c14r")
    for (fn, content, units, args, start, size), a, m, mop in zip(rcases, impl, model, mops):
        chk.evaluations += 1
        k = 8 if fn == "incbin" else (1 if fn == "incbinstr" else 4)
        inp = {"call": fn, "file": content.hex(), "args": args, "start": start, "size": size}
        if a.get("panic") is not None or a.get("died"):
            chk.violate("inclusion function crashed", inp, "value or error", str(a)[:200])
            continue
        s0 = start if args >= 2 else 0
        e0 = s0 + size if args >= 3 else units
        if fn == "incbin":
            digits = list(content)
        else:
            digits = [int(c, 16) for c in content.decode() if c not in " _\n\r\t"]
        if a.get("output") is not None and not a.get("has_errors"):
            bits = a["output"]["bits"][:-8]
            got = "ok " + " ".join(str(int(bits[i:i + k], 2)) for i in range(0, len(bits), k))
        else:
            ds = fw.all_descr(a.get("messages", []))
            got = "err " + ("startsAfterEof" if any("starts after EOF" in d for d in ds) else "endsAfterEof" if any("ends after EOF" in d for d in ds) else "|".join(ds)[:80])
        if fn == "incbin":
            mm = m if not m.startswith("ok") else "ok " + " ".join(str(b) for b in bytes.fromhex(m[3:].replace("-", "")))
        else:
            mm = m
        if got.strip() != mm.strip():
            chk.disagree(mop, mm, got)
        # the statement: exactly the requested units, ranges past the end rejected
        if units == 0 and args == 1:
            exp = "ok"
        elif s0 >= units:
            exp = "err startsAfterEof"
        elif e0 > units:
            exp = "err endsAfterEof"
        else:
            exp = ("ok " + " ".join(str(d) for d in digits[s0:e0])).strip()
        if got.strip() != exp.strip():
            chk.violate("inclusion function does not return exactly the requested range", inp, exp, got)
    chk.traces += len(aops)
    chk.notes.append("theorems: navigate_no_dotdot, escape_rejected(_deep), backslash_is_slash, std_passthrough, once_at_most_once, cycle_is_error, self_inclusion_error, markers_in_order, splice_at_point, incbin/incstr exact and rejection theorems")


def replay(path):
    d = json.load(open(path))
    for v in d.get("violations", []):
        print("replay input:", json.dumps(v["input"])[:500], "expected", v["expected"], "got", v["got"])
    if d.get("violations"):
        print("VIOLATION property=C14 replay=%s" % path)
        return 1
    return 0
