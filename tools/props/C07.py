"""C07 — instruction matching ignores case, extra spacing, comments and rule order."""
import json, os, re
import fw, gen_isa

RULE = ("generated instruction sets (prefix-sharing/dotted/digit-leading mnemonics, literal/register/typed/untyped operands, punctuation "
        "wrappers, operator-like separators `{a} - {b}`, same-shape rule families of different width, literal-versus-expression "
        "overlaps, several sub-rule operands each readable literally or as an expression) and programs over them; each program is re-spelled three times with a random combination of: recasing of mnemonics, "
        "literal operands and register names; widening of existing blanks with blanks and tabs and insertion of blanks where the pattern "
        "has none; trailing comments, and block comments at token boundaries inside the line (holding separators, parentheses and braces); permutation of the rules and re-partition into 1-3 blocks; consistent label renaming. "
        "asm::assemble must give the same success/failure and the same bits (symbols equal up to the renaming) for every spelling, equal "
        "to the result the generator computes from the language definition; the Lean model is run on every spelling too. A blank "
        "inserted inside a mnemonic is a separate stream whose differences must be attributed by the model to finding F10. "
        "Non-trivial = distinct base programs with at least one instruction.")

NAMES = ["zeta", "Omega", "q_1", "loop", "end_of", "_x9", "Start", "tmp"]


def variant(rng, p):
    """one random re-spelling: kwargs for gen_isa.render plus the renaming used"""
    kw, ren = {}, {}
    which = []
    if rng.random() < 0.6:
        mode = rng.choice(["upper", "mixed", "lower"])
        def case(s, mode=mode, r=rng):
            if mode == "upper":
                return s.upper()
            if mode == "lower":
                return s.lower()
            return "".join(c.upper() if r.random() < 0.5 else c.lower() for c in s)
        kw["case"] = case
        which.append("case")
    if rng.random() < 0.6:
        def blanks(minimum=0, r=rng):
            n = r.choice([0, 1, 1, 2, 3]) if minimum == 0 else r.choice([1, 1, 2, 4])
            return "".join(r.choice(" \t") for _ in range(n))
        if rng.random() < 0.4:
            # block comments at token boundaries inside the line, some holding the very characters the matcher looks for
            # (separators, parentheses, braces): a comment is no part of the instruction
            plain = blanks
            def blanks(minimum=0, r=rng, plain=plain):
                if r.random() < 0.25:
                    return plain(0) + r.choice([";* c *;", ";*(*;", ";* ) *;", ";*,*;", ";* - *;", ";* + *;", ";*{*;", ";* ;* n *; *;", ";*1*;"]) + plain(0)
                return plain(minimum)
            which.append("inline_comments")
        kw["blanks"] = blanks
        which.append("blanks")
    if rng.random() < 0.5:
        def comment(r=rng):
            return r.choice(["", " ; a comment", ";x", " ;* block *;", "\t;* ;* nested *; *;  ", " ; ld 1, 2"])
        kw["comment"] = comment
        which.append("comments")
    if rng.random() < 0.6:
        order = list(range(len(p.rules)))
        rng.shuffle(order)
        kw["rule_order"] = order
        kw["blocks"] = rng.choice([1, 2, 3])
        which.append("rules")
    if rng.random() < 0.4:
        names = set()
        for it in p.items:
            if it[0] in ("label", "const"):
                names.update(it[1].split("."))
        pool = list(NAMES)
        rng.shuffle(pool)
        for i, n in enumerate(sorted(names)):
            ren[n] = "%s%d" % (pool[i % len(pool)], i)
        kw["rename"] = ren
        which.append("rename")
    return kw, ren, which


def gen_subrule_overlap(rng):
    """several sub-rule operands each of which can be read literally (`a`) or as an expression (a constant named `a`): the
    literal reading wins in every position, whatever the other operands are.  Returns (text, expected hex)."""
    lits = rng.sample(["a", "b", "hl", "x"], rng.randrange(1, 4))
    enc = dict((l, rng.randrange(1 << 16)) for l in lits)
    wide = rng.random() < 0.5
    out = ["#subruledef operand", "{"]
    alts = ["    %s => 0x%04x" % (l, enc[l]) for l in lits] + ["    {v: u8} => %s" % ("0x01 @ v" if wide else "v")]
    rng.shuffle(alts)
    out += alts + ["}", "#ruledef", "{"]
    rules = [("mov", 2, 0x10), ("inc", 1, 0x20), ("op3", 3, 0x30)]
    for m, n, opc in rules:
        out.append("    %s %s => 0x%02x @ %s" % (m, ", ".join("{p%d: operand}" % i for i in range(n)), opc, " @ ".join("p%d" % i for i in range(n))))
    out.append("}")
    consts = {}
    for l in lits + ["k"]:
        if rng.random() < 0.6:
            consts[l] = rng.randrange(256)
    decl = ["%s = %d" % kv for kv in consts.items()]
    body, hexs = [], ""
    for _ in range(rng.randrange(2, 7)):
        m, n, opc = rng.choice(rules)
        ops, h = [], "%02x" % opc
        for i in range(n):
            r = rng.random()
            if r < 0.5:
                l = rng.choice(lits); ops.append(l); h += "%04x" % enc[l]
            elif r < 0.7 and "k" in consts:
                ops.append("k"); h += ("01" if wide else "") + "%02x" % consts["k"]
            else:
                v = rng.randrange(256); ops.append(str(v)); h += ("01" if wide else "") + "%02x" % v
        body.append("    %s %s" % (m, ", ".join(ops))); hexs += h
    if rng.random() < 0.5:
        text = "\n".join(out + decl + body) + "\n"
    else:
        text = "\n".join(out + body + decl) + "\n"
    return text, hexs


def split_mnemonic(rng, m):
    toks = re.findall(r"[A-Za-z_][A-Za-z_0-9]*|[0-9][A-Za-z_0-9]*|.", m)
    if len(toks) < 2:
        return None
    i = rng.randrange(1, len(toks))
    return "".join(toks[:i]) + rng.choice([" ", "\t", "  "]) + "".join(toks[i:])


def parse(line):
    if not line.startswith("ok"):
        return ("err",)
    bits = line.split(" ")[1]
    syms = [x for x in line.split(" syms=")[1].split(",") if "=" in x]
    return ("ok", bits, [(x.split("=")[0], x.split("=")[1]) for x in syms])


def same_result(base, var, ren):
    if base[0] != var[0]:
        return False
    if base[0] == "err":
        return True
    if base[1] != var[1]:
        return False
    mapped = [(".".join(ren.get(q, q) for q in n.split(".")), v) for n, v in base[2]]
    return mapped == var[2]


def run(chk):
    rng = chk.rng
    thorough = chk.tier == "thorough"
    chk.rule = RULE
    n = 4000 if thorough else 450
    progs = [gen_isa.gen_prog(rng, families=True) for _ in range(n)]
    ops, meta = [], []
    for pi, p in enumerate(progs):
        base = gen_isa.render(p)
        ops.append(fw.asm_op([("main.asm", base)]))
        meta.append((pi, "base", {}, [], base))
        for _ in range(3):
            kw, ren, which = variant(rng, p)
            t = gen_isa.render(p, **kw)
            ops.append(fw.asm_op([("main.asm", t)]))
            meta.append((pi, "variant", ren, which, t))
        # a blank inside the mnemonic (finding F10 stream)
        if rng.random() < 0.25:
            def mn(m, r=rng):
                return split_mnemonic(r, m) or m
            t = gen_isa.render(p, blanks=lambda minimum=0: " " * max(minimum, 0) if minimum else "", mnem=mn)
            ops.append(fw.asm_op([("main.asm", t)]))
            meta.append((pi, "split", {}, ["split_mnemonic"], t))
            ops.append(fw.asm_op([("main.asm", t)], opt_m=False))
            meta.append((pi, "split_unopt", {}, ["split_mnemonic"], t))
    impl = fw.run_oracle_resilient(ops, "c07")
    model = fw.run_model(ops, "c07", timeout=3000)
    lines = [fw.asm_line(a) for a in impl]
    known = {k["id"]: k for k in fw.known_findings("C07") if k["status"] == "open"}
    base_res, mdiff_ops, mdiff_for = {}, [], []
    for op, il, ml, (pi, kind, ren, which, text) in zip(ops, lines, model, meta):
        chk.evaluations += 1
        if il != ml:
            chk.disagree("%s %s:\n%s" % (kind, which, text[-500:]), ml[:250], il[:250])
        r = parse(il)
        p = progs[pi]
        if il == "panic":
            chk.violate("crash", {"program": text}, "result or error", il)
            continue
        if kind == "base":
            base_res[pi] = (r, text)
            chk.nontriv(text)
            e = gen_isa.expected(p)
            okdef = (e[0] == "ok" and r[0] == "ok" and r[1] == (e[1] or "-") and dict((n, int(v.split(":")[0])) for n, v in r[2]) == e[2]) or (e[0] == "err" and r[0] == "err")
            chk.count("base_" + r[0])
            if not okdef:
                chk.violate("result differs from the language definition", {"program": text}, str(e)[:300], il[:300])
        elif kind == "variant":
            for w in which:
                chk.count("transform_" + w)
            b, btext = base_res[pi]
            if not same_result(b, r, ren):
                chk.violate("re-spelling (%s) changes the result" % "+".join(which), {"program": text, "base": btext, "transforms": which, "rename": ren},
                            str(b)[:300], il[:300])
        elif kind == "split":
            b, btext = base_res[pi]
            chk.count("split_mnemonic")
            if not same_result(b, r, {}):
                mdiff_ops.append("mdiff " + fw.asm_op([("main.asm", text)]))
                mdiff_for.append(({"program": text, "base": btext, "transforms": which}, b, il))
        elif kind == "split_unopt":
            b, btext = base_res[pi]
            if not same_result(b, r, {}):
                chk.violate("a blank inside the mnemonic changes the result even without the matcher optimisation",
                            {"program": text, "base": btext, "transforms": which, "opt_matcher": False}, str(b)[:300], il[:300])
    if mdiff_ops:
        res = fw.run_model(mdiff_ops, "c07m")
        for (inp, b, il), r in zip(mdiff_for, res):
            parts = r.split(" ")
            if parts[0] == "mdiff" and int(parts[1]) > 0 and parts[1] == parts[2] and "F10" in known:
                chk.known("F10", known["F10"]["observed"])
                chk.count("split_difference_F10")
            else:
                chk.violate("a blank inside the mnemonic changes the result", inp, str(b)[:300], {"got": il[:300], "model_attribution": r})
    # ---- several sub-rule operands, each readable literally or as an expression
    so = [gen_subrule_overlap(rng) for _ in range(1500 if thorough else 150)]
    sops = [fw.asm_op([("main.asm", t)]) for t, _ in so]
    simpl = fw.run_oracle_resilient(sops, "c07s")
    smodel = fw.run_model(sops, "c07s", timeout=3000)
    for (t, hx), a, ml in zip(so, simpl, smodel):
        chk.evaluations += 1
        il = fw.asm_line(a)
        if il != ml:
            chk.disagree("subrule overlap:\n%s" % t[-500:], ml[:250], il[:250])
        r = parse(il)
        chk.nontriv(t)
        chk.count("subrule_overlap_" + r[0])
        want = "".join(format(int(c, 16), "04b") for c in hx)
        if r[0] != "ok" or r[1] != want:
            chk.violate("a literally spelled sub-rule operand is not read literally", {"program": t}, "ok " + want, il[:300])
    chk.traces += len(sops)
    # ---- string operands holding the very characters the look-ahead cut scans for (F63, repaired)
    st = []
    for _ in range(800 if thorough else 100):
        sep = rng.choice([" + ", ", ", " - "])
        wrapl, wrapr = rng.choice([("", ""), ("(", ")"), ("[", "]")])
        rule = "    ld %s{x: u8}%s%s{y: u8} => 0x11 @ x @ y" % (wrapl, wrapr, sep)
        ch = rng.choice(['+', ',', '-', '(', ')', '{', '}', ';', '[', ']', ':', 'a'])
        y = rng.randrange(256)
        cm = rng.choice(["", " ;* + *; ", " ;* ( *;"])
        line = "ld %s\"%s\"%s%s%s%d" % (wrapl, ch, wrapr, cm, sep, y)
        st.append(("#ruledef\n{\n%s\n}\n%s\n" % (rule, line), "11%02x%02x" % (ord(ch), y)))
    tops = [fw.asm_op([("main.asm", t)]) for t, _ in st]
    timpl = fw.run_oracle_resilient(tops, "c07t")
    tmodel = fw.run_model(tops, "c07t", timeout=3000)
    for (t, hx), a, ml in zip(st, timpl, tmodel):
        chk.evaluations += 1
        il = fw.asm_line(a)
        if il != ml:
            chk.disagree("string operand:\n%s" % t[-300:], ml[:250], il[:250])
        r = parse(il)
        chk.count("string_operand_" + r[0])
        want = "".join(format(int(c, 16), "04b") for c in hx)
        if r[0] != "ok" or r[1] != want:
            chk.violate("a string operand that holds a separator, a bracket or a semicolon changes the match", {"program": t}, "ok " + want, il[:300])
    chk.traces += len(tops)
    # ---- recorded findings: replay their witnesses
    for k in known.values():
        w = k.get("replay", {})
        if "base" in w and "variant" in w:
            a = fw.run_oracle_resilient([fw.asm_op([("main.asm", w["base"])]), fw.asm_op([("main.asm", w["variant"])])], "c07k")
            la, lb = fw.asm_line(a[0]), fw.asm_line(a[1])
            if parse(la)[:2] != parse(lb)[:2]:
                chk.known(k["id"], k["observed"])
            else:
                chk.notes.append("known finding %s no longer reproduces (%s / %s)" % (k["id"], la[:60], lb[:60]))
    chk.sample({"base": meta[0][4][-300:], "variant": meta[1][4][-300:], "results": [lines[0][:100], lines[1][:100]]})
    chk.traces += len(ops)


def replay(path):
    d = json.load(open(path))
    bad = 0
    for v in d.get("violations", []):
        inp = v["input"]
        texts = [inp["program"]] + ([inp["base"]] if "base" in inp else [])
        res = [parse(fw.asm_line(a)) for a in fw.run_oracle_resilient([fw.asm_op([("main.asm", t)], opt_m=inp.get("opt_matcher", True)) for t in texts], "rp")]
        print("replay ->", [str(r)[:100] for r in res])
        if len(res) == 2 and not same_result(res[1], res[0], inp.get("rename", {})):
            bad += 1
        if len(res) == 1:
            bad += 1
    if bad:
        print("VIOLATION property=C07 replay=%s" % path)
        return 1
    return 0
