"""C03 — failure is always loud and success always clean; the assembler never crashes."""
import glob, json, os, random, shutil, subprocess, tempfile
import fw
from props import C13, C06, C10

RULE = ("(1) token-level mutants (delete / duplicate / swap / replace tokens, splice 2-, 3- and 4-byte characters anywhere, truncate) of the "
        "repository's own test inputs and of generated programs, assembled in-process by asm::assemble: no panic, and an output exists exactly "
        "when no error was reported; (2) command lines with several defines, budgets down to 1, both debug switches, every format and group "
        "shape through driver::drive with every single I/O fault (each input unreadable, each output unwritable): success = ok, no error, "
        "all files; failure = not ok, >= 1 error, no file (except files written before a failed write); compared with the Lean driver model; "
        "(3) a sample of both streams on the real binary in a scratch directory: exit status 0/1, no signal, stderr 'error' iff exit 1, files "
        "created iff exit 0. Non-trivial = distinct mutants that still reach the resolver or fail with a diagnostic.")

MB = ["é", "ß", "€", "中", "😀", " "]


def corpus_files():
    files = []
    for p in sorted(glob.glob(os.path.join(fw.REPO, "tests", "**", "*.asm"), recursive=True)):
        try:
            t = open(p, encoding="utf-8").read()
        except Exception:
            continue
        if "#include" in t or "incbin" in t or "incstr" in t or "inchexstr" in t or len(t) > 3000:
            continue
        files.append(t)
    for p in sorted(glob.glob(os.path.join(fw.VERIF, "corpus", "C03", "*.asm"))):
        files.append(open(p, encoding="utf-8").read())
    return files


def tokens_of(text):
    import re
    return re.findall(r"\s+|[A-Za-z_][A-Za-z_0-9]*|[0-9][A-Za-z_0-9]*|\"[^\"]*\"|.", text, re.S)


def mutate(rng, text):
    toks = tokens_of(text)
    if not toks:
        return text
    for _ in range(rng.choice([1, 1, 1, 2, 3])):
        k = rng.randrange(8)
        i = rng.randrange(len(toks))
        if k == 0:
            del toks[i]
        elif k == 1:
            toks.insert(i, toks[i])
        elif k == 2 and len(toks) > 1:
            j = rng.randrange(len(toks))
            toks[i], toks[j] = toks[j], toks[i]
        elif k == 3:
            toks[i] = rng.choice(["{", "}", "(", ")", ",", ":", "=", "=>", "#", "0", "x", "$", "asm", "\"", "`", "@", "[", "]", "..", "1 +", "-"])
        elif k == 4:
            toks.insert(i, rng.choice(MB))
        elif k == 5:
            t = toks[i]
            p = rng.randrange(len(t) + 1)
            toks[i] = t[:p] + rng.choice(MB) + t[p:]
        elif k == 6:
            toks = toks[:i]
        else:
            toks.insert(i, rng.choice(["\n", " ", "\t", ";", ";*", "*;"]))
        if not toks:
            break
    return "".join(toks)


def invariant(a):
    """the C03 statement on one asm answer; returns None or a complaint"""
    if a.get("panic") is not None:
        return "panic: " + str(a["panic"])[:200]
    if a.get("died"):
        return "process died (stack overflow / abort): " + str(a.get("stderr", ""))[-200:]
    if a.get("not_run"):
        return None
    out, err = a.get("output") is not None, a.get("nerrors", 0) > 0
    if out and err:
        return "error reported but output delivered"
    if not out and not err:
        return "no output and no error diagnostic"
    return None


F14D_SITES = ("customasm::util::bigint::BigInt::", "customasm::util::bitvec")


def f14d_abort(a):
    """the recorded finding F14d, identified by how and where the process dies: an allocation failure
    (not a panic, not a stack overflow) inside the size-driven loops of util::bigint / util::bitvec"""
    if a.get("panic") == "attempt to add with overflow" and "src/util/bitvec.rs" in str(a.get("at", "")):
        # the same cause seen under overflow checks: the output position (bank #outp + position) has no cap, the index
        # arithmetic of the bit vector overflows before the allocation is attempted
        return True
    if not a.get("died"):
        return False
    err = str(a.get("stderr", ""))
    return "memory allocation of" in err and any(s in err for s in F14D_SITES)


def report(chk, a, bad, inp):
    known = {k["id"]: k for k in fw.known_findings("C03") if k["status"] == "open"}
    if "F14d" in known and f14d_abort(a):
        chk.known("F14d", known["F14d"]["observed"])
        chk.count("allocation_abort_F14d")
    else:
        chk.violate(bad.split(":")[0], inp, "success without error, or failure with an error and no output", bad)


def run(chk):
    rng = chk.rng
    thorough = chk.tier == "thorough"
    chk.rule = RULE
    base = corpus_files()
    gens = []
    for _ in range(300):
        gens.append(C06.gen_program(rng)[0])
        r, i, _, _, _ = C13.gen_faulty(rng)
        gens.append(r.replace('#include "inc.asm"', ""))
        gens.append(C10.gen_symbol_program(rng)[0][1].replace("#include", ";#include"))
    chk.count("corpus_files", len(base))
    # ---------------- (1) in-process mutation stream
    n = 200000 if thorough else 16000
    # the witnesses of the recorded findings run first
    muts = [k["replay"]["program"] for k in fw.known_findings("C03") if k["status"] == "open" and isinstance(k.get("replay"), dict) and "program" in k["replay"]]
    for _ in range(n):
        src = rng.choice(base) if rng.random() < 0.6 else rng.choice(gens)
        muts.append(mutate(rng, src) if rng.random() < 0.93 else src)
    ops = [fw.asm_op([("main.asm", m)], max_iter=rng.choice([10, 10, 3, 2, 1]), opt_s=rng.random() < 0.8, opt_m=rng.random() < 0.8) for m in muts]
    ops[:len(muts) - n] = [fw.asm_op([("main.asm", m)]) for m in muts[:len(muts) - n]]
    impl = fw.run_oracle_resilient(ops, "c03m", timeout=3000)
    for m, op, a in zip(muts, ops, impl):
        chk.evaluations += 1
        if a.get("not_run"):
            chk.count("not_run")
            continue
        bad = invariant(a)
        chk.count("mut_ok" if a.get("output") is not None else "mut_err")
        if a.get("iters") is not None or a.get("nerrors", 0) > 0:
            chk.nontriv(m)
        if bad:
            report(chk, a, bad, {"program": m, "op_options": op.split(" ")[1:4]})
    chk.sample({"mutant": muts[0][:300], "answer": {k: impl[0].get(k) for k in ("error", "nerrors", "iters")}})
    chk.traces += len(ops)

    # ---------------- (1b) every operand position x every kind of value (ill-typed operands must be diagnosed)
    VALUES = ["1", "0", "-1", "true", "false", "\"s\"", "\"\"", "x", "lbl", "f", "f(1)", "{}", "1 == 1", "1 ? 2 : 3", "0x10`8", "$",
              "incbin", "undefined_name", "1 / 0", "!true", "-\"a\"", "le(0x1234)", "sizeof(1)", "strlen(1)", "\"a\" @ 1", "1[0:1]", "f(1, 2)", "asm { nop }"]
    FRAMES = ["#if %s\n{\n#d8 1\n}\n", "#if false\n{\n}\n#elif %s\n{\n#d8 1\n}\n", "#assert %s\n", "#d8 %s\n", "#d %s\n", "#d16 1, %s\n",
              "#res %s\n", "#align %s\n", "#addr %s\n", "#bits %s\n", "#labelalign %s\n", "y = %s\n#d8 y`8\n", "ld %s\n", "emit %s\n",
              "#bankdef b { #addr %s, #size 16, #outp 0 }\n#d8 1\n", "#bankdef b { #addr 0, #size %s, #outp 0 }\n#d8 1\n",
              "#bankdef b { #addr 0, #size 16, #outp %s }\n#d8 1\n", "#bankdef b { #bits %s, #addr 0, #size 16, #outp 0 }\n#d8 1\n",
              "#fn g(a) => a + %s\n#d8 g(1)\n", "#d8 f(%s)\n", "#d8 (%s)[3:0]\n", "#d8 1 << %s\n", "#d8 (%s) ? 1 : 2\n", "#const(noemit) k = %s\n#d8 1\n",
              "#include %s\n", "#d incbin(%s)\n", "#d incbin(\"main.asm\", %s)\n", "#once\n#d8 %s`8\n"]
    HEADER = "#ruledef\n{\n    nop => 0x00\n    ld {v: u8} => 0x10 @ v\n    emit {v} => v`8\n}\n#fn f(a) => a + 1\nx = 5\nlbl:\n"
    tprogs = [HEADER + fr % v for fr in FRAMES for v in VALUES]
    tprogs += [HEADER + fr % v for fr in FRAMES for v in ["TRACE"]]        # set by a define below
    # bank definitions whose fields are near the top of usize: diagnosed or accepted, never a crash (F47)
    for bits in (8, 16, 32, 1):
        for field in ("#size", "#addr", "#outp", "#addr_end"):
            for v in ("0x2000000000000000", "0x1fffffffffffffff", "0x800000000000000", "0xffffffffffffffff", "0x10000000000000000",
                      "0x7fffffffffffffff", "0x4000000000000000"):
                other = {"#size": "#addr 0, #outp 0", "#addr": "#size 0x10, #outp 0", "#outp": "#addr 0, #size 0x10", "#addr_end": "#addr 0, #outp 0"}[field]
                tprogs.append("#bankdef a { #bits %d, %s, %s %s }\n#d%d 1\n" % (bits, other, field, v, bits if bits > 1 else 8))
    tops = [fw.asm_op([("main.asm", t)], defs=[("TRACE", "i1")] if t.endswith("TRACE\n") or "TRACE" in t else None) for t in tprogs]
    timpl = fw.run_oracle_resilient(tops, "c03t", timeout=3000)
    for t, a in zip(tprogs, timpl):
        chk.evaluations += 1
        if a.get("not_run"):
            continue
        bad = invariant(a)
        chk.count("typed_ok" if a.get("output") is not None else "typed_err")
        if bad:
            report(chk, a, bad, {"program": t})
    chk.traces += len(tops)

    # ---------------- (2) driver with defines, budgets, switches, faults
    prog = "val = 5\nother = 1\n#d8 val, other\n#assert val < 200\n"
    cmds = []
    fmts = ["binary", "hexstr", "annotated", "symbols", "intelhex", "hexdump", "mif", "addrspan", "tcgame", "logisim8"]
    for _ in range(6000 if thorough else 1500):
        argv = ["main.asm"]
        ndef = rng.choice([0, 0, 1, 2, 3])
        for _ in range(ndef):
            d = rng.choice(["val=7", "other=2", "unused=1", "val=250", "zzz", "val=0x10", "val=", "other=false", "val=300"])
            argv += rng.choice([["-d" + d], ["-d", d], ["--define=" + d]])
        if rng.random() < 0.4:
            argv += ["-t", rng.choice(["1", "2", "3", "10"])]
        if rng.random() < 0.2:
            argv.append("--debug-no-optimize-static")
        if rng.random() < 0.2:
            argv.append("--debug-no-optimize-matcher")
        argv.append("-q")
        groups = []
        for gi in range(rng.choice([1, 1, 2, 3])):
            g = ["-f", rng.choice(fmts)]
            r = rng.random()
            if r < 0.5:
                g += ["-o", "out%d.x" % gi]
            elif r < 0.65:
                g += ["-p"]
            groups.append(g)
        rng.shuffle(argv)
        full = argv + groups[0]
        for g in groups[1:]:
            full += ["--"] + g
        fault = "-"
        fr = rng.random()
        if fr < 0.15:
            fault = "r:" + fw.hx("main.asm")
        elif fr < 0.4:
            fault = "w:" + fw.hx(rng.choice(["out0.x", "out1.x", "main.bin", "main.txt"]))
        cmds.append((full, fault))
    dops = ["drv 1 %s %s %s %s" % (fw.hx("main.asm"), fw.hx(prog), f, " ".join(fw.hx(a) for a in argv)) for argv, f in cmds]
    impl = fw.run_oracle_resilient(dops, "c03d")
    for (argv, fault), a in zip(cmds, impl):
        chk.evaluations += 1
        inp = {"argv": argv, "fault": bytes.fromhex(fault[2:]).decode() if fault != "-" else None, "fault_kind": fault[:1], "program": prog}
        if a.get("panic") is not None or a.get("died"):
            chk.violate("driver crashed", inp, "ok or error", str(a)[:300])
            continue
        errs = [x["descr"] for x in a.get("messages", []) if x["kind"] == "error"]
        ok, writes = bool(a.get("ok")), [w["name"] for w in a.get("writes", [])]
        chk.count("drv_ok" if ok else "drv_fail")
        chk.nontriv(tuple(argv) + (fault,))
        if ok and errs:
            chk.violate("error reported but the run succeeded (exit 0)", inp, "failure", {"errs": errs[:3], "writes": writes})
        elif not ok and not errs:
            chk.violate("run failed without any error diagnostic", inp, ">= 1 error", {"writes": writes})
        elif not ok and writes and not any("could not write" in e for e in errs):
            chk.violate("run failed but output files were written", inp, "no file", {"errs": errs[:3], "writes": writes})
        elif ok:
            expect = sum(1 for i, t in enumerate(argv) if t == "-f") - sum(1 for t in argv if t == "-p")
            if len(writes) != expect:
                chk.violate("successful run did not write every requested file", inp, expect, writes)
    chk.traces += len(dops)

    # ---------------- (3) real binary sample
    try:
        binary = fw.build_real_binary()
    except fw.BuildError as e:
        raise
    sample = [m for m in muts[:4000:20]] + [prog]
    tmp = tempfile.mkdtemp(prefix="c03-", dir=fw.CACHE)
    try:
        for i, m in enumerate(sample if thorough else sample[:120]):
            chk.evaluations += 1
            d = os.path.join(tmp, "r%d" % i)
            os.makedirs(d)
            open(os.path.join(d, "main.asm"), "w", encoding="utf-8").write(m)
            try:
                r = subprocess.run([binary, "main.asm", "-o", "out.bin", "--", "-f", "symbols", "-o", "sym.txt"], cwd=d, stdout=subprocess.PIPE, stderr=subprocess.PIPE, timeout=20)
            except subprocess.TimeoutExpired:
                chk.violate("real binary hangs", {"program": m}, "termination", "timeout 20 s")
                continue
            err = b"error" in r.stderr
            made = sorted(f for f in os.listdir(d) if f != "main.asm")
            if r.returncode not in (0, 1):
                report(chk, {"died": True, "stderr": r.stderr.decode(errors="replace")},
                       "real binary ended abnormally: exit %d: %s" % (r.returncode, r.stderr[-300:].decode(errors="replace")), {"program": m})
            elif r.returncode == 0 and (err or made != ["out.bin", "sym.txt"]):
                chk.violate("exit 0 with an error message or missing files", {"program": m}, "clean success", {"stderr": r.stderr[-200:].decode(errors="replace"), "files": made})
            elif r.returncode == 1 and (not err or made):
                chk.violate("exit 1 without error text, or with files created", {"program": m}, "loud failure", {"stderr": r.stderr[-200:].decode(errors="replace"), "files": made})
            chk.count("bin_exit_%d" % r.returncode)
        # ---- command lines that are not text: an argument with bytes that are not UTF-8, in every position (finding F79, repaired:
        # std::env::args panicked)
        d = os.path.join(tmp, "argv")
        os.makedirs(d)
        open(os.path.join(d, "main.asm"), "w").write("#d8 1\n")
        for argv in ([b"\xff.asm"], [b"main.asm", b"-o", b"out\xff.bin"], [b"main.asm", b"-f", b"hex\xffstr"], [b"main.asm", b"-d", b"x\xff=1"],
                     [b"main.asm", b"-q", b"-p", b"--\xfe"], [b"main.asm", b"-t", b"\xff"]):
            chk.evaluations += 1
            r = subprocess.run([binary.encode()] + argv, cwd=d, stdout=subprocess.PIPE, stderr=subprocess.PIPE, timeout=20)
            chk.count("argv_bytes_exit_%d" % r.returncode)
            if r.returncode not in (0, 1):
                chk.violate("the driver ends abnormally on an argument that is not UTF-8", {"argv": [a.decode("latin-1") for a in argv]},
                            "exit 0 or 1", "exit %d: %s" % (r.returncode, r.stderr[-200:].decode(errors="replace")))
            elif r.returncode == 1 and b"error" not in r.stderr + r.stdout:
                chk.violate("exit 1 without error text", {"argv": [a.decode("latin-1") for a in argv]}, "loud failure", r.stderr[-200:].decode(errors="replace"))
        # ---- standard streams that cannot be written to (finding F73, repaired: println! panicked)
        for argv, so, se in ((["main.asm", "-p"], "/dev/full", None), (["main.asm", "-q", "-p"], "/dev/full", None),
                             (["main.asm", "-o", "o.bin"], "/dev/full", None), (["main.asm", "-q", "-f", "nosuch"], None, "/dev/full"),
                             (["-h"], "/dev/full", None), (["main.asm", "-q", "-p", "-f", "symbols"], "/dev/full", "/dev/full")):
            chk.evaluations += 1
            fo = open(so, "wb") if so else subprocess.PIPE
            fe = open(se, "wb") if se else subprocess.PIPE
            r = subprocess.run([binary] + argv, cwd=d, stdout=fo, stderr=fe, timeout=20)
            for f_ in (fo, fe):
                if f_ is not subprocess.PIPE:
                    f_.close()
            chk.count("full_stream_exit_%d" % r.returncode)
            if r.returncode not in (0, 1):
                chk.violate("the driver ends abnormally when a standard stream cannot be written to", {"argv": argv, "stdout": so, "stderr": se},
                            "exit 0 or 1", "exit %d: %s" % (r.returncode, (r.stderr or b"")[-200:].decode(errors="replace")))
            elif "-p" in argv and so and r.returncode != 1:
                chk.violate("output that could not be printed is reported as success", {"argv": argv, "stdout": so}, "exit 1", "exit %d" % r.returncode)
        # ---- numbers at the edge of a machine word on the *released* binary (no overflow checks: arithmetic wraps where
        # the oracle harness panics) against the model (unbounded integers): a wrap shows as output the model does not have
        M = ["0xffffffffffffffff", "0x10000000000000000", "0x7fffffffffffffff", "0x8000000000000000", "0xfffffffffffffffe"]
        edge = []
        for m_ in M:
            if m_ in M[:2]:
                # (smaller bounds are finding F14d: the slice is materialised)
                edge += ["#d8 0x55\n#d 0xab[%s:0]\n" % m_, "#d8 0x55\n#d 0xab[%s:%s]\n" % (m_, m_)]
            edge += ["#d8 (1 << %s) == 0 ? 1 : 2\n" % m_,
                     "#d8 (0xff >> %s)\n" % m_, "#d8 (-1 >> %s) == -1 ? 1 : 2\n" % m_,
                     "x = %s\n#d64 x\n#d8 x + 1 == 0 ? 1 : 2\n" % m_, "#d8 %s * %s == 1 ? 1 : 2\n" % (m_, m_), "#d8 -%s / 3 == 0 ? 1 : 2\n" % m_,
                     "#d8 incbin(\"main.asm\", %s, 1) == 0 ? 1 : 2\n" % m_, "#d8 incbin(\"main.asm\", 1, %s) == 0 ? 1 : 2\n" % m_,
                     "#bankdef a { #addr %s, #size 2, #outp 0 }\nl:\n#d8 1\n#d8 l == 0 ? 1 : 2\n" % m_,
                     "#bankdef a { #addr 0, #addr_end %s, #outp 0 }\n#d8 1\n" % m_, "#bankdef a { #bits 16, #addr 0, #size %s, #outp 0 }\n#d16 1\n" % m_,
                     "#ruledef\n{\n    e {x: u64} => x\n}\ne %s\n" % m_, "#ruledef\n{\n    e {x: s64} => x\n}\ne -%s\n" % m_]
        for sz in ("0x1ffffffffffffffe", "0x1fffffffffffffff", "0xfffffffffffffff"):
            edge.append("#bankdef a { #addr 0, #size %s, #outp 0x20 }\n#bankdef b { #addr 0, #size 2, #outp 0x40 }\n#bank a\n#d8 0xaa\n#bank b\n#d8 0xbb\n" % sz)
        import c19_families
        edge += c19_families.word_edge_positions()
        eops = [fw.asm_op([("main.asm", t)]) for t in edge]
        emodel = fw.run_model(eops, "c03e", timeout=600)
        for i, (t, ml) in enumerate(zip(edge, emodel)):
            chk.evaluations += 1
            d = os.path.join(tmp, "e%d" % i)
            os.makedirs(d)
            open(os.path.join(d, "main.asm"), "w", encoding="utf-8").write(t)
            try:
                r = subprocess.run([binary, "main.asm", "-q", "-p", "-f", "binstr"], cwd=d, stdout=subprocess.PIPE, stderr=subprocess.PIPE, timeout=20)
            except subprocess.TimeoutExpired:
                report(chk, {"died": True, "stderr": "timeout"}, "real binary hangs on a number at the edge of a machine word", {"program": t})
                continue
            chk.count("edge_exit_%d" % r.returncode)
            out = r.stdout.decode(errors="replace").strip()
            if r.returncode not in (0, 1):
                report(chk, {"died": True, "stderr": r.stderr.decode(errors="replace")},
                       "real binary ended abnormally: exit %d: %s" % (r.returncode, r.stderr[-300:].decode(errors="replace")), {"program": t})
            elif r.returncode == 0 and not (ml.startswith("ok ") and (ml.split(" ")[1].replace("-", "") == out)):
                chk.violate("the released binary assembles a program the model (unbounded integers) rejects or assembles differently: a wrapped number",
                            {"program": t}, ml[:120], out[:120])
            elif r.returncode == 1 and ml.startswith("ok "):
                chk.disagree("released binary on: " + t, ml[:120], "exit 1: " + r.stderr[-200:].decode(errors="replace"))
    finally:
        shutil.rmtree(tmp, ignore_errors=True)
    chk.notes.append("theorems: drive_dichotomy, failure_writes_nothing, unwritable_not_written, runGroups_inv (driver outcome logic, assembler as a parameter); "
                     "never-crashes rests on the mutation search; stack/heap/time limits are C19's")


def replay(path):
    d = json.load(open(path))
    bad = 0
    for v in d.get("violations", []):
        inp = v["input"]
        if "program" in inp and "argv" not in inp:
            a = fw.run_oracle_resilient([fw.asm_op([("main.asm", inp["program"])])], "rp")[0]
            c = invariant(a)
            print("replay program", repr(inp["program"][:200]), "->", c or "holds")
            bad += 1 if c else 0
        else:
            print("replay", json.dumps(inp)[:300], v["got"])
            bad += 1
    if bad:
        print("VIOLATION property=C03 replay=%s" % path)
        return 1
    return 0
