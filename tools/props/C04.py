"""C04 — typed arguments and sized data accept exactly their range, never truncating."""
import json, os
import fw

RULE = ("hook grid: every (type,N,v) with N in 0..Nmax and v in [-2^N-4, 2^N+4] through check_and_constrain_argument; "
        "boundary values for widths up to 256; one-instruction and one-directive programs through asm::assemble with the value "
        "spelled as decimal/hex/binary/negated literal or as an expression. Non-trivial = distinct (type,N,v) with v within 2 of a "
        "range boundary (-2^(N-1), 0, 2^(N-1), 2^N) for N >= 1.")


def in_range(t, n, v):
    """The statement's formula (N >= 1)."""
    if t == "u":
        return 0 <= v < 2 ** n
    if t == "s":
        return -(2 ** (n - 1)) <= v < 2 ** (n - 1)
    return -(2 ** (n - 1)) <= v < 2 ** n


def near_boundary(n, v):
    if n == 0:
        return False
    for b in (-(2 ** (n - 1)), 0, 2 ** (n - 1), 2 ** n):
        if abs(v - b) <= 2:
            return True
    return False


def low_bits(v, n):
    return format(v % (2 ** n), "b").zfill(n) if n > 0 else ""


def spell(rng, v):
    """Render integer v as customasm source text in a random literal form."""
    k = rng.randrange(6)
    a = abs(v)
    if k == 0:
        s = str(a)
    elif k == 1:
        s = "0x%x" % a          # sized literal (4 bits per digit) - only used where size does not matter
    elif k == 2:
        s = "0b" + format(a, "b")
    elif k == 3:
        s = "(%d + %d)" % (a - a // 2, a // 2)
    elif k == 4:
        s = "(%d * 2 + %d)" % (a // 2, a % 2)
    else:
        s = str(a) if a < 1000 else "%d_%03d" % (a // 1000, a % 1000)
    return ("-" + s) if v < 0 else s


def instr_program(t, n, text, unused=False):
    if unused:
        # the production does not mention the parameter: the argument must still be range-checked
        return "#ruledef\n{\n    e {x: %s%d} => 0x55\n}\ne %s\n" % (t, n, text)
    return "#ruledef\n{\n    e {x: %s%d} => x\n}\ne %s\n" % (t, n, text)


def data_program(n, text):
    return "#d%d %s\n" % (n, text)


def classify_asm(ans):
    if ans.get("panic") is not None or ans.get("died"):
        return ("panic", None)
    if ans.get("output") is not None and not ans.get("has_errors"):
        return ("ok", ans["output"]["bits"])
    if ans.get("output") is None and ans.get("has_errors"):
        return ("err", fw.all_descr(ans.get("messages", [])))
    return ("inconsistent", ans)


def grid(nmax):
    for n in range(0, nmax + 1):
        for v in range(-(2 ** n) - 4, 2 ** n + 5):
            for t in "usi":
                yield (t, n, v)


def boundaries(rng, count):
    out = []
    for _ in range(count):
        n = rng.choice([17, 24, 31, 32, 33, 48, 63, 64, 65, 100, 127, 128, 129, 200, 255, 256])
        b = rng.choice([-(2 ** (n - 1)), 0, 2 ** (n - 1), 2 ** n, -(2 ** n)])
        v = b + rng.randrange(-3, 4)
        out.append((rng.choice("usi"), n, v))
    return out


def check_known_F17(chk):
    """Replay the recorded finding F17 on the implementation."""
    kf = [k for k in fw.known_findings("C04") if k["status"] == "open"]
    for k in kf:
        ops = k["replay"]["ops"]
        ans = fw.run_oracle(ops, "c04kf")
        still = all(a.get("rej") for a in ans)
        if still:
            chk.known(k["id"], k["observed"])
        else:
            chk.notes.append("known finding %s no longer reproduces: %s" % (k["id"], ans))


def is_F17(n, v):
    return n == 0 and v == 0


def run(chk):
    rng = chk.rng
    thorough = chk.tier == "thorough"
    chk.rule = RULE
    check_known_F17(chk)

    # ---------------- 1. hook grid: model vs implementation vs closed form
    cases = list(grid(16 if thorough else 11)) + boundaries(rng, 20000 if thorough else 3000)
    ops = ["arg %s %d %d" % c for c in cases]
    impl = fw.run_oracle(ops, "c04a")
    model = fw.run_model(ops, "c04a")
    for c, op, a, m in zip(cases, ops, impl, model):
        t, n, v = c
        chk.evaluations += 1
        if "ok" in a:
            ia = "ok %s %s" % (a["ok"]["v"], "-" if a["ok"]["size"] is None else a["ok"]["size"])
            acc = True
        elif a.get("rej"):
            ia, acc = "rej", False
        else:
            ia, acc = json.dumps(a), None
        if ia != m:
            chk.disagree(op, m, ia)
        if near_boundary(n, v):
            chk.nontriv(c)
        chk.count("arg_accept" if acc else "arg_reject")
        # search oracle: the statement's closed form on the implementation's answer
        if n >= 1:
            exp = in_range(t, n, v)
            if acc is None or acc != exp:
                chk.violate("typed argument acceptance", {"op": op}, "accept" if exp else "reject", ia)
            elif acc and (a["ok"]["v"] != str(v) or a["ok"]["size"] != n):
                chk.violate("accepted argument changed", {"op": op}, "ok %d %d" % (v, n), ia)
        else:
            exp = (v == 0)
            if acc != exp:
                if is_F17(n, v) and acc is False:
                    chk.known_hits["F17"] = chk.known_hits.get("F17", 0) + 1
                else:
                    chk.violate("typed argument acceptance (zero width)", {"op": op}, "accept" if exp else "reject", ia)
    chk.sample({"op": ops[len(ops) // 3], "impl": impl[len(ops) // 3], "model": model[len(ops) // 3]})
    chk.traces += len(ops)

    # ---------------- 2. one-instruction programs through the whole assembler
    nprog = 6000 if thorough else 1200
    pcases = []
    for _ in range(nprog):
        n = rng.choice([1, 2, 3, 4, 5, 7, 8, 9, 12, 16, 24, 32, 33, 64, 65, 128])
        b = rng.choice([-(2 ** (n - 1)), 0, 2 ** (n - 1), 2 ** n])
        v = b + rng.randrange(-3, 4) if rng.random() < 0.7 else rng.randrange(-(2 ** n) - 4, 2 ** n + 5)
        t = rng.choice("usi")
        text = spell(rng, v)
        pcases.append((t, n, v, text, rng.random() < 0.15))
    pops = [fw.asm_op([("main.asm", instr_program(t, n, text, un))]) for (t, n, v, text, un) in pcases]
    mops = ["arg %s %d %d" % (t, n, v) for (t, n, v, text, un) in pcases]
    impl = fw.run_oracle(pops, "c04p")
    model = fw.run_model(mops, "c04p")
    for (t, n, v, text, un), op, a, m in zip(pcases, pops, impl, model):
        chk.evaluations += 1
        kind, data = classify_asm(a)
        exp_ok = in_range(t, n, v)
        exp_bits = "01010101" if un else low_bits(v, n)
        # model prediction
        mpred = ("ok", exp_bits) if m.startswith("ok") else ("err", None)
        if (kind, data if kind == "ok" else None) != mpred:
            chk.disagree("program e %s with %s%d" % (text, t, n), m, [kind, data])
        if near_boundary(n, v):
            chk.nontriv(("p", t, n, v))
        chk.count("prog_" + kind)
        if kind == "panic" or kind == "inconsistent":
            chk.violate("one-instruction program crashed or was inconsistent", {"program": instr_program(t, n, text, un)}, "ok or error", a)
        elif exp_ok != (kind == "ok"):
            chk.violate("typed argument acceptance (program)", {"program": instr_program(t, n, text, un)}, "accept" if exp_ok else "reject", [kind, data])
        elif kind == "ok" and data != exp_bits:
            chk.violate("emitted bits are not the N low-order bits", {"program": instr_program(t, n, text, un)}, exp_bits, data)
        elif kind == "err" and not any("out of range" in d for d in data):
            chk.violate("rejected for another reason than range", {"program": instr_program(t, n, text, un)}, "argument out of range", data)
    chk.sample({"program": instr_program(*pcases[0][:2], pcases[0][3], pcases[0][4]), "impl": classify_asm(impl[0]), "model": model[0]})
    chk.traces += len(pops)

    # ---------------- 3. data directives
    dcases = []
    for _ in range(nprog):
        n = rng.choice([1, 2, 3, 4, 7, 8, 9, 16, 24, 32, 33, 64, 65, 128])
        r0 = rng.random()
        if r0 < 0.12 and n <= 33:
            # arithmetic on a sized (hex or binary) literal: the result is an unsized value, accepted by its value alone,
            # never by the size its operand had
            digits = rng.randrange(1, max(2, n // 4 + 2))
            a = rng.randrange(0, 16 ** digits)
            op = rng.choice(["<<", "<<", "+", "*", "-"])
            d = rng.randrange(0, 9) if op == "<<" else rng.randrange(0, 300)
            lit = ("0x%0*x" % (digits, a)) if rng.random() < 0.7 else ("0b" + format(a, "0%db" % (4 * digits)))
            v = {"<<": a << d, "+": a + d, "*": a * d, "-": a - d}[op]
            dcases.append((n, v, None, "(%s %s %d)" % (lit, op, d)))
        elif r0 < 0.6:
            b = rng.choice([-(2 ** (n - 1)), 0, 2 ** (n - 1), 2 ** n])
            v = b + rng.randrange(-3, 4) if rng.random() < 0.7 else rng.randrange(-(2 ** n) - 4, 2 ** n + 5)
            dcases.append((n, v, None, spell(rng, v) if rng.random() < 0.8 else None))
        else:
            k = max(1, n + rng.randrange(-3, 4))
            v = rng.randrange(0, 2 ** k)
            dcases.append((n, v, k, None))
    pops, mops = [], []
    for i, (n, v, k, text) in enumerate(dcases):
        if k is None:
            if text is None or text.startswith("0x") or text.startswith("-0x") or text.startswith("0b") or text.startswith("-0b"):
                text = str(v) if v >= 0 else "-" + str(-v)
            dcases[i] = (n, v, k, text)
            mops.append("dat %d %d -" % (n, v))
        else:
            text = "%d`%d" % (v, k)
            dcases[i] = (n, v, k, text)
            mops.append("dat %d %d %d" % (n, v, k))
        pops.append(fw.asm_op([("main.asm", data_program(n, text))]))
    impl = fw.run_oracle(pops, "c04d")
    model = fw.run_model(mops, "c04d")
    for (n, v, k, text), op, mop, a, m in zip(dcases, pops, mops, impl, model):
        chk.evaluations += 1
        kind, data = classify_asm(a)
        if m.startswith("ok"):
            mv = int(m.split()[1])
            mpred = ("ok", low_bits(mv, n))
        else:
            mpred = ("err", None)
        if (kind, data if kind == "ok" else None) != mpred:
            chk.disagree("program #d%d %s  (%s)" % (n, text, mop), m, [kind, data])
        if k is None:
            exp_ok = -(2 ** (n - 1)) <= v < 2 ** n
            if near_boundary(n, v):
                chk.nontriv(("d", n, v))
        else:
            exp_ok = k <= n
            if abs(k - n) <= 1:
                chk.nontriv(("ds", n, k, v))
        chk.count("data_" + kind)
        prog = data_program(n, text)
        if kind in ("panic", "inconsistent"):
            chk.violate("data directive crashed or was inconsistent", {"program": prog}, "ok or error", a)
        elif exp_ok != (kind == "ok"):
            chk.violate("data directive acceptance", {"program": prog}, "accept" if exp_ok else "reject", [kind, data])
        elif kind == "ok" and data != low_bits(v, n):
            chk.violate("data directive emitted other bits than the value's low N bits", {"program": prog}, low_bits(v, n), data)
        elif kind == "err" and not any("out of range" in d for d in data):
            chk.violate("data rejected for another reason than range", {"program": prog}, "value out of range", data)
    chk.sample({"program": data_program(dcases[0][0], dcases[0][3]), "impl": classify_asm(impl[0]), "model": model[0]})
    chk.traces += len(pops)
    chk.notes.append("theorems: accept_u/s/i, C04_partial (N>=1), never_truncates, data_accept_unsized/sized, data_emit, data_never_truncates; C04_full_false + zero_width_rejects_all record F17")


def replay(path):
    d = json.load(open(path))
    bad = 0
    for v in d.get("violations", []):
        inp = v["input"]
        if "op" in inp:
            a = fw.run_oracle([inp["op"]], "rp")[0]
            print("replay", inp["op"], "->", a, "expected", v["expected"])
            acc = "ok" in a
            if (v["expected"] == "accept") != acc:
                bad += 1
        elif "program" in inp:
            a = fw.run_oracle([fw.asm_op([("main.asm", inp["program"])])], "rp")[0]
            print("replay program", repr(inp["program"]), "->", classify_asm(a), "expected", v["expected"])
            k, data = classify_asm(a)
            if v["expected"] in ("accept", "reject"):
                if (v["expected"] == "accept") != (k == "ok"):
                    bad += 1
            elif data != v["expected"]:
                bad += 1
    if bad:
        print("VIOLATION property=C04 replay=%s" % path)
        return 1
    return 0
