"""C09 — the iteration budget decides whether a program assembles, never to what."""
import json, os
import fw, gen_cascade
from props import C03

BUDGETS = [1, 2, 3, 4, 5, 6, 10, 11, 30]
RULE = ("size-cascading programs (as for C02: assert-selected forms, $-relative branches, asm-block macros with labels, functions, "
        "$-dependent constants), the repository's test inputs, and programs with nested asm blocks, each assembled under every budget in "
        "%s by asm::assemble and by the Lean model: once a budget succeeds every larger one must succeed with identical bits, spans and "
        "symbol values; the reported pass count never exceeds the budget; a smaller budget gives the same result or an error. "
        "Non-trivial = distinct programs for which at least one budget fails and a larger one succeeds." % BUDGETS)


def sweep_problem(results):
    """results: list of (budget, line) in increasing budget order. Returns a complaint or None."""
    first_ok = None
    for b, line in results:
        if line.startswith("ok"):
            body = line.split(" iters=")[0] + " syms=" + line.split(" syms=")[1]
            iters = int(line.split(" iters=")[1].split(" ")[0])
            if iters > b:
                return "budget %d reports %d passes" % (b, iters)
            if first_ok is None:
                first_ok = (b, body)
            elif body != first_ok[1]:
                return "budget %d and budget %d both succeed with different results" % (first_ok[0], b)
        elif line == "panic" or line.startswith("inconsistent"):
            return "budget %d: %s" % (b, line)
        elif first_ok is not None:
            return "budget %d succeeds but the larger budget %d fails (%s)" % (first_ok[0], b, line[:80])
    return None


def run(chk):
    rng = chk.rng
    thorough = chk.tier == "thorough"
    chk.rule = RULE
    base = [t for t in C03.corpus_files() if "#ruledef" in t]
    cdir = os.path.join(fw.VERIF, "corpus", "C09")
    progs = [open(os.path.join(cdir, f)).read() for f in sorted(os.listdir(cdir))] if os.path.isdir(cdir) else []
    for _ in range(3000 if thorough else 350):
        progs.append(gen_cascade.gen_any(rng) if rng.random() < 0.85 else rng.choice(base))
    ops = []
    for p in progs:
        s, m = rng.random() < 0.8, rng.random() < 0.8
        for b in BUDGETS:
            ops.append(fw.asm_op([("main.asm", p)], max_iter=b, opt_s=s, opt_m=m))
    impl = fw.run_oracle_resilient(ops, "c09")
    model = fw.run_model(ops, "c09", timeout=3000)
    nb = len(BUDGETS)
    pending = []
    for pi, p in enumerate(progs):
        res_i = [(b, fw.asm_line(impl[pi * nb + k])) for k, b in enumerate(BUDGETS)]
        res_m = [(b, model[pi * nb + k]) for k, b in enumerate(BUDGETS)]
        chk.evaluations += nb
        for (b, li), (_, lm) in zip(res_i, res_m):
            if li != lm:
                chk.disagree("budget=%d program:\n%s" % (b, p[-500:]), lm[:250], li[:250])
        okb = [b for b, l in res_i if l.startswith("ok")]
        if okb and okb[0] > 1:
            chk.nontriv(p)
        chk.count("programs_ok_from_budget_%s" % (okb[0] if okb else "never"))
        bad = sweep_problem(res_i)
        if bad:
            pending.append((pi, p, bad, all(li == lm for (_, li), (_, lm) in zip(res_i, res_m))))
    # a difference is attributed to the recorded finding F38 only if the model, with the budget of the loops of `asm`
    # blocks pinned (request `inner 30 asm ...`) and nothing else changed, shows no difference at all under the same
    # outer budgets: then the only cause left is eval_asm's use of the outer `max_iterations` for its own loop
    known = {k["id"]: k for k in fw.known_findings("C09") if k["status"] == "open"}
    if pending:
        iops = []
        for pi, p, bad, agree in pending:
            o = ops[pi * nb].split(" ")[2:4]
            for b in BUDGETS:
                iops.append("inner 30 " + fw.asm_op([("main.asm", p)], max_iter=b, opt_s=o[0] == "1", opt_m=o[1] == "1"))
        ires = fw.run_model(iops, "c09i", timeout=3000)
        for j, (pi, p, bad, agree) in enumerate(pending):
            pinned = [(b, ires[j * nb + k]) for k, b in enumerate(BUDGETS)]
            inp = {"program": p, "options": ops[pi * nb].split(" ")[2:4]}
            # (the model must reproduce the implementation's answers under every budget: the difference is then the model's too)
            if "F38" in known and agree and "asm" in p and sweep_problem(pinned) is None and "passes" not in bad and "panic" not in bad:
                chk.known("F38", known["F38"]["observed"])
                chk.count("inner_budget_difference_F38")
            else:
                chk.violate("the budget changes the result", inp, "same result for every sufficient budget, passes <= budget", bad)
    chk.sample({"program": progs[-1][-300:], "results": [(b, fw.asm_line(impl[(len(progs) - 1) * nb + k])[:80]) for k, b in enumerate(BUDGETS)]})
    chk.traces += len(ops)


def replay(path):
    d = json.load(open(path))
    bad = 0
    for v in d.get("violations", []):
        p = v["input"]["program"]
        o = v["input"].get("options", ["1", "1"])
        ops = [fw.asm_op([("main.asm", p)], max_iter=b, opt_s=o[0] == "1", opt_m=o[1] == "1") for b in BUDGETS]
        res = [(b, fw.asm_line(a)) for b, a in zip(BUDGETS, fw.run_oracle_resilient(ops, "rp"))]
        c = sweep_problem(res)
        print("replay ->", c or "holds", [(b, l[:40]) for b, l in res])
        bad += 1 if c else 0
    if bad:
        print("VIOLATION property=C09 replay=%s" % path)
        return 1
    return 0
