"""C11 — every output format carries exactly the assembled bits."""
import json
import fw, decoders

FORMATS = ["binary", "binstr", "hexstr", "bindump", "hexdump", "mif", "deccomma", "hexcomma", "decspace", "hexspace",
           "decc", "hexc", "c", "logisim8", "logisim16", "intelhex", "intelhex,addr_unit:8", "intelhex,addr_unit:16", "intelhex,addr_unit:32"]
GRANULE = {"binary": 8, "binstr": 1, "hexstr": 4, "bindump": 1, "hexdump": 4, "mif": 8, "deccomma": 8, "hexcomma": 8, "decspace": 8,
           "hexspace": 8, "decc": 8, "hexc": 8, "c": 8, "logisim8": 8, "logisim16": 16}

RULE = ("bit strings of lengths 0..4096 covering every residue modulo 8, 16, 128 and 256 (random, all-ones, all-zero, alternating, "
        "single-bit contents) formatted by driver::format_output in every data format and parameter, compared byte for byte with the Lean "
        "model's rendering and decoded by independent text-level decoders; Intel HEX with random unit-aligned block layouts. "
        "Non-trivial = distinct (format, length, content) with length > 0.")


def pad(bits, g):
    r = (-len(bits)) % g
    return bits + "0" * r


def decode(fmt, data):
    name = fmt.split(",")[0]
    text = data.decode("utf-8") if name != "binary" else None
    if name == "binary":
        return decoders.dec_binary(data)
    if name == "binstr":
        return decoders.dec_str(text, 1)
    if name == "hexstr":
        return decoders.dec_str(text, 4)
    if name == "bindump":
        return decoders.dec_dump(text, 1, 8)
    if name == "hexdump":
        return decoders.dec_dump(text, 4, 16)
    if name == "mif":
        return decoders.dec_mif(text)
    if name in ("deccomma", "hexcomma", "decspace", "hexspace"):
        return decoders.dec_separator(text, 10 if name.startswith("dec") else 16, ", " if name.endswith("comma") else " ")
    if name in ("decc", "hexc", "c"):
        return decoders.dec_carray(text, 10 if name == "decc" else 16)
    if name == "logisim8":
        return decoders.dec_logisim(text, 8)
    if name == "logisim16":
        return decoders.dec_logisim(text, 16)
    raise decoders.DecodeError("no decoder")


def gen_bits(rng, n):
    k = rng.randrange(6)
    if k == 0:
        return "1" * n
    if k == 1:
        return "0" * n
    if k == 2:
        return ("10" * n)[:n]
    if k == 3 and n > 0:
        i = rng.randrange(n)
        return "0" * i + "1" + "0" * (n - i - 1)
    return "".join(rng.choice("01") for _ in range(n))


def gen_blocks(rng, n, unit):
    """unit-aligned blocks covering parts of [0, n): list of (offset,size) spans, several spans per block"""
    spans = []
    pos = 0
    while pos < n:
        if rng.random() < 0.3:
            pos += unit * rng.randrange(1, 4)      # gap
            continue
        size = min(n - pos, unit * rng.randrange(1, 40))
        size -= size % 8
        if size <= 0:
            break
        # split block into a few adjacent spans
        cut = pos
        end = pos + size
        while cut < end:
            s = min(end - cut, 8 * rng.randrange(1, 9))
            spans.append((cut, s))
            cut += s
        pos = end
        if rng.random() < 0.5:
            pos += unit * rng.randrange(1, 3)
    # labels: zero-size spans, inside blocks, at block edges and standing alone in gaps
    # (a label never lies strictly inside an item, so: item boundaries, or unit-aligned positions outside all items)
    data = list(spans)
    edges = [o for o, s in data] + [o + s for o, s in data]
    for _ in range(rng.choice([0, 0, 1, 2, 4])):
        if edges and rng.random() < 0.5:
            spans.append((rng.choice(edges), 0))
        else:
            o = unit * rng.randrange(0, max(1, n // unit + 3))
            if not any(a <= o < a + z for a, z in data):
                spans.append((o, 0))
    rng.shuffle(spans)
    # a label recorded *after* data at the same offset (only possible with a backward #addr) splits the block at a
    # boundary that need not be unit-aligned (the F19 family); keep labels first so they never split a block
    spans.sort(key=lambda s: 0 if s[1] == 0 else 1)
    if rng.random() < 0.3:
        spans.append(("n", rng.randrange(0, 9)))    # reservation without offset
    return spans


def expected_ihex_memory(bits, spans, unit):
    """byte address (addr_unit-independent: in output bytes) -> value, for every byte inside a block"""
    mem = {}
    real = sorted((o, s) for o, s in spans if o != "n")
    for o, s in real:
        for j in range(0, s, 8):
            byte = pad(bits[o + j:o + j + 8], 8)
            mem[(o + j) // 8] = int(byte, 2)
    return mem


def run(chk):
    rng = chk.rng
    thorough = chk.tier == "thorough"
    chk.rule = RULE
    for k in fw.known_findings("C11"):
        if k["status"] == "open" and "ops" in k["replay"]:
            ans = fw.run_oracle(k["replay"]["ops"], "c11kf")
            if [a.get("out") for a in ans] == k["replay"]["observed_out"]:
                chk.known(k["id"], k["observed"])
            else:
                chk.notes.append("known finding %s no longer reproduces" % k["id"])

    lengths = list(range(0, 300)) + [rng.randrange(300, 4097) for _ in range(60)] + [511, 512, 513, 1023, 1024, 1025, 2047, 2048, 2049, 4095, 4096]
    if thorough:
        lengths = list(range(0, 4097))
    cases = []
    for n in lengths:
        reps = 1 if n > 600 else 2
        for _ in range(reps):
            bits = gen_bits(rng, n)
            fmts = FORMATS if (thorough or n < 80 or rng.random() < 0.25) else rng.sample(FORMATS, 5)
            for f in fmts:
                spans = []
                if f.startswith("intelhex"):
                    unit = int(f.split(":")[1]) if ":" in f else 8
                    spans = gen_blocks(rng, n, unit)
                cases.append((f, bits, spans))
    # ---- Intel HEX beyond 64 KiB of addresses (finding F72, repaired: the upper address bits were dropped): a few long outputs,
    # mostly gaps, with blocks before, across and after the boundary
    for f, unit in [("intelhex", 8)] * (6 if thorough else 3) + [("intelhex,addr_unit:16", 16)] * (2 if thorough else 1):
        edge = 65536 * unit
        n = edge + unit * rng.randrange(8, 200)
        blocks = [(unit * rng.randrange(0, 4), 8 * rng.randrange(1, 40)),
                  (edge - 8 * rng.randrange(1, 30) - (0 if rng.random() < 0.5 else unit * 64), 8 * rng.randrange(2, 70)),
                  (edge + unit * rng.randrange(0, 3), 8 * rng.randrange(1, 8))]
        spans, lastend = [], 0
        for o, sz in blocks:
            o -= o % unit
            if o < lastend + unit:
                continue
            sz = min(sz, n - o)
            sz -= sz % 8
            if sz > 0:
                spans.append((o, sz))
                lastend = o + sz
        ones = set()
        for o, sz in spans:
            ones.update(i for i in range(o, o + sz) if rng.random() < 0.5)
        bits = "".join("1" if i in ones else "0" for i in range(n))
        cases.append((f, bits, spans))
    ops = []
    for f, bits, spans in cases:
        sp = ",".join("%s:%d" % (o, s) for o, s in spans) or "-"
        ops.append("fmt %s %s %s" % (fw.hx(f), bits or "-", sp))
    impl = fw.run_oracle_resilient(ops, "c11")
    model = fw.run_model(ops, "c11")
    for (f, bits, spans), op, a, m in zip(cases, ops, impl, model):
        chk.evaluations += 1
        if a.get("panic") is not None or a.get("died") or "out" not in a:
            chk.disagree(op[:200], m[:200], json.dumps(a)[:200])
            chk.violate("formatter crashed or failed", {"op": op, "format": f, "len": len(bits)}, "formatted output", a)
            continue
        il = "out " + (a["out"] or "-")
        if il != m:
            chk.disagree(op[:300], m[:300], il[:300], "format %s len %d" % (f, len(bits)))
        if len(bits) > 0:
            chk.nontriv((f, bits, tuple(spans)))
        chk.count("fmt_" + f.split(",")[0])
        data = bytes.fromhex(a["out"]) if a["out"] else b""
        # search oracle: independent decoding of the implementation's bytes
        try:
            if f.startswith("intelhex"):
                unit = int(f.split(":")[1]) if ":" in f else 8
                recs = decoders.dec_intelhex(data.decode())
                mem = {}
                for addr, bs in recs:
                    base = addr * unit // 8
                    for i, b in enumerate(bs):
                        if base + i in mem:
                            raise decoders.DecodeError("two records cover byte %d" % (base + i))
                        mem[base + i] = b
                exp = expected_ihex_memory(bits, spans, unit)
                if all(o == "n" or (o // unit) < 2 ** 32 for o, s in spans) and mem != exp:
                    raise decoders.DecodeError("memory image differs")
            else:
                got = decode(f, data)
                exp = pad(bits, GRANULE[f.split(",")[0]])
                if got != exp:
                    raise decoders.DecodeError("decodes to %d bits %s..., expected %d bits %s..." % (len(got), got[:40], len(exp), exp[:40]))
        except (decoders.DecodeError, UnicodeDecodeError, ValueError) as e:
            chk.violate("format does not decode to the assembled bits", {"op": op, "format": f, "len": len(bits)}, "padded input bits", str(e)[:300])
    j = len(cases) // 2
    chk.sample({"op": ops[j][:200], "impl": str(impl[j])[:200], "model": model[j][:200]})
    chk.sample({"op": ops[3][:200], "impl": str(impl[3])[:200], "model": model[3][:200]})
    chk.traces += len(ops)
    chk.notes.append("theorems: chunks_decode (round trip for every chunk width and length), binary_rt, dump_covers/dump_tight, ihex_block_bytes, ihex_record_len, ihex_checksum_zero")


def replay(path):
    d = json.load(open(path))
    bad = 0
    for v in d.get("violations", []):
        op = v["input"]["op"]
        a = fw.run_oracle([op], "rp")[0]
        f = v["input"]["format"]
        print("replay", f, "len", v["input"]["len"], "->", str(a)[:200])
        if "out" not in a:
            bad += 1
            continue
        bits = op.split(" ")[2]
        bits = "" if bits == "-" else bits
        try:
            if not f.startswith("intelhex"):
                data = bytes.fromhex(a["out"]) if a["out"] else b""
                if decode(f, data) != pad(bits, GRANULE[f.split(",")[0]]):
                    bad += 1
        except Exception:
            bad += 1
    if bad:
        print("VIOLATION property=C11 replay=%s" % path)
        return 1
    return 0
