"""C18 — the command line does what the usage text says."""
import json, os, re
import fw

RULE = ("(1) every format name of usage_help.md, with and without each documented parameter (default, valid, boundary, invalid and malformed "
        "values), unknown and near-miss names and parameters, through driver::parse_output_format vs the Lean model (generic over the "
        "format table extracted from driver.rs) vs the usage text parsed independently; (2) structured command lines (1-4 output groups x "
        "format x -o/-p x short/long x attached/detached spellings x globals placed in any group x input names with/without extension and "
        "directories) through driver::drive on an in-memory file server vs the model vs the intended meaning of the structure. "
        "Non-trivial = distinct format strings with a parameter, distinct command lines with >= 2 groups.")

GOOD = "val = 5\n#d8 val, 0x34\n"
BAD = "#d8 300\n"
DATA_FORMATS = ["binary", "binstr", "hexstr", "bindump", "hexdump", "mif", "intelhex", "deccomma", "hexcomma", "decspace", "hexspace",
                "decc", "hexc", "logisim8", "logisim16"]


def usage_formats():
    """the '## Formats:' section of the usage text, parsed here independently of the translator"""
    text = open(os.path.join(fw.REPO, "src", "usage_help.md")).read()
    sec = text.split("## Formats:")[1]
    fmts = {}
    for m in re.finditer(r"^\* `([^`]+)`", sec, re.M):
        parts = m.group(1).split(",")
        fmts[parts[0]] = dict((p.split(":")[0], int(p.split(":")[1])) for p in parts[1:])
    same = dict(re.findall(r"\* `([\w-]+)`\s*\n\s*Same as: `([^`]+)`", sec))
    return fmts, same


def ext_of(fmt):
    name = (fmt or "binary").split(",")[0]
    return {"binary": "bin", "mesen-mlb": "mlb"}.get(name, "txt")


def set_ext(path, ext):
    d, _, last = path.rpartition("/")
    body = last[1:]
    stem = last if "." not in body else last[:1 + body.rindex(".")]
    return (d + "/" if d else "") + stem + "." + ext


def render_group(rng, g):
    args = []
    if g["fmt"] is not None:
        args += rng.choice([["-f", g["fmt"]], ["-f" + g["fmt"]], ["--format=" + g["fmt"]], ["--format", g["fmt"]]])
    if g["out"] is not None:
        args += rng.choice([["-o" + g["out"]], ["--output=" + g["out"]], ["-o", g["out"]]])
    if g["print"]:
        args += [rng.choice(["-p", "--print"])]
    return args


def gen_command(rng, formats):
    cmd = {"inputs": [], "groups": [], "quiet": rng.random() < 0.7, "iters": None, "defines": [], "color": None, "flags": [], "mode": "good"}
    ninputs = 1 if rng.random() < 0.75 else rng.choice([0, 2, 2, 3])
    names = ["main.asm", "src/prog.asm", "prog", "a.b.asm", ".hidden", "dir.x/main", "out.bin", "notes.txt", "x.mlb"]
    for i in range(ninputs):
        cmd["inputs"].append(rng.choice(names) if i == 0 else "second%d.asm" % i)
    if len(cmd["inputs"]) >= 2 and rng.random() < 0.3:
        # a later input named like the output derived from the first (finding F71, repaired: it was overwritten)
        alt = set_ext(cmd["inputs"][0], rng.choice(["bin", "txt"]))
        if alt != cmd["inputs"][0]:          # (the same file twice is a different matter: its symbols are declared twice)
            cmd["inputs"][1] = alt
    for _ in range(rng.choice([1, 1, 2, 2, 3, 4])):
        fmt = rng.choice([None, None] + formats) if rng.random() < 0.9 else rng.choice(["nosuch", "binary,x:1", "annotated,base:3", "hexstr,"])
        cmd["groups"].append({"fmt": fmt, "out": rng.choice([None, None, "o%d.out" % len(cmd["groups"]), "dir/o.bin"]), "print": rng.random() < 0.25})
    if rng.random() < 0.3:
        cmd["iters"] = rng.choice(["2", "3", "10", "0", "x", "+4"])
    if rng.random() < 0.3:
        cmd["defines"].append(rng.choice(["val=7", "val=0x10", "val=255", "val=256", "other=1", "val", "val=", "val=-", "a=b=c", "val=false"]))
    if rng.random() < 0.15:
        cmd["color"] = rng.choice(["on", "off", "maybe", None])
        if cmd["color"] is None:
            cmd["color"] = "BARE"
    if rng.random() < 0.1:
        cmd["flags"].append(rng.choice(["--debug-no-optimize-static", "--debug-no-optimize-matcher", "-h", "-v", "--help", "--version", "--bogus", "-z"]))
    if rng.random() < 0.1:
        cmd["mode"] = "bad"
    return cmd


def render_command(rng, cmd):
    groups = [render_group(rng, g) for g in cmd["groups"]]
    def place(args):
        groups[rng.randrange(len(groups))].extend(args) if rng.random() < 0.5 else groups[rng.randrange(len(groups))].insert(0, args[0]) if len(args) == 1 else groups[0].extend(args)
    for i in cmd["inputs"]:
        k = rng.randrange(len(groups))
        groups[k].insert(rng.randrange(len(groups[k]) + 1) if not any(a in ("-f", "--format", "-o", "-t", "-d", "--define") for a in groups[k]) else 0, i)
    if cmd["quiet"]:
        place([rng.choice(["-q", "--quiet"])])
    if cmd["iters"] is not None:
        place(rng.choice([["-t" + cmd["iters"]], ["--iters=" + cmd["iters"]], ["-t", cmd["iters"]]]))
    for d in cmd["defines"]:
        place(rng.choice([["-d" + d], ["-d", d], ["--define=" + d], ["--define", d]]))
    if cmd["color"] is not None:
        place(["--color"] if cmd["color"] == "BARE" else ["--color=" + cmd["color"]])
    for f in cmd["flags"]:
        place([f])
    argv = []
    for i, g in enumerate(groups):
        if i:
            argv.append("--")
        argv += g
    return argv


def expected(cmd, fmts_ok):
    """intended meaning: ('err-before', None) | ('asm-fail', None) | ('ok', [(name, fmt)...])"""
    for f in cmd["flags"]:
        if f in ("--bogus", "-z"):
            return ("err-before", None)
    for g in cmd["groups"]:
        if g["fmt"] is not None and g["fmt"] not in fmts_ok:
            return ("err-before", None)
    if cmd["iters"] in ("0", "x"):
        return ("err-before", None)
    for d in cmd["defines"]:
        if d in ("val=", "val=-", "a=b=c"):
            return ("err-before", None)
    if cmd["color"] in ("maybe", "BARE"):
        return ("err-before", None)
    # help and version are honoured wherever they appear: nothing is assembled or written (the statement; finding F78, repaired:
    # a name that cannot be derived was reported first - and this oracle had copied that order)
    if any(f in ("-h", "-v", "--help", "--version") for f in cmd["flags"]):
        return ("ok", [])
    writes = []
    for g in cmd["groups"]:
        if g["print"]:
            continue
        if g["out"] is not None:
            writes.append((g["out"], g["fmt"]))
        elif cmd["inputs"]:
            name = set_ext(cmd["inputs"][0], ext_of(g["fmt"] if g["fmt"] else "binary"))
            # an output name is never derived that equals an input name
            if name in cmd["inputs"]:
                return ("err-before", None)
            writes.append((name, g["fmt"]))
    if not cmd["inputs"]:
        return ("err-before", None)
    if cmd["mode"] == "bad":
        return ("asm-fail", None)
    for d in cmd["defines"]:
        if d.startswith("other") or d in ("val=256", "val", "val=false"):
            return ("asm-fail", None)
    return ("ok", writes)


def run(chk):
    rng = chk.rng
    thorough = chk.tier == "thorough"
    chk.rule = RULE
    usage, same = usage_formats()
    for k in fw.known_findings("C18"):
        if k["status"] == "open" and "ops" in k["replay"]:
            ans = fw.run_oracle(k["replay"]["ops"], "c18kf")
            if all(("ok" in a) == exp for a, exp in zip(ans, k["replay"]["accepted"])) if "accepted" in k["replay"] else \
               [[w["name"] for w in a.get("writes", [])] for a in ans] == k["replay"]["writes"]:
                chk.known(k["id"], k["observed"])
            else:
                chk.notes.append("known finding %s no longer reproduces: %s" % (k["id"], str(ans)[:200]))
    undocumented = {"annotatedhex", "c"}

    # ---------------- format strings
    strings = []
    params = sorted({p for ps in usage.values() for p in ps} | {"base", "group", "addr_unit", "foo", "bits"})
    values = ["0", "1", "2", "3", "4", "8", "16", "32", "64", "128", "256", "7", "-1", "+2", "", "x", "1.0", "18446744073709551616", "0x10", " 2"]
    for name in list(usage) + ["annotatedhex", "c", "nosuch", "Binary", "binary ", "hexstr2", "", "intel-hex", "mesen_mlb", "tcgame2"]:
        strings.append(name)
        for p in params:
            strings.append("%s,%s" % (name, p))
            for v in values:
                strings.append("%s,%s:%s" % (name, p, v))
        for _ in range(6 if thorough else 2):
            k = rng.randrange(2, 4)
            strings.append(name + "".join(",%s:%s" % (rng.choice(params), rng.choice(values)) for _ in range(k)))
        strings.append(name + ",base:16:2")
        strings.append(name + ",")
        # a parameter given twice: the value that is not the last one must be checked too (finding F74, repaired)
        for p in sorted(usage.get(name, {})):
            strings.append("%s,%s:%s,%s:%s" % (name, p, rng.choice(["0", "7", "3", "x"]), p, usage[name][p]))
            strings.append("%s,%s:%s,%s:%s" % (name, p, usage[name][p], p, rng.choice(["0", "7", "3", "x"])))
    ops = ["ofmt " + fw.hx(s) for s in strings]
    impl = fw.run_oracle(ops, "c18f")
    model = fw.run_model(ops, "c18f")
    accepted = set()
    for sfmt, op, a, m in zip(strings, ops, impl, model):
        chk.evaluations += 1
        ia = ("ok " + a["ok"]) if "ok" in a else "err " + a.get("err", str(a))
        if ia != m:
            chk.disagree("ofmt " + sfmt, m, ia)
        name = sfmt.split(",")[0]
        ps = sfmt.split(",")[1:]
        if "," in sfmt:
            chk.nontriv(sfmt)
        ok = "ok" in a
        if ok:
            accepted.add(sfmt)
        # the statement, from the usage text
        if name not in usage and name not in undocumented:
            if ok:
                chk.violate("undocumented format name accepted", {"op": op, "format": sfmt}, "error", ia)
            continue
        if name in undocumented:
            chk.known_hits["F27"] = chk.known_hits.get("F27", 0) + (1 if ok else 0)
            continue
        if not ps:
            if not ok:
                chk.violate("documented format rejected", {"op": op, "format": sfmt}, "accepted", ia)
            elif name in same:
                # must equal the expansion the usage text gives
                b = fw.run_oracle(["ofmt " + fw.hx(same[name])], "c18s")[0]
                if b.get("ok") != a.get("ok"):
                    chk.violate("'Same as' format differs from its expansion", {"op": op, "format": sfmt}, b.get("ok"), ia)
            continue
        keys = [p.split(":")[0] for p in ps]
        if any(k not in usage[name] for k in keys):
            if ok:
                chk.violate("undocumented parameter accepted", {"op": op, "format": sfmt}, "error", ia)
            continue
        if len(ps) == 1 and ":" in ps[0] and ps[0].count(":") == 1:
            k, v = ps[0].split(":")
            if v == str(usage[name][k]):
                plain = fw.run_oracle(["ofmt " + fw.hx(name)], "c18d")[0]
                if not ok or plain.get("ok") != a.get("ok"):
                    chk.violate("documented default value does not select the default", {"op": op, "format": sfmt}, plain.get("ok"), ia)
            if name == "tcgame" and k == "base" and v.strip().lstrip("+").isdigit() and int(v) not in (2, 16) and ok:
                chk.violate("tcgame base outside the documented set {2,16} accepted", {"op": op, "format": sfmt}, "error", ia)
    # a value outside the documented set is rejected wherever it stands: a string with several parameters is accepted only if
    # each of its `key:value` parts is accepted on its own
    tested = set(strings)
    for sfmt in strings:
        name, ps = sfmt.split(",")[0], sfmt.split(",")[1:]
        if len(ps) < 2 or name not in usage or sfmt not in accepted:
            continue
        for part in ps:
            single = "%s,%s" % (name, part)
            if single in tested and single not in accepted:
                chk.violate("a format string is accepted although one of its parameters is rejected on its own", {"format": sfmt, "part": part},
                            "error", "accepted")
                break
    chk.sample({"format": strings[40], "impl": impl[40], "model": model[40]})
    chk.traces += len(ops)

    # ---------------- command lines
    fmts_ok = [f for f in DATA_FORMATS + ["annotated", "annotated,base:2,group:4", "intelhex,addr_unit:16", "symbols", "addrspan", "tcgame", "mesen-mlb", "annotatedbin", "hexstr,", ]
               if ("ofmt-check", f)]
    okset = set()
    probe = fw.run_oracle(["ofmt " + fw.hx(f) for f in fmts_ok], "c18p")
    for f, a in zip(fmts_ok, probe):
        if "ok" in a:
            okset.add(f)
    formats = [f for f in fmts_ok if f in okset and f != "mesen-mlb"]
    cmds = []
    for _ in range(20000 if thorough else 4000):
        c = gen_command(rng, formats)
        argv = render_command(rng, c)
        # the order of the input files is their order of appearance on the command line
        c["inputs"] = sorted(c["inputs"], key=lambda n: argv.index(n))
        unw = []
        if rng.random() < 0.05:
            exp = expected(c, okset)
            if exp[0] == "ok" and exp[1]:
                unw = [rng.choice(exp[1])[0]]
        cmds.append((c, argv, unw))
    aops, mops = [], []
    for c, argv, unw in cmds:
        prog = GOOD if c["mode"] == "good" else BAD
        files = [(n, prog if i == 0 else "#d8 0x56\n") for i, n in enumerate(c["inputs"])]
        aops.append("drv %d %s %s %s" % (len(files), " ".join("%s %s" % (fw.hx(n), fw.hx(p)) for n, p in files),
                                         ",".join("w:" + fw.hx(u) for u in unw) or "-", " ".join(fw.hx(a) for a in argv)))
        mode = c["mode"]
        mops.append("drv %s %s %s" % (mode, ",".join(fw.hx(u) for u in unw) or "-", " ".join(fw.hx(a) for a in argv)))
    # normalise doubled blanks from empty file lists
    aops = [re.sub(r"  +", " ", o) for o in aops]
    impl = fw.run_oracle_resilient(aops, "c18c")
    model = fw.run_model(mops, "c18c")
    for (c, argv, unw), a, m in zip(cmds, impl, model):
        chk.evaluations += 1
        inp = {"argv": argv, "inputs": c["inputs"], "program": "good" if c["mode"] == "good" else "bad", "unwritable": unw}
        if a.get("panic") is not None or a.get("died"):
            chk.disagree(" ".join(argv), m, "panic")
            chk.violate("command line crashed the driver", inp, "ok or error", str(a)[:300])
            continue
        if len(c["groups"]) >= 2:
            chk.nontriv(tuple(argv))
        errs = [x["descr"] for x in a.get("messages", []) if x["kind"] == "error"]
        mf = dict(kv.split("=", 1) for kv in m.split(" "))
        mw = [] if mf["writes"] == "-" else [w.split(":") for w in mf["writes"].split(",")]
        iw = [(fw.hx(w["name"]), w["data"] or "-") for w in a.get("writes", [])]
        same_w = len(mw) == len(iw) and all(x[0] == y[0] and (x[1] == "?" or x[1] == y[1]) for x, y in zip(mw, iw))
        merr = bytes.fromhex(mf["err"]).decode() if mf["err"] != "-" else None
        ok_match = (mf["ok"] == "true") == bool(a.get("ok"))
        err_match = (merr is None) or (merr == "write error") or (errs and errs[0] == merr)
        if not (same_w and ok_match and err_match):
            chk.disagree(" ".join(argv), m, json.dumps({"ok": a.get("ok"), "errs": errs[:2], "writes": iw})[:400])
        chk.count("cmd_" + ("ok" if a.get("ok") else "fail"))
        # the statement
        kind, writes = expected(c, okset)
        if kind == "ok":
            names = [w[0] for w in writes]
            if unw:
                cut = names.index(unw[0])
                if a.get("ok") or [w["name"] for w in a.get("writes", [])] != names[:cut]:
                    chk.violate("failed write: run must fail, earlier groups written, nothing after", inp, names[:cut], a.get("writes"))
            elif not a.get("ok") or errs or [w["name"] for w in a.get("writes", [])] != names:
                chk.violate("groups/files written differ from the command's meaning", inp, names, {"ok": a.get("ok"), "errs": errs[:2], "writes": [w["name"] for w in a.get("writes", [])]})
            else:
                for w in a.get("writes", []):
                    if w["name"] in c["inputs"]:
                        chk.violate("an output file name equals an input file name", inp, "different name", w["name"])
        else:
            if a.get("ok") or not errs or a.get("writes"):
                chk.violate("failing command must report an error, fail, and write nothing", inp, kind, {"ok": a.get("ok"), "errs": errs[:2], "writes": [w["name"] for w in a.get("writes", [])]})
            elif kind == "err-before" and a.get("has_output"):
                chk.violate("invalid command line was assembled anyway", inp, "error before assembling", errs[:2])
    # ---- groups do not affect each other: every file of a command with several groups holds exactly what the same group
    # writes when it is the only group of the command (same inputs, same global options)
    multi = []
    for (c, argv, unw), a in zip(cmds, impl):
        kind, writes = expected(c, okset)
        if kind == "ok" and writes and not unw and len(c["groups"]) >= 2 and a.get("ok") and len(multi) < (1500 if thorough else 250):
            multi.append((c, argv, a))
    # a few commands built on purpose: the same format in two groups with different parameters
    for _ in range(200 if thorough else 40):
        c = gen_command(rng, formats)
        fam = rng.choice([["annotated", "annotated,base:2,group:8", "annotatedbin", "annotated,base:8,group:3"],
                          ["tcgame", "tcgamebin", "tcgame,base:2,group:4"],
                          ["intelhex", "intelhex,addr_unit:16", "intelhex,addr_unit:32"]])
        fam = [f for f in fam if f in okset or f.split(",")[0] in okset]
        c["groups"] = [{"fmt": f, "out": "o%d.out" % i, "print": False} for i, f in enumerate(rng.sample(fam, min(len(fam), rng.randrange(2, 4))))]
        c.update({"inputs": ["main.asm"], "iters": None, "defines": [], "color": None, "flags": [], "mode": "good"})
        multi.append((c, render_command(rng, c), None))
    sops, smeta = [], []
    for c, argv, a in multi:
        files = [(n, GOOD if i == 0 else "#d8 0x56\n") for i, n in enumerate(c["inputs"])]
        fpart = "drv %d %s - " % (len(files), " ".join("%s %s" % (fw.hx(n), fw.hx(p)) for n, p in files))
        if a is None:
            sops.append(fpart + " ".join(fw.hx(x) for x in argv)); smeta.append((c, argv, "whole", None))
        for gi, g in enumerate(c["groups"]):
            if g["print"]:
                continue
            solo = dict(c); solo["groups"] = [g]
            sargv = render_command(rng, solo)
            # the same order of the input files as in the whole command (the files are assembled in that order)
            pos = [i for i, x in enumerate(sargv) if x in c["inputs"]]
            for i, n in zip(pos, [x for x in argv if x in c["inputs"]]):
                sargv[i] = n
            sops.append(fpart + " ".join(fw.hx(x) for x in sargv)); smeta.append((c, argv, "solo", gi))
    sres = fw.run_oracle_resilient([re.sub(r"  +", " ", o) for o in sops], "c18s")
    whole = {}
    for (c, argv, kind, gi), r in zip(smeta, sres):
        if kind == "whole":
            whole[id(c)] = r
    for (c, argv, a) in multi:
        if a is None:
            a = whole.get(id(c), {})
        c["_whole"] = a
    for (c, argv, kind, gi), r in zip(smeta, sres):
        if kind != "solo":
            continue
        chk.evaluations += 1
        a = c["_whole"]
        wrote = [g for g in c["groups"] if not g["print"]]
        k = wrote.index(c["groups"][gi])
        aw = a.get("writes", [])
        rw = r.get("writes", [])
        chk.count("group_isolation")
        if not a.get("ok") or not r.get("ok") or len(rw) != 1 or k >= len(aw) or aw[k]["data"] != rw[0]["data"]:
            chk.violate("an output group is affected by the other groups of the command", {"argv": argv, "group": gi, "inputs": c["inputs"]},
                        "the file the group writes when it is alone: %s" % (rw[0]["data"][:80] if rw else rw),
                        "%s" % (aw[k]["data"][:80] if k < len(aw) else [w["name"] for w in aw]))
    chk.traces += len(sops)
    chk.sample({"argv": cmds[0][1], "impl": {k: impl[0].get(k) for k in ("ok", "nerrors", "writes")}, "model": model[0]})
    chk.traces += len(aops)
    # ---------------- the colour option on the binary built from /repo: honoured for every kind of diagnostic, wherever it stands
    # (finding F75, repaired: errors about the command line itself were always coloured)
    import subprocess, tempfile, shutil
    binary = fw.build_real_binary()
    tmp = tempfile.mkdtemp(prefix="c18-", dir=fw.CACHE)
    try:
        open(os.path.join(tmp, "good.asm"), "w").write("#d8 1\n")
        open(os.path.join(tmp, "bad.asm"), "w").write("#d8 nosuchsymbol\n")
        faults = [["good.asm", "-f", "nosuch"], ["good.asm", "-f", "annotated,base:3"], ["good.asm", "-d", "x="], ["good.asm", "-t", "0"],
                  ["good.asm", "--bogus"], ["bad.asm", "-p"], ["good.asm", "-f", "binary,foo:1"], []]
        for fa in faults:
            for colour in (["--color=off"], ["--color", "off"], ["--color=on"], []):
                argv = list(fa)
                k = rng.randrange(len(argv) + 1) if argv else 0
                # (not between an option and its value)
                while k > 0 and k < len(argv) and argv[k - 1] in ("-f", "-d", "-t"):
                    k += 1
                argv[k:k] = colour
                r = subprocess.run([binary] + argv + ["-q"], cwd=tmp, stdout=subprocess.PIPE, stderr=subprocess.PIPE, timeout=20)
                chk.evaluations += 1
                text = r.stderr + r.stdout
                chk.count("colour_" + ("off" if "off" in " ".join(colour) else "on"))
                if b"error" not in text or r.returncode != 1:
                    chk.violate("a faulty command line is not reported", {"argv": argv}, "exit 1 and an error", "exit %d: %s" % (r.returncode, text[-120:].decode(errors="replace")))
                elif ("off" in " ".join(colour)) == (b"\x1b[" in text):
                    chk.violate("the colour option is not honoured", {"argv": argv}, "escape sequences exactly without --color=off", text[-160:].decode(errors="replace"))
    finally:
        shutil.rmtree(tmp, ignore_errors=True)
    chk.notes.append("undocumented aliases accepted: annotatedhex, c (known finding F27); usage formats: %d" % len(usage))


def replay(path):
    d = json.load(open(path))
    for v in d.get("violations", []):
        print("replay input:", json.dumps(v["input"])[:500], "expected", v["expected"], "got", v["got"])
    if d.get("violations"):
        print("VIOLATION property=C18 replay=%s" % path)
        return 1
    return 0
