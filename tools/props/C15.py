"""C15 — symbols resolve lexically and independently of declaration order."""
import json, os
import fw

RULE = ("generated label trees up to depth 4 with local names repeated under different parents, local and global constants (literal, "
        "chained through other constants in any order, address-dependent), references from every position at every dot-level and "
        "through dotted paths, emitted by `#d16`, by an untyped instruction operand and by a size-switching instruction (so that "
        "addresses move between passes); faults: undeclared names (bare, relative, and as a non-final component of a dotted path ending in a global's name), duplicate declaration in one scope, declaration or reference that skips a level, "
        "undeclared name. Expected values come from a direct reading of the statement (scope tree computed in Python); the "
        "implementation and the Lean model are run on every program, and on a twin in which one address-free global constant "
        "declaration is moved to another position with the same enclosing symbol. Programs in which a constant stands between a label "
        "and a later relative declaration/reference are evaluated under both readings ('last label' / 'last symbol', finding F16). "
        "Also: dependency chains of 2-14 address-free constants declared forwards, backwards and shuffled, read by data and by an `#if` "
        "condition (the order must not matter); nested declarations and references inside selected `#if`/`#elif`/`#else` arms against the "
        "flattened program. Non-trivial = distinct programs with at least one relative reference.")

HEAD = """#ruledef
{
    emit {x} => x`16
    jmp {a} => { assert(a < 0x10), 0x1 @ a`4 }
    jmp {a} => { assert(a >= 0x10), 0x20 @ a`16 }
    pad => 0x00
}
"""
LOCALS = ["a", "b", "x", "loop"]


class Gen:
    def __init__(self, rng):
        self.rng = rng
        self.lines = []          # ('decl', level, name, kind, valuespec) | ('ref', level, path, how) | ('raw', text)

    def build(self):
        rng = self.rng
        nglob = rng.randrange(2, 5)
        chain = []               # names of current label chain (statement reading)
        gid = 0
        for g in range(nglob):
            self.lines.append(("decl", 0, "g%d" % g, "label", None))
            self.emit_refs()
            for _ in range(rng.randrange(0, 4)):
                self.subtree(1, rng.randrange(1, 4))
            if rng.random() < 0.3:
                # a local name declared twice under sibling parents, the second parent being a constant, its child
                # address-valued, behind a size-switching forward reference
                a, c, q = rng.sample(LOCALS, 3)
                self.lines.append(("ref", 0, ["g%d" % (nglob - 1)], "jmp"))
                self.lines.append(("decl", 1, a + "1", "label", None))
                self.lines.append(("decl", 2, q, "const", ("lit", rng.randrange(1, 200))))
                self.lines.append(("decl", 1, c + "2", "const", ("lit", 0)))
                self.lines.append(("decl", 2, q, "const", ("here",)))
                self.lines.append(("ref", 2, [q], rng.choice(["emit", "d16", "jmp"])))
        # global constants: literal, chained, address-dependent; placed anywhere at top level positions
        nconst = rng.randrange(0, 4)
        names = ["K%d" % i for i in range(nconst)]
        for i, n in enumerate(names):
            kind = rng.choice(["lit", "chain", "addr"])
            if kind == "chain" and nconst > 1:
                other = rng.choice([m for m in names if m != n])
                spec = ("chain", other, rng.randrange(1, 5))
            elif kind == "addr":
                spec = ("addr", "g%d" % rng.randrange(nglob), rng.randrange(0, 3))
            else:
                spec = ("lit", rng.randrange(0, 500))
            pos = rng.randrange(0, len(self.lines) + 1)
            self.lines.insert(pos, ("decl", 0, n, "const", spec))
        # break chains that are cyclic: K_i chains only to larger index
        fixed = []
        for l in self.lines:
            if l[0] == "decl" and l[3] == "const" and l[4][0] == "chain":
                i, j = int(l[2][1:]), int(l[4][1][1:])
                if j <= i:
                    l = ("decl", 0, l[2], "const", ("lit", 7 * i + 3))
            fixed.append(l)
        self.lines = fixed
        self.lines.append(("raw", "pad"))

    def subtree(self, level, maxdepth):
        rng = self.rng
        name = rng.choice(LOCALS)
        kind = "label" if rng.random() < 0.75 else "const"
        self.lines.append(("decl", level, name, kind, (("lit", rng.randrange(0, 300)) if rng.random() < 0.6 else ("here",)) if kind == "const" else None))
        self.emit_refs()
        if level < maxdepth and level < 4:
            for _ in range(rng.randrange(0, 3)):
                self.subtree(level + 1, maxdepth)

    def emit_refs(self):
        rng = self.rng
        for _ in range(rng.randrange(0, 3)):
            self.lines.append(("ref", None))       # filled in later, when all declarations are known
        if rng.random() < 0.3:
            self.lines.append(("raw", "pad"))


def scope_walk(lines, labels_only):
    """declared full paths -> index of declaration line, and the context after each line; errors by the scope rules"""
    ctx, decls, ctx_at = [], {}, []
    err = None
    for i, l in enumerate(lines):
        if l[0] == "decl":
            _, level, name, kind, spec = l
            if level > len(ctx):
                err = err or "skip"
                ctx_at.append(list(ctx))
                continue
            full = tuple(ctx[:level] + [name])
            if full in decls:
                err = err or "dup"
            else:
                decls[full] = i
            if kind == "label" or not labels_only:
                ctx = list(full)
        ctx_at.append(list(ctx))
    return decls, ctx_at, err


def fill_refs(rng, lines, fault):
    decls, ctx_at, _ = scope_walk(lines, False)
    decls_l, ctx_l, _ = scope_walk(lines, True)
    paths = sorted(decls)
    out = []
    for i, l in enumerate(lines):
        if l[0] != "ref" or len(l) == 4:
            out.append(l)
            continue
        ctx = ctx_at[i]
        how = rng.choice(["d16", "d16", "emit", "jmp"])
        r = rng.random()
        target = rng.choice(paths)
        if r < 0.4:
            out.append(("ref", 0, list(target), how))                # absolute dotted path
        else:
            # relative: choose a level k <= len(ctx) and a declared path below ctx[:k]
            k = rng.randrange(0, len(ctx) + 1)
            below = [p for p in paths if list(p[:k]) == ctx[:k] and len(p) > k]
            if below:
                p = rng.choice(below)
                out.append(("ref", k, list(p[k:]), how))
            else:
                out.append(("ref", 0, list(target), how))
    if fault == "undeclared":
        out.insert(rng.randrange(len(out)), ("ref", 0, ["nosuch"], "d16"))
    elif fault == "undeclared_rel":
        out.insert(rng.randrange(len(out)), ("ref", 1, ["nosuch"], "d16"))
    elif fault == "undeclared_mid":
        # a dotted path whose non-final component is undeclared in the scope reached so far, while its
        # last component is the name of an existing global: still an unknown symbol
        globs = [p[0] for p in paths if len(p) == 1]
        g = rng.choice(globs) if globs else "nosuch2"
        i = rng.randrange(len(out) + 1)
        _, ctx2, _ = scope_walk(out, False)
        depth = len(ctx2[i - 1]) if i > 0 else 0
        form = rng.randrange(3)
        if form == 0 or not globs:
            out.insert(i, ("ref", 0, ["nosuch", g], rng.choice(["d16", "emit"])))
        elif form == 1:
            out.insert(i, ("ref", 0, [rng.choice(globs), "nosuch", g], rng.choice(["d16", "emit"])))
        else:
            out.insert(i, ("ref", rng.randrange(0, depth + 1), ["nosuch", g], "d16"))
    elif fault == "ref_skip":
        # more dots than the context is deep at that point
        i = rng.randrange(len(out))
        _, ctx2, _ = scope_walk(out, False)
        depth = len(ctx2[i - 1]) if i > 0 else 0
        nm = rng.choice([p[-1] for p in paths])
        out.insert(i, ("ref", depth + 1, [nm], "d16"))
    elif fault == "dup":
        ds = [l for l in out if l[0] == "decl"]
        d = rng.choice(ds)
        i = out.index(d)
        out.insert(i + 1, ("decl", d[1], d[2], "label", None))
    elif fault == "decl_skip":
        i = rng.randrange(len(out))
        _, ctx2, _ = scope_walk(out, False)
        depth = len(ctx2[i - 1]) if i > 0 else 0
        out.insert(i, ("decl", depth + 1, "zz", "label", None))
    return out


def render(lines):
    t = [HEAD]
    for l in lines:
        if l[0] == "decl":
            _, level, name, kind, spec = l
            if kind == "label":
                t.append("." * level + name + ":")
                t.append("    pad")
            else:
                if spec[0] == "lit":
                    v = str(spec[1])
                elif spec[0] == "here":
                    v = "$"
                elif spec[0] == "chain":
                    v = "%s + %d" % (spec[1], spec[2])
                else:
                    v = "%s + %d" % (spec[1], spec[2])
                t.append("." * level + name + " = " + v)
        elif l[0] == "ref":
            _, level, path, how = l
            txt = "." * level + ".".join(path)
            t.append({"d16": "    #d16 %s", "emit": "    emit %s", "jmp": "    jmp %s"}[how] % txt)
        else:
            t.append("    " + l[1])
    return "\n".join(t) + "\n"


def expected(lines, labels_only):
    """('ok', bits, {full name: value}) or ('err', cls) under one reading of the scope rule"""
    decls, ctx_at, err = scope_walk(lines, labels_only)
    if err:
        return ("err", err)
    # resolve references
    refs = {}
    for i, l in enumerate(lines):
        if l[0] == "ref":
            _, level, path, how = l
            ctx = ctx_at[i]
            if level > len(ctx):
                return ("err", "unknown")
            full = tuple(ctx[:level] + path)
            if full not in decls:
                return ("err", "unknown")
            refs[i] = full
    # layout: sizes depend on values only for jmp (fixed point by iteration from pessimistic guess)
    val = {}
    size = {i: 24 for i, l in enumerate(lines) if l[0] == "ref" and l[3] == "jmp"}
    for _ in range(40):
        pos, addr = 0, {}
        for i, l in enumerate(lines):
            if l[0] == "decl":
                if l[3] == "label":
                    addr[i] = pos // 8
                    pos += 8
                elif l[4][0] == "here":
                    addr[i] = pos // 8
            elif l[0] == "ref":
                pos += 16 if l[3] in ("d16", "emit") else size[i]
            else:
                pos += 8
        def value_of(full, depth=0):
            i = decls[full]
            l = lines[i]
            if l[3] == "label":
                return addr[i]
            spec = l[4]
            if spec[0] == "lit":
                return spec[1]
            if spec[0] == "here":
                return addr[i]
            if depth > 20:
                raise RecursionError
            return value_of((spec[1],), depth + 1) + spec[2]
        changed = False
        for i, full in refs.items():
            if lines[i][3] == "jmp":
                v = value_of(full)
                ns = 8 if v < 0x10 else 24
                if ns != size[i]:
                    size[i] = ns
                    changed = True
        if not changed:
            break
    else:
        return ("unstable",)
    bits = ""
    for i, l in enumerate(lines):
        if l[0] == "decl":
            if l[3] == "label":
                bits += "00000000"
        elif l[0] == "ref":
            v = value_of(refs[i])
            if l[3] == "jmp":
                bits += (format(1, "04b") + format(v & 15, "04b")) if v < 0x10 else (format(0x20, "08b") + format(v & 0xffff, "016b"))
            else:
                bits += format(v & 0xffff, "016b")
        else:
            bits += "00000000"
    syms = {".".join(full): value_of(full) for full in decls}
    return ("ok", bits, syms)


def gen_chain(rng):
    """address-free constants forming a dependency chain, declared in a random order (forwards, backwards, shuffled), read by
    data, by an `#if` condition and by a bank definition: (program, expected hex) - the order must not matter"""
    n = rng.randrange(2, 15)
    base = rng.randrange(0, 40)
    decls = ["c%d = c%d + 1" % (i, i + 1) for i in range(n - 1)] + ["c%d = %d" % (n - 1, base)]
    how = rng.choice(["fwd", "rev", "shuffle", "rev"])
    if how == "fwd":
        decls.reverse()
    elif how == "shuffle":
        rng.shuffle(decls)
    top = base + n - 1
    k = rng.randrange(n)
    use = ["#d8 c0", "#d8 c%d" % k]
    hx = "%02x%02x" % (top, base + n - 1 - k)
    if rng.random() < 0.6:
        cond = rng.choice(["c0 == %d" % top, "c0 != %d" % top, "c%d > %d" % (k, base + n - 1 - k - 1)])
        val = {"c0 == %d" % top: True, "c0 != %d" % top: False}.get(cond, True)
        use += ["#if %s" % cond, "{", "    #d8 0xaa", "}", "#else", "{", "    #d8 0xbb", "}"]
        hx += "aa" if val else "bb"
    parts = [decls, use]
    if rng.random() < 0.5:
        parts.reverse()
        # (data first, declarations after)
        text = "\n".join(parts[0] + parts[1]) + "\n"
    else:
        text = "\n".join(parts[0] + parts[1]) + "\n"
    return text, hx, how, n


def gen_if_scoped(rng):
    """nested declarations and references inside taken `#if` arms (global labels stay outside the arms: finding F15 is about
    those): (program, the same program with each conditional replaced by the arm it selects)"""
    a, b = [HEAD, "T = true", "F = 1 == 2"], [HEAD, "T = true", "F = 1 == 2"]
    ng = rng.randrange(2, 5)
    for g in range(ng):
        for t in (a, b):
            t.append("g%d:" % g)
            t.append("    emit g%d" % g)
        for j in range(rng.randrange(0, 4)):
            inner = [".l%d:" % j, "    emit .l%d" % j]
            if rng.random() < 0.4:
                inner += ["..d%d:" % j, "    emit ..d%d" % j, "    emit .l%d.d%d" % (j, j)]
            dead = ["    emit 0x%x" % rng.randrange(256)]
            r = rng.random()
            if r < 0.35:
                a += ["#if T", "{"] + inner + ["}"]; b += inner
            elif r < 0.55:
                a += ["#if F", "{"] + dead + ["}", "#else", "{"] + inner + ["}"]; b += inner
            elif r < 0.7:
                a += ["#if F", "{"] + dead + ["}", "#elif T", "{"] + inner + ["}"]; b += inner
            else:
                a += inner; b += inner
            if rng.random() < 0.5:
                for t in (a, b):
                    t.append("    emit g%d.l%d" % (g, j))
        for t in (a, b):
            if rng.random() < 0.5:
                t.append(".tail:")
                t.append("    emit .tail")
            break
        if a[-1].startswith("    emit .tail") and not b[-1].startswith("    emit .tail"):
            b += a[-2:]
    for g in range(ng):
        if rng.random() < 0.5:
            for t in (a, b):
                t.append("    emit g%d" % g)
    return "\n".join(a) + "\n", "\n".join(b) + "\n"


def move_constant(rng, lines):
    """move one address-free global constant to another position with the same enclosing symbol (same context
    under both readings): i.e. next to another global-level position that is not followed by relative items"""
    idx = [i for i, l in enumerate(lines) if l[0] == "decl" and l[1] == 0 and l[3] == "const" and l[4][0] in ("lit", "chain")]
    if not idx:
        return None
    i = rng.choice(idx)
    l = lines[i]
    rest = lines[:i] + lines[i + 1:]
    # positions directly in front of a global label: the constant's scope is replaced at once by the label's
    spots = [j for j, m in enumerate(rest) if m[0] == "decl" and m[1] == 0 and m[3] == "label"]
    j = rng.choice(spots)
    return rest[:j] + [l] + rest[j:]


def parse(line):
    if not line.startswith("ok"):
        return ("err", line[4:60])
    bits = line.split(" ")[1]
    syms = dict((x.split("=")[0], int(x.split("=")[1].split(":")[0])) for x in line.split(" syms=")[1].split(",") if "=" in x)
    return ("ok", "" if bits == "-" else bits, syms)


def agrees(e, r):
    if e[0] == "err":
        return r[0] == "err"
    if e[0] == "unstable":
        return True
    return r[0] == "ok" and r[1] == e[1] and r[2] == e[2]


def run(chk):
    rng = chk.rng
    thorough = chk.tier == "thorough"
    chk.rule = RULE
    n = 6000 if thorough else 700
    cases = []
    for _ in range(n):
        g = Gen(rng)
        g.build()
        fault = rng.choice([None] * 7 + ["undeclared", "undeclared_rel", "undeclared_mid", "ref_skip", "dup", "decl_skip"])
        lines = fill_refs(rng, g.lines, fault)
        cases.append((lines, fault, "base"))
        mv = move_constant(rng, lines) if fault is None and rng.random() < 0.5 else None
        if mv:
            cases.append((mv, None, "moved"))
    texts = [render(l) for l, _, _ in cases]
    ops = [fw.asm_op([("main.asm", t)]) for t in texts]
    impl = fw.run_oracle_resilient(ops, "c15")
    model = fw.run_model(ops, "c15", timeout=3000)
    known = {k["id"]: k for k in fw.known_findings("C15") if k["status"] == "open"}
    prev = None
    for (lines, fault, kind), t, a, m in zip(cases, texts, impl, model):
        chk.evaluations += 1
        il = fw.asm_line(a)
        if il != m:
            chk.disagree(t[-500:], m[:250], il[:250])
        if il == "panic":
            chk.violate("crash", {"program": t}, "result or error", il)
            continue
        r = parse(il)
        e_stmt = expected(lines, True)
        e_code = expected(lines, False)
        if any(l[0] == "ref" and l[1] > 0 for l in lines):
            chk.nontriv(t)
        chk.count("%s_%s" % (kind, "fault_" + fault if fault else r[0]))
        inp = {"program": t, "fault": fault, "kind": kind}
        if agrees(e_stmt, r):
            pass
        elif e_stmt != e_code and agrees(e_code, r) and "F16" in known:
            chk.known("F16", known["F16"]["observed"])
            chk.count("constant_opens_scope_F16")
        else:
            chk.violate("a reference does not denote the declaration the scope rules determine", inp, str(e_stmt)[:400], il[:400])
        if kind == "moved" and prev is not None:
            # moving an address-free constant changes nothing (bits; symbol values)
            pr = prev
            if pr[0] == "ok" and (r[0] != "ok" or r[1] != pr[1] or r[2] != pr[2]):
                pe = expected(prev_lines, False), expected(lines, False)
                if pe[0] != pe[1] and "F16" in known and agrees(pe[1], r):
                    chk.known("F16", known["F16"]["observed"])
                else:
                    chk.violate("moving an address-free constant declaration changes the result", {"program": t, "before": prev_text}, str(pr)[:300], il[:300])
        if kind == "base":
            prev, prev_lines, prev_text = r, lines, t
    # ---- dependency chains of address-free constants in every order of declaration
    ch = [gen_chain(rng) for _ in range(2000 if thorough else 250)]
    cops = [fw.asm_op([("main.asm", t)]) for t, _, _, _ in ch]
    cimpl = fw.run_oracle_resilient(cops, "c15c")
    cmodel = fw.run_model(cops, "c15c", timeout=3000)
    for (t, hx, how, nn), a, m in zip(ch, cimpl, cmodel):
        chk.evaluations += 1
        il = fw.asm_line(a)
        if il != m:
            chk.disagree(t[-500:], m[:250], il[:250])
        r = parse(il)
        chk.nontriv(t)
        chk.count("chain_%s_%s" % (how, r[0]))
        want = "".join(format(int(c, 16), "04b") for c in hx)
        if r[0] != "ok" or r[1] != want:
            chk.violate("the order in which constants are declared changes the result", {"program": t, "order": how, "length": nn}, "ok " + want, il[:300])
    # ---- a dotted path whose first component is named like a built-in descends like any other (F45, repaired)
    bn = []
    for _ in range(200 if thorough else 30):
        nm = rng.choice(["pc", "incbin", "incbinstr", "inchexstr", "le", "sizeof"])
        v, w = rng.randrange(1, 250), rng.randrange(1, 250)
        pad = rng.randrange(0, 4)
        t = HEAD + "".join("    pad\n" for _ in range(pad)) + "%s:\n.x = %d\n..y = %d\n    emit %s.x\n    emit .x\n    emit %s.x.y\nk = %s.x + 1\n    emit k\n" % (nm, v, w, nm, nm, nm)
        bn.append((t, "00" * pad + "%04x%04x%04x%04x" % (v, v, w, v + 1)))
    bops = [fw.asm_op([("main.asm", t)]) for t, _ in bn]
    bimpl = fw.run_oracle_resilient(bops, "c15b")
    bmodel = fw.run_model(bops, "c15b", timeout=3000)
    for (t, hx), a, m in zip(bn, bimpl, bmodel):
        chk.evaluations += 1
        il = fw.asm_line(a)
        if il != m:
            chk.disagree(t[-300:], m[:250], il[:250])
        r = parse(il)
        chk.count("builtin_named_parent_" + r[0])
        want = "".join(format(int(c, 16), "04b") for c in hx)
        if r[0] != "ok" or r[1] != want:
            chk.violate("a dotted path that starts with the name of a built-in does not denote the declared symbol", {"program": t}, "ok " + want, il[:300])
    chk.traces += len(bops)
    # ---- a constant declaration is no label: in a bank with `labelalign` it pads nothing, wherever it stands (F57, repaired)
    la = []
    for _ in range(400 if thorough else 60):
        al = rng.choice([16, 32, 64])
        items = []
        for i in range(rng.randrange(3, 8)):
            items.append(rng.choice(["    #d8 %d" % rng.randrange(256), "    #d16 %d" % rng.randrange(65536), "g%d:" % i, "    emit g0"]))
        if not any(x == "g0:" for x in items):
            items.insert(0, "g0:")
        head = HEAD + "#bankdef b { #bits 8, #addr 0, #size 0x400, #outp 0, #labelalign %d }\n" % al
        base = head + "\n".join(items) + "\n"
        k = rng.randrange(len(items) + 1)
        withc = head + "\n".join(items[:k] + ["K = %d" % rng.randrange(100)] + items[k:]) + "\n"
        la.append((base, withc))
    lops = []
    for x, y in la:
        lops += [fw.asm_op([("main.asm", x)]), fw.asm_op([("main.asm", y)])]
    limpl = fw.run_oracle_resilient(lops, "c15l")
    lmodel = fw.run_model(lops, "c15l", timeout=3000)
    for i, (x, y) in enumerate(la):
        chk.evaluations += 2
        ra, rb = fw.asm_line(limpl[2 * i]), fw.asm_line(limpl[2 * i + 1])
        for il, m, t in ((ra, lmodel[2 * i], x), (rb, lmodel[2 * i + 1], y)):
            if il != m:
                chk.disagree(t[-400:], m[:250], il[:250])
        pa, pb = parse(ra), parse(rb)
        chk.count("labelalign_constant_" + pa[0])
        if pa[0] != pb[0] or (pa[0] == "ok" and pa[1] != pb[1]):
            chk.violate("declaring an address-free constant changes the bytes (it is padded like a label)", {"program": y, "without": x}, ra[:200], rb[:200])
    chk.traces += len(lops)
    # ---- nested declarations inside taken #if arms vs the flattened program
    sc = [gen_if_scoped(rng) for _ in range(2000 if thorough else 250)]
    sops = []
    for x, y in sc:
        sops += [fw.asm_op([("main.asm", x)]), fw.asm_op([("main.asm", y)])]
    simpl = fw.run_oracle_resilient(sops, "c15s")
    smodel = fw.run_model(sops, "c15s", timeout=3000)
    for i, (x, y) in enumerate(sc):
        chk.evaluations += 2
        la, lb = fw.asm_line(simpl[2 * i]), fw.asm_line(simpl[2 * i + 1])
        for il, m, t in ((la, smodel[2 * i], x), (lb, smodel[2 * i + 1], y)):
            if il != m:
                chk.disagree(t[-500:], m[:250], il[:250])
        ra, rb = parse(la), parse(lb)
        chk.nontriv(x)
        chk.count("if_scoped_%s" % ra[0])
        if rb[0] != "ok" or ra[0] != "ok" or ra[1] != rb[1] or ra[2] != rb[2]:
            chk.violate("a nested declaration inside a selected #if arm does not get the scope it has in the flattened program",
                        {"program": x, "flattened": y}, lb[:300], la[:300])
    chk.traces += len(cops) + len(sops)
    # recorded findings: replay the witnesses
    for k in known.values():
        w = k.get("replay", {})
        if "program" in w:
            a = fw.run_oracle_resilient([fw.asm_op([("main.asm", w["program"])])], "c15k")[0]
            la = fw.asm_line(a)
            if la.startswith(w["observed_prefix"]):
                chk.known(k["id"], k["observed"])
            else:
                chk.notes.append("known finding %s no longer reproduces: %s" % (k["id"], la[:100]))
    chk.sample({"program": texts[0][-400:], "impl": fw.asm_line(impl[0])[:200], "expected": str(expected(cases[0][0], True))[:200]})
    chk.traces += len(ops)


def replay(path):
    d = json.load(open(path))
    bad = 0
    for v in d.get("violations", []):
        t = v["input"]["program"]
        il = fw.asm_line(fw.run_oracle_resilient([fw.asm_op([("main.asm", t)])], "rp")[0])
        print("replay ->", il[:200], "| expected", v["expected"][:200])
        if il[:300] == v["got"][:300]:
            bad += 1
    if bad:
        print("VIOLATION property=C15 replay=%s" % path)
        return 1
    return 0
