"""C17 — asm blocks and user functions mean what their expansion means."""
import json, os, re
import fw, gen_cascade

RULE = ("generated macro rules (productions that are asm blocks of two to four base instructions, with typed, untyped and sub-rule "
        "parameters substituted textually `{p}` (alone and inside larger expressions), block-local labels referenced forwards and backwards, "
        "$-relative inner instructions, macros calling earlier macros to depth 3) x programs calling them with literals, labels and "
        "expressions: the implementation must assemble the macro program to exactly the bits of the hand-inlined program (block "
        "instructions written in place, `{p}` replaced by the argument text, block labels renamed "
        "apart); with a size-switching inner instruction (several layouts possible) the result must instead pass the C02 fixed-point "
        "certificate; generated functions (bodies over parameters, globals, nested symbols `.p` named like a parameter, calls of other "
        "functions) x call sites vs the substituted expression; self-recursive macros and functions must be errors. The Lean model is "
        "run on every program. Non-trivial = distinct macro programs whose expansion holds a block-local label or a nested call.")

REGS = ["r0", "r1", "r2", "r3"]
BASE = """    ld {r: reg}, {x: u8} => 0x1 @ r @ x
    add {r: reg}, {s: reg} => 0x20 @ r @ s
    jr {t} => { rel = t - $ - 2, assert(rel >= -128 && rel <= 127), 0x30 @ rel`8 }
    st {a: u16} => 0x40 @ a
    emit {x} => x`8
    nop => 0x00
    nib => 0x1`4
"""
VAR = """    jv {a} => { assert(a < 0x10), 0x5 @ a`4 }
    jv {a} => { assert(a >= 0x10), 0x60 @ a`16 }
"""
SUB = """#subruledef reg
{
    r0 => 0x0
    r1 => 0x1
    r2 => 0x2
    r3 => 0x3
}
"""


class Macro:
    pass


def gen_macro(rng, k, macros, var, globs=(), taint=False):
    m = Macro()
    m.name = "mac%d" % k
    np = rng.randrange(1, 4)
    m.params = []
    for i in range(np):
        kind = rng.choice(["u8", "untyped", "reg", "untyped"])
        m.params.append(("p%d" % i, kind))
    nums = [n for n, kd in m.params if kd != "reg"]
    regs = [n for n, kd in m.params if kd == "reg"]
    labels = ["lb%s" % c for c in "ab"[: rng.randrange(0, 3)]]
    m.labels = labels
    # locals of the production, assigned before the block and passed by value as `{v}`
    m.locals = []
    if rng.random() < 0.3:
        for i in range(rng.randrange(1, 3)):
            if nums and rng.random() < 0.8:
                e = [("par", rng.choice(nums)), ("t", rng.choice([" + 3", " * 2", " + 0x10", ""]))]
            else:
                e = [("t", str(rng.randrange(0, 40)))]
            m.locals.append(("v%d" % i, e))
    lvals = [n for n, _ in m.locals]
    m.f40 = False
    body = []          # list of ('label', name) | ('instr', [tokens]) where tokens are ('t', text)|('sub', p)|('val', v)|('lab', name)
    pend = list(labels)

    def num(allow_label=True):
        r = rng.random()
        # (a bare parameter name is not visible inside the block's instructions: hygiene; only `{p}` is)
        if lvals and r < 0.3:
            return [("val", rng.choice(lvals))] + ([("t", " * 2")] if rng.random() < 0.3 else [])
        if nums and r < 0.5:
            return [("sub", rng.choice(nums))]
        if nums and r < 0.65:
            return [("sub", rng.choice(nums)), ("t", " * 2")]
        if labels and allow_label and r < 0.8:
            return [("lab", rng.choice(labels))]
        if [g for g in globs if g not in labels] and r < 0.9:
            # a global symbol named in the block's own text (declared before or after the call); a name the block itself
            # declares as a label means that label
            return [("t", rng.choice([g for g in globs if g not in labels]))]
        return [("t", str(rng.randrange(0, 60)))]

    def reg():
        if regs and rng.random() < 0.6:
            return [("sub", rng.choice(regs))]
        return [("t", rng.choice(REGS))]

    for _ in range(rng.randrange(2, 5)):
        if pend and rng.random() < 0.4:
            body.append(("label", pend.pop(0)))
        r = rng.random()
        if r < 0.25:
            body.append(("instr", [("t", "ld ")] + reg() + [("t", ", ")] + num(False)))
        elif r < 0.4:
            body.append(("instr", [("t", "add ")] + reg() + [("t", ", ")] + reg()))
        elif r < 0.55 and labels:
            body.append(("instr", [("t", "jr "), ("lab", rng.choice(labels))]))
        elif r < 0.7:
            body.append(("instr", [("t", "st ")] + num()))
        elif r < 0.82:
            body.append(("instr", [("t", "emit ")] + num()))
        elif r < 0.9 and var:
            body.append(("instr", [("t", "jv ")] + (num() if rng.random() < 0.5 or not labels else [("lab", rng.choice(labels))])))
        elif macros and r < 0.97:
            callee = rng.choice(macros)
            toks = [("t", callee.name + " ")]
            for i, (pn, kd) in enumerate(callee.params):
                if i:
                    toks.append(("t", ", "))
                if kd == "reg":
                    toks += reg()
                elif kd == "u8" and rng.random() < 0.5:
                    toks.append(("t", str(rng.randrange(0, 50))))
                elif taint and (labels or lvals) and rng.random() < 0.6:
                    # an argument that names something local to this block (a block label, or a local of the production
                    # passed by value): the callee substitutes the text in its own block, where the name is not bound (F40)
                    toks.append(("lab", rng.choice(labels)) if labels and (not lvals or rng.random() < 0.5) else ("val", rng.choice(lvals)))
                    m.f40 = True
                else:
                    t0 = num(False)[0]
                    toks.append(t0 if t0[0] != "val" else ("t", str(rng.randrange(0, 50))))
            body.append(("instr", toks))
            m.nested = True
            m.calls = getattr(m, "calls", []) + [callee.name]
        elif r < 0.985:
            body.append(("instr", [("t", "nop")]))
        else:
            # half an address unit: a block label behind it is not at a whole address (an error, as for a label written in
            # place) unless a second one follows
            body.append(("instr", [("t", "nib")]))
            if rng.random() < 0.6:
                body.append(("instr", [("t", "nib")]))
    for l in pend:
        body.append(("label", l))
    m.body = body
    m.brace_comments = rng.random() < 0.3
    return m


def macro_text(m):
    pat = m.name + " " + ", ".join("{%s%s}" % (n, {"u8": ": u8", "untyped": "", "reg": ": reg"}[k]) for n, k in m.params)
    lines = []
    for b in m.body:
        if b[0] == "label":
            lines.append("        %s:" % b[1])
        else:
            # (a comment inside the block may hold braces: they do not end the block - finding F64, repaired)
            cm = ["", "", "", " ; } {", " ;* } *;", " ; {"][(len(lines) * 7 + len(m.name) + len(b[1])) % 6] if getattr(m, "brace_comments", False) else ""
            lines.append("        " + "".join({"t": lambda x: x, "sub": lambda x: "{%s}" % x, "val": lambda x: "{%s}" % x, "lab": lambda x: x}[k](v) for k, v in b[1]) + cm)
    if m.locals:
        pre = "".join("        %s = %s\n" % (n, "".join(v for _, v in e)) for n, e in m.locals)
        return "    %s => {\n%s        asm {\n%s\n        }\n    }" % (pat, pre, "\n".join(lines))
    return "    %s => asm {\n%s\n    }" % (pat, "\n".join(lines))


def expand(macros, name, args, counter, depth=0, only=None):
    """hand-inlined lines of one call (args: list of argument texts); with `only`, calls of macros outside that set are
    left as calls (with the argument texts substituted)"""
    m = [x for x in macros if x.name == name][0]
    counter[0] += 1
    tag = "_x%d" % counter[0]
    amap = dict((pn, a) for (pn, _), a in zip(m.params, args))
    vmap = {}
    for n, e in m.locals:
        # a local is passed by value: its expression over the parameters' values, as one parenthesised term
        vmap[n] = "(" + "".join(("(" + amap[v] + ")") if k == "par" else v for k, v in e) + ")"
    out = []
    for b in m.body:
        if b[0] == "label":
            out.append(b[1] + tag + ":")
            continue
        text = ""
        for k, v in b[1]:
            if k == "t":
                text += v
            elif k == "sub":
                text += amap[v]
            elif k == "val":
                text += vmap[v]
            else:
                text += v + tag
        mt = re.match(r"(mac\d+) (.*)", text)
        if mt and (only is None or mt.group(1) in only):
            out += expand(macros, mt.group(1), [a.strip() for a in mt.group(2).split(",")], counter, depth + 1, only)
        else:
            out.append("    " + text)
    return out


def gen_macro_program(rng, var, taint=False):
    """(macro program, hand-inlined program, non-trivial?, semi-inlined program or None).  With `taint`, some nested calls
    pass a block label or a by-value local of the calling production (finding F40); the semi-inlined program then inlines
    exactly the macros that do so (directly or through a macro they call) and leaves every other call in place."""
    nm = rng.randrange(1, 4)
    macros = []
    globs = ["g%d" % i for i in range(rng.randrange(1, 4))]
    if taint and rng.random() < 0.35:
        # a global label named like a label some block declares: passed as an argument, its text is captured by the block's
        # own label (the other direction of finding F40)
        globs[rng.randrange(len(globs))] = rng.choice(["lba", "lbb"])
    for k in range(nm):
        macros.append(gen_macro(rng, k, macros[:], var, globs, taint))
    for m in macros:
        if any(g in m.labels for g in globs):
            m.f40 = True
    lines = []       # ('label', n) | ('call', name, args) | ('raw', text)
    pend = list(globs)
    for _ in range(rng.randrange(2, 8)):
        if pend and rng.random() < 0.4:
            lines.append(("label", pend.pop(0)))
        r = rng.random()
        if r < 0.6:
            m = rng.choice(macros)
            args = []
            for pn, kd in m.params:
                if kd == "reg":
                    args.append(rng.choice(REGS))
                elif kd == "u8":
                    args.append(rng.choice([str(rng.randrange(0, 100)), rng.choice(globs)]))
                else:
                    args.append(rng.choice([str(rng.randrange(0, 100)), rng.choice(globs), "%s + %d" % (rng.choice(globs), rng.randrange(1, 4)), "1 + 2"]))
            lines.append(("call", m.name, args))
        elif r < 0.75:
            lines.append(("raw", "nop"))
        elif r < 0.9:
            lines.append(("raw", "emit %s" % rng.choice(globs)))
        else:
            lines.append(("raw", "#d8 %d" % rng.randrange(256)))
    for g in pend:
        lines.append(("label", g))
    lines.append(("raw", "nop"))
    head = "#ruledef\n{\n" + BASE + (VAR if var else "")
    mtext = head + "\n".join(macro_text(m) for m in macros) + "\n}\n" + SUB
    itext = head + "}\n" + SUB
    tainted = set()
    for m in macros:            # in order of definition: a macro only calls earlier ones
        if m.f40 or any(c in tainted for c in getattr(m, "calls", [])):
            tainted.add(m.name)
    counter, counter2 = [0], [0]
    a, b, c = [], [], []
    for l in lines:
        if l[0] == "label":
            a.append(l[1] + ":"); b.append(l[1] + ":"); c.append(l[1] + ":")
        elif l[0] == "raw":
            a.append("    " + l[1]); b.append("    " + l[1]); c.append("    " + l[1])
        else:
            a.append("    %s %s" % (l[1], ", ".join(l[2])))
            b += expand(macros, l[1], l[2], counter)
            c += expand(macros, l[1], l[2], counter2, only=tainted) if l[1] in tainted else ["    %s %s" % (l[1], ", ".join(l[2]))]
    nontriv = any(getattr(m, "nested", False) or m.labels or m.locals for m in macros)
    banks = ""
    if rng.random() < 0.3:
        # a second bank whose output offset is not zero: positions inside a block are positions in the bank,
        # not in the output
        base = rng.choice([0x20, 0x40, 0x60])
        banks = ("#bankdef lo { #addr 0x0000, #size 0x10, #outp 0 }\n#bankdef hi { #addr 0x%x, #size 0x90, #outp 8 * 0x10 }\n"
                 "#bank lo\n    nop\n#bank hi\n" % base)
    semi = (mtext + banks + "\n".join(c) + "\n") if tainted else None
    return mtext + banks + "\n".join(a) + "\n", itext + banks + "\n".join(b) + "\n", nontriv, semi


# ---------------------------------------------------------------- functions

def gen_fn_program(rng):
    """functions and call sites; twin = calls replaced by the substituted body"""
    nf = rng.randrange(1, 4)
    fns = []
    for k in range(nf):
        params = ["p", "q", "w"][: rng.randrange(1, 4)]
        def term(depth=0):
            r = rng.random()
            if r < 0.4:
                return ("par", rng.choice(params))
            if r < 0.5:
                return ("nested", "p")             # `.p`: the nested symbol of the enclosing label, not the parameter
            if r < 0.6:
                return ("glob", "K")
            if r < 0.7 and fns and depth < 2:
                f = rng.choice(fns)
                return ("call", f[0], [term(depth + 1) for _ in f[1]])
            if r < 0.85 and depth < 2:
                return ("bin", rng.choice(["+", "*", "-"]), term(depth + 1), term(depth + 1))
            return ("lit", rng.randrange(0, 9))
        fns.append(("f%d" % k, params, ("bin", "+", term(), term())))

    def show(e, mode, env=None):
        k = e[0]
        if k == "par":
            return e[1] if mode == "def" else "(" + env[e[1]] + ")"
        if k == "nested":
            return ".p"
        if k == "glob":
            return e[1]
        if k == "lit":
            return str(e[1])
        if k == "bin":
            return "(%s %s %s)" % (show(e[2], mode, env), e[1], show(e[3], mode, env))
        if k == "call":
            if mode == "def":
                return "%s(%s)" % (e[1], ", ".join(show(a, mode, env) for a in e[2]))
            f = [x for x in fns if x[0] == e[1]][0]
            inner = dict(zip(f[1], [show(a, mode, env) for a in e[2]]))
            return "(" + show(f[2], "inl", inner) + ")"
    head = "K = %d\n" % rng.randrange(0, 20) + "".join("#fn %s(%s) => %s\n" % (n, ", ".join(ps), show(b, "def")) for n, ps, b in fns)
    a, b = [], []
    for g in range(rng.randrange(1, 3)):
        for t in (a, b):
            t.append("g%d:" % g)
            t.append(".p = %d" % (g + 3))
        for _ in range(rng.randrange(1, 4)):
            f = rng.choice(fns)
            args = [rng.choice([str(rng.randrange(0, 9)), "K", ".p", "g0", "1 + 2"]) for _ in f[1]]
            a.append("    #d32 %s(%s)" % (f[0], ", ".join(args)))
            b.append("    #d32 (%s)" % show(f[2], "inl", dict(zip(f[1], args))))
    return head + "\n".join(a) + "\n", "K = %s\n" % head.split("\n")[0].split("= ")[1] + "\n".join(b) + "\n"


def bits_of(line):
    return line.split(" ")[1] if line.startswith("ok") else None


def run(chk):
    rng = chk.rng
    thorough = chk.tier == "thorough"
    chk.rule = RULE
    n = 5000 if thorough else 600
    known = {k["id"]: k for k in fw.known_findings("C17") if k["status"] == "open"}
    cases, ops = [], []
    semis = {}           # case index -> index of the semi-inlined program's op
    # witnesses of recorded findings and earlier failures first
    cdir = os.path.join(fw.VERIF, "corpus", "C17")
    for fn in sorted(os.listdir(cdir)) if os.path.isdir(cdir) else []:
        if fn.endswith(".asm") and not fn.endswith(".inl.asm") and not fn.endswith(".semi.asm"):
            a = open(os.path.join(cdir, fn)).read()
            b = open(os.path.join(cdir, fn[:-4] + ".inl.asm")).read()
            cases.append(("macro", a, b, True)); ops += [fw.asm_op([("main.asm", a)]), fw.asm_op([("main.asm", b)])]
            sp = os.path.join(cdir, fn[:-4] + ".semi.asm")
            if os.path.exists(sp):
                semis[len(cases) - 1] = open(sp).read()
            chk.count("corpus")
    for i in range(n):
        a, b, nt, semi = gen_macro_program(rng, var=False, taint=(i % 4 == 3))
        cases.append(("macro", a, b, nt)); ops += [fw.asm_op([("main.asm", a)]), fw.asm_op([("main.asm", b)])]
        if semi is not None:
            semis[len(cases) - 1] = semi
    for _ in range(n // 2):
        a, b, nt, _s = gen_macro_program(rng, var=True)
        cases.append(("macro_var", a, b, nt)); ops += [fw.asm_op([("main.asm", a)]), fw.asm_op([("main.asm", b)])]
    for _ in range(n // 2):
        # blocks whose labels move in opposite directions between inner passes (growing and shrinking instructions)
        a = gen_cascade.gen_block_program(rng)
        cases.append(("macro_var", a, a, True)); ops += [fw.asm_op([("main.asm", a)]), fw.asm_op([("main.asm", a)])]
    for _ in range(n // 2):
        a, b = gen_fn_program(rng)
        cases.append(("fn", a, b, True)); ops += [fw.asm_op([("main.asm", a)]), fw.asm_op([("main.asm", b)])]
    ncase_ops = len(ops)
    semi_at = {}
    for i, t in semis.items():
        semi_at[i] = len(ops)
        ops.append(fw.asm_op([("main.asm", t)]))
    rec = [("#ruledef\n{\n    nop => 0x00\n    rec => asm { rec }\n}\nrec\n", "macro calling itself"),
           ("#ruledef\n{\n    nop => 0x00\n    ra {x} => asm { rb {x} }\n    rb {x} => asm { ra {x} }\n}\nra 1\n", "mutually recursive macros"),
           ("#fn f(x) => f(x + 1)\n#d8 f(1)\n", "function calling itself"),
           ("#fn f(x) => g(x)\n#fn g(x) => f(x)\n#d8 f(1)\n", "mutually recursive functions")]
    for t, _ in rec:
        ops.append(fw.asm_op([("main.asm", t)]))
    impl = fw.run_oracle_resilient(ops, "c17")
    model = fw.run_model(ops, "c17", timeout=3000)
    lines = [fw.asm_line(x) for x in impl]
    for op, il, ml in zip(ops, lines, model):
        chk.evaluations += 1
        if il != ml:
            chk.disagree(bytes.fromhex(op.split(" ")[-1]).decode()[-500:], ml[:250], il[:250])
    cert_ops, cert_for = [], []
    for i, (kind, a, b, nt) in enumerate(cases):
        la, lb = lines[2 * i], lines[2 * i + 1]
        if nt:
            chk.nontriv(a)
        if la == "panic" or lb == "panic":
            chk.violate("crash", {"program": a, "inlined": b}, "result or error", la + " / " + lb)
            continue
        ba, bb = bits_of(la), bits_of(lb)
        chk.count("%s_%s" % (kind, "ok" if ba is not None else "err"))
        if kind == "macro_var":
            # several layouts may exist: the result must be self-consistent (certificate), and equal when both agree on sizes
            if ba is not None and impl[2 * i].get("state"):
                cert_ops.append("cert %s %s" % (impl[2 * i]["state"], ops[2 * i]))
                cert_for.append((a, b, la))
            continue
        if i in semi_at:
            # the program passes a block label / by-value local of a production into a nested macro call (F40): the
            # semi-inlined program (only the macros that do so written out) must equal the fully inlined one whatever
            # happens, and a difference of the macro program is attributed to F40 only then
            ls = lines[semi_at[i]]
            bs = bits_of(ls)
            chk.count("f40_candidate")
            if ls == "panic" or (bs is None) != (bb is None) or bs != bb:
                chk.violate("the program with only the F40 call sites written out and the fully hand-expanded program assemble differently",
                            {"program": semis[i], "inlined": b}, lb[:300], ls[:300])
                continue
            if (ba is None) != (bb is None) or ba != bb:
                if "F40" in known:
                    chk.count("f40_attributed")
                    chk.known("F40", known["F40"]["observed"])
                    continue
        if (ba is None) != (bb is None) or ba != bb:
            chk.violate("the %s program and its hand-expanded twin assemble differently" % ("macro" if kind == "macro" else "function"),
                        {"program": a, "inlined": b}, lb[:300], la[:300])
    if cert_ops:
        for (a, b, la), c in zip(cert_for, fw.run_model(cert_ops, "c17c", timeout=3000)):
            chk.evaluations += 1
            chk.count("certified" if c == "fixed-point" else "cert_failed")
            if c != "fixed-point":
                chk.violate("the macro program's result is not self-consistent", {"program": a, "inlined": b}, "fixed-point", c + " | " + la[:200])
    for (t, what), il in zip(rec, lines[len(ops) - len(rec):]):
        chk.count("recursion_case")
        if not il.startswith("err"):
            chk.violate("unbounded recursion is not reported as an error (%s)" % what, {"program": t}, "error", il[:200])
    # recorded findings that the random stream does not reach: replay their pairs
    for k in known.values():
        if k.get("signature", {}).get("classifier") == "witness_pair":
            w = k["replay"]
            r = [fw.asm_line(a) for a in fw.run_oracle_resilient([fw.asm_op([("main.asm", w["program"])]), fw.asm_op([("main.asm", w["inlined"])])], "c17k")]
            if bits_of(r[0]) != bits_of(r[1]):
                chk.known(k["id"], k["observed"])
            else:
                chk.notes.append("known finding %s no longer reproduces (%s / %s)" % (k["id"], r[0][:60], r[1][:60]))
    chk.sample({"macro_program": cases[0][1][-500:], "inlined": cases[0][2][-300:], "results": [lines[0][:120], lines[1][:120]]})
    chk.traces += len(ops) + len(cert_ops)


def replay(path):
    d = json.load(open(path))
    bad = 0
    for v in d.get("violations", []):
        inp = v["input"]
        texts = [inp["program"]] + ([inp["inlined"]] if "inlined" in inp else [])
        res = [fw.asm_line(a) for a in fw.run_oracle_resilient([fw.asm_op([("main.asm", t)]) for t in texts], "rp")]
        print("replay ->", [r[:100] for r in res])
        if len(res) == 2 and bits_of(res[0]) != bits_of(res[1]):
            bad += 1
        if len(res) == 1 and not res[0].startswith("err"):
            bad += 1
    if bad:
        print("VIOLATION property=C17 replay=%s" % path)
        return 1
    return 0
