"""C16 — conditional assembly and command-line defines select exactly one world."""
import json, os
import fw

RULE = ("generated condition trees (depth <= 4, #elif chains, #else, empty arms) whose arms hold data, labels, constants (several arms "
        "may define the same name), references and further #if chains; a family whose arms declare *local* labels and constants under a label that stands before the conditional and refer to them by their full names; conditions over boolean and integer constants declared "
        "before, after or inside other arms, including ill-typed (integer) conditions, address-dependent and undeclared names; x "
        "assignments of defines (booleans, integers, negative, overriding address-valued constants, hierarchical names, names declared "
        "only in dead arms or nowhere). The expected world is computed by a direct interpreter written from the statement (first true "
        "arm, nothing of a dead arm visible, define overrides everywhere, undecidable or unused => error); the implementation and the "
        "Lean model are run on every case, and the implementation additionally on the hand-flattened program (selected arms written "
        "in place, defines written as constants). Command-line spellings of -d are exercised through driver::drive. "
        "Non-trivial = distinct programs with a nested or chained conditional.")


class G:
    def __init__(self, rng):
        self.rng = rng
        self.nconst = 0
        self.nid = 1
        self.bools = []      # names of boolean constants
        self.ints = []
        self.nlabel = 0

    def expr_bool(self, depth=0):
        rng = self.rng
        r = rng.random()
        if r < 0.35 and self.bools:
            return ("c", rng.choice(self.bools))
        if r < 0.45:
            return ("lit", rng.random() < 0.5)
        if r < 0.7 and self.ints:
            return (rng.choice(["eq", "lt", "ge"]), ("c", rng.choice(self.ints)), ("lit", rng.randrange(0, 6)))
        if r < 0.8 and depth < 2:
            return ("not", self.expr_bool(depth + 1))
        if r < 0.9 and depth < 2:
            return (rng.choice(["and", "or"]), self.expr_bool(depth + 1), self.expr_bool(depth + 1))
        if r < 0.93 and self.ints:
            return ("c", rng.choice(self.ints))            # ill-typed: integer condition
        if r < 0.95:
            return ("c", "undeclared_name")
        if r < 0.97:
            return ("c", "addrconst")
        return ("lit", True)

    def new_const(self, want=None):
        rng = self.rng
        kind = want or rng.choice(["bool", "int", "int"])
        name = "%s%d" % ("B" if kind == "bool" else "N", self.nconst)
        self.nconst += 1
        if kind == "bool":
            self.bools.append(name)
            e = ("lit", rng.random() < 0.5) if rng.random() < 0.7 or not self.bools[:-1] else ("not", ("c", rng.choice(self.bools[:-1])))
        else:
            self.ints.append(name)
            r = rng.random()
            if r < 0.6 or not self.ints[:-1]:
                e = ("lit", rng.randrange(0, 6))
            elif r < 0.85:
                e = ("add", ("c", rng.choice(self.ints[:-1])), ("lit", 1))
            else:
                e = ("here",)
        return ("const", name, e)

    def body(self, depth):
        rng = self.rng
        out = []
        for _ in range(rng.randrange(0, 4)):
            r = rng.random()
            if r < 0.3:
                out.append(("d8", self.nid)); self.nid += 1
            elif r < 0.45:
                out.append(self.new_const())
            elif r < 0.55:
                self.nlabel += 1
                out.append(("label", "L%d" % self.nlabel))
            elif r < 0.7 and (self.ints or self.nlabel):
                cands = self.ints + ["L%d" % (i + 1) for i in range(self.nlabel)]
                out.append(("emit", rng.choice(cands)))
            elif depth < 4:
                out.append(self.chain(depth + 1))
            else:
                out.append(("d8", self.nid)); self.nid += 1
        return out

    def chain(self, depth):
        rng = self.rng
        arms = [(self.expr_bool(), self.body(depth))]
        for _ in range(rng.choice([0, 0, 1, 2])):
            arms.append((self.expr_bool(), self.body(depth)))
        els = self.body(depth) if rng.random() < 0.5 else None
        if rng.random() < 0.25:
            # both/all arms define the same name
            name = "S%d" % self.nconst
            self.nconst += 1
            self.ints.append(name)
            for k, (_, b) in enumerate(arms):
                b.append(("const", name, ("lit", k + 1)))
            if els is not None:
                els.append(("const", name, ("lit", 0)))
        return ("if", arms, els)

    # ---- local symbols inside arms (parent label outside the conditional, no global declared in any arm)
    def lbody(self, depth, parent, declared):
        rng = self.rng
        out = []
        for _ in range(rng.randrange(1, 4)):
            r = rng.random()
            if r < 0.3:
                out.append(("d8", self.nid)); self.nid += 1
            elif r < 0.5:
                self.nlabel += 1
                nm = "%s.x%d" % (parent, self.nlabel)
                out.append(("label", nm)); declared.append(nm)
            elif r < 0.65:
                self.nconst += 1
                nm = "%s.k%d" % (parent, self.nconst)
                out.append(("const", nm, ("lit", rng.randrange(0, 100)))); declared.append(nm)
            elif r < 0.8 and declared:
                out.append(("emit", rng.choice(declared)))
            elif depth < 3:
                out.append(self.lchain(depth + 1, parent, declared))
            else:
                out.append(("d8", self.nid)); self.nid += 1
        return out

    def lchain(self, depth, parent, declared):
        rng = self.rng
        arms = []
        for _ in range(rng.choice([1, 1, 2, 3])):
            arms.append((self.expr_bool(), self.lbody(depth, parent, list(declared))))
        els = self.lbody(depth, parent, list(declared)) if rng.random() < 0.5 else None
        return ("if", arms, els)

    def program_local(self):
        rng = self.rng
        top = [self.new_const("bool"), self.new_const("bool"), self.new_const("int")]
        for i in range(rng.randrange(1, 4)):
            parent = "P%d" % i
            top.append(("label", parent))
            top.append(("d8", self.nid)); self.nid += 1
            for _ in range(rng.randrange(1, 3)):
                top.append(self.lchain(1, parent, []))
                if rng.random() < 0.5:
                    top.append(("d8", self.nid)); self.nid += 1
        top.append(("d8", 255))
        return top

    def program(self):
        rng = self.rng
        if rng.random() < 0.25:
            return self.program_local()
        top = [self.new_const("bool"), self.new_const("int")]
        top.append(("const", "addrconst", ("here",)))
        for _ in range(rng.randrange(1, 4)):
            top += self.body(0)
            top.append(self.chain(1))
        for _ in range(rng.randrange(0, 3)):
            top.insert(rng.randrange(len(top) + 1), self.new_const())
        rng.shuffle(top) if rng.random() < 0.3 else None
        top.append(("d8", 255))
        return top


def rexpr(e):
    k = e[0]
    if k == "c":
        return e[1]
    if k == "lit":
        return ("true" if e[1] else "false") if isinstance(e[1], bool) else str(e[1])
    if k == "not":
        return "!(%s)" % rexpr(e[1])
    if k == "here":
        return "$ + 1"
    op = {"eq": "==", "lt": "<", "ge": ">=", "and": "&&", "or": "||", "add": "+"}[k]
    return "(%s %s %s)" % (rexpr(e[1]), op, rexpr(e[2]))


def render(nodes, ind=0):
    out = []
    pad = "    " * ind
    for n in nodes:
        k = n[0]
        if k == "d8":
            out.append(pad + "#d8 %d" % n[1])
        elif k == "const":
            out.append(pad + "%s = %s" % ("." + n[1].split(".", 1)[1] if "." in n[1] else n[1], rexpr(n[2])))
        elif k == "label":
            out.append(pad + ("." + n[1].split(".", 1)[1] if "." in n[1] else n[1]) + ":")
        elif k == "emit":
            out.append(pad + "#d8 %s" % n[1])
        else:
            _, arms, els = n
            for i, (c, b) in enumerate(arms):
                out.append(pad + ("#if " if i == 0 else "#elif ") + rexpr(c))
                out.append(pad + "{")
                out += render(b, ind + 1)
                out.append(pad + "}")
            if els is not None:
                out.append(pad + "#else")
                out.append(pad + "{")
                out += render(els, ind + 1)
                out.append(pad + "}")
    return out


class Undecided(Exception):
    pass


class Bad(Exception):
    pass


def ev(e, env):
    """value of an expression over constants only; Undecided when a name is not (yet) known"""
    k = e[0]
    if k == "lit":
        return e[1]
    if k == "c":
        if e[1] not in env:
            raise Undecided(e[1])
        v = env[e[1]]
        if v is None:
            raise Undecided(e[1])
        return v
    if k == "here":
        raise Undecided("$")
    if k == "not":
        v = ev(e[1], env)
        return (not v) if isinstance(v, bool) else (-v - 1)
    if k in ("and", "or"):
        # `&&` and `||` are lazy: the right operand is not evaluated when the left one decides
        a = ev(e[1], env)
        if not isinstance(a, bool):
            raise Bad("type")
        if (k == "and" and not a) or (k == "or" and a):
            return a
        b = ev(e[2], env)
        if not isinstance(b, bool):
            raise Bad("type")
        return b
    a, b = ev(e[1], env), ev(e[2], env)
    if isinstance(a, bool) or isinstance(b, bool):
        raise Bad("type")
    return {"eq": a == b, "lt": a < b, "ge": a >= b, "add": a + b}[k]


def select(nodes, defines):
    """the one world: ('ok', flattened nodes, env) or ('err', why)"""
    defs = dict(defines)
    cur = list(nodes)
    for _ in range(200):
        # constants visible: those at the top level of the current list (dead arms contribute nothing)
        decl = {}
        for n in cur:
            if n[0] == "const":
                if n[1] in decl:
                    return ("err", "duplicate")
                decl[n[1]] = n[2]
        env = {}
        for name in decl:
            env[name] = None
        for _ in range(len(decl) + 2):
            for name, e in decl.items():
                if name in defs:
                    env[name] = defs[name]
                    continue
                try:
                    env[name] = ev(e, env)
                except Undecided:
                    pass
                except Bad:
                    return ("err", "type")
        progress = False
        nxt = []
        for n in cur:
            if n[0] != "if":
                nxt.append(n)
                continue
            _, arms, els = n
            chosen, undec = None, False
            rest_arms = list(arms)
            while rest_arms:
                c, b = rest_arms[0]
                try:
                    v = ev(c, env)
                except Undecided:
                    undec = True
                    break
                except Bad:
                    return ("err", "type")
                if not isinstance(v, bool):
                    return ("err", "nonbool")
                if v:
                    chosen = b
                    break
                rest_arms.pop(0)
            if undec:
                nxt.append(("if", rest_arms, els))
                if len(rest_arms) != len(arms):
                    progress = True
                continue
            progress = True
            if chosen is None:
                chosen = els or []
            nxt += chosen
        cur = nxt
        if not progress:
            break
    if any(n[0] == "if" for n in cur):
        return ("err", "undecided")
    decl = {n[1] for n in cur if n[0] == "const"}
    for d in defs:
        if d not in decl:
            return ("err", "unused-define")
    return ("ok", cur, env)


def assemble_flat(cur, defines):
    """bits and symbol values of a flattened world by the language definition"""
    defs = dict(defines)
    addr, pos = {}, 0
    for n in cur:
        if n[0] == "label":
            addr[n[1]] = pos
        elif n[0] in ("d8", "emit"):
            pos += 1
    consts = {n[1]: n[2] for n in cur if n[0] == "const"}
    here = {}
    pos = 0
    for n in cur:
        if n[0] == "const":
            here[n[1]] = pos
        elif n[0] in ("d8", "emit"):
            pos += 1
    val = {}

    def value(name, depth=0):
        if name in defs:
            return defs[name]
        if name in addr:
            return addr[name]
        if name not in consts or depth > 30:
            raise Bad("unknown")
        e = consts[name]
        return evx(e, name, depth)

    def evx(e, owner, depth):
        k = e[0]
        if k == "lit":
            return e[1]
        if k == "c":
            return value(e[1], depth + 1)
        if k == "here":
            return here[owner] + 1
        if k == "not":
            v = evx(e[1], owner, depth)
            return (not v) if isinstance(v, bool) else -v - 1
        if k in ("and", "or"):
            a = evx(e[1], owner, depth)
            if not isinstance(a, bool):
                raise Bad("type")
            if (k == "and" and not a) or (k == "or" and a):
                return a
            b = evx(e[2], owner, depth)
            if not isinstance(b, bool):
                raise Bad("type")
            return b
        a, b = evx(e[1], owner, depth), evx(e[2], owner, depth)
        if isinstance(a, bool) or isinstance(b, bool):
            raise Bad("type")
        return {"eq": a == b, "lt": a < b, "ge": a >= b, "add": a + b}[k]

    bits = ""
    try:
        for n in cur:
            if n[0] == "d8":
                bits += format(n[1], "08b")
            elif n[0] == "emit":
                v = value(n[1])
                if isinstance(v, bool) or not (-128 <= v < 256):
                    return ("err", "range")
                bits += format(v & 255, "08b")
        syms = {}
        for n in cur:
            if n[0] == "label":
                syms[n[1]] = addr[n[1]]
            elif n[0] == "const":
                v = value(n[1])
                if not isinstance(v, bool):
                    syms[n[1]] = v
    except Bad as b:
        return ("err", str(b))
    return ("ok", bits, syms)


def expected(nodes, defines):
    s = select(nodes, defines)
    if s[0] == "err":
        return s
    return assemble_flat(s[1], defines)


def flatten_text(cur, defines):
    """the selected world written out by hand: defines become the constants' values"""
    defs = dict(defines)
    out = []
    for n in cur:
        if n[0] == "const" and n[1] in defs:
            v = defs[n[1]]
            out.append("%s = %s" % (n[1], ("true" if v else "false") if isinstance(v, bool) else str(v)))
        else:
            out += render([n])
    return "\n".join(out) + "\n"


def gen_defines(rng, g):
    defs = []
    names = g.bools + g.ints + ["addrconst"]
    for _ in range(rng.choice([0, 0, 1, 1, 2, 3])):
        r = rng.random()
        if r < 0.85 and names:
            n = rng.choice(names)
            if n in [d[0] for d in defs]:
                continue
            if n.startswith("B"):
                defs.append((n, rng.random() < 0.5))
            else:
                defs.append((n, rng.choice([0, 1, 2, 5, -1, 3])))
        elif r < 0.93 or g.nlabel == 0:
            defs.append(("NOSUCH%d" % rng.randrange(3), 1))
        else:
            # the name of a label (declared in a live or a dead arm, or at top level): a define is used by a constant only (F46)
            n = "L%d" % rng.randrange(1, g.nlabel + 1)
            if n not in [d[0] for d in defs]:
                defs.append((n, rng.choice([0, 5, -1])))
    return defs


def defs_field(defs):
    return [(n, ("t" if v else "f") if isinstance(v, bool) else "i%d" % v) for n, v in defs] or None


def parse(line):
    if not line.startswith("ok"):
        return ("err", line[4:70])
    bits = line.split(" ")[1]
    syms = dict((x.split("=")[0], int(x.split("=")[1].split(":")[0])) for x in line.split(" syms=")[1].split(",") if "=" in x)
    return ("ok", "" if bits == "-" else bits, syms)


def run(chk):
    rng = chk.rng
    thorough = chk.tier == "thorough"
    chk.rule = RULE
    n = 8000 if thorough else 900
    cases, ops = [], []
    for _ in range(n):
        g = G(rng)
        nodes = g.program()
        defs = gen_defines(rng, g)
        text = "\n".join(render(nodes)) + "\n"
        e = expected(nodes, defs)
        sel = select(nodes, defs)
        cases.append((nodes, defs, text, e, "cond"))
        ops.append(fw.asm_op([("main.asm", text)], defs=defs_field(defs)))
        if sel[0] == "ok":
            ft = flatten_text(sel[1], defs)
            cases.append((nodes, defs, ft, e, "flat"))
            ops.append(fw.asm_op([("main.asm", ft)]))
            live = [x[1] for x in sel[1] if x[0] == "label"]
            if e[0] == "ok" and live and rng.random() < 0.25:
                # the same (valid) program with one more define, naming a label of the selected world: only a constant
                # uses a define (F46, repaired)
                d2 = defs + [(rng.choice(live), rng.choice([0, 5, -1]))]
                cases.append((nodes, d2, text, ("err", "unused-define"), "cond"))
                ops.append(fw.asm_op([("main.asm", text)], defs=defs_field(d2)))
    impl = fw.run_oracle_resilient(ops, "c16")
    model = fw.run_model(ops, "c16", timeout=3000)
    for (nodes, defs, text, e, kind), a, m in zip(cases, impl, model):
        chk.evaluations += 1
        il = fw.asm_line(a)
        if il != m:
            chk.disagree("defines=%s\n%s" % (defs, text[-600:]), m[:250], il[:250])
        if il == "panic":
            chk.violate("crash", {"program": text, "defines": defs}, "result or error", il)
            continue
        r = parse(il)
        if kind == "cond" and any(x[0] == "if" and (len(x[1]) > 1 or any(y[0] == "if" for _, b in x[1] for y in b)) for x in nodes):
            chk.nontriv(text)
        chk.count("%s_%s" % (kind, e[0] if e[0] == "ok" else "err_" + e[1]))
        ok = (e[0] == "err" and r[0] == "err") or (e[0] == "ok" and r[0] == "ok" and r[1] == e[1] and r[2] == e[2])
        if not ok:
            chk.violate("the %s program does not assemble to the selected world" % ("conditional" if kind == "cond" else "hand-flattened"),
                        {"program": text, "defines": defs, "kind": kind}, str(e)[:400], il[:400])
    # ---- conditions behind chains of constants declared in any order (also inside selected arms), with defines on chain members
    ch = []
    for _ in range(2500 if thorough else 300):
        n = rng.randrange(2, 8)
        base = rng.randrange(0, 20)
        decls = ["k%d = k%d + 1" % (i, i + 1) for i in range(n - 1)] + ["k%d = %d" % (n - 1, base)]
        how = rng.choice(["fwd", "rev", "rev", "shuffle"])
        if how == "fwd":
            decls.reverse()
        elif how == "shuffle":
            rng.shuffle(decls)
        defs = []
        vals = {}
        if rng.random() < 0.4:
            j = rng.randrange(n)
            dv = rng.randrange(0, 30)
            defs.append(("k%d" % j, dv))
            vals[j] = dv
        for i in range(n - 1, -1, -1):
            if i not in vals:
                vals[i] = base if i == n - 1 else vals[i + 1] + 1
        top = vals[0]
        thr = top + rng.choice([-1, 0, 1])
        taken = top >= thr
        inner_thr = vals[n // 2] + rng.choice([0, 1])
        inner_taken = vals[n // 2] < inner_thr
        body = ["#if k0 >= %d" % thr, "{", "    #d8 0xa1", "    #if k%d < %d" % (n // 2, inner_thr), "    {", "        #d8 0xb1", "    }",
                "    #else", "    {", "        #d8 0xb2", "    }", "}", "#else", "{", "    #d8 0xa2", "}", "#d8 k0"]
        hx = ("a1" + ("b1" if inner_taken else "b2")) if taken else "a2"
        hx += "%02x" % (top % 256)
        text = "\n".join((decls + body) if rng.random() < 0.5 else (body + decls)) + "\n"
        ch.append((text, defs, hx, how, n))
    cops = [fw.asm_op([("main.asm", t)], defs=defs_field(d)) for t, d, _, _, _ in ch]
    cimpl = fw.run_oracle_resilient(cops, "c16c")
    cmodel = fw.run_model(cops, "c16c", timeout=3000)
    for (t, d, hx, how, nn), a, m in zip(ch, cimpl, cmodel):
        chk.evaluations += 1
        il = fw.asm_line(a)
        if il != m:
            chk.disagree("defines=%s\n%s" % (d, t[-500:]), m[:250], il[:250])
        r = parse(il)
        chk.nontriv(t)
        chk.count("chain_%s_%s" % (how, r[0]))
        want = "".join(format(int(c, 16), "04b") for c in hx)
        if r[0] != "ok" or r[1] != want:
            chk.violate("a condition behind a chain of constants is not decided as the constants' values say", {"program": t, "defines": d, "order": how, "length": nn},
                        "ok " + want, il[:300])
    chk.traces += len(cops)
    # ---- -d spellings through the driver
    spell = [(["-dX=0x10"], 16), (["-d", "X=0x10"], 16), (["-dX=-3"], 253), (["-dX=7"], 7), (["--define", "X=0b101"], 5), (["--define=X=9"], 9)]
    dops = []
    for argv, _ in spell:
        files = [("main.asm", "X = 1\n#d8 X\n")]
        full = ["main.asm", "-f", "hexstr", "-o", "out.txt"] + argv
        dops.append("drv %d %s %s %s" % (len(files), " ".join("%s %s" % (fw.hx(n), fw.hx(p)) for n, p in files), "-", " ".join(fw.hx(x) for x in full)))
    for (argv, want), a in zip(spell, fw.run_oracle_resilient(dops, "c16d")):
        chk.evaluations += 1
        got = [bytes.fromhex(w["data"]).decode() for w in a.get("writes", []) if w["name"] == "out.txt"] if a.get("writes") else []
        chk.count("define_spelling")
        if not a.get("ok") or got != ["%02x" % want]:
            chk.violate("a -d spelling does not set the constant", {"argv": argv}, "%02x" % want, str(a)[:300])
    bops = ["drv 1 %s %s - %s" % (fw.hx("main.asm"), fw.hx("B = false\n#if B\n{\n#d8 1\n}\n#else\n{\n#d8 2\n}\n"), " ".join(fw.hx(x) for x in ["main.asm", "-f", "hexstr", "-o", "out.txt"] + argv))
            for argv in (["-dB"], ["-dB=true"], ["-dB=false"], [])]
    for want, a in zip(["01", "01", "02", "02"], fw.run_oracle_resilient(bops, "c16b")):
        chk.evaluations += 1
        got = [bytes.fromhex(w["data"]).decode() for w in a.get("writes", []) if w["name"] == "out.txt"] if a.get("writes") else []
        if not a.get("ok") or got != [want]:
            chk.violate("a boolean -d spelling does not select the arm", {}, want, str(a)[:300])
    known = {k["id"]: k for k in fw.known_findings("C16") if k["status"] == "open"}
    for k in known.values():
        w = k.get("replay", {})
        if "program" in w and "flattened" in w:
            a = fw.run_oracle_resilient([fw.asm_op([("main.asm", w["program"])]), fw.asm_op([("main.asm", w["flattened"])])], "c16k")
            la, lb = parse(fw.asm_line(a[0])), parse(fw.asm_line(a[1]))
            if la != lb:
                chk.known(k["id"], k["observed"])
            else:
                chk.notes.append("known finding %s no longer reproduces" % k["id"])
    chk.sample({"program": cases[0][2][-400:], "defines": cases[0][1], "expected": str(cases[0][3])[:200], "impl": fw.asm_line(impl[0])[:200]})
    chk.traces += len(ops)


def replay(path):
    d = json.load(open(path))
    bad = 0
    for v in d.get("violations", []):
        inp = v["input"]
        if "program" not in inp:
            continue
        defs = [(n, x) for n, x in inp.get("defines", [])]
        il = fw.asm_line(fw.run_oracle_resilient([fw.asm_op([("main.asm", inp["program"])], defs=defs_field(defs) if inp.get("kind") == "cond" else None)], "rp")[0])
        print("replay ->", il[:200], "| expected", v["expected"][:200])
        if il[:400] == v["got"][:400]:
            bad += 1
    if bad:
        print("VIOLATION property=C16 replay=%s" % path)
        return 1
    return 0
