import sys, os, random
sys.path.insert(0, os.path.dirname(os.path.abspath(__file__)))
import fw
from props import C03
base = C03.corpus_files()
ops = [fw.asm_op([("main.asm", t)]) for t in base]
impl = fw.run_oracle_resilient(ops, "ct")
cops, idx = [], []
for i, (op, a) in enumerate(zip(ops, impl)):
    if a.get("state"):
        cops.append("cert %s %s" % (a["state"], op)); idx.append(i)
model = fw.run_model(cops, "ct")
bad = 0
for i, m in zip(idx, model):
    if m != "fixed-point":
        bad += 1
        if bad < 6:
            print("=====", base[i][:600]); print(m); print(impl[i]["state"][:300])
print("certs", len(cops), "not fixed", bad)
