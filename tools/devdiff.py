#!/usr/bin/env python3
"""development helper: differential run of one op kind over the repo's test inputs and mutants"""
import sys, os, random, json
sys.path.insert(0, os.path.dirname(os.path.abspath(__file__)))
import fw
from props import C03

def main():
    kind = sys.argv[1]
    n = int(sys.argv[2]) if len(sys.argv) > 2 else 2000
    rng = random.Random(int(sys.argv[3]) if len(sys.argv) > 3 else 1)
    base = C03.corpus_files()
    texts = list(base)
    while len(texts) < n:
        texts.append(C03.mutate(rng, rng.choice(base)))
    ops = ["%s %s" % (kind, fw.hx(t)) for t in texts]
    impl = fw.run_oracle_resilient(ops, "dev")
    model = fw.run_model(ops, "dev")
    bad = 0
    for t, a, m in zip(texts, impl, model):
        ia = ("ok" + a["ok"]) if "ok" in a else ("err " + a["err"]) if "err" in a else json.dumps(a)
        if ia != m:
            bad += 1
            if bad <= int(os.environ.get("SHOW", "5")):
                print("=== TEXT\n" + t[:600]); print("IMPL ", ia[:700]); print("MODEL", m[:700])
    print("total", len(texts), "mismatches", bad)

main()
