#!/bin/bash
# tools/seed_run.sh <seed-id> <prop> [tier] : apply a seeded change to /repo, run the check, undo.
# The evidence file of the property is saved and restored: evidence must describe the unchanged tree.
ID=$1; P=$2; T=${3:-quick}
cd /verif
git -C /repo diff --quiet || { echo "/repo not clean"; exit 2; }
[ -f evidence/$P.json ] && cp evidence/$P.json /tmp/evidence-$P.saved
git -C /repo apply /verif/seeded/$ID/patch.diff || exit 2
./check $P $T > /tmp/seedrun-$ID-$P.log 2>&1; RC=$?
git -C /repo checkout -- .
[ -f /tmp/evidence-$P.saved ] && mv /tmp/evidence-$P.saved evidence/$P.json
echo "$ID vs $P $T: rc=$RC $(grep -E 'VIOLATION|^C[0-9]+ ' /tmp/seedrun-$ID-$P.log | tr '\n' ' ')"
