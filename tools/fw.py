"""Shared machinery for the customasm verification checks (python3 stdlib only)."""
import fcntl, hashlib, json, os, random, re, subprocess, sys, time

VERIF = os.path.dirname(os.path.dirname(os.path.abspath(__file__)))
REPO = os.environ.get("VERIF_REPO", "/repo")
CACHE = os.path.join(VERIF, ".cache")
LEAN = os.path.join(VERIF, "lean")
TARGET = os.path.join(CACHE, "target")
ORACLE = os.path.join(TARGET, "release", "casm-oracle")
REALBIN = os.path.join(TARGET, "release", "customasm-real")
MODEL = os.path.join(LEAN, ".lake", "build", "bin", "casm-model")
ALLOWED_AXIOMS = {"propext", "Classical.choice", "Quot.sound"}
FORBIDDEN = re.compile(r"\bsorry\b|\badmit\b|^axiom |native_decide|bv_decide|implemented_by|\bunsafe |maxHeartbeats 0", re.M)

TRUSTED_BASE = [
    "Lean 4.33.0 kernel (thorough tier: re-checked with leanchecker)",
    "axioms used by the property theorems: subset of {propext, Classical.choice, Quot.sound} (per-theorem list in 'axioms'); no native_decide, no bv_decide, no sorry, no own axioms",
    "hand-written Lean model of the anchored Rust functions, tied to /repo by the correspondence stream of this run (oracle binary built from /repo's working tree vs compiled model) and by the regenerated tables in Casm/Gen",
    "Lean compiler only for running the model in the correspondence, never for a theorem",
    "oracle harness (/verif/harness), generators and canonicalisers in /verif/tools",
    "rustc, num-bigint, getopts, std",
]


class BuildError(Exception):
    pass


def log(*a):
    print(*a, file=sys.stderr, flush=True)


class Lock:
    def __init__(self, name):
        os.makedirs(CACHE, exist_ok=True)
        self.path = os.path.join(CACHE, name + ".lock")
    def __enter__(self):
        self.f = open(self.path, "w")
        fcntl.flock(self.f, fcntl.LOCK_EX)
    def __exit__(self, *a):
        fcntl.flock(self.f, fcntl.LOCK_UN)
        self.f.close()


def hx(s):
    if isinstance(s, str):
        s = s.encode("utf-8")
    return s.hex() if s else "-"


def run(cmd, cwd=None, env=None, timeout=None, input=None):
    e = dict(os.environ)
    if env:
        e.update(env)
    return subprocess.run(cmd, cwd=cwd, env=e, timeout=timeout, input=input,
                          stdout=subprocess.PIPE, stderr=subprocess.PIPE)


# ---------------------------------------------------------------- builds

def build_oracle():
    """Rebuild the oracle (and with it the customasm library) from /repo's working tree."""
    t0 = time.time()
    with Lock("cargo"):
        env = {"CARGO_TARGET_DIR": TARGET, "CARGO_NET_OFFLINE": "true",
               "RUSTFLAGS": "--cfg hlorenzi_customasm_verif -Awarnings"}
        r = run(["cargo", "build", "--release", "--offline"], cwd=os.path.join(VERIF, "harness"), env=env, timeout=1500)
        if r.returncode != 0:
            raise BuildError("oracle build failed (does /repo compile?):\n" + r.stderr.decode(errors="replace")[-4000:])
    return time.time() - t0


def build_real_binary():
    """Build the stock customasm binary (no hooks) from /repo's working tree into the cache."""
    t0 = time.time()
    with Lock("cargo-real"):
        tgt = os.path.join(CACHE, "target-real")
        env = {"CARGO_TARGET_DIR": tgt, "CARGO_NET_OFFLINE": "true", "RUSTFLAGS": "-Awarnings"}
        r = run(["cargo", "build", "--release", "--offline", "--bin", "customasm"], cwd=REPO, env=env, timeout=1500)
        if r.returncode != 0:
            raise BuildError("customasm build failed:\n" + r.stderr.decode(errors="replace")[-4000:])
    return os.path.join(tgt, "release", "customasm")


def gen_tables():
    """Translator: regenerate Casm/Gen/*.lean from /repo/src. Returns (ok, message)."""
    r = run([sys.executable, os.path.join(VERIF, "tools", "gen_tables.py")], timeout=120)
    return r.returncode == 0, (r.stdout.decode() + r.stderr.decode())[-3000:]


def theorem_names(pid):
    src = open(os.path.join(LEAN, "Casm", "Props", pid + ".lean")).read()
    # strip comments
    nc = re.sub(r"/-.*?-/", "", src, flags=re.S)
    nc = re.sub(r"--.*", "", nc)
    return re.findall(r"^theorem\s+([^\s:({\[]+)", nc, flags=re.M), src


def lean_sources_for_grep():
    out = []
    for root, _, files in os.walk(os.path.join(LEAN, "Casm")):
        for f in files:
            if f.endswith(".lean"):
                out.append(os.path.join(root, f))
    out.append(os.path.join(LEAN, "Main.lean"))
    return out


def forbidden_hits():
    hits = []
    for p in lean_sources_for_grep():
        src = open(p).read()
        nc = re.sub(r"/-.*?-/", lambda m: "\n" * m.group(0).count("\n"), src, flags=re.S)
        nc = re.sub(r"--.*", "", nc)
        for m in FORBIDDEN.finditer(nc):
            line = nc.count("\n", 0, m.start()) + 1
            hits.append("%s:%d:%s" % (os.path.relpath(p, VERIF), line, m.group(0).strip()))
    return hits


def prove(pid, tier, extra_modules=()):
    """lake build of the property's theorem module, the model exe, and the axiom audit.
    Returns dict(ok, obligations, discharged, axioms{thm:[..]}, failures[..], checker_cmd)."""
    res = {"ok": False, "obligations": 0, "discharged": 0, "axioms": {}, "failures": [], "wall_s": 0.0}
    t0 = time.time()
    names, _ = theorem_names(pid)
    res["obligations"] = len(names)
    mods = ["Casm.Props." + pid] + list(extra_modules)
    res["checker_cmd"] = "cd /verif/lean && lake build %s casm-model && lake env lean Casm/Audit/%s.lean  (#print axioms on every theorem of Props/%s.lean)" % (" ".join(mods), pid, pid)
    with Lock("lake"):
        ok, msg = gen_tables()
        if not ok:
            res["failures"].append("translator: " + msg)
            res["wall_s"] = time.time() - t0
            return res
        r = run(["lake", "build"] + mods + ["casm-model"], cwd=LEAN, timeout=3000)
        if r.returncode != 0:
            out = (r.stdout.decode(errors="replace") + r.stderr.decode(errors="replace"))
            errs = [l for l in out.splitlines() if "error" in l][:20]
            res["failures"].append("lake build failed: " + " | ".join(errs))
            res["build_log"] = out[-6000:]
            res["wall_s"] = time.time() - t0
            return res
        ns = "Casm." + pid
        audit = "import Casm.Props.%s\n" % pid + "".join("#print axioms %s.%s\n" % (ns, n) for n in names)
        os.makedirs(os.path.join(LEAN, "Casm", "Audit"), exist_ok=True)
        ap = os.path.join(LEAN, "Casm", "Audit", pid + ".lean")
        if not os.path.exists(ap) or open(ap).read() != audit:
            open(ap, "w").write(audit)
        r = run(["lake", "env", "lean", ap], cwd=LEAN, timeout=1200)
        out = r.stdout.decode(errors="replace") + r.stderr.decode(errors="replace")
        if tier == "thorough":
            for m in mods:
                rc = run(["lake", "env", "leanchecker", m], cwd=LEAN, timeout=3000)
                res.setdefault("leanchecker", {})[m] = rc.returncode
                if rc.returncode != 0:
                    res["failures"].append("leanchecker rejected " + m + ": " + (rc.stdout + rc.stderr).decode(errors="replace")[-500:])
    flat = re.sub(r"\s+", " ", out)
    for n in names:
        full = ns + "." + n
        m = re.search(r"'" + re.escape(full) + r"' (does not depend on any axioms|depends on axioms: \[([^\]]*)\])", flat)
        if not m:
            res["failures"].append("no audit line for " + full)
            continue
        axs = [a.strip() for a in (m.group(2) or "").split(",") if a.strip()]
        res["axioms"][n] = axs
        bad = [a for a in axs if a not in ALLOWED_AXIOMS]
        if bad:
            res["failures"].append("%s uses axioms %s" % (full, bad))
        else:
            res["discharged"] += 1
    fh = forbidden_hits()
    if fh:
        res["failures"].append("forbidden constructs in Lean sources: " + ", ".join(fh[:10]))
    res["ok"] = (not res["failures"]) and res["discharged"] == res["obligations"] and res["obligations"] > 0
    res["wall_s"] = time.time() - t0
    return res


# ---------------------------------------------------------------- running ops

def _write_ops(ops, tag):
    os.makedirs(os.path.join(CACHE, "ops"), exist_ok=True)
    p = os.path.join(CACHE, "ops", "%s-%d.ops" % (tag, os.getpid()))
    with open(p, "w") as f:
        for o in ops:
            f.write(o + "\n")
    return p


def run_oracle(ops, tag="o", timeout=1800):
    """ops: list of protocol lines. Returns list of dicts (one per op)."""
    if not ops:
        return []
    p = _write_ops(ops, tag + "-impl")
    outp = p + ".out"
    r = run([ORACLE, p, outp], timeout=timeout)
    lines = open(outp, errors="replace").read().splitlines() if os.path.exists(outp) else []
    os.unlink(p)
    if os.path.exists(outp):
        os.unlink(outp)
    res = []
    for l in lines:
        try:
            res.append(json.loads(l))
        except Exception:
            res.append({"unparsable": l})
    if len(res) != len(ops):
        # the oracle process died (abort, stack overflow, OOM) at op len(res)
        res.append({"died": True, "returncode": r.returncode, "stderr": _head_tail(r.stderr.decode(errors="replace"))})
        while len(res) < len(ops):
            res.append({"not_run": True})
    return res


def _head_tail(t, head=2500, tail=500):
    """how a process died is said at the top of its stderr, where at the bottom"""
    return t if len(t) <= head + tail else t[:head] + "\n...\n" + t[-tail:]


def run_oracle_resilient(ops, tag="o", timeout=1800):
    """Like run_oracle but restarts after an op that kills the process."""
    res = []
    rest = list(ops)
    deaths = 0
    while rest:
        if deaths >= 25:
            # the implementation keeps crashing: enough evidence, do not grind through the rest
            res.extend({"not_run": True} for _ in rest)
            break
        part = run_oracle(rest, tag, timeout)
        cut = None
        for i, a in enumerate(part):
            if a.get("died"):
                cut = i
                break
        if cut is None:
            res.extend(part)
            break
        res.extend(part[:cut + 1])
        rest = rest[cut + 1:]
        deaths += 1
    return res


def run_model(ops, tag="m", timeout=1800):
    if not ops:
        return []
    p = _write_ops(ops, tag + "-model")
    r = run([MODEL, p], timeout=timeout)
    os.unlink(p)
    lines = r.stdout.decode(errors="replace").splitlines()
    if len(lines) != len(ops):
        raise BuildError("model driver answered %d of %d ops (rc %d): %s" % (len(lines), len(ops), r.returncode, r.stderr.decode(errors="replace")[-500:]))
    return lines


def all_descr(msgs):
    """Flatten a message tree into the list of its descriptions."""
    out = []
    for m in msgs:
        out.append(m["descr"])
        out.extend(all_descr(m.get("inner", [])))
    return out


def asm_op(files, roots=1, max_iter=10, opt_s=True, opt_m=True, defs=None):
    """files: list of (name, content); the first `roots` are root files."""
    d = "-"
    if defs:
        d = ",".join("%s=%s" % (hx(n), v) for n, v in defs)
    parts = ["asm", str(max_iter), "1" if opt_s else "0", "1" if opt_m else "0", d, str(roots), str(len(files))]
    for n, c in files:
        parts += [hx(n), hx(c)]
    return " ".join(parts)


def canon_err(m):
    """bank names are not part of the model's error classes"""
    if m.startswith("output of bank") or m.startswith("output to non-writable bank") or m.startswith("output out of range for bank"):
        m = re.sub(r" `[^`]*`", "", m)
    if m.startswith("file not found: `"):
        m = "file not found"            # the model's error class; the name is the argument of the call
    return m


def asm_line(a):
    """canonical one-line form of an `asm` answer of the oracle, comparable with the model's `asm` answer"""
    if a.get("panic") is not None or a.get("died") or a.get("not_run"):
        return "panic"
    if a.get("output") is not None and not a.get("has_errors"):
        o = a["output"]
        spans = ",".join("%s:%d:%s" % ("n" if s["offset"] is None else s["offset"], s["size"], s["addr"]["v"]) for s in o["spans"]) or "-"
        syms = ",".join("%s=%s:%s" % (s["name"], s["value"]["v"], "-" if s["value"]["size"] is None else s["value"]["size"]) for s in a["symbols"]) or "-"
        return "ok %s %s iters=%s syms=%s" % (o["bits"] or "-", spans, a["iters"], syms)
    if a.get("output") is not None and a.get("has_errors"):
        return "inconsistent: output and errors"
    return "err " + canon_err(a.get("first_error", "?"))


# ---------------------------------------------------------------- known findings

def known_findings(pid):
    p = os.path.join(VERIF, "known_findings.json")
    if not os.path.exists(p):
        return []
    return [k for k in json.load(open(p))["findings"] if k["property"] == pid]


def _witness_fails(w):
    """does the recorded witness of a finding still fail?  Two forms:
       runs: [{files: [[name, text], ...], roots, budget, defines}], fails_when: one of
             "differ" (the runs give different results), "first_ok", "first_err", "first_is:<canonical line prefix>"
             - run in-process through the oracle harness;
       cli:  {files: {name: text}, argv: [...]}, fails_when: {"exit": n, "stdout_has": s, "stderr_has": s, "file_absent": name,
             "file_equals": [a, b]} (all given conditions must hold) - run with the binary built from /repo."""
    import subprocess, tempfile, shutil
    if "runs" in w:
        ops = [asm_op([tuple(f) for f in r["files"]], roots=r.get("roots", 1), max_iter=r.get("budget", 10),
                      opt_s=r.get("opt_s", True), opt_m=r.get("opt_m", True),
                      defs=[tuple(d) for d in r["defines"]] if r.get("defines") else None) for r in w["runs"]]
        lines = [asm_line(a) for a in run_oracle_resilient(ops, "wit")]
        bits = [(l.split(" ")[1] if l.startswith("ok ") else l) for l in lines]
        fw_ = w["fails_when"]
        if fw_ == "differ":
            return len(set(bits)) > 1, lines
        if fw_ == "first_ok":
            return lines[0].startswith("ok "), lines
        if fw_ == "first_err":
            return lines[0].startswith("err") or lines[0] == "panic", lines
        if fw_.startswith("first_is:"):
            return lines[0].startswith(fw_[len("first_is:"):]), lines
        raise ValueError(fw_)
    c = w["cli"]
    binary = build_real_binary()
    d = tempfile.mkdtemp(prefix="wit", dir=CACHE)
    try:
        for n, t in c["files"].items():
            os.makedirs(os.path.dirname(os.path.join(d, n)) or d, exist_ok=True)
            open(os.path.join(d, n), "wb").write(t.encode("utf-8", "surrogateescape"))
        try:
            so_ = open(c["stdout_to"], "wb") if c.get("stdout_to") else subprocess.PIPE
            r = subprocess.run([binary] + c["argv"], cwd=os.path.join(d, c.get("cwd", ".")), stdout=so_, stderr=subprocess.PIPE, timeout=c.get("timeout", 30))
            if so_ is not subprocess.PIPE:
                so_.close()
                r.stdout = b"" 
            rc, so, se = r.returncode, r.stdout.decode(errors="replace"), r.stderr.decode(errors="replace")
        except subprocess.TimeoutExpired:
            rc, so, se = "timeout", "", ""
        f = w["fails_when"]
        ok = True
        if "exit" in f:
            ok = ok and rc == f["exit"]
        if "stdout_has" in f:
            ok = ok and f["stdout_has"] in so
        if "stdout_lacks" in f:
            ok = ok and f["stdout_lacks"] not in so
        if "stderr_has" in f:
            ok = ok and f["stderr_has"] in (se + so)
        if "file_absent" in f:
            ok = ok and not os.path.exists(os.path.join(d, f["file_absent"]))
        if "file_not_text" in f:
            a = os.path.join(d, f["file_not_text"][0])
            ok = ok and os.path.exists(a) and open(a, "rb").read() != f["file_not_text"][1].encode()
        if "file_equals" in f:
            a, b = [os.path.join(d, x) for x in f["file_equals"]]
            ok = ok and os.path.exists(a) and os.path.exists(b) and open(a, "rb").read() == open(b, "rb").read()
        return ok, ["exit %s" % rc, so[-200:], se[-200:]]
    finally:
        shutil.rmtree(d, ignore_errors=True)


def replay_generic_witnesses(chk):
    """recorded findings that no generator reaches (classifier `witness`): their witnesses are replayed on every run; a witness that
    still fails is reported as KNOWN-FINDING, one that no longer fails is only noted (nothing is suppressed by these entries)"""
    for kf in known_findings(chk.pid):
        if kf.get("status") != "open" or kf.get("signature", {}).get("classifier") != "witness":
            continue
        try:
            fails, got = _witness_fails(kf["replay"])
        except Exception as e:            # a witness that cannot be run says nothing
            chk.notes.append("known finding %s: witness could not be run (%s)" % (kf["id"], e))
            continue
        chk.evaluations += 1
        chk.count("witness_replayed")
        if fails:
            chk.known(kf["id"], kf["observed"])
        else:
            chk.notes.append("known finding %s no longer reproduces on its witness: %s" % (kf["id"], str(got)[:200]))


# ---------------------------------------------------------------- result handling

class Check:
    """Collects what one check run did and renders verdict + evidence."""
    def __init__(self, pid, tier, seed):
        self.pid, self.tier, self.seed = pid, tier, seed
        self.t0 = time.time()
        self.rng = random.Random(seed)
        self.evaluations = 0
        self.nontrivial = set()
        self.samples = []
        self.dist = {}
        self.disagreements = []      # model vs implementation
        self.violations = []         # implementation vs statement (not known)
        self.known_hits = {}         # finding id -> count of attributed cases
        self.known_lines = []
        self.proof = None
        self.traces = 0
        self.notes = []
        self.rule = ""
        self.extra = {}

    def count(self, key, n=1):
        self.dist[key] = self.dist.get(key, 0) + n

    def nontriv(self, obj):
        self.nontrivial.add(hashlib.sha1(repr(obj).encode()).hexdigest()[:16])

    def sample(self, obj, cap=12):
        if len(self.samples) < cap:
            self.samples.append(obj)

    def disagree(self, op, model, impl, note=""):
        if len(self.disagreements) < 50:
            self.disagreements.append({"op": op, "model": model, "impl": impl, "note": note})
        else:
            self.count("disagreements_dropped")

    def violate(self, what, inp, expected, got, replay=None):
        if len(self.violations) < 50:
            self.violations.append({"what": what, "input": inp, "expected": expected, "got": got, "replay": replay})

    def known(self, fid, line):
        self.known_hits[fid] = self.known_hits.get(fid, 0) + 1
        if fid not in [k[0] for k in self.known_lines]:
            self.known_lines.append((fid, line))

    # ------------------------------------------------------------
    def finish(self):
        pid = self.pid
        wall = time.time() - self.t0
        os.makedirs(os.path.join(VERIF, "replays"), exist_ok=True)
        verdict_lines = []
        for fid, line in self.known_lines:
            verdict_lines.append("KNOWN-FINDING: property=%s %s" % (pid, line))
        rc = 0
        proof_ok = bool(self.proof and self.proof["ok"])
        if self.violations:
            rp = os.path.join("replays", "%s-%s-%d.json" % (pid, self.tier, self.seed))
            json.dump({"property": pid, "kind": "failing-input", "violations": self.violations,
                       "disagreements": self.disagreements[:10],
                       "proof_failures": (self.proof or {}).get("failures", [])},
                      open(os.path.join(VERIF, rp), "w"), indent=1)
            verdict_lines.append("VIOLATION property=%s replay=%s" % (pid, rp))
            rc = 1
        elif (not proof_ok) or self.disagreements:
            rp = os.path.join("replays", "%s-%s-%d.json" % (pid, self.tier, self.seed))
            json.dump({"property": pid, "kind": "tie-or-proof-broken",
                       "no_longer_checks": ((self.proof or {}).get("failures", []) +
                                            ["correspondence op `%s`: model=%s impl=%s %s" % (d["op"][:300], str(d["model"])[:300], str(d["impl"])[:300], d["note"]) for d in self.disagreements[:20]]),
                       "disagreements": self.disagreements[:20],
                       "search": "extended search of the implementation around the disagreeing inputs found no input violating the property statement"},
                      open(os.path.join(VERIF, rp), "w"), indent=1)
            verdict_lines.append("VIOLATION property=%s replay=%s no-failing-input-found" % (pid, rp))
            rc = 1
        if rc == 0:
            for tier in (self.tier,):
                stale = os.path.join(VERIF, "replays", "%s-%s-%d.json" % (pid, tier, self.seed))
                if os.path.exists(stale):
                    os.unlink(stale)
        cov = {
            "obligations": (self.proof or {}).get("obligations", 0),
            "discharged": (self.proof or {}).get("discharged", 0),
            "checker_cmd": (self.proof or {}).get("checker_cmd", ""),
            "trusted_base": TRUSTED_BASE,
            "axioms": (self.proof or {}).get("axioms", {}),
            "proof_failures": (self.proof or {}).get("failures", []),
            "proof_wall_s": round((self.proof or {}).get("wall_s", 0.0), 1),
            "evaluations": self.evaluations,
            "distinct_nontrivial": len(self.nontrivial),
            "rule": self.rule,
            "samples": self.samples,
            "traces_validated_against_impl": self.traces,
            "model_vs_impl_disagreements": len(self.disagreements) + self.dist.get("disagreements_dropped", 0),
            "impl_vs_statement_violations": len(self.violations),
            "known_finding_attributions": self.known_hits,
            "distribution": self.dist,
            "explanation": "; ".join(self.notes),
        }
        cov.update(self.extra)
        ev = {"property_id": pid, "tier": self.tier, "seed": self.seed, "level": "proof",
              "coverage": cov, "assumptions": TRUSTED_BASE, "wall_s": round(wall, 1),
              "violations": len(self.violations)}
        os.makedirs(os.path.join(VERIF, "evidence"), exist_ok=True)
        json.dump(ev, open(os.path.join(VERIF, "evidence", pid + ".json"), "w"), indent=1)
        for l in verdict_lines:
            print(l)
        print("%s %s: theorems %d/%d, %d ops (%d distinct non-trivial), %d model/impl disagreements, %d violations, %d known-finding attributions, %.0fs"
              % (pid, self.tier, cov["discharged"], cov["obligations"], self.evaluations, len(self.nontrivial),
                 cov["model_vs_impl_disagreements"], len(self.violations), sum(self.known_hits.values()), wall))
        return rc
