"""Directed input families for C19, parameterised by magnitude. Each family: name -> function(k) -> program text
(or (program text, extra argv)). `k` is a nesting depth / chain length / cycle length / exponent."""

RULES = "#ruledef\n{\n    ld {x} => 0x11 @ x`8\n    nop => 0x00\n}\n"


def depth_families():
    f = {}
    f["paren_nesting"] = lambda d: "#d8 " + "(" * d + "1" + ")" * d + "\n"
    f["unary_minus_chain"] = lambda d: "#d8 (" + "-" * d + "1)`8\n"
    f["unary_not_chain"] = lambda d: "#d8 (" + "!" * d + "1)`8\n"
    f["binop_add_chain"] = lambda d: "#d8 (" + "+".join(["1"] * d) + ")`8\n"
    f["binop_concat_chain"] = lambda d: "x = " + " @ ".join(["0x1"] * d) + "\n#d8 x`8\n"
    f["ternary_chain"] = lambda d: "#d8 (" + "1 == 1 ? 1 : " * d + "0)`8\n"
    f["slice_short_chain"] = lambda d: "#d8 1" + "`8" * d + "\n"
    f["slice_chain"] = lambda d: "#d8 0x12" + "[7:0]" * d + "\n"
    f["block_nesting"] = lambda d: "#ruledef\n{\n    ld {x} => " + "{ " * d + "x`8" + " }" * d + "\n}\nld 1\n"
    f["call_arg_nesting"] = lambda d: "#fn f(x) => x\n#d8 " + "f(" * d + "1" + ")" * d + "\n"
    f["if_nesting"] = lambda d: "#if true\n{\n" * d + "#d8 1\n" + "}\n" * d
    f["elif_chain"] = lambda d: "#if false\n{\n}\n" + "#elif false\n{\n}\n" * d + "#else\n{\n#d8 1\n}\n"
    f["brace_nesting_in_ruledef"] = lambda d: "#ruledef\n{\n    ld => " + "{" * d + "0x00" + "}" * d + "\n}\nld\n"
    f["asm_block_nesting"] = lambda d: "#ruledef\n{\n    nop => 0x00\n    m => " + "asm { m2 }\n    m2 => " .join([""] ) + nest_asm(d) + "\n}\nm0\n"
    f["include_chain"] = None
    f["label_nesting"] = lambda d: "\n".join("." * i + "l%d:" % i for i in range(d)) + "\n#d8 0\n"
    f["many_lines"] = lambda d: "#d8 1\n" * d
    f["many_labels"] = lambda d: "".join("l%d:\n#d8 %d\n" % (i, i % 256) for i in range(d))
    f["long_identifier"] = lambda d: "x" * d + " = 1\n#d8 " + "x" * d + "\n"
    f["long_string"] = lambda d: "#d \"" + "a" * d + "\"\n"
    f["many_rules"] = lambda d: "#ruledef\n{\n" + "".join("    op%d {x} => 0x%02x @ x`8\n" % (i, i % 256) for i in range(d)) + "}\nop%d 1\n" % (d - 1)
    f["many_params"] = lambda d: "#ruledef\n{\n    ld " + ", ".join("{p%d}" % i for i in range(d)) + " => 0x00\n}\nld " + ", ".join(["1"] * d) + "\n"
    del f["asm_block_nesting"], f["include_chain"]
    f["asm_macro_nesting"] = lambda d: "#ruledef\n{\n    nop => 0x00\n" + "".join("    m%d => asm { m%d }\n" % (i, i + 1) for i in range(d)) + "    m%d => 0x01\n}\nm0\n" % d
    f["fn_call_depth"] = lambda d: "".join("#fn f%d(x) => f%d(x)\n" % (i, i + 1) for i in range(d)) + "#fn f%d(x) => x\n#d8 f0(1)\n" % d
    f["subrule_nesting"] = lambda d: "#ruledef\n{\n    ld {x: r0} => 0x11 @ x\n}\n" + "".join("#subruledef r%d\n{\n    ({x: r%d}) => x\n}\n" % (i, i + 1) for i in range(d)) + "#subruledef r%d\n{\n    a => 0x01\n}\nld %sa%s\n" % (d, "(" * d, ")" * d)
    return f


def nest_asm(d):
    return ""


def cycle_families():
    f = {}
    def fn_cycle(n):
        return "".join("#fn f%d(x) => f%d(x + 1)\n" % (i, (i + 1) % n) for i in range(n)) + "#d8 f0(1)\n"
    def asm_cycle(n):
        return "#ruledef\n{\n" + "".join("    m%d {x} => asm { m%d {x} }\n" % (i, (i + 1) % n) for i in range(n)) + "}\nm0 1\n"
    def rule_fn_cycle(n):
        return "#fn f(x) => asm { m0 }\n#ruledef\n{\n" + "".join("    m%d => asm { m%d }\n" % (i, i + 1) for i in range(n - 1)) + "    m%d => 0x00 @ f(1)`8\n}\nm0\n" % (n - 1)
    def subrule_left(n):
        # left-recursive sub-rules: r0 -> {x: r1} ... -> r0   (the tables must not be called s0, s1, ...: those are integer types)
        return "#ruledef\n{\n    ld {x: r0} => 0x11 @ x\n}\n" + "".join("#subruledef r%d\n{\n    {x: r%d} + => x\n    a => 0x01\n}\n" % (i, (i + 1) % n) for i in range(n)) + "ld a\n"
    def subrule_right(n):
        return "#ruledef\n{\n    ld {x: r0} => 0x11 @ x\n}\n" + "".join("#subruledef r%d\n{\n    + {x: r%d} => x\n    a => 0x01\n}\n" % (i, (i + 1) % n) for i in range(n)) + "ld + + + a\n"
    def subrule_left_fed(n):
        # the same cycle, with an input that feeds it: the text after the operand is what the left-recursive rule asks for, so the
        # matcher does try the rule - and re-enters it without consuming anything (finding F14c)
        return "#ruledef\n{\n    ld {x: r0} => 0x11 @ x\n}\n" + "".join("#subruledef r%d\n{\n    {x: r%d} b => x @ 0x01\n    c => 0x02\n}\n" % (i, (i + 1) % n) for i in range(n)) + "ld c b b\n"
    def const_cycle(n):
        return "".join("c%d = c%d + 1\n" % (i, (i + 1) % n) for i in range(n)) + "#d8 c0\n"
    def include_cycle(n):
        return None
    f["fn_cycle"] = fn_cycle
    f["asm_cycle"] = asm_cycle
    f["rule_fn_cycle"] = rule_fn_cycle
    f["subrule_left_recursion"] = subrule_left
    f["subrule_right_recursion"] = subrule_right
    f["subrule_left_recursion_fed"] = subrule_left_fed
    f["const_cycle"] = const_cycle
    return f


def magnitude_families(delta=0):
    """k -> the operand 2^k - delta written in hex (delta 1 and 8: the last values below a machine-word boundary)"""
    f = {}
    def H(k):
        return "0x1" + "0" * (k // 4) if k % 4 == 0 else "(1 << %d)" % k
    def lit(k):
        # literal 2^k for k up to a few thousand; beyond that expressed with a shift of a literal by a smaller literal
        return "0x%x" % ((1 << k) - delta) if k <= 4096 else "(1 << %d)" % k
    f["shift_left_amount"] = lambda k: "#d8 (1 << %s)`8\n" % lit(k) if k <= 64 else "#d8 (1 << (1 << %d))`8\n" % k
    f["shift_left_wide_operand"] = lambda k: "#d8 (0xff << %s)`8\n" % lit(k) if k <= 64 else None
    f["shift_right_amount"] = lambda k: "#d8 (1 >> %s)`8\n" % lit(k)
    f["slice_hi"] = lambda k: "#d8 (5[%s:0])`8\n" % lit(k)
    f["slice_lo"] = lambda k: "#d8 (5[%s:%s])`8\n" % (lit(k), lit(k))
    f["slice_short_width"] = lambda k: "x = 5`%s\n#d8 x`8\n" % lit(k)
    f["data_width_suffix"] = lambda k: "#d%d 1\n" % (1 << k) if k <= 70 else None
    f["typed_param_width"] = lambda k: "#ruledef\n{\n    ld {x: u%d} => 0x11 @ x`8\n}\nld 1\n" % (1 << k) if k <= 70 else None
    f["res_size"] = lambda k: "#d8 1\n#res %s\n#d8 2\n" % lit(k)
    f["align_size"] = lambda k: "#d8 1\n#align %s\n#d8 2\n" % lit(k)
    f["addr_value"] = lambda k: "#d8 1\n#addr %s\n#d8 2\n" % lit(k)
    f["bankdef_size"] = lambda k: "#bankdef a { #addr 0, #size %s, #outp 0 }\n#d8 1\n" % lit(k)
    f["bankdef_size_fill"] = lambda k: "#bankdef a { #addr 0, #size %s, #outp 0, #fill }\n#d8 1\n" % lit(k)
    f["bankdef_outp"] = lambda k: "#bankdef a { #addr 0, #size 16, #outp %s }\n#d8 1\n" % lit(k)
    f["bankdef_addr"] = lambda k: "#bankdef a { #addr %s, #size 16, #outp 0 }\nl:\n#d8 1\n#d64 l\n" % lit(k)
    f["bankdef_bits"] = lambda k: "#bankdef a { #bits %s, #addr 0, #size 16, #outp 0 }\n#d8 1\n" % lit(k)
    f["bankdef_labelalign"] = lambda k: "#bankdef a { #addr 0, #size 16, #outp 0, #labelalign %s }\n#d8 1\nl:\n#d8 2\n" % lit(k)
    f["bits_directive"] = lambda k: "#bits %s\n#d8 1\n" % lit(k)
    f["labelalign_directive"] = lambda k: "#labelalign %s\n#d8 1\nl:\n#d8 2\n" % lit(k)
    f["multiplication_magnitude"] = lambda k: "x = %s * %s\n#d8 x`8\n" % (lit(k), lit(k))
    f["addition_magnitude"] = lambda k: "x = %s + %s\n#d8 x`8\n" % (lit(k), lit(k))
    f["repeated_squaring"] = lambda k: "".join("x%d = x%d * x%d\n" % (i + 1, i, i) for i in range(k)) + "x0 = 0x10000\n#d8 x%d`8\n" % k if k <= 40 else None
    # a small left operand times a right operand at the limit, the product fed back as the right operand
    # (powers of two, so that each product is cheap if it is wrongly computed): diagnosed at the first product
    f["mul_small_by_huge_chain"] = lambda k: ("a = 1 << 399999990\nx0 = 1 << 799999990\n" +
        "".join("x%d = a * x%d\n" % (i + 1, i) for i in range(k)) + "#d8 (x%d != 0) ? 1 : 0\n" % k) if k <= 16 else None
    f["concat_sizes"] = lambda k: "x = 1`%s @ 1`%s\n#d8 x`8\n" % (lit(k), lit(k))
    f["incbin_start"] = lambda k: "#d incbin(\"data.bin\", %s, 1)\n" % lit(k)
    f["incbin_length"] = lambda k: "#d incbin(\"data.bin\", 0, %s)\n" % lit(k)
    f["incbin_start_plus_length"] = lambda k: "#d incbin(\"data.bin\", %s, %s)\n" % (lit(k), lit(k))
    f["strlen_le_width"] = lambda k: "#d le(1`%s)\n" % lit(k)
    f["negative_shift"] = lambda k: "#d8 (1 << -%s)`8\n" % lit(k)
    f["negative_res"] = lambda k: "#res -%s\n#d8 1\n" % lit(k)
    f["negative_align"] = lambda k: "#align -%s\n#d8 1\n" % lit(k)
    f["negative_slice"] = lambda k: "#d8 (5[-1:-%s])`8\n" % lit(k)
    f["data_value_magnitude"] = lambda k: "#d8 %s\n" % lit(k)
    f["iters_option"] = lambda k: ("#d8 1\n", ["-t", str(1 << k)]) if k <= 70 else None
    return f


def word_edge_positions():
    """programs whose bank position, reservation or address distance reaches the edge of a machine word: every one is an
    error or a tiny output (finding F61, repaired: the sums and products wrapped around in the released binary)"""
    return [
        "#d8 1\n#align 0xffffffffffffffff\n#d8 2\n",
        "#d8 1\n#align 0xffffffffffffffff\n",
        "#d8 1\n#align 0xfffffffffffffff8\n#d8 2\n",
        "#d8 1\n#align 0xfffffffffffffff9\n#d8 2\n#d8 3\n",
        "#bankdef b { #bits 0x100000000000, #addr 0, #outp 0 }\n#res 0x100000\n#d8 1\n",
        "#bankdef b { #bits 0x100000000000, #addr 0, #outp 0 }\n#res 0xfffff\n",
        "#bankdef b { #bits 0x100000001, #addr 0, #outp 0 }\n#res 0xffffffff\n#res 0xffffffff\n",
        "#bankdef b { #bits 16, #addr 0, #outp 0 }\n#addr 0x1000000000000001\n#d16 1\n",
        "#bankdef b { #bits 16, #addr 0, #outp 0 }\n#addr 0x0fffffffffffffff\n#d16 1\n",
        "#bankdef b { #bits 16, #addr 0, #size 0x100, #outp 0 }\n#addr 0x1000000000000001\n#d16 1\n",
        "#bankdef b { #bits 8, #addr 0, #size 0x100, #outp 0, #labelalign 0xffffffffffffffff }\n#d8 1\nl:\n#d8 2\nk:\n",
        "#bankdef b { #bits 8, #addr 0, #size 0x1ffffffffffffff, #outp 0 }\n#res 0xffffffff\n#res 0xffffffff\n#align 0xffffffffffffff00\n#res 0xff\nx:\n",
        "#bankdef b { #bits 8, #addr 0 }\n#align 0xfffffffffffffff8\n#res 1\nx:\n",
        "#bankdef b { #bits 8, #addr 0 }\n#d8 1\n#align 0xffffffffffffffff\n#res 1\nx:\n",
        "#bankdef b { #bits 8, #addr 0 }\n#res 1\n#align 0xffffffffffffffff\n#res 0xffffffff\nx:\n#d8 x`8\n",
        # the output position `outp + position` (finding F81, repaired: it wrapped, the item landed outside its bank's window)
        "#bankdef a { bits=8, addr=0, size=0x10, outp=0xffff_ffff_ffff_fff8 }\n#bankdef b { bits=8, addr=0, size=0x10, outp=0x10 }\n#bank b\n#d8 0xcd\n#bank a\n#res 1\n#d8 0xab\n",
        "#bankdef a { bits=8, addr=0, size=1, outp=0xffff_ffff_ffff_fff8, fill }\n",
        "#bankdef a { bits=8, addr=0, size=8, outp=0xffff_ffff_ffff_ffc0 }\n#d8 1\n",
        "#bankdef a { bits=8, addr=0, size=7, outp=0xffff_ffff_ffff_ffc0 }\n#res 6\nx:\n",
        "#bankdef a { bits=8, addr=0, outp=0xffff_ffff_ffff_fff8 }\n#bankdef b { bits=8, addr=0, size=0x10, outp=0x10 }\n#bank b\n#d8 0xcd\n#bank a\n#res 1\n#d8 0xab\n",
        "#bankdef a { bits=8, addr=0, outp=0xffff_ffff_ffff_fff0 }\n#res 1\nx:\n#res 1\ny:\n",
        "#bankdef a { bits=8, addr=0, outp=0xffff_ffff_ffff_fff0 }\n#res 2\nx:\n",
        # a static size estimate above 2^64 bits, in a branch that is not taken (finding F82, repaired: the sum of the sizes
        # wrapped in the released binary and panicked under overflow checks)
        "#d false ? (1`18446744073709551615 @ 1`1) : 0x1\n",
        "#ruledef\n{\n    t {x: u18446744073709551615}, {y: u8} => (true ? y : x @ y)\n}\nt 5, 6\n",
        "#ruledef\n{\n    ld {x} => { assert(x > 5), 0x55 @ x`18446744073709551615 @ x`8 }\n    ld {x} => 0x11 @ x`8\n}\nld 1\n",
    ]
