"""Generated instruction sets and size-static programs over them, with the result the language
definition prescribes (computed here from the structure, never by running any assembler), and a
renderer that can re-spell the same program (case, blanks, comments, rule order and partition,
label names) for the metamorphic properties.

A program is a structure:
  rules   : list of Rule (mnemonic, operand specs, opcode)
  lines   : list of items ('label', name) | ('instr', rule index, [operand values]) | ('data', width, [values])
            | ('res', n) | ('align', n) | ('const', name, valuespec) | ('bank', name)
`expected(prog)` gives ('ok', bits, symbols) or ('err', reason-class).
"""
import random

REGS = [("r0", 0), ("r1", 1), ("r2", 2), ("sp", 13), ("pc", 15)]
MNEMONICS = ["ld", "ldx", "ldi", "ld.w", "ld.b", "add", "adc", "ad", "mv.8", "mv.", "2dup", "2drop", "dup", "jmp", "j",
             "st", "halt", "nop", "x1", "push", "pop", "a", "b.eq", "b.ne", "inc", "in"]
WRAPS = ["%s", "(%s)", "[%s]", "#%s", "%s", "%s"]


class Opd:
    """operand spec: kind in typed/untyped/reg/lit"""
    def __init__(self, kind, ty=None, n=0, lit=None, wrap="%s", xform=None):
        self.kind, self.ty, self.n, self.lit, self.wrap, self.xform = kind, ty, n, lit, wrap, xform

    def size(self):
        if self.kind == "typed" and self.xform in ("widen", "plus1"):
            return self.n + 8
        return {"typed": self.n, "untyped": self.n, "reg": 4, "lit": 0, "sub": 16}[self.kind]


class Rule:
    def __init__(self, mnem, opds, opcode, opbits, seps=None, family=None):
        self.mnem, self.opds, self.opcode, self.opbits = mnem, opds, opcode, opbits
        self.seps = seps or [", "] * len(opds)      # separator in front of operand k >= 1
        self.family = family                        # rules of one family share the shape and differ in one typed width
        self.lseps = None                           # separators used when a line is written for this rule (default: seps)

    def size(self):
        return self.opbits + sum(o.size() for o in self.opds)

    def shape(self):
        return (self.mnem, tuple((o.wrap, o.lit if o.kind == "lit" else "*", self.seps[k].strip() if k else "") for k, o in enumerate(self.opds)))

    def shapes(self):
        """every shape this rule's lines can have: a sub-rule operand is written `#expr` or `[expr]`, so it
        also occupies the shapes of an expression operand wrapped that way"""
        out = [()]
        for k, o in enumerate(self.opds):
            sep = self.seps[k].strip() if k else ""
            wraps = [o.wrap, "#%s", "[%s]"] if o.kind == "sub" else [o.wrap]
            out = [t + ((w, o.lit if o.kind == "lit" else "*", sep),) for t in out for w in wraps]
        return [(self.mnem, t) for t in out]

    def pattern(self, case=lambda s: s):
        parts = []
        for k, o in enumerate(self.opds):
            name = "p%d" % k
            if o.kind == "typed":
                inner = "{%s: %s%d}" % (name, o.ty, o.n)
            elif o.kind == "untyped":
                inner = "{%s}" % name
            elif o.kind == "reg":
                inner = "{%s: reg}" % name
            elif o.kind == "sub":
                inner = "{%s: opnd}" % name
            else:
                inner = case(o.lit)
            parts.append((self.seps[k] if k else "") + o.wrap % inner)
        return case(self.mnem) + (" " + "".join(parts) if parts else "")

    def production(self):
        parts = ["0x%0*x" % (self.opbits // 4, self.opcode)] if self.opbits % 4 == 0 else ["%d`%d" % (self.opcode, self.opbits)]
        for k, o in enumerate(self.opds):
            name = "p%d" % k
            if o.kind == "typed":
                if o.xform == "le":
                    parts.append("le(%s)" % name)
                elif o.xform == "swap":
                    h = o.n // 2
                    parts.append("%s[%d:0] @ %s[%d:%d]" % (name, h - 1, name, o.n - 1, h))
                elif o.xform == "widen":
                    # the value, not its bit pattern, is what the production sees: a negative argument is sign-extended
                    parts.append("%s`%d" % (name, o.n + 8))
                elif o.xform == "plus1":
                    parts.append("(%s + 1)`%d" % (name, o.n + 8))
                elif isinstance(o.xform, tuple):
                    parts.append("(%s + %s)`%d" % (name, o.xform[1], o.n))
                else:
                    parts.append(name)
            elif o.kind == "untyped":
                parts.append("%s`%d" % (name, o.n))
            elif o.kind in ("reg", "sub"):
                parts.append(name)
        return " @ ".join(parts)


def tc(v, n):
    return format(v & ((1 << n) - 1), "0%db" % n) if n else ""


def in_range(ty, n, v):
    if ty == "u":
        return 0 <= v < (1 << n)
    if ty == "s":
        return -(1 << (n - 1)) <= v < (1 << (n - 1))
    return -(1 << (n - 1)) <= v < (1 << n)


def encode(rule, vals, addr=None):
    """bits of one instruction, or None when an argument is out of range"""
    out = tc(rule.opcode, rule.opbits)
    for o, v in zip(rule.opds, vals):
        if o.kind == "typed":
            if not in_range(o.ty, o.n, v):
                return None
            if isinstance(o.xform, tuple):
                v = v + (addr or {}).get(o.xform[1], 0)
            b = tc(v, o.n)
            if o.xform == "widen":
                b = tc(v, o.n + 8)
            elif o.xform == "plus1":
                b = tc(v + 1, o.n + 8)
            if o.xform == "le":
                b = "".join(reversed([b[i:i + 8] for i in range(0, len(b), 8)]))
            elif o.xform == "swap":
                h = o.n // 2
                b = b[o.n - h:] + b[:o.n - h]
            out += b
        elif o.kind == "untyped":
            out += tc(v, o.n)
        elif o.kind == "reg":
            out += tc(v, 4)
        elif o.kind == "sub":
            # (which sub-rule, value of its u8 parameter): tag byte, then the value
            j, x = v
            if not in_range("u", 8, x):
                return None
            out += tc(j + 1, 8) + tc(x, 8)
    return out


def gen_rules(rng, families=False, prodref=False, subs=False):
    n = rng.randrange(3, 10)
    mn = rng.sample(MNEMONICS, min(n, len(MNEMONICS)))
    rules, shapes = [], set()
    for i in range(n + rng.randrange(0, 4)):
        m = rng.choice(mn)
        opds = []
        for _ in range(rng.choice([0, 1, 1, 1, 2, 2, 3])):
            k = rng.random()
            wrap = rng.choice(WRAPS)
            if k < 0.45:
                nn = rng.choice([4, 8, 8, 8, 12, 16, 16, 24, 3, 5])
                x = None
                if nn % 16 == 0 and rng.random() < 0.4:
                    x = rng.choice(["le", "swap"])
                elif rng.random() < 0.15:
                    x = rng.choice(["widen", "plus1"])
                opds.append(Opd("typed", rng.choice("usi"), nn, wrap=wrap, xform=x))
            elif subs and k < 0.62 and opds and opds[-1].kind in ("typed", "untyped"):
                # an operand that is itself a sub-rule taking an expression (`#expr` / `[expr]`), to the right of a
                # value operand: its expression is evaluated in the instruction's scope, not in the rule's
                opds.append(Opd("sub", n=8, wrap="%s"))
            elif k < 0.6:
                opds.append(Opd("untyped", n=rng.choice([4, 8, 16]), wrap=wrap))
            elif k < 0.8:
                opds.append(Opd("reg", wrap=wrap))
            else:
                opds.append(Opd("lit", lit=rng.choice(["a", "b", "x", "hl"]), wrap=wrap))
        opbits = rng.choice([8, 8, 8, 4, 16])
        seps = [rng.choice([", ", ", ", ", ", " - ", " + ", ","]) if o.wrap == "%s" and (k == 0 or opds[k - 1].wrap == "%s") else ", " for k, o in enumerate(opds)]
        r = Rule(m, opds, rng.randrange(1 << opbits), opbits, seps)
        # pad to whole bytes with a wider opcode so that every instruction is byte sized
        extra = (-r.size()) % 8
        if extra:
            r.opbits += extra
            r.opcode = rng.randrange(1 << r.opbits)
        if any(x in shapes for x in r.shapes()):
            continue
        shapes.update(r.shapes())
        rules.append(r)
        lits = [k for k, o in enumerate(r.opds) if o.kind == "lit"]
        if families and lits and rng.random() < 0.5:
            # literal-versus-expression overlap: the same shape with the literal replaced by an expression operand
            k = rng.choice(lits)
            opds2 = list(r.opds)
            opds2[k] = Opd("typed", "u", 8, wrap=r.opds[k].wrap)
            seps2 = r.seps
            if rng.random() < 0.6:
                # the expression rule spells more blanks in its pattern (a pattern blank requires a blank in the
                # line, it is not a literal character: the rule that spells the operand literally must still win);
                # lines written for the literal rule carry those blanks too, so that both rules match them
                rich = {", ": " , ", ",": rng.choice([" ,", " , "]), " - ": " - ", " + ": " + "}
                seps2 = [rich.get(x, x) for x in r.seps]
                r.lseps = seps2
            r2 = Rule(r.mnem, opds2, rng.randrange(1 << r.opbits), r.opbits, seps2)
            r2.opbits += (-r2.size()) % 8
            r2.opcode = rng.randrange(1 << r2.opbits)
            if not any(x in shapes for x in r2.shapes()):
                shapes.update(r2.shapes())
                rules.append(r2)
        typed = [k for k, o in enumerate(r.opds) if o.kind == "typed" and o.xform is None]
        if prodref and typed and r.family is None and rng.random() < 0.3:
            # a second rule with the very same pattern whose production mentions a label: both always match,
            # the sizes are fixed by the rules, the smaller one is selected (equal sizes: ambiguous, an error)
            k = rng.choice(typed)
            o = r.opds[k]
            r.family = len(rules)
            opds2 = list(r.opds)
            opds2[k] = Opd("typed", o.ty, o.n, wrap=o.wrap, xform=("plus", rng.choice(["lab0", "lab1"])))
            ob = r.opbits + rng.choice([8, 8, -8, -8, 0] if r.opbits > 8 else [8, 8, 8, 0])
            r2 = Rule(r.mnem, opds2, rng.randrange(1 << ob), ob, r.seps, r.family)
            rules.append(r2)
            continue
        if families and typed and rng.random() < 0.35:
            # a sibling with the same shape and a wider/narrower type: the smallest admissible encoding wins
            k = rng.choice(typed)
            o = r.opds[k]
            r.family = len(rules)
            opds2 = list(r.opds)
            opds2[k] = Opd("typed", o.ty, o.n + rng.choice([8, 16]), wrap=o.wrap)
            r2 = Rule(r.mnem, opds2, rng.randrange(1 << r.opbits), r.opbits, r.seps, r.family)
            rules.append(r2)
    return rules


def family_choice(rules, ri, vals):
    """index of the rule the language definition selects for a line written for rule `ri`: among the
    rules of its family that admit the values, the one with the smallest encoding"""
    r = rules[ri]
    if r.family is None:
        return ri
    cands = [j for j, q in enumerate(rules) if q.family == r.family and encode(q, vals) is not None]
    if not cands:
        return ri
    best = min(rules[j].size() for j in cands)
    win = [j for j in cands if rules[j].size() == best]
    return win[0] if len(win) == 1 else ("ambiguous", win[0])


def boundary(rng, o):
    n = o.n
    if o.kind == "reg":
        return rng.choice(REGS)
    if o.kind == "untyped":
        return rng.choice([0, 1, (1 << n) - 1, 1 << n, -1, rng.randrange(1 << n)])
    lo, hi = {"u": (0, (1 << n) - 1), "s": (-(1 << (n - 1)), (1 << (n - 1)) - 1), "i": (-(1 << (n - 1)), (1 << n) - 1)}[o.ty]
    return rng.choice([lo, hi, 0, 1, rng.randrange(lo, hi + 1), rng.randrange(lo, hi + 1)])


class Prog:
    pass


def gen_prog(rng, faults=True, banks=None, families=False, prodref=False, subs=False):
    """structure + expectation; sizes are static, so the layout is computed in one walk"""
    p = Prog()
    p.rules = gen_rules(rng, families, prodref, subs)
    p.items = []
    p.fault = None
    p.has_sub = any(o.kind == "sub" for r in p.rules for o in r.opds)
    pconsts = []
    if p.has_sub:
        # global constants named like rule parameters: a sub-rule argument that mentions `p0` means this constant
        for j in range(3):
            if rng.random() < 0.5:
                pconsts.append("p%d" % j)
                p.items.append(["const", "p%d" % j, ("lit", rng.randrange(0, 200))])
    if families:
        # symbols named like the literal operands: `ld a` must still select the rule that spells `a`
        for nm in sorted(set(o.lit for r in p.rules for o in r.opds if o.kind == "lit")):
            if rng.random() < 0.5:
                p.items.append(["const", nm, ("lit", rng.randrange(0, 200))])
    nl = rng.randrange(2, 6)
    globs = ["lab%d" % i for i in range(nl)]
    pending = list(globs)
    consts = []
    nlines = rng.randrange(3, 16)
    want_fault = faults and rng.random() < 0.2
    fault_at = rng.randrange(nlines) if want_fault else -1
    cur_glob = None
    nloc = 0
    p.banks = None
    if banks:
        # two banks with disjoint address and output windows; the program may switch between them
        p.banks = [("ba", 0x100, 0x400, 0), ("bb", 0x8000, 0x400, 8 * 0x400)]
        p.items.append(["bank", "ba"])
    for i in range(nlines):
        if banks and rng.random() < 0.12:
            p.items.append(["bank", rng.choice(["ba", "bb"])])
        if rng.random() < 0.05:
            p.items.append(["addrskip", rng.randrange(0, 6)])
        if pending and rng.random() < 0.35:
            cur_glob = pending.pop(0)
            p.items.append(["label", cur_glob])
        elif cur_glob and rng.random() < 0.15:
            nloc += 1
            p.items.append(["label", "%s.loc%d" % (cur_glob, nloc)])
        r = rng.random()
        if r < 0.6 and p.rules:
            ri = rng.randrange(len(p.rules))
            if p.rules[ri].family is not None:
                ops = []
                for o in p.rules[ri].opds:
                    if o.kind == "lit":
                        ops.append((("text", o.lit), 0))
                    elif o.kind == "reg":
                        nme, v = rng.choice(REGS)
                        ops.append((("text", nme), v))
                    elif o.kind == "sub":
                        j, x = rng.randrange(2), rng.choice([0, 1, 255, rng.randrange(256)])
                        ops.append((("sub", j, ("lit", x)), (j, x)))
                    else:
                        v = boundary(rng, o)
                        ops.append((("lit", v), v))
                ri = family_choice(p.rules, ri, [v for _, v in ops])
                if isinstance(ri, tuple):
                    p.fault = p.fault or "ambiguous"
                    ri = ri[1]
                p.items.append(["instr", ri, ops])
            else:
                p.items.append(["instr", ri, None])
        elif r < 0.75:
            w = rng.choice([8, 8, 16, 4, 32, 24])
            p.items.append(["data", w, None, rng.choice([2, 4]) if w == 4 else rng.randrange(1, 4)])
        elif r < 0.8:
            p.items.append(["res", rng.randrange(0, 5)])
        elif r < 0.85:
            if rng.random() < 0.4:
                # a position that is not a whole address unit (after #d1..#d7), brought back by #align
                p.items.append(["data", rng.choice([1, 2, 3, 4, 4, 5, 7]), None, rng.choice([1, 1, 3])])
            p.items.append(["align", rng.choice([8, 16, 32, 64])])
        elif r < 0.93 and cur_glob is None:
            name = "K%d" % len(consts)
            consts.append(name)
            p.items.append(["const", name, None])
        else:
            p.items.append(["data", 8, None, 1])
        if i == fault_at:
            p.items[-1].append("FAULT")
    for g in pending:
        p.items.append(["label", g])
    p.items.append(["data", 8, [("lit", 0xEE)]])
    # ---- layout (sizes static)
    pos = 0
    addr = {}
    base = p.banks[0][1] if p.banks else 0
    bankpos = {}
    curbank = None
    for it in p.items:
        k = it[0]
        if k == "bank":
            if curbank is not None:
                bankpos[curbank] = pos
            curbank = it[1]
            pos = bankpos.get(curbank, 0)
            base = [b for b in p.banks if b[0] == curbank][0][1]
        elif k == "addrskip":
            # `#addr A` with A = current address + skip (forward only)
            it.append(base + pos // 8 + it[1])
            pos += 8 * it[1]
        elif k == "label":
            addr[it[1]] = base + pos // 8
        elif k == "instr":
            pos += p.rules[it[1]].size()
        elif k == "data":
            pos += it[1] * (len(it[2]) if it[2] else it[3])
        elif k == "res":
            pos += 8 * it[1]
        elif k == "align":
            pos += (-pos) % it[1]
    p.addr = addr
    # ---- values
    syms = dict(addr)

    def pick_value(o, plain=False):
        """(text, value) for an expression operand within o's range if possible"""
        v = boundary(rng, o)
        cands = [(n, a) for n, a in syms.items() if (o.kind == "untyped" or in_range(o.ty, o.n, a)) and n not in ("a", "b", "x", "hl")]
        t = rng.random()
        if plain and t < 0.45:
            t = 0.0 if cands else 1.0
        if t < 0.35 and cands:
            n, a = rng.choice(cands)
            return ("sym", n), a
        if t < 0.45 and cands:
            n, a = rng.choice(cands)
            if o.kind == "untyped" or in_range(o.ty, o.n, a + 1):
                return ("sym+", n, 1), a + 1
        return ("lit", v), v

    # constants first (they may be referred to by later choices)
    for it in p.items:
        if it[0] == "const" and it[2] is not None:
            syms[it[1]] = it[2][1]
        elif it[0] == "const":
            if rng.random() < 0.5 or not addr:
                v = rng.randrange(0, 300)
                it[2] = ("lit", v)
                syms[it[1]] = v
            else:
                n = rng.choice(sorted(addr))
                it[2] = ("sym+", n, 2)
                syms[it[1]] = addr[n] + 2
    p.values = []
    for it in p.items:
        fault = it[-1] == "FAULT"
        if fault:
            it.pop()
        if it[0] == "data" and it[2] is not None:
            it[2] = [(x, x[1]) for x in it[2]]
            continue
        if it[0] == "instr" and it[2] is not None:
            continue
        if it[0] == "instr":
            rule = p.rules[it[1]]
            ops = []
            for k, o in enumerate(rule.opds):
                if o.kind == "lit":
                    ops.append((("text", o.lit), 0))
                elif o.kind == "reg":
                    nme, v = rng.choice(REGS)
                    ops.append((("text", nme), v))
                elif o.kind == "sub":
                    j = rng.randrange(2)
                    if pconsts and rng.random() < 0.6:
                        nm = rng.choice(pconsts)
                        ops.append((("sub", j, ("sym", nm)), (j, syms[nm])))
                    elif not pconsts and faults and p.fault is None and rng.random() < 0.15:
                        # the name of an earlier parameter of the enclosing rule, no such symbol: unknown symbol
                        ops.append((("sub", j, ("sym", "p0")), (j, 0)))
                        p.fault = "undef"
                    else:
                        x = rng.choice([0, 1, 255, rng.randrange(256)])
                        ops.append((("sub", j, ("lit", x)), (j, x)))
                else:
                    # an operand in front of an operator-like separator must not contain that operator
                    nxt = rule.seps[k + 1].strip() if k + 1 < len(rule.opds) else ""
                    # ... nor may the line be readable as `a + b` by a sibling rule of the same mnemonic
                    sib = any(q.mnem == rule.mnem and any(sp.strip() == "+" for sp in q.seps[1:len(q.opds)]) for q in p.rules)
                    ops.append(pick_value(o, plain=sib or nxt in ("+", "-")))
                    if nxt == "-" and ops[-1][0][0] == "lit" and ops[-1][1] < 0 and False:
                        pass
            it[2] = ops
            if fault:
                typed = [k for k, o in enumerate(rule.opds) if o.kind == "typed"]
                kind = rng.choice(["range", "undef", "nomatch"] if typed else ["nomatch", "undef2"])
                if kind == "range":
                    k = rng.choice(typed)
                    o = rule.opds[k]
                    bad = {"u": [-1, 1 << o.n], "s": [-(1 << (o.n - 1)) - 1, 1 << (o.n - 1)], "i": [-(1 << (o.n - 1)) - 1, 1 << o.n]}[o.ty]
                    v = rng.choice(bad)
                    ops[k] = (("lit", v), v)
                    p.fault = "range"
                elif kind == "undef" :
                    k = rng.choice(typed)
                    ops[k] = (("sym", "nosuchsymbol"), 0)
                    p.fault = "undef"
                elif kind == "nomatch":
                    it[0] = "rawinstr"
                    it[1] = "zzz 1, 2"
                    p.fault = "nomatch"
                else:
                    it[0] = "rawinstr"
                    it[1] = "qqq"
                    p.fault = "nomatch"
        elif it[0] == "data":
            if it[2] is None:
                n, cnt = it[1], it[3]
                o = Opd("typed", "i", n)
                it[2] = [pick_value(o) for _ in range(cnt)]
                del it[3]
                if fault:
                    it[2][0] = (("lit", 1 << n), 1 << n)
                    p.fault = "range"
    return p


def render_value(spec, label_map, rng=None):
    k = spec[0]
    if k == "lit":
        v = spec[1]
        if rng and v >= 0 and rng.random() < 0.4:
            return "0x%x" % v
        return str(v)
    if k == "text":
        return spec[1]
    if k == "sym":
        return label_map(spec[1])
    if k == "sym+":
        return "%s + %d" % (label_map(spec[1]), spec[2])
    if k == "sub":
        return ["#%s", "[%s]"][spec[1]] % render_value(spec[2], label_map, rng)
    raise ValueError(spec)


def local_view(name, cur_glob):
    """how a reference to `name` is spelled from inside `cur_glob`'s scope"""
    return name


def render(p, rng=None, case=None, blanks=None, comment=None, rule_order=None, blocks=1, rename=None, mnem=None, linemap=None, noemit=()):
    """program text. case(s): respelling of mnemonics/literals; blanks(): separator between tokens of an
    instruction line; comment(): optional trailing comment; rule_order: permutation; blocks: number of
    #ruledef blocks; rename: label renaming map"""
    case = case or (lambda s: s)
    rename = rename or {}
    def lm(n):
        parts = n.split(".")
        parts = [rename.get(x, x) for x in parts]
        return ".".join(parts)
    order = rule_order if rule_order is not None else list(range(len(p.rules)))
    out = []
    per = max(1, (len(order) + blocks - 1) // blocks)
    for b in range(0, max(len(order), 1), per):
        out.append("#ruledef")
        out.append("{")
        for ri in order[b:b + per]:
            r = p.rules[ri]
            out.append("    %s => %s" % (r.pattern(), r.production()))
        out.append("}")
    if getattr(p, "has_sub", False):
        out.append("#subruledef opnd")
        out.append("{")
        out.append("    #{v: u8} => 0x01 @ v")
        out.append("    [{v: u8}] => 0x02 @ v")
        out.append("}")
    out.append("#subruledef reg")
    out.append("{")
    for n, v in REGS:
        out.append("    %s => 0x%x" % (n, v))
    out.append("}")
    if p.banks:
        for nm, a, sz, outp in p.banks:
            out.append("#bankdef %s { #addr 0x%x, #size 0x%x, #outp 0x%x }" % (nm, a, sz, outp))
    for ii, it in enumerate(p.items):
        k = it[0]
        if linemap is not None:
            linemap.append((len(out) + 1, ii))
        if k == "label":
            nm = it[1]
            if "." in nm:
                out.append("." + lm(nm.split(".", 1)[1]) + ":")
            else:
                out.append(lm(nm) + ":")
        elif k == "const":
            out.append("%s%s = %s" % ("#const(noemit) " if it[1] in noemit else "", lm(it[1]), render_value(it[2], lm)))
        elif k == "instr":
            r = p.rules[it[1]]
            sep = blanks() if blanks else " "
            ops = []
            for k, (o, (spec, _)) in enumerate(zip(r.opds, it[2])):
                t = render_value(spec, lm, rng)
                if spec[0] == "text":
                    t = case(t)
                sp = (r.lseps or r.seps)[k] if k else ""
                if blanks and k:
                    # a blank that the pattern spells is required; elsewhere blanks are optional
                    sp = blanks(1 if sp.startswith(" ") else 0) + sp.strip() + blanks(1 if sp.endswith(" ") else 0)
                w = o.wrap
                if blanks and w != "%s":
                    w = w.replace("%s", blanks(0) + "%s" + blanks(0))
                ops.append(sp + w % t)
            if blanks:
                mn = mnem(r.mnem) if mnem else case(r.mnem)
                line = blanks(0) + mn + (blanks(1) + "".join(ops) if ops else "") + blanks(0)
            else:
                line = "    " + case(r.mnem) + (" " + "".join(ops) if ops else "")
            out.append(line + (comment() if comment else ""))
        elif k == "rawinstr":
            out.append("    " + it[1])
        elif k == "data":
            # (a hex literal carries a size of four bits per digit: wider than a sub-nibble directive)
            out.append("    #d%d %s" % (it[1], ", ".join(render_value(s, lm, rng if it[1] % 4 == 0 else None) for s, _ in it[2])))
        elif k == "res":
            out.append("    #res %d" % it[1])
        elif k == "align":
            out.append("    #align %d" % it[1])
        elif k == "bank":
            out.append("#bank %s" % it[1])
        elif k == "addrskip":
            out.append("    #addr 0x%x" % it[2])
    return "\n".join(out) + "\n"


def expected(p):
    """('ok', bits, {symbol: value}) or ('err', class) by the language definition"""
    if p.fault:
        return ("err", p.fault)
    bits = ""
    banked = {}
    cur = None
    for it in p.items:
        k = it[0]
        if k == "bank":
            if cur is not None:
                banked[cur] = bits
            cur = it[1]
            bits = banked.get(cur, "")
        elif k == "addrskip":
            bits += "0" * (8 * it[1])
        elif k == "instr":
            e = encode(p.rules[it[1]], [v for _, v in it[2]], p.addr)
            if e is None:
                return ("err", "range")
            bits += e + ("|" if p.banks else "")
        elif k == "data":
            for _, v in it[2]:
                if not in_range("i", it[1], v):
                    return ("err", "range")
                bits += tc(v, it[1]) + ("|" if p.banks else "")
        elif k == "res":
            bits += "0" * (8 * it[1])
        elif k == "align":
            bits += "0" * ((-len(bits.replace("|", ""))) % it[1])
    if p.banks:
        banked[cur] = bits
        # reserved space at the end of a bank is not part of the output: cut each bank after its last emitted item
        def written(x):
            return x[: x.rfind("|") + 1].replace("|", "") if "|" in x else ""
        raise_if = None
        a, b = written(banked.get("ba", "")), written(banked.get("bb", ""))
        bits = a if not b else a + "0" * (p.banks[1][3] - len(a)) + b
    syms = dict(p.addr)
    for it in p.items:
        if it[0] == "const":
            spec = it[2]
            syms[it[1]] = spec[1] if spec[0] == "lit" else p.addr[spec[1]] + spec[2]
    return ("ok", bits, syms)


if __name__ == "__main__":
    import sys
    rng = random.Random(int(sys.argv[1]) if len(sys.argv) > 1 else 1)
    p = gen_prog(rng)
    print(render(p))
    print(expected(p))
