#!/usr/bin/env python3
"""development helper: differential run of the whole-assembler model over the repository's tests and mutants"""
import sys, os, random, json, glob
sys.path.insert(0, os.path.dirname(os.path.abspath(__file__)))
import fw
from props import C03

def impl_line(a):
    if a.get("panic") is not None or a.get("died"):
        return "panic"
    if a.get("output") is not None and not a.get("has_errors"):
        o = a["output"]
        spans = ",".join("%s:%d:%s" % ("n" if s["offset"] is None else s["offset"], s["size"], s["addr"]["v"]) for s in o["spans"]) or "-"
        syms = ",".join("%s=%s:%s" % (s["name"], s["value"]["v"], "-" if s["value"]["size"] is None else s["value"]["size"]) for s in a["symbols"]) or "-"
        return "ok %s %s iters=%s syms=%s" % (o["bits"] or "-", spans, a["iters"], syms)
    return "err " + canon_err(a.get("first_error", "?"))

import re
def canon_err(m):
    if m.startswith("output of bank") or m.startswith("output to non-writable bank") or m.startswith("output out of range for bank"):
        m = re.sub(r" `[^`]*`", "", m)
    return m

def main():
    n = int(sys.argv[1]) if len(sys.argv) > 1 else 600
    rng = random.Random(int(sys.argv[2]) if len(sys.argv) > 2 else 1)
    base = C03.corpus_files()
    texts = list(base)
    while len(texts) < n:
        texts.append(C03.mutate(rng, rng.choice(base)))
    texts = texts[:n]
    ops = [fw.asm_op([("main.asm", t)]) for t in texts]
    impl = fw.run_oracle_resilient(ops, "adev")
    model = fw.run_model(ops, "adev", timeout=3000)
    bad = 0
    kinds = {}
    for t, a, m in zip(texts, impl, model):
        ia = impl_line(a)
        k = ia.split()[0]
        kinds[k] = kinds.get(k, 0) + 1
        if ia != m:
            bad += 1
            if bad <= int(os.environ.get("SHOW", "6")):
                print("=== TEXT\n" + t[:800]); print("IMPL ", ia[:500]); print("MODEL", m[:500])
    print("total", len(texts), "mismatches", bad, kinds)

if __name__ == "__main__":
    main()
