"""Independent reference for customasm expressions (C05): random expression trees, their
rendering to source text (minimal or full parentheses from the *documented* precedence),
and their value by ordinary mathematics over Python's unbounded integers.
Independent of the Lean model and of the Rust code."""

# documented precedence, loosest first; all levels left-associative
LEVELS = [
    ["@"],
    ["||"],
    ["&&"],
    ["==", "!=", "<", "<=", ">", ">="],
    ["|"],
    ["^"],
    ["&"],
    ["<<", ">>"],
    ["+", "-"],
    ["*", "/", "%"],
]
PREC = {op: i for i, ops in enumerate(LEVELS) for op in ops}
P_TERNARY = -2      # cond ? a : b   (right side parsed as full expressions)
P_SLICE = len(LEVELS)       # x[hi:lo]
P_SSHORT = len(LEVELS) + 1  # x`n
P_UNARY = len(LEVELS) + 2   # -x !x
P_LEAF = len(LEVELS) + 3

BIGINT_MAX_BITS = 8 * 100_000_000


class Err(Exception):
    pass


class V:
    """value: kind in int/bool/str/void; int has v,size"""
    def __init__(self, kind, v=None, size=None, enc=None):
        self.kind, self.v, self.size, self.enc = kind, v, size, enc
    def __repr__(self):
        if self.kind == "int":
            return "int %d %s" % (self.v, "-" if self.size is None else self.size)
        if self.kind == "bool":
            return "bool %s" % ("true" if self.v else "false")
        if self.kind == "str":
            return "str %s %s" % (self.v.encode("utf-8").hex() or "-", self.enc)
        return self.kind


def encode(s, enc):
    if enc == "utf8":
        return s.encode("utf-8")
    if enc == "utf16be":
        return s.encode("utf-16-be")
    if enc == "utf16le":
        return s.encode("utf-16-le")
    if enc == "utf32be":
        return s.encode("utf-32-be")
    if enc == "utf32le":
        return s.encode("utf-32-le")
    if enc == "ascii":
        return bytes((ord(c) if ord(c) < 0x100 else 0) for c in s)
    raise Err("enc")


def as_int(val, unsigned_strings):
    """integer view of a value (strings are their encoded bytes, big-endian)"""
    if val.kind == "int":
        return val.v, val.size
    if val.kind == "str":
        b = encode(val.v, val.enc)
        n = int.from_bytes(b, "big", signed=not unsigned_strings)
        return n, 8 * len(b)
    raise Err("type")


def tdiv(a, b):
    q = abs(a) // abs(b)
    return q if (a < 0) == (b < 0) else -q


class Node:
    def __init__(self, kind, *kids, **kw):
        self.kind, self.kids = kind, list(kids)
        self.__dict__.update(kw)


def lit_int(v, text, size):
    return Node("int", v=v, text=text, size=size)


def render(n, full=False, ctx=-10, right=False):
    """source text. ctx = precedence of the enclosing position; parentheses are added when
    the node binds looser than its context (or always, with full=True, around operators)."""
    k = n.kind
    if k == "int":
        return n.text
    if k == "bool":
        return "true" if n.v else "false"
    if k == "str":
        return n.text
    if k == "paren":
        return "(" + render(n.kids[0], full) + ")"
    if k == "bin":
        p = PREC[n.op]
        s = render(n.kids[0], full, p, False) + " " + n.op + " " + render(n.kids[1], full, p, True)
        need = full or p < ctx or (p == ctx and right)
        return "(" + s + ")" if need else s
    if k == "un":
        inner = render(n.kids[0], full, P_UNARY)
        # "--x" would lex fine; keep a blank to avoid "- -" issues with comments ";" etc.
        s = n.op + inner
        need = full or P_UNARY < ctx
        return "(" + s + ")" if need else s
    if k == "tern":
        s = render(n.kids[0], full, P_TERNARY + 1) + " ? " + render(n.kids[1], full, -10) + " : " + render(n.kids[2], full, -10)
        need = full or P_TERNARY < ctx or True   # always parenthesised when nested
        return "(" + s + ")" if (need and ctx != -10) else s
    if k == "slice":
        s = render(n.kids[0], full, P_SLICE + 1) + "[" + render(n.kids[1], full) + ":" + render(n.kids[2], full) + "]"
        need = full or P_SLICE < ctx
        return "(" + s + ")" if need else s
    if k == "sshort":
        s = render(n.kids[0], full, P_SSHORT + 1) + "`" + render(n.kids[1], full, P_LEAF)
        need = full or P_SSHORT < ctx
        return "(" + s + ")" if need else s
    if k == "call":
        return n.fn + "(" + ", ".join(render(a, full) for a in n.kids) + ")"
    if k == "block":
        return "{ " + ", ".join(render(a, full) for a in n.kids) + " }"
    raise Err("render " + k)


def bitlen(v):
    return abs(v).bit_length()


def evaluate(n, unsigned_strings=False):
    """value by the statement's mathematics; raises Err for ill-typed/undefined operations"""
    k = n.kind
    if k == "int":
        return V("int", n.v, n.size)
    if k == "bool":
        return V("bool", n.v)
    if k == "str":
        return V("str", n.v, enc="utf8")
    if k == "paren":
        return evaluate(n.kids[0], unsigned_strings)
    if k == "un":
        x = evaluate(n.kids[0], unsigned_strings)
        if x.kind == "int":
            return V("int", -x.v if n.op == "-" else -x.v - 1)
        if x.kind == "bool" and n.op == "!":
            return V("bool", not x.v)
        raise Err("type")
    if k == "bin":
        op = n.op
        if op in ("&&", "||"):
            a = evaluate(n.kids[0], unsigned_strings)
            if a.kind != "bool":
                raise Err("type")
            if (op == "||") == a.v:
                return a
            b = evaluate(n.kids[1], unsigned_strings)
            if b.kind != "bool":
                raise Err("type")
            return b
        a = evaluate(n.kids[0], unsigned_strings)
        b = evaluate(n.kids[1], unsigned_strings)
        if a.kind == "bool" and b.kind == "bool":
            if op == "&": return V("bool", a.v and b.v)
            if op == "|": return V("bool", a.v or b.v)
            if op == "^": return V("bool", a.v != b.v)
            if op == "==": return V("bool", a.v == b.v)
            if op == "!=": return V("bool", a.v != b.v)
            raise Err("type")
        x, xs = as_int(a, unsigned_strings)
        y, ys = as_int(b, unsigned_strings)
        if op == "+":
            if max(bitlen(x), bitlen(y)) >= BIGINT_MAX_BITS - 1: raise Err("range")
            return V("int", x + y)
        if op == "-":
            return V("int", x - y)
        if op == "*":
            return V("int", x * y)
        if op == "/":
            if y == 0: raise Err("div0")
            return V("int", tdiv(x, y))
        if op == "%":
            if y == 0: raise Err("div0")
            return V("int", x - y * tdiv(x, y))
        if op == "<<":
            if y < 0 or y >= 2 ** 32 or bitlen(x) + y >= BIGINT_MAX_BITS: raise Err("range")
            return V("int", x * 2 ** y)
        if op == ">>":
            if y < 0 or y >= 2 ** 64: raise Err("range")
            return V("int", x >> y)
        if op == "&": return V("int", x & y)
        if op == "|": return V("int", x | y)
        if op == "^": return V("int", x ^ y)
        if op == "==": return V("bool", x == y)
        if op == "!=": return V("bool", x != y)
        if op == "<": return V("bool", x < y)
        if op == "<=": return V("bool", x <= y)
        if op == ">": return V("bool", x > y)
        if op == ">=": return V("bool", x >= y)
        if op == "@":
            if xs is None or ys is None: raise Err("unsized")
            return V("int", ((x % 2 ** xs) << ys) | (y % 2 ** ys), xs + ys)
        raise Err("op")
    if k == "tern":
        c = evaluate(n.kids[0], unsigned_strings)
        if c.kind != "bool":
            raise Err("cond")
        return evaluate(n.kids[1] if c.v else n.kids[2], unsigned_strings)
    if k == "slice":
        x, _ = as_int(evaluate(n.kids[0], unsigned_strings), unsigned_strings)
        hi = evaluate(n.kids[1], unsigned_strings)
        lo = evaluate(n.kids[2], unsigned_strings)
        if hi.kind != "int" or lo.kind != "int" or hi.v < 0 or lo.v < 0:
            raise Err("type")
        if hi.v < lo.v:
            # `x[hi:lo]` names the bits hi down to lo: hi < lo is an inverted range, also when hi = lo - 1 (finding F50,
            # repaired; an earlier version of this oracle had copied the code's off-by-one)
            raise Err("inverted")
        w = hi.v + 1 - lo.v
        return V("int", (x >> lo.v) % 2 ** w, w)
    if k == "sshort":
        x, _ = as_int(evaluate(n.kids[0], unsigned_strings), unsigned_strings)
        s = evaluate(n.kids[1], unsigned_strings)
        if s.kind != "int" or s.v < 0:
            raise Err("type")
        return V("int", x % 2 ** s.v, s.v)
    if k == "call":
        args = [evaluate(a, unsigned_strings) for a in n.kids]
        f = n.fn
        if f == "sizeof":
            if len(args) != 1: raise Err("argc")
            _, s = as_int(args[0], unsigned_strings)
            if s is None: raise Err("unsized")
            return V("int", s)
        if f == "le":
            if len(args) != 1 or args[0].kind != "int": raise Err("type")
            x, s = args[0].v, args[0].size
            if s is None or s % 8 != 0: raise Err("le")
            b = (x % 2 ** s).to_bytes(s // 8, "big")
            return V("int", int.from_bytes(b, "little"), s)
        if f == "strlen":
            if len(args) != 1 or args[0].kind != "str": raise Err("type")
            return V("int", len(args[0].v.encode("utf-8")))
        if f in ("ascii", "utf8", "utf16be", "utf16le", "utf32be", "utf32le"):
            if len(args) != 1 or args[0].kind != "str": raise Err("type")
            return V("str", args[0].v, enc=f)
        raise Err("fn")
    if k == "block":
        r = V("void")
        for a in n.kids:
            r = evaluate(a, unsigned_strings)
        return r
    raise Err("eval " + k)


# ------------------------------------------------------------------ generation

def gen_int_literal(rng):
    """(value, text, size): every radix prefix and digit grouping"""
    form = rng.choice(["dec", "dec", "hex", "bin", "oct", "dollar", "percent", "dec_us", "hex_us", "big"])
    if form == "big":
        nd = rng.choice([17, 20, 33, 40])
        v = rng.getrandbits(4 * nd)
        return lit_int(v, "0x" + format(v, "x").zfill(nd), 4 * nd)
    if form in ("dec", "dec_us"):
        v = rng.choice([0, 1, 2, 3, 7, 8, 15, 16, 255, 256, 1000, 65535, 65536, rng.randrange(0, 10 ** rng.randrange(1, 25))])
        t = str(v)
        if form == "dec_us" and len(t) > 1:
            i = rng.randrange(1, len(t))
            t = t[:i] + "_" + t[i:]
        return lit_int(v, t, None)
    nd = rng.randrange(1, 9)
    if form in ("hex", "hex_us", "dollar"):
        v = rng.getrandbits(4 * nd)
        d = format(v, "x").zfill(nd)
        if rng.random() < 0.3:
            d = d.upper()
        if form == "hex_us" and nd > 1:
            i = rng.randrange(1, nd)
            d = d[:i] + "_" + d[i:]
        return lit_int(v, ("$" if form == "dollar" else "0x") + d, 4 * nd)
    if form in ("bin", "percent"):
        v = rng.getrandbits(nd)
        d = format(v, "b").zfill(nd)
        return lit_int(v, ("%" if form == "percent" else "0b") + d, nd)
    v = rng.getrandbits(3 * nd)
    return lit_int(v, "0o" + format(v, "o").zfill(nd), 3 * nd)


STR_CHARS = ["a", "b", "Z", "0", " ", "~", "é", "ß", "€", "中", "😀", "\\n", "\\t", "\\0", "\\\\", "\\x41", "\\x7f", "\\u{e9}", "\\u{1F600}", "\\u{0}",
             # the escaped quotes and \r (finding F70, repaired: `\"` ended the string in the tokenizer; this list had left it out
             # because it "did not work" - the statement says every escape form)
             "\\\"", "\\'", "\\r"]
UNESC = {"\\'": "'", "\\r": "\r", "\\n": "\n", "\\t": "\t", "\\0": "\0", "\\\\": "\\", "\\\"": "\"", "\\x41": "A", "\\x7f": "\x7f", "\\u{e9}": "é", "\\u{1F600}": "😀", "\\u{0}": "\0"}


def gen_str_literal(rng, ascii_first=False):
    n = rng.randrange(0, 5)
    parts = [rng.choice(STR_CHARS) for _ in range(n)]
    if ascii_first and parts:
        parts[0] = rng.choice(["a", "b", "Z", "0", "~"])
    return Node("str", v="".join(UNESC.get(p, p) for p in parts), text='"' + "".join(parts) + '"')


def gen(rng, depth, want="int", allow_err=0.04):
    """random tree of the wanted type: int (any size), sized, bool, str"""
    if want == "str":
        if depth > 0 and rng.random() < 0.3:
            return Node("call", gen(rng, depth - 1, "str"), fn=rng.choice(["ascii", "utf8", "utf16be", "utf16le", "utf32be", "utf32le"]))
        return gen_str_literal(rng)
    if want == "bool":
        if depth <= 0 or rng.random() < 0.2:
            return Node("bool", v=rng.random() < 0.5)
        r = rng.random()
        if r < 0.45:
            return Node("bin", gen(rng, depth - 1, "int"), gen(rng, depth - 1, "int"), op=rng.choice(["==", "!=", "<", "<=", ">", ">="]))
        if r < 0.7:
            return Node("bin", gen(rng, depth - 1, "bool"), gen(rng, depth - 1, "bool"), op=rng.choice(["&&", "||", "&", "|", "^", "==", "!="]))
        if r < 0.85:
            return Node("un", gen(rng, depth - 1, "bool"), op="!")
        return Node("tern", gen(rng, depth - 1, "bool"), gen(rng, depth - 1, "bool"), gen(rng, depth - 1, "bool"))
    if want == "sized":
        if depth <= 0 or rng.random() < 0.3:
            while True:
                l = gen_int_literal(rng)
                if l.size is not None:
                    return l
        r = rng.random()
        if r < 0.3:
            return Node("bin", gen(rng, depth - 1, "sized"), gen(rng, depth - 1, "sized"), op="@")
        if r < 0.55:
            if rng.random() > allow_err:
                lo = rng.randrange(0, 12)
                w = rng.randrange(0, 20)
                if lo == 0 and w == 0:
                    w = 1
                hi = lo + w - 1
            else:
                lo = rng.randrange(2, 9)
                hi = lo - rng.randrange(1, lo + 1)
            return Node("slice", gen(rng, depth - 1, "int"), lit_int(hi, str(hi), None), lit_int(lo, str(lo), None))
        if r < 0.75:
            s = rng.randrange(0, 40)
            return Node("sshort", gen(rng, depth - 1, "int"), lit_int(s, str(s), None))
        if r < 0.85:
            n = 8 * rng.randrange(0, 5)
            return Node("call", Node("sshort", gen(rng, depth - 1, "int"), lit_int(n, str(n), None)), fn="le")
        if r < 0.93:
            return gen(rng, depth - 1, "str")
        return Node("tern", gen(rng, depth - 1, "bool"), gen(rng, depth - 1, "sized"), gen(rng, depth - 1, "sized"))
    # int
    if depth <= 0 or rng.random() < 0.25:
        return gen_int_literal(rng)
    r = rng.random()
    if r < 0.45:
        op = rng.choice(["+", "-", "*", "/", "%", "&", "|", "^", "+", "-", "*"])
        a = gen(rng, depth - 1, "int")
        b = gen(rng, depth - 1, "int")
        return Node("bin", a, b, op=op)
    if r < 0.47:
        # results whose magnitude needs 62..66 bits (the edge of a machine word), 126..130 bits: the shift is exact
        b = rng.randrange(1, 24)
        v = rng.randrange(1 << (b - 1), 1 << b)
        if rng.random() < 0.4:
            v = -v
        k = rng.choice([64, 64, 128]) - b + rng.choice([-1, 0, 0, 1, 2])
        lhs = lit_int(v, str(v), None) if v >= 0 else Node("un", lit_int(-v, str(-v), None), op="-")
        node = Node("bin", lhs, lit_int(k, str(k), None), op="<<")
        if rng.random() < 0.4:
            node = Node("bin", node, lit_int(k, str(k), None), op=">>")
        return node
    if r < 0.55:
        sh = lit_int(*(lambda v: (v, str(v), None))(rng.choice([0, 1, 2, 3, 7, 8, 31, 32, 63, 64, 65, 100, 200])))
        if rng.random() < 0.15:
            sh = Node("un", sh, op="-")
        return Node("bin", gen(rng, depth - 1, "int"), sh, op=rng.choice(["<<", ">>"]))
    if r < 0.7:
        return Node("un", gen(rng, depth - 1, "int"), op=rng.choice(["-", "!"]))
    if r < 0.8:
        return gen(rng, depth - 1, "sized")
    if r < 0.86:
        return Node("tern", gen(rng, depth - 1, "bool"), gen(rng, depth - 1, "int"), gen(rng, depth - 1, "int"))
    if r < 0.9:
        return Node("call", gen(rng, depth - 1, "sized" if rng.random() > allow_err else "int"), fn="sizeof")
    if r < 0.93:
        return Node("call", gen(rng, depth - 1, "str"), fn="strlen")
    if r < 0.96:
        return Node("paren", gen(rng, depth - 1, "int"))
    # deliberate type confusion
    return Node("bin", gen(rng, depth - 1, "bool"), gen(rng, depth - 1, "int"), op=rng.choice(["+", "&&", "<", "@"]))


def first_str_byte_high(n):
    """does the tree contain a string value whose first encoded byte is >= 0x80 used as an integer? (F20)"""
    found = []
    def walk(n, enc=None):
        # (of nested encoding functions the outermost decides the bytes: utf8(utf16le("x")) is the UTF-8 encoding)
        if n.kind == "str":
            b = encode(n.v, enc or "utf8")
            if b and b[0] >= 0x80:
                found.append(True)
        elif n.kind == "call" and n.fn in ("ascii", "utf8", "utf16be", "utf16le", "utf32be", "utf32le"):
            for kkid in n.kids:
                walk(kkid, enc or n.fn)
        else:
            for kkid in n.kids:
                walk(kkid, enc)
    walk(n)
    return bool(found)
