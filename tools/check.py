#!/usr/bin/env python3
import importlib, json, os, sys, traceback
sys.path.insert(0, os.path.dirname(os.path.abspath(__file__)))
import fw


def main():
    if len(sys.argv) < 3:
        print("usage: check <Cxx> <quick|thorough> | check <Cxx> --replay <path>")
        return 2
    pid = sys.argv[1]
    mod = importlib.import_module("props." + pid)
    seed = int(os.environ.get("VERIF_SEED", "0") or 0)
    if sys.argv[2] == "--replay":
        try:
            fw.build_oracle()
        except fw.BuildError as e:
            print("BUILD-ERROR", e)
            return 2
        return mod.replay(sys.argv[3])
    tier = sys.argv[2]
    if tier not in ("quick", "thorough"):
        tier = os.environ.get("VERIF_TIER", "quick")
    chk = fw.Check(pid, tier, seed)
    try:
        fw.build_oracle()
    except fw.BuildError as e:
        print("BUILD-ERROR: /repo does not build; no verdict for %s\n%s" % (pid, e))
        return 2
    try:
        chk.proof = fw.prove(pid, tier, getattr(mod, "EXTRA_MODULES", ()))
        mod.run(chk)
        fw.replay_generic_witnesses(chk)
    except fw.BuildError as e:
        print("BUILD-ERROR:", e)
        return 2
    return chk.finish()


if __name__ == "__main__":
    sys.exit(main())
