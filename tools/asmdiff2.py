#!/usr/bin/env python3
"""development helper: whole-assembler model vs implementation on generator programs"""
import sys, os, random, json
sys.path.insert(0, os.path.dirname(os.path.abspath(__file__)))
import fw
from props import C06, C10, C13
from asmdiff import impl_line

def main():
    n = int(sys.argv[1]) if len(sys.argv) > 1 else 300
    rng = random.Random(int(sys.argv[2]) if len(sys.argv) > 2 else 1)
    ops, descr = [], []
    for _ in range(n):
        t = C06.gen_program(rng)[0]
        ops.append(fw.asm_op([("main.asm", t)], max_iter=rng.choice([10, 3, 2, 1]), opt_s=rng.random() < 0.7, opt_m=rng.random() < 0.7)); descr.append(t)
        files = C10.gen_symbol_program(rng)
        ops.append(fw.asm_op(files, max_iter=rng.choice([10, 4, 2]), opt_s=rng.random() < 0.7, opt_m=rng.random() < 0.7)); descr.append(json.dumps(files))
        r, i, k, ff, fl = C13.gen_faulty(rng)
        ops.append(fw.asm_op([("main.asm", r), ("inc.asm", i)])); descr.append(r + "-----inc\n" + i)
    impl = fw.run_oracle_resilient(ops, "adev2")
    model = fw.run_model(ops, "adev2", timeout=3000)
    bad = 0
    kinds = {}
    for t, a, m, op in zip(descr, impl, model, ops):
        ia = impl_line(a)
        k = ia.split()[0]
        kinds[k] = kinds.get(k, 0) + 1
        if ia != m:
            bad += 1
            if bad <= int(os.environ.get("SHOW", "6")):
                print("=== OPTS", op.split(" ")[1:4], "\n" + t[:900]); print("IMPL ", ia[:500]); print("MODEL", m[:500])
    print("total", len(ops), "mismatches", bad, kinds)

if __name__ == "__main__":
    main()
