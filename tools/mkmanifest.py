#!/usr/bin/env python3
"""Writes MANIFEST.json from the table below (kept in one place so it is always valid)."""
import json, os
VERIF = os.path.dirname(os.path.dirname(os.path.abspath(__file__)))

CLAIMED = {
 "C04": {
  "text": "Lean 4 theorems over the model of check_and_constrain_argument / min_size / resolve_data_element (Casm/Props/C04.lean): acceptance ranges of uN/sN/iN for every N>=1 and every integer, emitted bits = N low two's-complement bits, 'never truncates', #dN acceptance for unsized and sized values; the statement at N=0 is refuted (C04_full_false, known finding F17). The model is tied to the code on every run by a correspondence stream (exhaustive hook grid N<=11 quick / N<=16 thorough, boundaries to N=256, one-instruction and one-directive programs through the whole assembler).",
  "design_ref": "DESIGN.md section 6, C04",
  "note": "Trusted: Lean kernel; axioms propext/Classical.choice/Quot.sound only; the hand-written model (Casm/Model/Bits.lean) is tied to /repo by differential execution, not by translation; num_bigint::bits() is modelled as floor(log2)+1.",
  "technique": "Lean 4 proof (omega, induction) + model/implementation correspondence",
 },
 "C05": {
  "text": "Lean 4 theorems over the model of the expression layer (Casm/Props/C05.lean): literal value and size for every radix prefix, digit string and underscore placement (digitLoop_value, literal_value); + - * exact and unsized under the size cap; / and % truncate toward zero with a = b*q + r; << multiplies by 2^n, >> is floor division; ! is -x-1; & | ^ act bitwise on the infinite two's-complement expansion (tbit_intBitwise); slices and concatenation select/join exactly the named bits with sizes hi+1-lo and lw+rw; sizeof/strlen/le; division by zero, unsized concatenation, inverted slices, non-boolean conditions and ill-typed operands are errors. The operator-precedence table the model's parser is generic over is re-extracted from parser.rs on every run and proved equal to the documented table (precedence_as_documented). Tie: every generated expression is parsed and evaluated by the real code and by the compiled model (tree, consumed-all flag, value and error text compared) and by an independent Python integer reference.",
  "design_ref": "DESIGN.md section 6, C05",
  "note": "Trusted: Lean kernel and the three standard axioms; hand-written model of token.rs/excerpt.rs/parser.rs/eval.rs/builtin_fn.rs/bigint.rs tied by differential execution; translator regexes for the precedence/token tables; parse_print (parser inverts printing for all trees) is not a theorem yet - precedence between levels rests on the extracted table + correspondence; strings with first byte >= 0x80 are negative integers (known finding F20).",
  "technique": "Lean 4 proof (induction, bit extensionality, omega) + extracted tables + model/implementation correspondence",
 },
 "C11": {
  "text": "Lean 4 theorems over the model of bitvec_format.rs (Casm/Props/C11.lean): chunks_decode - for every bit string of every length and every chunk width k, re-expanding the k-bit chunks a format prints yields the assembled bits zero-padded to a whole chunk (covers raw binary, bit/hex strings, dumps, MIF, separator and C-array forms, both Logisim forms, which all print `chunks bits k`); dump_covers/dump_tight (line count covers every bit, no empty extra line); Intel HEX: records of a block carry exactly the block's bytes in order (ihex_block_bytes), <= 32 bytes per record, checksum makes every record sum to 0 mod 256. The rendered text of the model is compared byte for byte with driver::format_output for every format and parameter on lengths 0..4096; independent Python decoders re-read the implementation's text.",
  "design_ref": "DESIGN.md section 6, C11",
  "note": "Trusted: Lean kernel + three standard axioms; the model's text rendering is tied by correspondence only (no text-level parse theorem); Intel HEX addresses are 16-bit and blocks must be byte/unit aligned (known finding F19 otherwise).",
  "technique": "Lean 4 proof (round-trip by list extensionality, induction) + byte-exact model/implementation correspondence",
 },
 "C06": {
  "text": "Lean 4 theorems (Casm/Props/C06.lean). Overlap checker: OInv (sorted, consecutive entries disjoint, sizes positive) is preserved by every accepted insertion; an insertion of positive size is accepted exactly when the range is disjoint from every stored range (insert_iff_disjoint); zero sizes are accepted and not stored; hence after any history the stored ranges are pairwise disjoint (no_two_items_share_a_bit). build_output over any bank table and any resolved item sequence (build_output_safe, by a loop invariant): the emitted items are exactly the items' bit strings in order, pairwise bit-disjoint, each inside its bank's window at outp + position with address position/unit + addr (position_formula), the output holds exactly their bits, every other bit is zero, and the length is the maximum of the written ends and the filled bank ends; bank_windows_disjoint for check_bank_overlap. Tie: random insertion histories through util::OverlapChecker and random bank programs through asm::assemble are compared with the model (error class, bits, spans), and the layout statement is recomputed from the implementation's own spans and bits.",
  "design_ref": "DESIGN.md section 6, C06",
  "note": "Trusted: Lean kernel + three standard axioms; binary_search_by modelled as lower bound (equal on lists with distinct sorted positions, which OInv guarantees); the layout model takes resolved items (bits, reserve sizes, alignments, addresses) - their resolution is C02's; usize overflow of cur_position + size is not modelled here (C19).",
  "technique": "Lean 4 proof (loop invariant, induction over operation histories) + model/implementation correspondence",
 },
 "C13": {
  "text": "Lean 4 theorems over the model of CharCounter and Span::join (Casm/Props/C13.lean): linecol_correct - for every text (any mix of 1-4-byte characters) and every position on a character boundary, the reported line is the number of line breaks before the position and the column the number of characters since the last one; line_range_correct - the byte range of line k starts after the k-th line break and ends after the next; linecol_past_end; join_hull; the fallback Error token spans one whole character (extracted from token.rs). Tie: CharCounter is run on random multi-byte texts at every kind of index against the model and the definition; two-file programs with one injected fault of five kinds are assembled and the first error must lie on the faulty line of the right file, every location of every message must be a byte range on character boundaries inside an existing file, and the printed line:column must equal the definition.",
  "design_ref": "DESIGN.md section 6, C13",
  "note": "Trusted: Lean kernel + three standard axioms; 'first error on the faulty line' is established by the fault-injection search on the implementation, not by a theorem (the whole-assembler model of error order is not built); missing operands at the end of a line blame the next line (known finding F23).",
  "technique": "Lean 4 proof (induction over the text) + model/implementation correspondence + fault injection",
 },
 "C14": {
  "text": "Lean 4 theorems over the model of filename_navigate, parse_and_resolve_includes and the incbin/incstr range logic (Casm/Props/C14.lean): navigate_no_dotdot - no component of a successfully navigated path is '..' (for every current file and every relative name, both slash styles), escape_rejected(_deep) - one more '..' than directories available is an error wherever it occurs, backslash_is_slash, std_passthrough; once_at_most_once, cycle_is_error, self_inclusion_error, markers_in_order, splice_at_point for the inclusion expansion; incbin_exact / incbin_rejects_past_end / incbin_start_past_end / incbin_whole_file and the incstr twins. Tie: filename_navigate on 20k random spellings vs model vs an independent path-stack reference; 4k random inclusion graphs (cycles, diamonds, #once, several spellings per edge, missing files) assembled on the mock file server vs the model's expansion vs a reference expansion; every (start,length) around the file size for the three inclusion functions.",
  "design_ref": "DESIGN.md section 6, C14",
  "note": "Trusted: Lean kernel + three standard axioms; Windows path prefixes (filename_validate_relative) not modelled; termination of the expansion is by fuel in the model (fuel exhaustion never observed in the correspondence; not proved impossible); '<std>/ names only the built-in library' is enforced in FileServerReal (fixed, F18) and exercised on the real binary only in the thorough tier; symlinks and mount points are outside any model.",
  "technique": "Lean 4 proof (induction over path components / operations) + model/implementation correspondence",
 },
 "C18": {
  "text": "Lean 4 theorems over the model of driver.rs (Casm/Props/C18.lean), generic over the format table, option table and usage text re-extracted on every run: documented_accepted (every format of usage_help.md is accepted and selects that variant; every documented parameter exists with the documented default), documented_defaults, same_as_holds, code_names_vs_usage (the code's names = the documented ones + two aliases), unknown_format_rejected, leftover_param_rejected, invalid_value_rejected / malformed_value_rejected, tcgame_base_set; derived_ne_input, extension_table, default_formats, groups_independent (the files written are the concatenation of what each group contributes alone), one_file_per_group, finish_names, parse_error_before_assembling. Tie: every format string family through parse_output_format, and 4k structured command lines (groups, spellings, globals anywhere, faults) through driver::drive on an in-memory file server, compared with the model and with the intended meaning of the structure; getopts is modelled from its source.",
  "design_ref": "DESIGN.md section 6, C18",
  "note": "Trusted: Lean kernel + three standard axioms; translator regexes for the tables; getopts 0.2.24 semantics as modelled (differentially tested on every spelling); PathBuf::set_extension modelled for paths without trailing separator; printing to the screen (-p) is observed as 'no file written' here, its text on the real binary only in the thorough tier; undocumented aliases (F27) and equal derived names (F21) are known findings.",
  "technique": "Lean 4 proof (decide over extracted tables, induction over groups) + extracted tables + model/implementation correspondence",
 },
 "C10": {
  "text": "Lean 4 theorems (Casm/Props/C10.lean): the model has no clock, environment or global state, so non-determinism could only enter where the Rust code iterates a hash container; the translator lists every such site and every piece of global state on every run and hash_sites_are_the_modelled_ones / no_global_state pin those lists (a new iteration site, static mut, thread_local, clock or env read is an undischarged obligation); symbols_order_free - the symbol listing is the same for every enumeration order of the children (sorted by unique declaration index); copy_order_free - the map-to-map copies of hygienize_locals_for_asm_subst and of the asm-block label binding agree on every key for every visiting order. Search: a mixed corpus (multi-file symbol programs with equal offsets, asm blocks, functions, bank programs, faulty programs, all output formats through driver::drive, format strings with several unknown parameters) is executed by three fresh processes (independent hash seeds) and once in reverse order; every answer must be byte-identical.",
  "design_ref": "DESIGN.md section 6, C10",
  "note": "Trusted: Lean kernel + three standard axioms; the translator's regular expressions for iteration sites and global state (a site spelled in a way they do not recognise would be missed by the theorem and left to the repeated-run search); scheduler and allocator themselves are outside any model; threads are exercised in the thorough tier only.",
  "technique": "Lean 4 proof (permutation invariance) + extracted site lists + repeated execution across processes",
 },
 "C03": {
  "text": "Lean 4 theorems over the model of the driver's outcome logic (Casm/Props/C03.lean), for every command line, every assembler answer and every set of unwritable files: drive_dichotomy (a run is a success - ok, no error - or a failure - not ok and at least one error; never error-with-exit-0, never exit-1-without-diagnostic), failure_writes_nothing (a failed run writes no file unless the failure is a write), unwritable_not_written, runGroups_inv. The assembler enters as a parameter with the contract 'no output => at least one error'. That contract and 'never panics' are established on the implementation by search: 16k token-level mutants (incl. multi-byte characters spliced anywhere) of the 490 repository test inputs and of generated programs under budgets 1..10 and both optimisation switches, in-process (panic/abort detection, output <=> no error); 1.5k command lines with several defines, budgets, switches, group shapes and every single I/O fault through driver::drive; and a sample on the real binary (exit status, stderr, files created).",
  "design_ref": "DESIGN.md section 6, C03",
  "note": "PARTIAL: totality (no panic for every input) is not a theorem - it rests on the mutation search plus the theorems of C13 (location arithmetic total) and C14/C05 for the parts they model; the assembler's own phases are not yet modelled for the 'error pushed iff Err returned' argument. Stack overflow, allocation failure and hangs are C19's. Trusted: Lean kernel + three standard axioms; the oracle's catch_unwind and process-death detection.",
  "technique": "Lean 4 proof (case analysis / induction over groups) + mutation search with fault injection",
 },
 "C02": {
  "text": "Lean 4 theorems about the model of the whole assembler (Casm/Props/C02.lean; model Casm/Model/{Parse,Matcher,Resolve,Assemble}.lean covers parsing, declaration collection, #if, rule matching, expression evaluation, asm blocks, every item resolver, resolve_once/resolve_iteratively and build_output): success_is_confirmed - whenever assemble succeeds, for every program, budget and optimisation setting, the bits, spans and symbol values are read from a state produced by a pass in which guessing is forbidden, in which every item compared equal to its previous value and which reported nothing; unconfirmed_is_error and error_has_message - otherwise the outcome is an error with at least one message, never output. Tie: the model is run against asm::assemble on generated size-cascading programs x budgets x optimisation switches (bits, spans, symbols, pass count, first error must agree); and, independently of which fixed point was found, the implementation's complete final state (hook-free dump of every symbol value with size, every instruction/data encoding, reserve/align/addr values) is re-checked by ONE strict non-first pass of the model, which must accept it, be stable, silent and leave it unchanged (the fixed-point certificate).",
  "design_ref": "DESIGN.md section 6, C02",
  "note": "Trusted: Lean kernel + three standard axioms; the hand-written whole-assembler model, tied by differential execution (all 490 repository test inputs, mutants and generated programs agree); the theorem says the final pass was strict/stable/silent - that a strict stable non-first pass leaves the state untouched is Casm.Proofs.StableId (see DESIGN.md for its status) and is additionally checked per run by the certificate on the implementation's state; per-item consequences (smallest matching encoding, label = address of following item) follow from the definitions of resolveInstruction/resolveLabel applied in that pass.",
  "technique": "Lean 4 proof (induction over the iteration loop) + whole-assembler model/implementation correspondence + per-run fixed-point certificate",
 },
 "C09": {
  "text": "Lean 4 theorems (Casm/Props/C09.lean, Casm/Proofs/Iterate.lean): iters_le_budget - a successful assemble reports at most --iters passes (unconditional, whole-assembler model); the model's loop is proved equal to a generic loop skeleton (resolveIterativelyN_eq), and for the skeleton budget_monotone - success with budget n implies success with every m >= n with the identical final state - is proved for every pass obeying four budget-independent laws (stable non-first pass is the identity, stable first pass yields a strict fixed point, guessing agrees with strict where strict is stable, first-flag irrelevant on fixed points); budget_monotone_of_laws / lower_budget_same_or_error transfer it to the model's pass. Tie and search: every generated program (cascading sizes, asm blocks with several moving labels, assertions, functions) is assembled under budgets 1,2,3,4,5,6,10,11,30 by the implementation and the model; once a budget succeeds every larger one must succeed with identical bits, spans and symbols, pass counts must not exceed budgets, and model and implementation must agree on every run.",
  "design_ref": "DESIGN.md section 6, C09",
  "note": "PARTIAL: the four laws are hypotheses of the monotonicity theorem, not yet theorems about the model's pass (they are statements about a single pass, checked per run by the budget sweep and the C02 certificate); the inner budget of asm blocks is the same option and is part of the pass - its variation is covered by the sweep only. Trusted: Lean kernel + three standard axioms; whole-assembler model tied by differential execution.",
  "technique": "Lean 4 proof (simulation of two budgets, induction on fuel) + budget sweep on implementation and model",
 },
 "C08": {
  "text": "Lean 4 theorems about the model of match_instr and the prefix index (Casm/Props/C08.lean): index_candidates_are_rules (for every prefix the index proposes only rules of top-level blocks), optimised_matches_are_matches (every match found through the index is found by the full scan), optimised_rejects_what_full_scan_rejects, same_matches_of_index_complete (both settings find exactly the same matches wherever the index proposes every matching rule); index_complete_false is the kernel-checked witness (finding F10, `h a l t`) that this last hypothesis fails when a blank lies inside the leading literal. Search and tie: every program of the instruction-set generator (prefix-sharing, dotted and digit-leading mnemonics; -d defines overriding constants), of the size-cascading and asm-block generators, the repository's test inputs and their token-level mutants is assembled under the four switch combinations at budget 30 and two tighter budgets by the implementation and by the model; at a generous budget the four results must be identical; a matcher difference is attributed to F10 only if the model's matcherDiff says every differing instruction has an ignorable token inside the leading literal; a tight-budget difference only if it is a pure convergence failure (finding F29).",
  "design_ref": "DESIGN.md section 6, C08",
  "note": "PARTIAL: IndexComplete under the guard noBlankInLeadingLiteral, and the harmlessness of the static-value short-cut (staticallyKnown_sound), are not theorems yet - they rest on the four-way differential runs of implementation and model. Trusted: Lean kernel + three standard axioms; whole-assembler model tied by differential execution under all four settings.",
  "technique": "Lean 4 proof (list membership, kernel-evaluated counterexample) + four-way differential execution of implementation and model",
 },
 "C07": {
  "text": "Lean 4 theorems about the model of the matcher and the walker (Casm/Props/C07.lean): exact_part_ignores_case / maybeExpectChar_pattern_case (an exact pattern part accepts a character iff the ASCII lower-casings agree, on either side); blank_run_skipped / blank_runs_interchangeable / exact_part_after_blank_run (for every text, any run of blanks and tabs in front of a token is one Whitespace token and is skipped by exact parts and parameters exactly like no run, so widening, tab/blank swaps and inserted runs change nothing there); comment_is_ignorable (a `;` comment is one ignorable token whatever it contains); rule_order_irrelevant (trying the candidate rules in another order gives a permutation of the same matches); selected_have_max_literals / literal_beats_expression (only matches with the largest count of literal pattern parts survive, so a rule spelling an operand literally beats one reading it as an expression). Search and tie: generated instruction sets (prefix-sharing, dotted, digit-leading mnemonics; wrappers; operator-like separators; same-shape families; literal-versus-expression overlaps with symbols named like the literals) and programs, each re-spelled three times (recasing, blank/tab widening and insertion, trailing and nested block comments, rule permutation and re-partition into 1-3 blocks, label renaming): the implementation must give identical success/bits (symbols up to renaming), equal to the generator's language-definition result, and the model is run on every spelling; blanks inside a mnemonic are a separate stream attributed to finding F10 by the model.",
  "design_ref": "DESIGN.md section 6, C07",
  "note": "PARTIAL: invariance of whole-program results under re-partition into blocks, label renaming and block comments, and the interaction of the look-ahead cut with blanks, are established by the metamorphic search and the model correspondence, not by theorems. Known findings: F10 (blank inside the leading literal), F22 (an added blank enables a rule whose pattern spells one). Trusted: Lean kernel + three standard axioms; token tables re-extracted on every run; whole-assembler model tied by differential execution on every spelling.",
  "technique": "Lean 4 proof (tokenizer/walker lemmas, permutation, max-filter) + metamorphic search on the implementation + model correspondence",
 },
 "C15": {
  "text": "Lean 4 theorems about the model of SymbolManager and eval_variable (Casm/Props/C15.lean): lookup_determined_by_level_prefix (what a reference denotes depends on the point of use only through the first `level` components of the context, i.e. the enclosing declarations down to the dot-level), lookup_skipping_level_is_unknown, declare_skipping_level_is_error, declare_duplicate_is_error, declare_appends (fresh index, no renumbering), reference_sees_whole_table (evaluation consults the complete declaration table built before any evaluation, so use-before-declaration equals use-after). Search and tie: label trees to depth 4 with local names repeated under different parents, local/global constants (literal, chained in any order, address-valued), references from every position at every dot-level and through dotted paths emitted by #d16, by an untyped operand and by a size-switching instruction, and five kinds of faults; expected bits and every symbol value are computed by a Python scope walker written from the statement; implementation and model run on every program and on a twin with one address-free global constant moved.",
  "design_ref": "DESIGN.md section 6, C15",
  "note": "PARTIAL: the refinement 'the table maps full dotted paths to declarations' (lookup_refines_scope) is established by the search against the scope walker, not yet by a theorem. Known finding F16: the context follows every symbol, constants included (programs where the two readings differ are compared with the second reading exactly). Trusted: Lean kernel + three standard axioms; whole-assembler model tied by differential execution.",
  "technique": "Lean 4 proof (case analysis on the table operations) + scope-walker oracle on the implementation + model correspondence",
 },
 "C16": {
  "text": "Lean 4 theorems about the model of the first loop of asm::assemble (Casm/Props/C16.lean): resolveIfs_splices (one round of resolve_ifs replaces, in place and in order, every conditional whose condition evaluates to true by exactly its first arm and every one whose condition is false by exactly its else-part - which holds the #elif/#else chain - or by nothing; everything else stays), true_arm_only / false_arm_only / dead_arm_dropped, leftover_conditional_is_error (a conditional still present when the loop stops is an error whatever its condition evaluates to), define_overrides_constant and resolved_constant_is_kept (a define replaces the constant's value, marks it resolved, and the iterative resolver never re-evaluates a resolved constant), unused_define_is_error. Search and tie: generated condition trees (depth <= 4, #elif chains, empty arms, arms that all define the same name, constants before/after/inside arms, ill-typed, address-dependent and undeclared conditions) x define assignments (booleans, integers, negative, overriding address-valued constants, names declared only in dead arms or nowhere); the expected world is computed by a direct interpreter written from the statement (lazy && and ||); implementation and model are run on every case and the implementation also on the hand-flattened program; -d spellings go through driver::drive.",
  "design_ref": "DESIGN.md section 6, C16",
  "note": "PARTIAL: the fixed point of the whole loop (declarations, constants, splicing repeated until nothing changes) equals the interpreter's world by search and correspondence, not by a theorem; the per-round splice and the error clauses are theorems. Known finding F15 (a global label spliced in by a conditional does not re-scope local symbols declared after it). Trusted: Lean kernel + three standard axioms; whole-assembler model tied by differential execution.",
  "technique": "Lean 4 proof (fold induction, case analysis) + world interpreter oracle on the implementation + hand-flattened twins + model correspondence",
 },
}

NOT_YET = {}


def main():
    props = [json.loads(l)["id"] for l in open(os.path.join(VERIF, "properties.jsonl"))]
    checks = []
    for pid in props:
        if pid not in CLAIMED:
            continue
        c = CLAIMED[pid]
        checks.append({
            "property_id": pid,
            "quick_cmd": "./check %s quick" % pid,
            "thorough_cmd": "./check %s thorough" % pid,
            "evidence_file": "evidence/%s.json" % pid,
            "replay_cmd_template": "./check %s --replay {path}" % pid,
            "engine": "lean-model+oracle",
            "level_claimed": {"category": "proof", "text": c["text"], "design_ref": c["design_ref"]},
            "level_note": c["note"],
            "technique": c["technique"],
        })
    na = [{"property_id": pid, "reason": NOT_YET.get(pid, "not claimed yet: the model and theorems for this property are still being built (see DESIGN.md section 8 for the order); no check is registered until it is sound")}
          for pid in props if pid not in CLAIMED]
    m = {
        "version": 1,
        "setup_cmd": "./setup.sh",
        "hooks": {
            "guard": "--cfg hlorenzi_customasm_verif",
            "enable": "RUSTFLAGS=\"--cfg hlorenzi_customasm_verif\" cargo build --release --offline (in /verif/harness, path dependency on /repo)",
            "baseline_off_cmd": "cd /repo && cargo test --workspace --no-fail-fast --offline",
            "source_commits": json.load(open(os.path.join(VERIF, "hooks.json")))["source_commits"],
            "add_only": True,
        },
        "engines": [{"name": "lean-model+oracle", "path": "check", "serves_properties": [c["property_id"] for c in checks],
                     "kind_free_text": "Lean 4 theorems about an executable model (lean/), Rust oracle calling the real code in-process (harness/), python driver diffing both on generated operation streams and searching the implementation for failing inputs (tools/)"}],
        "checks": checks,
        "not_applicable": na,
        "notes": "All properties are decided by machine-checked proof in Lean 4 over a hand-written model tied to /repo by a per-run correspondence check and regenerated tables; see DESIGN.md. known_findings.json lists recorded genuine defects.",
    }
    json.dump(m, open(os.path.join(VERIF, "MANIFEST.json"), "w"), indent=1)


if __name__ == "__main__":
    main()
