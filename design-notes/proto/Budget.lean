import P.Resolver
namespace Proto

structure Laws {σ} (pass : Pass σ) : Prop where
  stableId : StableIsIdentity pass
  firstStable : FirstStable pass
  /-- where the strict pass succeeds and is stable, the guessing pass computes the same state
      (guessing only replaces errors by `Unknown`; `b = false` only for `#assert`) -/
  modeMono : ∀ f s s', pass ⟨f, true⟩ s = .ok (s', true) → ∃ b, pass ⟨f, false⟩ s = .ok (s', b)
  /-- the `first` flag only sets short-cut marks -/
  firstIrrel : ∀ r, LastFix pass r → ∀ f, pass ⟨f, true⟩ r = .ok (r, true)

theorem lastFix_of_stable {σ} (pass : Pass σ) (L : Laws pass) (f : Bool) (s s' : σ)
    (hp : pass ⟨f, true⟩ s = .ok (s', true)) : LastFix pass s' := by
  cases f with
  | true => exact L.firstStable _ _ _ hp
  | false =>
    have := L.stableId _ _ _ hp
    subst this
    exact ⟨false, hp⟩

/-- from a strict fixed point the loop can only end there -/
theorem loop_from_fix {σ} (pass : Pass σ) (L : Laws pass) (m : Nat) (r : σ) (hr : LastFix pass r) :
    ∀ fuel i, i + fuel = m →
      (∃ k, loop pass m fuel i r = .ok (.inl (k, r))) ∨ (∃ k, loop pass m fuel i r = .ok (.inr (k, r))) := by
  intro fuel
  induction fuel with
  | zero => intro i _; right; exact ⟨i, rfl⟩
  | succ n ih =>
    intro i hi
    simp only [loop]
    have hstrict := L.firstIrrel r hr (i + 1 == 1)
    by_cases hl : (i + 1 == m) = true
    · simp only [hl]
      rw [hstrict]; simp
    · have hl' : (i + 1 == m) = false := by simpa using hl
      obtain ⟨b, hb⟩ := L.modeMono _ _ _ hstrict
      simp only [hl']
      rw [hb]
      cases b with
      | true => simp
      | false =>
        simp
        exact ih (i + 1) (by omega)

/-- main simulation lemma: run budgets `n ≤ m` side by side from the same point -/
theorem loop_sim {σ} (pass : Pass σ) (L : Laws pass) (n m : Nat) (hnm : n ≤ m) :
    ∀ fuel i s, i + fuel = n →
      (∀ k r, loop pass n fuel i s = .ok (.inr (k, r)) →
          (fuel = 0 ∧ k = i ∧ r = s) ∨ loop pass m (fuel + (m - n)) i s = .ok (.inr (k, r))) ∧
      (∀ k r, loop pass n fuel i s = .ok (.inl (k, r)) →
          LastFix pass r ∧
          ((∃ k', loop pass m (fuel + (m - n)) i s = .ok (.inl (k', r))) ∨
           (∃ k', loop pass m (fuel + (m - n)) i s = .ok (.inr (k', r))))) := by
  intro fuel
  induction fuel with
  | zero =>
    intro i s hi
    constructor
    · intro k r h; left; simp [loop] at h; exact ⟨rfl, h.1.symm, h.2.symm⟩
    · intro k r h; simp [loop] at h
  | succ f ih =>
    intro i s hi
    have hstep : f + 1 + (m - n) = (f + (m - n)) + 1 := by omega
    constructor
    · intro k r h
      right
      rw [hstep]
      simp only [loop] at h ⊢
      by_cases hln : (i + 1 == n) = true
      · simp only [hln] at h
        split at h <;> simp at h
      · have hln' : (i + 1 == n) = false := by simpa using hln
        have hlm' : (i + 1 == m) = false := by
          simp at hln' ⊢; omega
        simp only [hln'] at h
        simp only [hlm']
        split at h
        · simp at h
        · simpa using h
        · rename_i s' hp
          simp at h
          have := (ih (i + 1) s' (by omega)).1 k r h
          rcases this with ⟨hf, _, _⟩ | this
          · exfalso
            simp at hln'; omega
          · simpa using this
    · intro k r h
      simp only [loop] at h
      by_cases hln : (i + 1 == n) = true
      · simp only [hln] at h
        split at h
        · simp at h
        · rename_i s' hp
          simp at h
          obtain ⟨_, rfl⟩ := h
          have hfix : LastFix pass s' := lastFix_of_stable pass L _ _ _ hp
          refine ⟨hfix, ?_⟩
          rw [hstep]
          simp only [loop]
          by_cases hlm : (i + 1 == m) = true
          · simp only [hlm]
            rw [hp]; simp
          · have hlm' : (i + 1 == m) = false := by simpa using hlm
            obtain ⟨b, hb⟩ := L.modeMono _ _ _ hp
            simp only [hlm']
            rw [hb]
            cases b with
            | true => simp
            | false =>
              simp
              exact loop_from_fix pass L m s' hfix _ _ (by simp at hln; omega)
        · simp at h
      · have hln' : (i + 1 == n) = false := by simpa using hln
        have hlm' : (i + 1 == m) = false := by
          simp at hln' ⊢; omega
        simp only [hln'] at h
        split at h
        · simp at h
        · simp at h
        · rename_i s' hp
          simp at h
          have := (ih (i + 1) s' (by omega)).2 k r h
          refine ⟨this.1, ?_⟩
          rw [hstep]
          simp only [loop, hlm', hp]
          simpa using this.2

theorem iters_le_budget_loop {σ} (pass : Pass σ) (max : Nat) :
    ∀ fuel i s, i + fuel = max → ∀ x, loop pass max fuel i s = .ok x →
      (match x with | .inl (k, _) => k ≤ max | .inr (k, _) => k ≤ max) := by
  intro fuel
  induction fuel with
  | zero => intro i s hi x h; simp [loop] at h; subst h; simp; omega
  | succ f ih =>
    intro i s hi x h
    simp only [loop] at h
    split at h
    · simp at h
    · split at h <;> (simp at h; subst h; simp; omega)
    · split at h
      · simp at h
      · exact ih _ _ (by omega) _ h

/-- C09: the number of passes reported never exceeds the budget -/
theorem iters_le_budget {σ} (pass : Pass σ) (max : Nat) (s : σ) (k : Nat) (r : σ)
    (h : iterate pass max s = .ok (k, r)) : k ≤ max := by
  unfold iterate at h
  split at h
  · simp at h
  · rename_i x hx
    simp at h; subst h
    exact iters_le_budget_loop pass max _ _ _ (by omega) _ hx
  · rename_i i s' hx
    have := iters_le_budget_loop pass max _ _ _ (by omega) _ hx
    split at h
    · simp at h; obtain ⟨rfl, _⟩ := h; simpa using this
    · simp at h

/-- C09: success with budget `n` implies the same result with every larger budget -/
theorem budget_monotone {σ} (pass : Pass σ) (L : Laws pass) (n m : Nat) (hn : 1 ≤ n) (hnm : n ≤ m)
    (s : σ) (k : Nat) (r : σ) (h : iterate pass n s = .ok (k, r)) :
    ∃ k', iterate pass m s = .ok (k', r) := by
  have sim := loop_sim pass L n m hnm n 0 s (by omega)
  have hm : n + (m - n) = m := by omega
  unfold iterate at h
  split at h
  · simp at h
  · rename_i x hx
    simp at h; subst h
    obtain ⟨hfix, hcases⟩ := sim.2 k r hx
    unfold iterate
    rw [hm] at hcases
    rcases hcases with ⟨k', hk⟩ | ⟨k', hk⟩
    · exact ⟨k', by rw [hk]⟩
    · refine ⟨k', ?_⟩
      rw [hk]; simp only
      rw [L.firstIrrel r hfix false]
  · rename_i i s' hx
    split at h
    · rename_i s'' hp
      simp at h
      obtain ⟨rfl, rfl⟩ := h
      have hs : s'' = s' := L.stableId _ _ _ hp
      subst hs
      rcases sim.1 i s'' hx with ⟨hf, _, _⟩ | hk
      · omega
      · unfold iterate
        rw [hm] at hk
        refine ⟨i, ?_⟩
        rw [hk]; simp only
        rw [hp]
    · simp at h

end Proto
