/-! Scratch prototype for C04: min_size and the three range predicates. -/
namespace Proto

/-- num_bigint `bits()` of the magnitude -/
def nbits (n : Nat) : Nat := if n = 0 then 0 else n.log2 + 1

/-- customasm `BigInt::min_size` -/
def minSize (x : Int) : Nat :=
  if x = 0 then 1
  else if x < 0 then nbits (x + 1).natAbs + 1
  else nbits x.natAbs

def sign (x : Int) : Int := if x < 0 then -1 else if x = 0 then 0 else 1

inductive Ty | u | s | i

/-- failure predicates of check_and_constrain_argument, verbatim -/
def rejects (t : Ty) (size : Nat) (x : Int) : Bool :=
  match t with
  | .u => sign x == -1 || minSize x > size
  | .s => (sign x == 0 && size == 0) ||
          (sign x == 1 && minSize x ≥ size) ||
          (sign x == -1 && minSize x > size)
  | .i => minSize x > size

theorem nbits_le_iff (n k : Nat) : nbits n ≤ k ↔ n < 2 ^ k := by
  unfold nbits
  split
  · subst_vars; simp; exact Nat.two_pow_pos k
  · rename_i h
    rw [Nat.succ_le_iff]
    exact (Nat.log2_lt h)

theorem minSize_pos_le (x : Int) (hx : 0 < x) (k : Nat) : minSize x ≤ k ↔ x < 2 ^ k := by
  unfold minSize
  have h0 : x ≠ 0 := by omega
  have h1 : ¬ x < 0 := by omega
  simp only [h0, h1, if_false]
  rw [nbits_le_iff]
  constructor
  · intro h
    have : (x.natAbs : Int) < ((2 ^ k : Nat) : Int) := by exact_mod_cast h
    have e : (x.natAbs : Int) = x := Int.natAbs_of_nonneg (by omega)
    rw [e] at this
    simpa using this
  · intro h
    have e : (x.natAbs : Int) = x := Int.natAbs_of_nonneg (by omega)
    have : (x.natAbs : Int) < ((2 ^ k : Nat) : Int) := by rw [e]; simpa using h
    exact_mod_cast this

theorem minSize_neg_le (x : Int) (hx : x < 0) (k : Nat) : minSize x ≤ k + 1 ↔ -(2 ^ k) ≤ x := by
  unfold minSize
  have h0 : x ≠ 0 := by omega
  simp only [h0, hx, if_true, if_false]
  rw [Nat.add_le_add_iff_right, nbits_le_iff]
  have e : ((x + 1).natAbs : Int) = -(x + 1) := by omega
  constructor
  · intro h
    have : ((x + 1).natAbs : Int) < ((2 ^ k : Nat) : Int) := by exact_mod_cast h
    rw [e] at this
    have h2 : ((2 ^ k : Nat) : Int) = 2 ^ k := by simp
    omega
  · intro h
    have h2 : ((2 ^ k : Nat) : Int) = 2 ^ k := by simp
    have : ((x + 1).natAbs : Int) < ((2 ^ k : Nat) : Int) := by rw [e]; omega
    exact_mod_cast this

/-- C04, unsigned: accepted exactly when 0 ≤ v < 2^N (N ≥ 1) -/
theorem accept_u (N : Nat) (hN : 1 ≤ N) (v : Int) :
    rejects .u N v = false ↔ 0 ≤ v ∧ v < 2 ^ N := by
  simp only [rejects, sign]
  by_cases hneg : v < 0
  · simp [hneg]; omega
  · by_cases hz : v = 0
    · subst hz
      simp [minSize]
      constructor
      · intro _; exact Int.pow_pos (by decide)
      · intro _; omega
    · have hpos : 0 < v := by omega
      simp [hneg, hz]
      rw [minSize_pos_le v hpos]
      omega

/-- C04, zero width: nothing is accepted -/
theorem zero_width_rejects_all (t : Ty) (v : Int) : rejects t 0 v = true := by
  have hm : 0 < minSize v := by
    unfold minSize nbits
    split
    · decide
    · split
      · omega
      · split
        · rename_i h1 h2 h3; omega
        · omega
  cases t <;> simp [rejects, sign]
  · omega
  · by_cases h1 : v < 0
    · simp [h1]; omega
    · by_cases h2 : v = 0
      · simp [h2]
      · simp [h1, h2]
  · omega

#eval (List.range 20).map (fun (n : Nat) => rejects .s 4 ((n : Int) - 10))
end Proto
