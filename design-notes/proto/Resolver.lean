/-! Scratch prototype: generic shape of customasm's `resolve_iteratively` and the
    C02 / C09 theorems, to check the statements are provable as written in DESIGN.md. -/
namespace Proto

inductive Out (α : Type) where
  | ok (a : α)
  | err
deriving Repr

structure Flags where
  first : Bool
  last : Bool
deriving Repr, DecidableEq

/-- a pass: new state and whether everything was stable (`Resolved`) -/
abbrev Pass (σ : Type) := Flags → σ → Out (σ × Bool)

/-- the `while iter_count < max_iterations` loop of resolve_iteratively.
    `i` = iterations done so far, `fuel = max - i`. Returns either a final answer
    (`Sum.inl`) or "broke out of the loop, go to the confirming pass" (`Sum.inr`). -/
def loop {σ} (pass : Pass σ) (max : Nat) : (fuel : Nat) → (i : Nat) → σ → Out (Sum (Nat × σ) (Nat × σ))
  | 0, i, s => .ok (.inr (i, s))
  | fuel+1, i, s =>
    let it := i + 1
    let fl : Flags := ⟨it == 1, it == max⟩
    match pass fl s with
    | .err => .err
    | .ok (s', true) => if fl.last then .ok (.inl (it, s')) else .ok (.inr (it, s'))
    | .ok (s', false) => if fl.last then .err else loop pass max fuel it s'

def iterate {σ} (pass : Pass σ) (max : Nat) (s : σ) : Out (Nat × σ) :=
  match loop pass max max 0 s with
  | .err => .err
  | .ok (.inl r) => .ok r
  | .ok (.inr (i, s')) =>
    match pass ⟨false, true⟩ s' with
    | .ok (s'', true) => .ok (i, s'')
    | _ => .err

/-- every successful loop exit through `inl` came from a stable last pass -/
theorem loop_inl_last {σ} (pass : Pass σ) (max : Nat) :
    ∀ fuel i s k r, loop pass max fuel i s = .ok (.inl (k, r)) →
      ∃ s' f, pass ⟨f, true⟩ s' = .ok (r, true) := by
  intro fuel
  induction fuel with
  | zero => intro i s k r h; simp [loop] at h
  | succ n ih =>
    intro i s k r h
    simp only [loop] at h
    split at h
    · simp at h
    · rename_i s' hp
      split at h
      · rename_i hl
        simp at h
        obtain ⟨_, rfl⟩ := h
        simp at hl
        exact ⟨s, (i + 1 == 1), by simpa [hl] using hp⟩
      · simp at h
    · split at h
      · simp at h
      · exact ih _ _ _ _ h

/-- C02 core: success ⇒ the state returned was produced by a stable pass in `last` mode -/
theorem iterate_ok_last_pass {σ} (pass : Pass σ) (max : Nat) (s : σ) (k : Nat) (r : σ)
    (h : iterate pass max s = .ok (k, r)) :
    ∃ s' f, pass ⟨f, true⟩ s' = .ok (r, true) := by
  unfold iterate at h
  split at h
  · simp at h
  · rename_i x hx
    simp at h
    subst h
    exact loop_inl_last pass max _ _ _ _ _ hx
  · rename_i i s' hx
    split at h
    · rename_i s'' hp
      simp at h
      obtain ⟨_, rfl⟩ := h
      exact ⟨s', false, hp⟩
    · simp at h

/-- a state on which a strict (last-mode) pass is stable -/
def LastFix {σ} (pass : Pass σ) (r : σ) : Prop := ∃ f, pass ⟨f, true⟩ r = .ok (r, true)

/-- a stable pass that is not the first leaves the state alone (every item compared
    its new value *and size* with the previous one) -/
def StableIsIdentity {σ} (pass : Pass σ) : Prop :=
  ∀ l s s', pass ⟨false, l⟩ s = .ok (s', true) → s' = s

/-- the first pass may assign the statically known items without comparing (they are
    marked `resolved` and skipped from then on); if it is stable its result is a strict
    fixed point -/
def FirstStable {σ} (pass : Pass σ) : Prop :=
  ∀ l s s', pass ⟨true, l⟩ s = .ok (s', true) → LastFix pass s'

theorem C02_fixed_point {σ} (pass : Pass σ) (hs : StableIsIdentity pass) (hf : FirstStable pass)
    (max : Nat) (s : σ) (k : Nat) (r : σ)
    (h : iterate pass max s = .ok (k, r)) :
    LastFix pass r := by
  obtain ⟨s', f, hp⟩ := iterate_ok_last_pass pass max s k r h
  cases f with
  | false =>
    have : r = s' := hs _ _ _ hp
    subst this
    exact ⟨false, hp⟩
  | true => exact hf _ _ _ hp

end Proto
