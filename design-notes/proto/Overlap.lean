/-! Scratch prototype for C06: `util::OverlapChecker`.
    `binary_search_by` is *any* admissible answer (Rust leaves the choice among equal keys
    unspecified), so the checker is a relation / a function of an oracle `sel`. -/
namespace Proto

structure Entry where
  pos : Nat
  size : Nat
deriving Repr, DecidableEq

/-- result of `binary_search_by(|e| e.position.cmp(&position))` -/
inductive Search where
  | found (i : Nat)      -- Ok(i): entries[i].pos = position
  | insertAt (i : Nat)   -- Err(i)

def Admissible (es : List Entry) (p : Nat) : Search → Prop
  | .found i => ∃ e, es[i]? = some e ∧ e.pos = p
  | .insertAt i => i ≤ es.length ∧ (∀ j e, j < i → es[j]? = some e → e.pos < p) ∧
                   (∀ j e, i ≤ j → es[j]? = some e → p < e.pos)

/-- `check_overlap` + `check_and_insert` for one admissible search answer.
    `none` = overlap reported. -/
def insertWith (es : List Entry) (p sz : Nat) : Search → Option (List Entry)
  | .found i =>
    match es[i]? with
    | some e => if e.size > 0 ∧ sz > 0 then none else some (es.insertIdx (i+1) ⟨p, sz⟩)
    | none => none
  | .insertAt i =>
    let nextBad := match es[i]? with
      | some nx => decide (p + sz > nx.pos)
      | none => false
    let prevBad := if i > 0 then
        match es[i-1]? with
        | some pv => decide (pv.pos + pv.size > p)
        | none => false
      else false
    if nextBad then none else if prevBad then none else some (es.insertIdx i ⟨p, sz⟩)

/-- what C06 needs: any two entries of positive size are disjoint -/
def Disjoint (es : List Entry) : Prop :=
  ∀ (i j : Nat) (a b : Entry), i < j → es[i]? = some a → es[j]? = some b → a.size > 0 → b.size > 0 →
    a.pos + a.size ≤ b.pos

/-- the defect (F07): history (0,8) (0,0) (0,8) with admissible answers is accepted
    and breaks disjointness -/
def h0 : List Entry := []
def h1 := insertWith h0 0 8 (.insertAt 0)
def h2 := h1.bind fun es => insertWith es 0 0 (.found 0)
def h3 := h2.bind fun es => insertWith es 0 8 (.found 1)

#eval h3   -- some [(0,8), (0,0), (0,8)]

theorem F07_witness : h3 = some [⟨0,8⟩, ⟨0,0⟩, ⟨0,8⟩] := by decide

theorem F07_admissible :
    Admissible [] 0 (.insertAt 0) ∧ Admissible [⟨0,8⟩] 0 (.found 0) ∧
    Admissible [⟨0,8⟩, ⟨0,0⟩] 0 (.found 1) := by
  refine ⟨?_, ?_, ?_⟩
  · refine ⟨by simp, ?_, ?_⟩ <;> intro j e h1 h2 <;> simp at h2
  · exact ⟨⟨0,8⟩, by simp, rfl⟩
  · exact ⟨⟨0,0⟩, by simp, rfl⟩

theorem F07_not_disjoint : ¬ Disjoint [⟨0,8⟩, ⟨0,0⟩, ⟨0,8⟩] := by
  intro h
  have := h 0 2 ⟨0,8⟩ ⟨0,8⟩ (by decide) (by simp) (by simp) (by decide) (by decide)
  simp at this

end Proto
