import Casm.Proofs.SwitchPass
/-!
# Casm.Proofs.MaxCongr — with the budget of `asm`-block loops pinned, nothing reads `maxIter` but the outer loop

`eval_asm` takes the budget of its own loop from `max_iterations` (finding F38).  When that budget is
pinned (`innerIter = some k`), evaluation, candidate resolution, the item resolvers and hence a whole
pass are the same functions whatever `maxIter` is.
-/
namespace Casm

def Static.withMax (st : Static) (n : Nat) : Static := { st with opts := { st.opts with maxIter := n } }

theorem evalVariable_max (st : Static) (n : Nat) (d : Defs) : evalVariable (st.withMax n) d = evalVariable st d := rfl
theorem evalAsmBuiltin_max (st : Static) (n : Nat) : evalAsmBuiltin (st.withMax n) = evalAsmBuiltin st := rfl

structure MaxEq (st : Static) (n : Nat) (d : Defs) (fuel : Nat) : Prop where
  env : mkEnv (st.withMax n) d fuel = mkEnv st d fuel
  rmatch : resolveMatch (st.withMax n) d fuel = resolveMatch st d fuel
  rargs : resolveArgs (st.withMax n) d fuel = resolveArgs st d fuel
  rmatches : resolveMatches (st.withMax n) d fuel = resolveMatches st d fuel
  renc : resolveEncoding (st.withMax n) d fuel = resolveEncoding st d fuel
  easm : evalAsm (st.withMax n) d fuel = evalAsm st d fuel
  aiter : asmIterate (st.withMax n) d fuel = asmIterate st d fuel
  aonce : asmOnce (st.withMax n) d fuel = asmOnce st d fuel

theorem maxEq (st : Static) (n k : Nat) (hk : st.opts.innerIter = some k) (d : Defs) : ∀ fuel, MaxEq st n d fuel := by
  have hm : (st.withMax n).opts.optMatcher = st.opts.optMatcher := rfl
  have hi : (st.withMax n).opts.innerIter = st.opts.innerIter := rfl
  intro fuel
  induction fuel with
  | zero =>
    refine ⟨?_, ?_, ?_, ?_, ?_, ?_, ?_, ?_⟩
    · funext ctx; simp only [mkEnv, evalVariable_max]
    · funext ctx m a; simp only [resolveMatch]
    · funext ctx r args i a b; simp only [resolveArgs]
    · funext ctx ms a acc; simp only [resolveMatches]
    · funext ctx ms a; simp only [resolveEncoding]
    · funext ctx t e; simp only [evalAsm]
    · funext ctx ns e l b i; rw [asmIterate, asmIterate]
    · funext ctx ns e l c r u; simp only [asmOnce]
  | succ f ih =>
    have hr : (st.withMax n).decls = st.decls := rfl
    refine ⟨?_, ?_, ?_, ?_, ?_, ?_, ?_, ?_⟩
    · funext ctx; simp only [mkEnv, evalVariable_max, evalAsmBuiltin_max, ih.env, ih.easm]
    · funext ctx m a; simp only [resolveMatch, ih.rargs, ih.env]
    · funext ctx r args i a b
      cases args with
      | nil => simp only [resolveArgs]
      | cons x rest => cases x <;> simp only [resolveArgs, ih.env, ih.rmatch, ih.rargs]
    · funext ctx ms a acc
      cases ms with
      | nil => simp only [resolveMatches]
      | cons x rest => simp only [resolveMatches, ih.rmatch, ih.rmatches]
    · funext ctx ms a; simp only [resolveEncoding, ih.rmatches]
    · funext ctx t e; simp only [evalAsm, ih.aiter, hi, hk, Option.getD_some]
    · funext ctx ns e l b i; rw [asmIterate, asmIterate]; simp only [ih.aonce, ih.aiter]
    · funext ctx ns e l c r u
      cases ns with
      | nil => simp only [asmOnce]
      | cons x rest => cases x <;> simp only [asmOnce, ih.renc, ih.aonce, hm]

theorem resolverEval_max (st : Static) (n k : Nat) (hk : st.opts.innerIter = some k) (d : Defs) :
    resolverEval (st.withMax n) d = resolverEval st d := by
  funext ctx e x; simp only [resolverEval, (maxEq st n k hk d evalFuel).env]

theorem dispatch_max (st : Static) (n k : Nat) (hk : st.opts.innerIter = some k) (d : Defs) (ctx : RCtx) (nd : AstNode) (j : Nat) :
    dispatch (st.withMax n) d ctx nd j = dispatch st d ctx nd j := by
  have ho : (st.withMax n).opts.optStatic = st.opts.optStatic := rfl
  have hall : allDefinite (st.withMax n) d ctx = allDefinite st d ctx := by
    funext cs; unfold allDefinite; rw [(maxEq st n k hk d (evalFuel - 1)).rmatches]
  unfold dispatch
  split
  · rename_i level name kind ne ref
    cases kind with
    | label => rfl
    | constant e => simp only [resolveConstant, resolverEval_max st n k hk d, ho]
  · simp only [resolveInstruction, (maxEq st n k hk d evalFuel).renc, ho, hall]
  · simp only [resolveData, dataStore, resolverEval_max st n k hk d, ho]
  · simp only [resolveRes, resolverEval_max st n k hk d]
  · simp only [resolveAlign, resolverEval_max st n k hk d]
  · simp only [resolveAddr, resolverEval_max st n k hk d]
  · simp only [resolveAssert, resolverEval_max st n k hk d]
  · rfl

theorem resolveOnce_max (st : Static) (n k : Nat) (hk : st.opts.innerIter = some k) (first last : Bool) (nodes : List AstNode) (d : Defs) :
    resolveOnce (st.withMax n) nodes first last d = resolveOnce st nodes first last d := by
  have hpn : ∀ (ps : PassSt) (nd : AstNode) (j : Nat), passNode (st.withMax n) first last ps nd j = passNode st first last ps nd j := by
    intro ps nd j
    rw [passNode_eq', passNode_eq']
    have hn : ∀ d, nodeItem (st.withMax n) d nd j = nodeItem st d nd j := fun d => rfl
    have hs : stepCtx (st.withMax n) ps.symCtx nd = stepCtx st ps.symCtx nd := rfl
    simp only [hn, hs, dispatch_max st n k hk]
  have hgo : ∀ (nd : AstNode) (fuel j : Nat) (ps : PassSt),
      passNodes.go (st.withMax n) first last nd j fuel ps = passNodes.go st first last nd j fuel ps := by
    intro nd fuel
    induction fuel with
    | zero => intro j ps; simp only [passNodes.go]
    | succ f ih => intro j ps; simp only [passNodes.go, hpn, ih]
  have hps : ∀ (l : List AstNode) (ps : PassSt), passNodes (st.withMax n) first last l ps = passNodes st first last l ps := by
    intro l
    induction l with
    | nil => intro ps; simp only [passNodes]
    | cons x rest ih => intro ps; rw [passNodes_cons, passNodes_cons, hgo]; simp only [ih]
  unfold resolveOnce
  rw [hps]

/-! ## the loop and the front end -/

theorem iterLoop_max (st : Static) (n k : Nat) (hk : st.opts.innerIter = some k) (nodes : List AstNode) (max : Nat) :
    ∀ (fuel i : Nat) (d : Defs) (rep : List String),
      iterLoop (st.withMax n) nodes max fuel i d rep = iterLoop st nodes max fuel i d rep := by
  intro fuel
  induction fuel with
  | zero => intro i d rep; simp only [iterLoop]
  | succ f ih => intro i d rep; simp only [iterLoop, resolveOnce_max st n k hk, ih]

theorem resolveIterativelyN_max (st : Static) (n k : Nat) (hk : st.opts.innerIter = some k) (nodes : List AstNode) (max : Nat) (d : Defs) :
    resolveIterativelyN (st.withMax n) nodes max d = resolveIterativelyN st nodes max d := by
  unfold resolveIterativelyN
  simp only [iterLoop_max st n k hk, resolveOnce_max st n k hk]

def Opts.withMax (opts : Opts) (n : Nat) : Opts := { opts with maxIter := n }

theorem rcs_max (opts : Opts) (n : Nat) : resolveConstantsSimple (opts.withMax n) = resolveConstantsSimple opts := rfl
theorem matchAll_max (opts : Opts) (n : Nat) : matchAll (opts.withMax n) = matchAll opts := rfl

theorem declLoop_max (opts : Opts) (n : Nat) : ∀ (fuel : Nat) (d : Decls) (defs : Defs) (nodes : List AstNode) (prev : Nat),
    declLoop (opts.withMax n) fuel d defs nodes prev = declLoop opts fuel d defs nodes prev := by
  intro fuel
  induction fuel with
  | zero => intro d defs nodes prev; simp only [declLoop]
  | succ f ih => intro d defs nodes prev; simp only [declLoop, rcs_max, ih]

theorem frontEnd_max (opts : Opts) (n : Nat) (fs : SrcFiles) (roots : List (List Char)) :
    frontEnd (opts.withMax n) fs roots = (frontEnd opts fs roots).map fun x => (x.1.withMax n, x.2.1, x.2.2) := by
  unfold frontEnd frontEndPre
  simp only [declLoop_max, matchAll_max]
  cases (parseMany fs roots).map (·.map AstNode.fresh) with
  | error e => rfl
  | ok nodes =>
    simp only
    cases (SymMgr.new "bank").declare [] "#global_bankdef" 0 .other with
    | error e => rfl
    | ok x =>
      simp only
      cases declLoop opts (4 * (nodes.length + 4) + 64 + 8 * (fs.foldl (fun n f => n + f.2.length) 0)) ({ banks := x.2 } : Decls) {} nodes 0 with
      | error e => rfl
      | ok y =>
        simp only
        cases checkLeftoverIfs y.1 y.2.1 y.2.2 with
        | error e => rfl
        | ok u =>
          simp only
          cases defineRemaining y.1 y.2.1 y.2.2 with
          | error e => rfl
          | ok z =>
            simp only
            by_cases hrep : (!(matchAll opts y.1 z.1 z.2).2.isEmpty) = true
            · simp only [hrep, if_true]; rfl
            · simp only [hrep, if_false]; rfl

end Casm
