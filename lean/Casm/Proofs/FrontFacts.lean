import Casm.Proofs.FrontOKb
/-!
# Casm.Proofs.FrontFacts — the front end establishes the facts `FrontOK`

`define_remaining` numbers instructions and data elements consecutively (so their references are
pairwise distinct and nothing is marked), the `known` flag of a data element is the analysis of
its expression; `match_all` stores for each instruction the analysis of its candidates in the
symbol context of its node.
-/
namespace Casm

/-- instruction nodes that carry a reference / data elements, counted along a node list -/
def countI : List AstNode → Nat
  | [] => 0
  | .instr _ (some _) :: rest => countI rest + 1
  | _ :: rest => countI rest

def countD : List AstNode → Nat
  | [] => 0
  | .data _ es _ :: rest => countD rest + es.length
  | _ :: rest => countD rest

theorem countI_append (a b : List AstNode) : countI (a ++ b) = countI a + countI b := by
  induction a with
  | nil => simp [countI]
  | cons x xs ih =>
    cases x with
    | instr src r => cases r <;> simp [countI, ih] <;> omega
    | _ => simp [countI, ih]

theorem countD_append (a b : List AstNode) : countD (a ++ b) = countD a + countD b := by
  induction a with
  | nil => simp [countD]
  | cons x xs ih =>
    cases x with
    | data sz es refs => simp [countD, ih]; omega
    | _ => simp [countD, ih]

theorem split_snoc {α} (l : List α) (x : α) (pre : List α) (n : α) (post : List α) (h : l ++ [x] = pre ++ n :: post) :
    (∃ post', l = pre ++ n :: post' ∧ post = post' ++ [x]) ∨ (pre = l ∧ n = x ∧ post = []) := by
  rcases List.eq_nil_or_concat post with hp | ⟨post', y, hp⟩
  · subst hp
    right
    have h' : l ++ [x] = pre ++ [n] := h
    have := List.append_inj' h' rfl
    exact ⟨this.1.symm, by simpa using this.2.symm, rfl⟩
  · subst hp
    left
    have h' : l ++ [x] = (pre ++ n :: post') ++ [y] := by simpa using h
    have := List.append_inj' h' rfl
    exact ⟨post', this.1, by simp at this; rw [this.2]; simp⟩

/-- what `define_remaining`'s numbering loop maintains -/
structure AR (df : Defs) (out : List AstNode) : Prop where
  il : df.instrs.length = countI out
  ifresh : ∀ ref, (df.instrs.getD ref default).resolved = false
  iknown : ∀ ref, (df.instrs.getD ref default).known = false
  ipos : ∀ pre src ref post, out = pre ++ .instr src (some ref) :: post → ref = countI pre
  dl : df.datas.length = countD out
  dfresh : ∀ ref, (df.datas.getD ref default).resolved = false
  dpos : ∀ pre sz es refs post, out = pre ++ .data sz es refs :: post →
    refs = (List.range es.length).map (· + countD pre) ∧
    ∀ k, k < es.length → (df.datas.getD (countD pre + k) default).known = staticallyKnown pureP (es.getD k default)

theorem getD_append_left' {α} (l m : List α) (i : Nat) (d : α) (h : i < l.length) : (l ++ m).getD i d = l.getD i d := by
  simp [List.getD_eq_getElem?_getD, List.getElem?_append_left h]

theorem getD_append_right' {α} (l m : List α) (i : Nat) (d : α) (h : l.length ≤ i) : (l ++ m).getD i d = m.getD (i - l.length) d := by
  simp [List.getD_eq_getElem?_getD, List.getElem?_append_right h]

theorem assignRef_ar (df : Defs) (out : List AstNode) (n : AstNode) (h : AR df out) :
    AR (assignRef (df, out) n).1 (assignRef (df, out) n).2 := by
  -- nodes other than instructions and data: the two tables are untouched, the output grows by a neutral node
  have neutral : ∀ (df' : Defs) (x : AstNode), df'.instrs = df.instrs → df'.datas = df.datas →
      (∀ src r, x ≠ .instr src (some r)) → (∀ sz es refs, x ≠ .data sz es refs) → AR df' (out ++ [x]) := by
    intro df' x hi hd hx1 hx2
    have cI : countI [x] = 0 := by
      cases x with
      | instr src r => cases r with | none => rfl | some r => exact absurd rfl (hx1 src r)
      | _ => rfl
    have cD : countD [x] = 0 := by
      cases x with
      | data sz es refs => exact absurd rfl (hx2 sz es refs)
      | _ => rfl
    refine ⟨by rw [hi, countI_append, cI, h.il]; rfl, by rw [hi]; exact h.ifresh, by rw [hi]; exact h.iknown, ?_, by rw [hd, countD_append, cD, h.dl]; rfl,
      by rw [hd]; exact h.dfresh, ?_⟩
    · intro pre src ref post hs
      rcases split_snoc out x pre _ post hs with ⟨post', h1, _⟩ | ⟨_, h2, _⟩
      · exact h.ipos pre src ref post' h1
      · exact absurd h2.symm (hx1 src ref)
    · intro pre sz es refs post hs
      rcases split_snoc out x pre _ post hs with ⟨post', h1, _⟩ | ⟨_, h2, _⟩
      · rw [hd]; exact h.dpos pre sz es refs post' h1
      · exact absurd h2.symm (hx2 sz es refs)
  cases n with
  | instr src r =>
    simp only [assignRef]
    refine ⟨by simp [countI_append, countI, h.il], ?_, ?_, ?_, by simp only [countD_append, countD]; exact h.dl, h.dfresh, ?_⟩
    · intro ref
      by_cases hl : ref < df.instrs.length
      · rw [getD_append_left' _ _ _ _ hl]; exact h.ifresh ref
      · rw [getD_append_right' _ _ _ _ (Nat.not_lt.mp hl)]
        cases (ref - df.instrs.length) <;> rfl
    · intro ref
      by_cases hl : ref < df.instrs.length
      · rw [getD_append_left' _ _ _ _ hl]; exact h.iknown ref
      · rw [getD_append_right' _ _ _ _ (Nat.not_lt.mp hl)]
        cases (ref - df.instrs.length) <;> rfl
    · intro pre src' ref post hs
      rcases split_snoc out _ pre _ post hs with ⟨post', h1, _⟩ | ⟨h1, h2, _⟩
      · exact h.ipos pre src' ref post' h1
      · injection h2 with _ h3; injection h3 with h3
        rw [h1, h3, h.il]
    · intro pre sz es refs post hs
      rcases split_snoc out _ pre _ post hs with ⟨post', h1, _⟩ | ⟨_, h2, _⟩
      · exact h.dpos pre sz es refs post' h1
      · cases h2
  | data sz es refs0 =>
    simp only [assignRef]
    refine ⟨by simp only [countI_append, countI]; exact h.il, h.ifresh, h.iknown, ?_, by simp [countD_append, countD, h.dl], ?_, ?_⟩
    · intro pre src ref post hs
      rcases split_snoc out _ pre _ post hs with ⟨post', h1, _⟩ | ⟨_, h2, _⟩
      · exact h.ipos pre src ref post' h1
      · cases h2
    · intro ref
      by_cases hl : ref < df.datas.length
      · rw [getD_append_left' _ _ _ _ hl]; exact h.dfresh ref
      · rw [getD_append_right' _ _ _ _ (Nat.not_lt.mp hl)]
        simp only [List.getD_eq_getElem?_getD, List.getElem?_map]
        cases es[ref - df.datas.length]? <;> rfl
    · intro pre sz' es' refs post hs
      rcases split_snoc out _ pre _ post hs with ⟨post', h1, _⟩ | ⟨h1, h2, _⟩
      · obtain ⟨e1, e2⟩ := h.dpos pre sz' es' refs post' h1
        refine ⟨e1, fun k hk => ?_⟩
        have hlt : countD pre + k < df.datas.length := by
          rw [h.dl, h1, countD_append]; simp only [countD]; omega
        rw [getD_append_left' _ _ _ _ hlt]; exact e2 k hk
      · injection h2 with a b c
        subst a b
        rw [h1, ← h.dl]
        refine ⟨c, fun k hk => ?_⟩
        rw [getD_append_right' _ _ _ _ (by omega)]
        have : df.datas.length + k - df.datas.length = k := by omega
        rw [this]
        simp only [List.getD_eq_getElem?_getD, List.getElem?_map, List.getElem?_eq_getElem hk, Option.map_some, Option.getD_some]
        rfl
  | res e r => simp only [assignRef]; exact neutral _ _ rfl rfl (fun _ _ hh => by cases hh) (fun _ _ _ hh => by cases hh)
  | align e r => simp only [assignRef]; exact neutral _ _ rfl rfl (fun _ _ hh => by cases hh) (fun _ _ _ hh => by cases hh)
  | addr e r => simp only [assignRef]; exact neutral _ _ rfl rfl (fun _ _ hh => by cases hh) (fun _ _ _ hh => by cases hh)
  | _ => simp only [assignRef]; exact neutral _ _ rfl rfl (fun _ _ hh => by cases hh) (fun _ _ _ hh => by cases hh)

theorem foldl_assignRef_ar : ∀ (l : List AstNode) (df : Defs) (out : List AstNode), AR df out →
    AR (l.foldl assignRef (df, out)).1 (l.foldl assignRef (df, out)).2 := by
  intro l
  induction l with
  | nil => intro df out h; exact h
  | cons n rest ih =>
    intro df out h
    rw [List.foldl_cons]
    have := assignRef_ar df out n h
    exact ih _ _ this

theorem ar_init (df : Defs) (hi : df.instrs = []) (hd : df.datas = []) : AR df [] :=
  ⟨(by rw [hi]; rfl), fun _ => (by rw [hi]; rfl), fun _ => (by rw [hi]; rfl), fun pre _ _ _ hs => (by cases pre <;> cases hs), (by rw [hd]; rfl),
   fun _ => (by rw [hd]; rfl), fun pre _ _ _ _ hs => (by cases pre <;> cases hs)⟩

/-- two positions of a list: the prefixes are comparable -/
theorem split_cmp {α} (pre pre' : List α) (a b : α) (post post' : List α) (h : pre ++ a :: post = pre' ++ b :: post') :
    pre = pre' ∨ (∃ t, pre' = pre ++ a :: t) ∨ (∃ t, pre = pre' ++ b :: t) := by
  rcases List.append_eq_append_iff.mp h with ⟨t, h1, h2⟩ | ⟨t, h1, h2⟩
  · cases t with
    | nil => left; simpa using h1.symm
    | cons x xs =>
      right; left
      injection h2 with h3 h4
      exact ⟨xs, by rw [h1, h3]⟩
  · cases t with
    | nil => left; simpa using h1
    | cons x xs =>
      right; right
      injection h2 with h3 h4
      exact ⟨xs, by rw [h1, h3]⟩

theorem ar_instrPos (df : Defs) (out : List AstNode) (h : AR df out) (pre : List AstNode) (src : List Char) (ref : Nat)
    (post pre' : List AstNode) (src' : List Char) (post' : List AstNode)
    (hs : out = pre ++ .instr src (some ref) :: post) (hs' : out = pre' ++ .instr src' (some ref) :: post') : pre' = pre := by
  have e1 := h.ipos pre src ref post hs
  have e2 := h.ipos pre' src' ref post' hs'
  rcases split_cmp pre pre' _ _ post post' (hs.symm.trans hs') with e | ⟨t, e⟩ | ⟨t, e⟩
  · exact e.symm
  · rw [e, countI_append] at e2; simp only [countI] at e2; omega
  · rw [e, countI_append] at e1; simp only [countI] at e1; omega

theorem ar_dataPos (df : Defs) (out : List AstNode) (h : AR df out) (pre : List AstNode) (sz : Option Nat) (es : List Expr) (refs : List Nat)
    (post : List AstNode) (k : Nat) (pre' : List AstNode) (sz' : Option Nat) (es' : List Expr) (refs' : List Nat) (post' : List AstNode) (k' : Nat)
    (hs : out = pre ++ .data sz es refs :: post) (hs' : out = pre' ++ .data sz' es' refs' :: post')
    (hk : k < es.length) (hk' : k' < es'.length) (hr : refs.getD k 0 = refs'.getD k' 0) :
    sz' = sz ∧ es'.getD k' default = es.getD k default := by
  obtain ⟨r1, _⟩ := h.dpos pre sz es refs post hs
  obtain ⟨r2, _⟩ := h.dpos pre' sz' es' refs' post' hs'
  have g1 : refs.getD k 0 = k + countD pre := by
    rw [r1]; simp [List.getD_eq_getElem?_getD, List.getElem?_map, List.getElem?_range hk]
  have g2 : refs'.getD k' 0 = k' + countD pre' := by
    rw [r2]; simp [List.getD_eq_getElem?_getD, List.getElem?_map, List.getElem?_range hk']
  rw [g1, g2] at hr
  rcases split_cmp pre pre' _ _ post post' (hs.symm.trans hs') with e | ⟨t, e⟩ | ⟨t, e⟩
  · subst e
    have := List.append_cancel_left (hs.symm.trans hs')
    injection this with hn _
    injection hn with a b c
    subst a b c
    have : k = k' := by omega
    subst this
    exact ⟨rfl, rfl⟩
  · rw [e, countD_append] at hr; simp only [countD] at hr; omega
  · rw [e, countD_append] at hr; simp only [countD] at hr; omega

/-! ## `match_all` -/

/-- the analysis of a match reads a state only through the rule definitions and the `known` flags -/
theorem matchKnown_congr (d : Decls) (a b : Defs) (hr : b.ruledefs = a.ruledefs) (hk : ∀ r, (b.sym r).known = (a.sym r).known)
    (sc : List String) : ∀ fuel, matchKnown d b sc fuel = matchKnown d a sc fuel ∧ matchKnownArgs d b sc fuel = matchKnownArgs d a sc fuel := by
  have hq : matchQv d b sc = matchQv d a sc := by
    funext level path
    simp only [matchQv, hk]
  have hp : matchP0 d b sc = matchP0 d a sc := by simp only [matchP0, hq]
  intro fuel
  induction fuel with
  | zero =>
    refine ⟨?_, ?_⟩
    · funext m; simp only [matchKnown]
    · funext rule args i pa p; simp only [matchKnownArgs]
  | succ f ih =>
    refine ⟨?_, ?_⟩
    · funext m; simp only [matchKnown, hr, hp, ih.2]
    · funext rule args i pa p
      cases args with
      | nil => simp only [matchKnownArgs]
      | cons x rest => simp only [matchKnownArgs, ih.1, ih.2]

/-- the step of `match_all` -/
def matchStep (opts : Opts) (d : Decls) (acc : Defs × List String × List String) (n : AstNode) : Defs × List String × List String :=
  let (defs, symCtx, rep) := acc
  match n with
  | .instr src (some r) =>
    let ms := matchInstr opts.optMatcher defs.ruledefs src
    if ms.isEmpty then (defs, symCtx, rep ++ ["no match found for instruction"])
    else
      let infos : List MatchInfo := ms.map fun m =>
        ⟨m, matchKnown d defs symCtx 64 m, (matchStaticSize defs 64 m).getD 0⟩
      let largest := infos.foldl (fun mx i => if i.size > mx then i.size else mx) 0
      let ins : InstrDef := { cands := infos, known := infos.all (·.known), encoding := ⟨0, some largest⟩ }
      ({ defs with instrs := defs.instrs.set r ins }, symCtx, rep)
  | .symbol _ _ _ _ (some r) => (defs, (d.symbols.decls.getD r default).ctx, rep)
  | _ => acc

theorem matchAll_eq (opts : Opts) (d : Decls) (defs : Defs) (nodes : List AstNode) :
    matchAll opts d defs nodes = ((nodes.foldl (matchStep opts d) (defs, [], [])).1, (nodes.foldl (matchStep opts d) (defs, [], [])).2.2) := by
  unfold matchAll
  have : (fun (acc : Defs × List String × List String) n =>
      match acc with
      | (defs, symCtx, rep) =>
        match n with
        | .instr src (some r) =>
          let ms := matchInstr opts.optMatcher defs.ruledefs src
          if ms.isEmpty then (defs, symCtx, rep ++ ["no match found for instruction"])
          else
            let infos : List MatchInfo := ms.map fun m =>
              ⟨m, matchKnown d defs symCtx 64 m, (matchStaticSize defs 64 m).getD 0⟩
            let largest := infos.foldl (fun mx i => if i.size > mx then i.size else mx) 0
            let ins : InstrDef := { cands := infos, known := infos.all (·.known), encoding := ⟨0, some largest⟩ }
            ({ defs with instrs := defs.instrs.set r ins }, symCtx, rep)
        | .symbol _ _ _ _ (some r) => (defs, (d.symbols.decls.getD r default).ctx, rep)
        | _ => acc) = matchStep opts d := by
    funext acc n; rfl
  simp only [this]
  rfl

/-- what `match_all` maintains after having processed the prefix `pre` (entered with state `D`) -/
structure MInv (st : Static) (D : Defs) (pre : List AstNode) (acc : Defs × List String × List String) : Prop where
  syms : acc.1.symbols = D.symbols
  rd : acc.1.ruledefs = D.ruledefs
  datas : acc.1.datas = D.datas
  fresh : ∀ ref, (acc.1.instrs.getD ref default).resolved = false
  sc : acc.2.1 = ctxAfter st [] pre
  later : ∀ ref, countI pre ≤ ref → acc.1.instrs.getD ref default = D.instrs.getD ref default
  known : ∀ pre1 src ref post1, pre = pre1 ++ .instr src (some ref) :: post1 → (acc.1.instrs.getD ref default).known = true →
    ∀ c ∈ (acc.1.instrs.getD ref default).cands, matchKnown st.decls D (ctxAfter st [] pre1) 64 c.m = true

theorem matchStep_inv (opts : Opts) (st : Static) (D : Defs) (nodes : List AstNode) (har : AR D nodes)
    (pre : List AstNode) (n : AstNode) (post : List AstNode) (hsplit : nodes = pre ++ n :: post)
    (acc : Defs × List String × List String) (h : MInv st D pre acc) : MInv st D (pre ++ [n]) (matchStep opts st.decls acc n) := by
  obtain ⟨defs, symCtx, rep⟩ := acc
  have hsc : symCtx = ctxAfter st [] pre := h.sc
  -- nodes that are neither instructions with a reference nor symbols with one leave the state alone
  have neutral : (∀ src r, n ≠ .instr src (some r)) → stepCtx st symCtx n = symCtx → MInv st D (pre ++ [n]) (defs, symCtx, rep) := by
    intro hx hctx
    have cI : countI [n] = 0 := by
      cases n with
      | instr src r => cases r with | none => rfl | some r => exact absurd rfl (hx src r)
      | _ => rfl
    refine ⟨h.syms, h.rd, h.datas, h.fresh, ?_, fun ref hr => h.later ref (by rw [countI_append, cI] at hr; omega), ?_⟩
    · show symCtx = ctxAfter st [] (pre ++ [n])
      rw [ctxAfter_snoc, ← hsc, hctx]
    · intro pre1 src ref post1 hs
      rcases split_snoc pre n pre1 _ post1 hs with ⟨post', h1, _⟩ | ⟨_, h2, _⟩
      · exact h.known pre1 src ref post' h1
      · exact absurd h2.symm (hx src ref)
  cases n with
  | instr src r =>
    cases r with
    | none => simp only [matchStep]; exact neutral (fun _ _ hh => by cases hh) rfl
    | some r =>
      have hr : r = countI pre := har.ipos pre src r post hsplit
      simp only [matchStep]
      split
      · -- no match: only a message is added
        refine ⟨h.syms, h.rd, h.datas, h.fresh, ?_, fun ref hle => h.later ref (by rw [countI_append] at hle; simp only [countI] at hle; omega), ?_⟩
        · show symCtx = ctxAfter st [] (pre ++ [.instr src (some r)])
          rw [ctxAfter_snoc, ← hsc]; rfl
        · intro pre1 src' ref post1 hs hk
          rcases split_snoc pre _ pre1 _ post1 hs with ⟨post', h1, _⟩ | ⟨h1, h2, _⟩
          · exact h.known pre1 src' ref post' h1 hk
          · injection h2 with _ h3; injection h3 with h3
            subst h3
            have := h.later ref (by omega)
            rw [this] at hk
            -- the entry is still the one `define_remaining` made: not flagged
            rw [har.iknown ref] at hk; cases hk
      · rename_i hne
        have hnodes : ∀ pre1 src1 ref1 post1, pre = pre1 ++ .instr src1 (some ref1) :: post1 → ref1 ≠ r := by
          intro pre1 src1 ref1 post1 hs1
          have := har.ipos pre1 src1 ref1 (post1 ++ .instr src (some r) :: post) (by rw [hsplit, hs1]; simp)
          rw [this, hr, hs1, countI_append]; simp only [countI]; omega
        refine ⟨h.syms, h.rd, h.datas, fun ref => ?_, ?_, fun ref hle => ?_, ?_⟩
        · rcases getD_set_eq_or defs.instrs r ref _ default with h1 | ⟨_, h1⟩
          · simp only; rw [h1]; exact h.fresh ref
          · simp only; rw [h1]
        · show symCtx = ctxAfter st [] (pre ++ [.instr src (some r)])
          rw [ctxAfter_snoc, ← hsc]; rfl
        · have hne2 : r ≠ ref := by
            rw [countI_append] at hle; simp only [countI] at hle; omega
          simp only
          rw [getD_set_ne _ _ _ _ _ hne2]
          exact h.later ref (by rw [countI_append] at hle; simp only [countI] at hle; omega)
        · intro pre1 src' ref post1 hs hk c hc
          rcases split_snoc pre _ pre1 _ post1 hs with ⟨post', h1, _⟩ | ⟨h1, h2, _⟩
          · have hne2 : r ≠ ref := (hnodes pre1 src' ref post' h1).symm
            simp only at hk hc
            rw [getD_set_ne _ _ _ _ _ hne2] at hk hc
            exact h.known pre1 src' ref post' h1 hk c hc
          · injection h2 with _ h3; injection h3 with h3
            subst h3 h1
            simp only at hk hc
            rcases getD_set_eq_or defs.instrs ref ref _ default with h4 | ⟨_, h4⟩
            · rw [h4] at hk
              rw [h.later ref (by omega), har.iknown ref] at hk; cases hk
            · rw [h4] at hk hc
              simp only at hk hc
              obtain ⟨m, _, rfl⟩ := List.mem_map.mp hc
              have hall := List.all_eq_true.mp hk _ hc
              simp only at hall ⊢
              have hcg := (matchKnown_congr st.decls D defs h.rd (fun r' => by rw [sym_of_symbols_eq h.syms r']) symCtx 64).1
              rw [← hsc, ← hcg]; exact hall
  | symbol l nm kd ne r =>
    cases r with
    | none => simp only [matchStep]; exact neutral (fun _ _ hh => by cases hh) rfl
    | some r =>
      simp only [matchStep]
      refine ⟨h.syms, h.rd, h.datas, h.fresh, ?_, fun ref hle => h.later ref (by rw [countI_append] at hle; simp only [countI] at hle; omega), ?_⟩
      · show (st.decls.symbols.decls.getD r default).ctx = ctxAfter st [] (pre ++ [.symbol l nm kd ne (some r)])
        rw [ctxAfter_snoc]; rfl
      · intro pre1 src ref post1 hs
        rcases split_snoc pre _ pre1 _ post1 hs with ⟨post', h1, _⟩ | ⟨_, h2, _⟩
        · exact h.known pre1 src ref post' h1
        · cases h2
  | _ => simp only [matchStep]; exact neutral (fun _ _ hh => by cases hh) rfl

theorem matchAll_inv (opts : Opts) (st : Static) (D : Defs) (nodes : List AstNode) (har : AR D nodes) :
    ∀ (rest pre : List AstNode) (acc : Defs × List String × List String), nodes = pre ++ rest → MInv st D pre acc →
      MInv st D nodes (rest.foldl (matchStep opts st.decls) acc) := by
  intro rest
  induction rest with
  | nil => intro pre acc hs h; have : pre = nodes := by rw [hs]; simp
           rw [← this]; exact h
  | cons n rest ih =>
    intro pre acc hs h
    rw [List.foldl_cons]
    exact ih (pre ++ [n]) _ (by rw [hs]; simp) (matchStep_inv opts st D nodes har pre n rest hs acc h)

theorem minv_init (st : Static) (D : Defs) (har_fresh : ∀ ref, (D.instrs.getD ref default).resolved = false) :
    MInv st D [] (D, [], []) :=
  ⟨rfl, rfl, rfl, har_fresh, rfl, fun _ _ => rfl, fun pre1 _ _ _ hs => by cases pre1 <;> cases hs⟩

/-- the positional facts of `FrontOK` that `define_remaining` and `match_all` establish -/
theorem matchAll_facts (opts : Opts) (st : Static) (D : Defs) (nodes : List AstNode) (har : AR D nodes) (d0 : Defs)
    (h0 : d0 = (matchAll opts st.decls D nodes).1) :
    d0.symbols = D.symbols ∧ d0.ruledefs = D.ruledefs ∧
    (∀ ref, (d0.instrs.getD ref default).resolved = false) ∧ (∀ ref, (d0.datas.getD ref default).resolved = false) ∧
    (∀ pre src ref post pre' src' post', nodes = pre ++ .instr src (some ref) :: post →
      nodes = pre' ++ .instr src' (some ref) :: post' → ctxAfter st [] pre' = ctxAfter st [] pre) ∧
    (∀ pre src ref post, nodes = pre ++ .instr src (some ref) :: post → (d0.instrs.getD ref default).known = true →
      ∀ c ∈ (d0.instrs.getD ref default).cands, matchKnown st.decls d0 (ctxAfter st [] pre) 64 c.m = true) ∧
    (∀ pre sz es refs post k, nodes = pre ++ .data sz es refs :: post → k < es.length →
      (d0.datas.getD (refs.getD k 0) default).known = true → staticallyKnown pureP (es.getD k default) = true) ∧
    (∀ pre sz es refs post k pre' sz' es' refs' post' k', nodes = pre ++ .data sz es refs :: post →
      nodes = pre' ++ .data sz' es' refs' :: post' → k < es.length → k' < es'.length → refs.getD k 0 = refs'.getD k' 0 →
      sz' = sz ∧ es'.getD k' default = es.getD k default) := by
  rw [matchAll_eq] at h0
  simp only at h0
  have inv := matchAll_inv opts st D nodes har nodes [] (D, [], []) rfl (minv_init st D har.ifresh)
  subst h0
  refine ⟨inv.syms, inv.rd, inv.fresh, fun ref => by rw [inv.datas]; exact har.dfresh ref, ?_, ?_, ?_, ?_⟩
  · intro pre src ref post pre' src' post' hs hs'
    rw [ar_instrPos D nodes har pre src ref post pre' src' post' hs hs']
  · intro pre src ref post hs hk c hc
    have := inv.known pre src ref post hs hk c hc
    rw [(matchKnown_congr st.decls D _ inv.rd (fun r => by rw [sym_of_symbols_eq inv.syms r]) _ 64).1]
    exact this
  · intro pre sz es refs post k hs hk hkn
    obtain ⟨r1, r2⟩ := har.dpos pre sz es refs post hs
    have g1 : refs.getD k 0 = countD pre + k := by
      rw [r1]; simp [List.getD_eq_getElem?_getD, List.getElem?_map, List.getElem?_range hk]; omega
    rw [inv.datas, g1, r2 k hk] at hkn
    exact hkn
  · intro pre sz es refs post k pre' sz' es' refs' post' k' hs hs' hk hk' hr
    exact ar_dataPos D nodes har pre sz es refs post k pre' sz' es' refs' post' k' hs hs' hk hk' hr

/-! ## the declaration loop never touches instructions and data -/

theorem defineSymbols_items (defs : Defs) (nodes : List AstNode) :
    (defineSymbols defs nodes).instrs = defs.instrs ∧ (defineSymbols defs nodes).datas = defs.datas := by
  unfold defineSymbols
  induction nodes generalizing defs with
  | nil => exact ⟨rfl, rfl⟩
  | cons n rest ih =>
    rw [List.foldl_cons]
    have step : ∀ (x : Defs), x.instrs = defs.instrs ∧ x.datas = defs.datas →
        (rest.foldl (fun defs n => match n with
          | .symbol _ _ kind ne (some r) =>
            if ((defs.symbols.getD r none).isSome) then defs
            else
              let known := match kind with
                | .constant e => staticallyKnown { queryFunction := asmBuiltinKnown } e
                | .label => false
              { defs with symbols := (padTo defs.symbols r none).set r (some { noEmit := ne, known := known }) }
          | _ => defs) x).instrs = defs.instrs ∧ _ := fun x hx => by
      have := ih x
      exact ⟨this.1.trans hx.1, this.2.trans hx.2⟩
    apply step
    split
    · split <;> exact ⟨rfl, rfl⟩
    · exact ⟨rfl, rfl⟩

theorem resolveConstantsSimple_items (opts : Opts) (d : Decls) (defs defs' : Defs) (nodes : List AstNode) (c : Nat)
    (h : resolveConstantsSimple opts d defs nodes = .ok (defs', c)) : defs'.instrs = defs.instrs ∧ defs'.datas = defs.datas := by
  unfold resolveConstantsSimple at h
  have key : ∀ (l : List AstNode) (acc : Except String (Defs × Nat)) (defs' : Defs) (c : Nat),
      (∀ x k, acc = .ok (x, k) → x.instrs = defs.instrs ∧ x.datas = defs.datas) →
      l.foldl (fun acc n =>
        match acc with
        | .error e => .error e
        | .ok (defs, count) =>
          match n with
          | .symbol _ _ (.constant e) _ (some r) =>
            let s := defs.sym r
            if s.resolved then .ok (defs, count + 1)
            else
              let fullName := (d.symbols.decls.getD r default).name
              match opts.defines.find? (·.1 == fullName) with
              | some dv => .ok (defs.setSym r { s with value := dv.2, resolved := true }, count + 1)
              | none =>
                match evalSimple d defs e with
                | .error m => .error m
                | .ok v =>
                  let s' := { s with value := v }
                  match v with
                  | .unknown => .ok (defs.setSym r s', count)
                  | _ =>
                    if opts.optStatic && s.known then .ok (defs.setSym r { s' with resolved := true }, count + 1)
                    else .ok (defs.setSym r s', count + 1)
          | _ => .ok (defs, count)) acc = .ok (defs', c) → defs'.instrs = defs.instrs ∧ defs'.datas = defs.datas := by
    intro l
    induction l with
    | nil => intro acc defs' c hacc h; exact hacc defs' c h
    | cons n rest ih =>
      intro acc defs' c hacc h
      rw [List.foldl_cons] at h
      refine ih _ defs' c ?_ h
      intro x k hx
      cases acc with
      | error e => cases hx
      | ok y =>
        obtain ⟨y1, y2⟩ := y
        have hy := hacc y1 y2 rfl
        simp only at hx
        repeat' (first | (split at hx))
        all_goals first
          | (cases hx; done)
          | (injection hx with hx; injection hx with h1 _; rw [← h1]; exact hy)
  exact key nodes (.ok (defs, 0)) defs' c (fun x k hx => by injection hx with hx; injection hx with h1 _; rw [← h1]; exact ⟨rfl, rfl⟩) h

theorem declLoop_items (opts : Opts) : ∀ (fuel : Nat) (d : Decls) (defs : Defs) (nodes : List AstNode) (prev : Nat)
    (d' : Decls) (defs' : Defs) (nodes' : List AstNode),
    declLoop opts fuel d defs nodes prev = .ok (d', defs', nodes') → defs'.instrs = defs.instrs ∧ defs'.datas = defs.datas := by
  intro fuel
  induction fuel with
  | zero => intro d defs nodes prev d' defs' nodes' h; simp [declLoop] at h
  | succ f ih =>
    intro d defs nodes prev d' defs' nodes' h
    simp only [declLoop] at h
    cases hc : collectAll d nodes with
    | error e => rw [hc] at h; cases h
    | ok x =>
      obtain ⟨d1, n1⟩ := x
      rw [hc] at h
      simp only at h
      have h1 := defineSymbols_items defs n1
      cases hr : resolveConstantsSimple opts d1 (defineSymbols defs n1) n1 with
      | error e => rw [hr] at h; cases h
      | ok y =>
        obtain ⟨defs2, cnt⟩ := y
        rw [hr] at h
        simp only at h
        have h2 := resolveConstantsSimple_items opts d1 _ defs2 n1 cnt hr
        split at h
        · cases h
        · split at h
          · injection h with h; injection h with _ h; injection h with h3 _
            rw [← h3]; exact ⟨h2.1.trans h1.1, h2.2.trans h1.2⟩
          · have := ih _ _ _ _ _ _ _ h
            exact ⟨this.1.trans (h2.1.trans h1.1), this.2.trans (h2.2.trans h1.2)⟩

theorem defineRemaining_ar (d : Decls) (defs defs' : Defs) (nodes nodes' : List AstNode)
    (hi : defs.instrs = []) (hd : defs.datas = [])
    (h : defineRemaining d defs nodes = .ok (defs', nodes')) : AR defs' nodes' := by
  unfold defineRemaining at h
  simp only [bind, Except.bind] at h
  split at h
  · cases h
  · split at h
    · cases h
    · simp only [pure, Except.pure] at h
      injection h with h
      injection h with h1 h2
      rw [← h1, ← h2]
      exact foldl_assignRef_ar nodes _ [] (ar_init _ hi hd)

/-- **`define_remaining` and `match_all` establish the positional facts of `FrontOK`** -/
theorem frontEnd_positional (opts : Opts) (fs : SrcFiles) (roots : List (List Char)) (st : Static) (nodes : List AstNode) (defs0 : Defs)
    (h : frontEnd opts fs roots = .ok (st, nodes, defs0)) :
    (∀ ref, (defs0.instrs.getD ref default).resolved = false) ∧ (∀ ref, (defs0.datas.getD ref default).resolved = false) ∧
    (∀ pre src ref post pre' src' post', nodes = pre ++ .instr src (some ref) :: post →
      nodes = pre' ++ .instr src' (some ref) :: post' → ctxAfter st [] pre' = ctxAfter st [] pre) ∧
    (∀ pre src ref post, nodes = pre ++ .instr src (some ref) :: post → (defs0.instrs.getD ref default).known = true →
      ∀ c ∈ (defs0.instrs.getD ref default).cands, matchKnown st.decls defs0 (ctxAfter st [] pre) 64 c.m = true) ∧
    (∀ pre sz es refs post k, nodes = pre ++ .data sz es refs :: post → k < es.length →
      (defs0.datas.getD (refs.getD k 0) default).known = true → staticallyKnown pureP (es.getD k default) = true) ∧
    (∀ pre sz es refs post k pre' sz' es' refs' post' k', nodes = pre ++ .data sz es refs :: post →
      nodes = pre' ++ .data sz' es' refs' :: post' → k < es.length → k' < es'.length → refs.getD k 0 = refs'.getD k' 0 →
      sz' = sz ∧ es'.getD k' default = es.getD k default) := by
  unfold frontEnd at h
  split at h
  · cases h
  · rename_i d defsR nodesR hp
    split at h
    rename_i defsM rep hm
    split at h
    · cases h
    · injection h with h; injection h with h1 h2
      injection h2 with h2 h3
      subst h1 h2 h3
      -- the state that enters `match_all` satisfies the numbering invariant
      have har : AR defsR nodesR := by
        unfold frontEndPre at hp
        split at hp
        · cases hp
        · split at hp
          · cases hp
          · simp only at hp
            split at hp
            · cases hp
            · rename_i d2 defs2 nodes2 hl
              split at hp
              · cases hp
              · split at hp
                · cases hp
                · rename_i defs3 nodes3 hdr
                  injection hp with hp; injection hp with _ hp; injection hp with h4 h5
                  subst h4 h5
                  have := declLoop_items opts _ _ _ _ _ _ _ _ hl
                  exact defineRemaining_ar _ defs2 _ nodes2 _ this.1 this.2 hdr
      have hm' : defsM = (matchAll opts d defsR nodesR).1 := by rw [hm]
      have facts := matchAll_facts opts ⟨opts, d, roots.headD [], fs⟩ defsR nodesR har defsM hm'
      exact ⟨facts.2.2.1, facts.2.2.2.1, facts.2.2.2.2.1, facts.2.2.2.2.2.1, facts.2.2.2.2.2.2.1, facts.2.2.2.2.2.2.2⟩

end Casm
