import Casm.Proofs.FrontOKb
/-!
# Casm.Proofs.FrontFacts — the front end establishes the facts `FrontOK`

`define_remaining` numbers instructions and data elements consecutively (so their references are
pairwise distinct and nothing is marked), the `known` flag of a data element is the analysis of
its expression; `match_all` stores for each instruction the analysis of its candidates in the
symbol context of its node.
-/
namespace Casm

/-- instruction nodes that carry a reference / data elements, counted along a node list -/
def countI : List AstNode → Nat
  | [] => 0
  | .instr _ (some _) :: rest => countI rest + 1
  | _ :: rest => countI rest

def countD : List AstNode → Nat
  | [] => 0
  | .data _ es _ :: rest => countD rest + es.length
  | _ :: rest => countD rest

theorem countI_append (a b : List AstNode) : countI (a ++ b) = countI a + countI b := by
  induction a with
  | nil => simp [countI]
  | cons x xs ih =>
    cases x with
    | instr src r => cases r <;> simp [countI, ih] <;> omega
    | _ => simp [countI, ih]

theorem countD_append (a b : List AstNode) : countD (a ++ b) = countD a + countD b := by
  induction a with
  | nil => simp [countD]
  | cons x xs ih =>
    cases x with
    | data sz es refs => simp [countD, ih]; omega
    | _ => simp [countD, ih]

theorem split_snoc {α} (l : List α) (x : α) (pre : List α) (n : α) (post : List α) (h : l ++ [x] = pre ++ n :: post) :
    (∃ post', l = pre ++ n :: post' ∧ post = post' ++ [x]) ∨ (pre = l ∧ n = x ∧ post = []) := by
  rcases List.eq_nil_or_concat post with hp | ⟨post', y, hp⟩
  · subst hp
    right
    have h' : l ++ [x] = pre ++ [n] := h
    have := List.append_inj' h' rfl
    exact ⟨this.1.symm, by simpa using this.2.symm, rfl⟩
  · subst hp
    left
    have h' : l ++ [x] = (pre ++ n :: post') ++ [y] := by simpa using h
    have := List.append_inj' h' rfl
    exact ⟨post', this.1, by simp at this; rw [this.2]; simp⟩

/-- what `define_remaining`'s numbering loop maintains -/
structure AR (df : Defs) (out : List AstNode) : Prop where
  il : df.instrs.length = countI out
  ifresh : ∀ ref, (df.instrs.getD ref default).resolved = false
  ipos : ∀ pre src ref post, out = pre ++ .instr src (some ref) :: post → ref = countI pre
  dl : df.datas.length = countD out
  dfresh : ∀ ref, (df.datas.getD ref default).resolved = false
  dpos : ∀ pre sz es refs post, out = pre ++ .data sz es refs :: post →
    refs = (List.range es.length).map (· + countD pre) ∧
    ∀ k, k < es.length → (df.datas.getD (countD pre + k) default).known = staticallyKnown pureP (es.getD k default)

theorem getD_append_left' {α} (l m : List α) (i : Nat) (d : α) (h : i < l.length) : (l ++ m).getD i d = l.getD i d := by
  simp [List.getD_eq_getElem?_getD, List.getElem?_append_left h]

theorem getD_append_right' {α} (l m : List α) (i : Nat) (d : α) (h : l.length ≤ i) : (l ++ m).getD i d = m.getD (i - l.length) d := by
  simp [List.getD_eq_getElem?_getD, List.getElem?_append_right h]

theorem assignRef_ar (df : Defs) (out : List AstNode) (n : AstNode) (h : AR df out) :
    AR (assignRef (df, out) n).1 (assignRef (df, out) n).2 := by
  -- nodes other than instructions and data: the two tables are untouched, the output grows by a neutral node
  have neutral : ∀ (df' : Defs) (x : AstNode), df'.instrs = df.instrs → df'.datas = df.datas →
      (∀ src r, x ≠ .instr src (some r)) → (∀ sz es refs, x ≠ .data sz es refs) → AR df' (out ++ [x]) := by
    intro df' x hi hd hx1 hx2
    have cI : countI [x] = 0 := by
      cases x with
      | instr src r => cases r with | none => rfl | some r => exact absurd rfl (hx1 src r)
      | _ => rfl
    have cD : countD [x] = 0 := by
      cases x with
      | data sz es refs => exact absurd rfl (hx2 sz es refs)
      | _ => rfl
    refine ⟨by rw [hi, countI_append, cI, h.il]; rfl, by rw [hi]; exact h.ifresh, ?_, by rw [hd, countD_append, cD, h.dl]; rfl,
      by rw [hd]; exact h.dfresh, ?_⟩
    · intro pre src ref post hs
      rcases split_snoc out x pre _ post hs with ⟨post', h1, _⟩ | ⟨_, h2, _⟩
      · exact h.ipos pre src ref post' h1
      · exact absurd h2.symm (hx1 src ref)
    · intro pre sz es refs post hs
      rcases split_snoc out x pre _ post hs with ⟨post', h1, _⟩ | ⟨_, h2, _⟩
      · rw [hd]; exact h.dpos pre sz es refs post' h1
      · exact absurd h2.symm (hx2 sz es refs)
  cases n with
  | instr src r =>
    simp only [assignRef]
    refine ⟨by simp [countI_append, countI, h.il], ?_, ?_, by simp only [countD_append, countD]; exact h.dl, h.dfresh, ?_⟩
    · intro ref
      by_cases hl : ref < df.instrs.length
      · rw [getD_append_left' _ _ _ _ hl]; exact h.ifresh ref
      · rw [getD_append_right' _ _ _ _ (Nat.not_lt.mp hl)]
        cases (ref - df.instrs.length) <;> rfl
    · intro pre src' ref post hs
      rcases split_snoc out _ pre _ post hs with ⟨post', h1, _⟩ | ⟨h1, h2, _⟩
      · exact h.ipos pre src' ref post' h1
      · injection h2 with _ h3; injection h3 with h3
        rw [h1, h3, h.il]
    · intro pre sz es refs post hs
      rcases split_snoc out _ pre _ post hs with ⟨post', h1, _⟩ | ⟨_, h2, _⟩
      · exact h.dpos pre sz es refs post' h1
      · cases h2
  | data sz es refs0 =>
    simp only [assignRef]
    refine ⟨by simp only [countI_append, countI]; exact h.il, h.ifresh, ?_, by simp [countD_append, countD, h.dl], ?_, ?_⟩
    · intro pre src ref post hs
      rcases split_snoc out _ pre _ post hs with ⟨post', h1, _⟩ | ⟨_, h2, _⟩
      · exact h.ipos pre src ref post' h1
      · cases h2
    · intro ref
      by_cases hl : ref < df.datas.length
      · rw [getD_append_left' _ _ _ _ hl]; exact h.dfresh ref
      · rw [getD_append_right' _ _ _ _ (Nat.not_lt.mp hl)]
        simp only [List.getD_eq_getElem?_getD, List.getElem?_map]
        cases es[ref - df.datas.length]? <;> rfl
    · intro pre sz' es' refs post hs
      rcases split_snoc out _ pre _ post hs with ⟨post', h1, _⟩ | ⟨h1, h2, _⟩
      · obtain ⟨e1, e2⟩ := h.dpos pre sz' es' refs post' h1
        refine ⟨e1, fun k hk => ?_⟩
        have hlt : countD pre + k < df.datas.length := by
          rw [h.dl, h1, countD_append]; simp only [countD]; omega
        rw [getD_append_left' _ _ _ _ hlt]; exact e2 k hk
      · injection h2 with a b c
        subst a b
        rw [h1, ← h.dl]
        refine ⟨c, fun k hk => ?_⟩
        rw [getD_append_right' _ _ _ _ (by omega)]
        have : df.datas.length + k - df.datas.length = k := by omega
        rw [this]
        simp only [List.getD_eq_getElem?_getD, List.getElem?_map, List.getElem?_eq_getElem hk, Option.map_some, Option.getD_some]
        rfl
  | res e r => simp only [assignRef]; exact neutral _ _ rfl rfl (fun _ _ hh => by cases hh) (fun _ _ _ hh => by cases hh)
  | align e r => simp only [assignRef]; exact neutral _ _ rfl rfl (fun _ _ hh => by cases hh) (fun _ _ _ hh => by cases hh)
  | addr e r => simp only [assignRef]; exact neutral _ _ rfl rfl (fun _ _ hh => by cases hh) (fun _ _ _ hh => by cases hh)
  | _ => simp only [assignRef]; exact neutral _ _ rfl rfl (fun _ _ hh => by cases hh) (fun _ _ _ hh => by cases hh)

end Casm
