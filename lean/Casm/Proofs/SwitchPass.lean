import Casm.Proofs.SwitchCongr
import Casm.Proofs.StableId
import Casm.Proofs.Recompute
/-!
# Casm.Proofs.SwitchPass — a pass that is not the first is the same with the switch set either way

The static-value optimisation acts only in the first pass (`is_first_iteration`); item resolvers in
any later pass, the layout iterator and hence `resolve_once` with `first = false` are equal
functions under both settings.
-/
namespace Casm

theorem resolveInstruction_switch (st : Static) (b : Bool) (d : Defs) (ctx : RCtx) (ref : Nat) (hf : ctx.first = false) :
    resolveInstruction (st.withStatic b) d ctx ref = resolveInstruction st d ctx ref := by
  unfold resolveInstruction
  simp only [(switchEq st b (SameView.refl d) evalFuel).renc, hf, Bool.and_false, Bool.false_and]

theorem dataStore_switch (st : Static) (b : Bool) (d : Defs) (ctx : RCtx) (ref : Nat) (x : Option BI) (hf : ctx.first = false) :
    dataStore (st.withStatic b) d ctx ref x = dataStore st d ctx ref x := by
  unfold dataStore
  simp only [hf, Bool.and_false, Bool.false_and]

theorem resolveData_switch (st : Static) (b : Bool) (d : Defs) (ctx : RCtx) (ref : Nat) (sz : Option Nat) (e : Expr) (hf : ctx.first = false) :
    resolveData (st.withStatic b) d ctx ref sz e = resolveData st d ctx ref sz e := by
  unfold resolveData
  simp only [resolverEval_switch st b (SameView.refl d), dataStore_switch st b d ctx ref _ hf]

theorem resolveConstant_switch (st : Static) (b : Bool) (d : Defs) (ctx : RCtx) (ref : Nat) (e : Expr) (hf : ctx.first = false) :
    resolveConstant (st.withStatic b) d ctx ref e = resolveConstant st d ctx ref e := by
  unfold resolveConstant
  simp only [resolverEval_switch st b (SameView.refl d), hf, Bool.and_false, Bool.false_and]

theorem dispatch_switch (st : Static) (b : Bool) (d : Defs) (ctx : RCtx) (n : AstNode) (k : Nat) (hf : ctx.first = false) :
    dispatch (st.withStatic b) d ctx n k = dispatch st d ctx n k := by
  unfold dispatch
  split
  · rename_i level name kind ne ref
    cases kind with
    | label => rfl
    | constant e => exact resolveConstant_switch st b d ctx ref e hf
  · exact resolveInstruction_switch st b d ctx _ hf
  · exact resolveData_switch st b d ctx _ _ _ hf
  · simp only [resolveRes, resolverEval_switch st b (SameView.refl d)]
  · simp only [resolveAlign, resolverEval_switch st b (SameView.refl d)]
  · simp only [resolveAddr, resolverEval_switch st b (SameView.refl d)]
  · simp only [resolveAssert, resolverEval_switch st b (SameView.refl d)]
  · rfl

theorem passNode_switch (st : Static) (b last : Bool) (ps : PassSt) (n : AstNode) (k : Nat) :
    passNode (st.withStatic b) false last ps n k = passNode st false last ps n k := by
  rw [passNode_eq', passNode_eq']
  have hn : ∀ d, nodeItem (st.withStatic b) d n k = nodeItem st d n k := fun d => rfl
  have hs : stepCtx (st.withStatic b) ps.symCtx n = stepCtx st ps.symCtx n := rfl
  simp only [hn, hs]
  cases visit ps.defs.banks ps.it (nodeItem st ps.defs n k) with
  | error e => rfl
  | ok it =>
    simp only
    rw [dispatch_switch st b ps.defs ⟨false, last, stepCtx st ps.symCtx n, it.bank, it.pos⟩ n k rfl]

theorem resolveOnce_switch (st : Static) (b last : Bool) (nodes : List AstNode) (d : Defs) :
    resolveOnce (st.withStatic b) nodes false last d = resolveOnce st nodes false last d := by
  have hgo : ∀ (n : AstNode) (fuel k : Nat) (ps : PassSt),
      passNodes.go (st.withStatic b) false last n k fuel ps = passNodes.go st false last n k fuel ps := by
    intro n fuel
    induction fuel with
    | zero => intro k ps; simp only [passNodes.go]
    | succ f ih => intro k ps; simp only [passNodes.go, passNode_switch, ih]
  have hps : ∀ (l : List AstNode) (ps : PassSt), passNodes (st.withStatic b) false last l ps = passNodes st false last l ps := by
    intro l
    induction l with
    | nil => intro ps; simp only [passNodes]
    | cons n rest ih => intro ps; rw [passNodes_cons, passNodes_cons, hgo]; simp only [ih]
  unfold resolveOnce
  rw [hps]

end Casm
