import Casm.Proofs.Recompute
/-!
# Casm.Proofs.Quiet — a pass that is not the last one reports nothing

Every non-fatal message of the resolvers (`... did not converge`, `assertion failed`, the messages
of a strict `resolve_encoding`) is issued in the last pass only.
-/
namespace Casm

theorem ite_ok_rep {c : Prop} [Decidable c] {x y : Defs × Bool × List String} {d : Defs} {s : Bool} {r : List String}
    (h : (if c then (Except.ok x : ItemRes) else .ok y) = .ok (d, s, r)) (hx : x.2.2 = []) (hy : y.2.2 = []) : r = [] := by
  split at h <;> (injection h with h; subst h; first | exact hx | exact hy)

theorem resolveEncoding_quiet (st : Static) (d : Defs) (fuel : Nat) (ctx : RCtx) (hl : ctx.last = false) (cs : List IMatch) (a : ECtx)
    (x : Option (List (Nat × BI))) (r : List String) (h : resolveEncoding st d fuel ctx cs a = .ok (x, r)) : r = [] := by
  cases fuel with
  | zero => simp [resolveEncoding] at h
  | succ f =>
    simp only [resolveEncoding] at h
    cases hm : resolveMatches st d f ctx cs a [] with
    | error e => rw [hm] at h; cases h
    | ok y =>
      rw [hm] at h
      simp only at h
      injection h with h
      have hg : ctx.canGuess = true := by simp [RCtx.canGuess, hl]
      rw [hg] at h
      unfold chooseEncoding at h
      simp only [Bool.not_true, Bool.false_eq_true, if_false, Bool.false_and] at h
      split at h <;> (injection h with _ h; exact h.symm)

macro "quiet_tac" : tactic => `(tactic| (
  repeat' (first
    | (cases ‹Except.error _ = Except.ok _›; done)
    | (rename_i h; injection h with h; injection h with _ h; injection h with _ h; exact h.symm)
    | (rename_i h; split at h))))

theorem dispatch_quiet (st : Static) (d d' : Defs) (ctx : RCtx) (hl : ctx.last = false) (n : AstNode) (k : Nat) (s : Bool) (r : List String)
    (h : dispatch st d ctx n k = .ok (d', s, r)) : r = [] := by
  unfold dispatch at h
  split at h
  · rename_i level name kind ne ref
    cases kind with
    | label =>
      simp only at h
      unfold resolveLabel at h
      cases ha : evalAddress d ctx ctx.canGuess with
      | error e => rw [ha] at h; cases h
      | ok a =>
        rw [ha] at h
        simp only [hl, Bool.false_eq_true, if_false] at h
        exact ite_ok_rep h rfl rfl
    | constant e =>
      simp only at h
      unfold resolveConstant at h
      simp only at h
      split at h
      · injection h with h; injection h with _ h; injection h with _ h; exact h.symm
      · cases hev : resolverEval st d ctx {} e with
        | error m => rw [hev] at h; cases h
        | ok x =>
          rw [hev] at h
          simp only [hl, Bool.false_eq_true, if_false] at h
          exact ite_ok_rep h rfl rfl
  · unfold resolveInstruction at h
    simp only at h
    split at h
    · injection h with h; injection h with _ h; injection h with _ h; exact h.symm
    · cases he : resolveEncoding st d evalFuel ctx (((d.instrs.getD _ default).cands).map (·.m)) {} with
      | error m => rw [he] at h; cases h
      | ok x =>
        obtain ⟨encs, rp⟩ := x
        rw [he] at h
        have hrp := resolveEncoding_quiet st d _ ctx hl _ _ _ _ he
        subst hrp
        simp only [hl, Bool.false_and, Bool.false_eq_true, if_false, List.append_nil] at h
        revert h; intro h
        quiet_tac
  · unfold resolveData at h
    simp only at h
    split at h
    · injection h with h; injection h with _ h; injection h with _ h; exact h.symm
    · cases hev : resolverEval st d ctx {} _ with
      | error m => rw [hev] at h; cases h
      | ok x =>
        rw [hev] at h
        simp only at h
        split at h
        · cases h
        · split at h
          · cases h
          · unfold dataStore at h
            simp only [hl, Bool.false_eq_true, if_false] at h
            revert h; intro h
            quiet_tac
  · unfold resolveRes at h
    cases hev : resolverEval st d ctx {} _ with
    | error m => rw [hev] at h; cases h
    | ok x =>
      rw [hev] at h
      simp only at h
      split at h
      · cases h
      · split at h
        · cases h
        simp only [hl, Bool.false_eq_true, if_false] at h
        exact ite_ok_rep h rfl rfl
  · unfold resolveAlign at h
    cases hev : resolverEval st d ctx {} _ with
    | error m => rw [hev] at h; cases h
    | ok x =>
      rw [hev] at h
      simp only at h
      split at h
      · cases h
      · simp only [hl, Bool.false_eq_true, if_false, Bool.false_and] at h
        exact ite_ok_rep h rfl rfl
  · unfold resolveAddr at h
    cases hev : resolverEval st d ctx {} _ with
    | error m => rw [hev] at h; cases h
    | ok x =>
      rw [hev] at h
      simp only at h
      split at h
      · cases h
      · simp only [hl, Bool.false_eq_true, if_false] at h
        exact ite_ok_rep h rfl rfl
  · unfold resolveAssert at h
    simp only [hl, Bool.not_false, if_true] at h
    injection h with h; injection h with _ h; injection h with _ h; exact h.symm
  · injection h with h; injection h with _ h; injection h with _ h; exact h.symm

theorem passNode_quiet (st : Static) (first : Bool) (ps ps' : PassSt) (n : AstNode) (k : Nat) (hq : ps.reported = [])
    (h : passNode st first false ps n k = .ok ps') : ps'.reported = [] := by
  rw [passNode_eq'] at h
  split at h
  · cases h
  · split at h
    · cases h
    · rename_i defs stable reported hd
      split at h
      · cases h
      · injection h with h
        subst h
        simp only [hq, List.nil_append]
        exact dispatch_quiet st _ _ _ rfl n k _ _ hd

theorem resolveOnce_quiet (st : Static) (nodes : List AstNode) (first : Bool) (d d' : Defs) (s : Bool) (r : List String)
    (h : resolveOnce st nodes first false d = .ok (d', s, r)) : r = [] := by
  have hgo : ∀ (n : AstNode) (fuel k : Nat) (ps ps' : PassSt), ps.reported = [] →
      passNodes.go st first false n k fuel ps = .ok ps' → ps'.reported = [] := by
    intro n fuel
    induction fuel with
    | zero => intro k ps ps' hq h; simp only [passNodes.go] at h; injection h with h; subst h; exact hq
    | succ f ih =>
      intro k ps ps' hq h
      simp only [passNodes.go] at h
      cases hp : passNode st first false ps n k with
      | error m => rw [hp] at h; cases h
      | ok ps1 =>
        rw [hp] at h
        exact ih (k + 1) ps1 ps' (passNode_quiet st first ps ps1 n k hq hp) h
  have hps : ∀ (l : List AstNode) (ps ps' : PassSt), ps.reported = [] →
      passNodes st first false l ps = .ok ps' → ps'.reported = [] := by
    intro l
    induction l with
    | nil => intro ps ps' hq h; simp only [passNodes] at h; injection h with h; subst h; exact hq
    | cons n rest ih =>
      intro ps ps' hq h
      rw [passNodes_cons] at h
      cases hg : passNodes.go st first false n 0 (nodeElems n) ps with
      | error e => rw [hg] at h; cases h
      | ok ps1 =>
        rw [hg] at h
        exact ih ps1 ps' (hgo n _ 0 ps ps1 hq hg) h
  unfold resolveOnce at h
  cases hp : passNodes st first false nodes ⟨d, initIter d.banks, [], true, []⟩ with
  | error e => rw [hp] at h; cases h
  | ok ps' =>
    rw [hp] at h
    injection h with h; injection h with _ h; injection h with _ h
    rw [← h]
    exact hps nodes _ ps' rfl hp

end Casm
