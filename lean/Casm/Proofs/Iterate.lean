/-!
# Casm.Proofs.Iterate — the shape of customasm's `resolve_iteratively`, generically

`loop`/`iterate` are the control skeleton of `src/asm/resolver/mod.rs resolve_iteratively`
over an arbitrary pass.  The theorems are about every pass; `Casm.Props.C02`/`C09` instantiate
them with the model's `resolveOnce`.
-/
namespace Casm.Iter

inductive Out (α : Type) where
  | ok (a : α)
  | err
deriving Repr, DecidableEq

structure Flags where
  first : Bool
  last : Bool
deriving Repr, DecidableEq

/-- a pass: new state and whether everything was stable (`Resolved`) -/
abbrev Pass (σ : Type) := Flags → σ → Out (σ × Bool)

/-- the `while iter_count < max_iterations` loop of resolve_iteratively.
    `i` = iterations done so far, `fuel = max - i`. Returns either a final answer
    (`Sum.inl`) or "broke out of the loop, go to the confirming pass" (`Sum.inr`). -/
def loop {σ} (pass : Pass σ) (max : Nat) : (fuel : Nat) → (i : Nat) → σ → Out (Sum (Nat × σ) (Nat × σ))
  | 0, i, s => .ok (.inr (i, s))
  | fuel+1, i, s =>
    let it := i + 1
    let fl : Flags := ⟨it == 1, it == max⟩
    match pass fl s with
    | .err => .err
    | .ok (s', true) => if fl.last then .ok (.inl (it, s')) else .ok (.inr (it, s'))
    | .ok (s', false) => if fl.last then .err else loop pass max fuel it s'

def iterate {σ} (pass : Pass σ) (max : Nat) (s : σ) : Out (Nat × σ) :=
  match loop pass max max 0 s with
  | .err => .err
  | .ok (.inl r) => .ok r
  | .ok (.inr (i, s')) =>
    match pass ⟨false, true⟩ s' with
    | .ok (s'', true) => .ok (i, s'')
    | _ => .err

/-- every successful loop exit through `inl` came from a stable last pass -/
theorem loop_inl_last {σ} (pass : Pass σ) (max : Nat) :
    ∀ fuel i s k r, loop pass max fuel i s = .ok (.inl (k, r)) →
      ∃ s' f, pass ⟨f, true⟩ s' = .ok (r, true) := by
  intro fuel
  induction fuel with
  | zero => intro i s k r h; simp [loop] at h
  | succ n ih =>
    intro i s k r h
    simp only [loop] at h
    split at h
    · simp at h
    · rename_i s' hp
      split at h
      · rename_i hl
        simp at h
        obtain ⟨_, rfl⟩ := h
        simp at hl
        exact ⟨s, (i + 1 == 1), by simpa [hl] using hp⟩
      · simp at h
    · split at h
      · simp at h
      · exact ih _ _ _ _ h

/-- C02 core: success ⇒ the state returned was produced by a stable pass in `last` mode -/
theorem iterate_ok_last_pass {σ} (pass : Pass σ) (max : Nat) (s : σ) (k : Nat) (r : σ)
    (h : iterate pass max s = .ok (k, r)) :
    ∃ s' f, pass ⟨f, true⟩ s' = .ok (r, true) := by
  unfold iterate at h
  split at h
  · simp at h
  · rename_i x hx
    simp at h
    subst h
    exact loop_inl_last pass max _ _ _ _ _ hx
  · rename_i i s' hx
    split at h
    · rename_i s'' hp
      simp at h
      obtain ⟨_, rfl⟩ := h
      exact ⟨s', false, hp⟩
    · simp at h

/-- a state on which a strict (last-mode) pass is stable -/
def LastFix {σ} (pass : Pass σ) (r : σ) : Prop := ∃ f, pass ⟨f, true⟩ r = .ok (r, true)

/-- a stable pass that is not the first leaves the state alone (every item compared
    its new value *and size* with the previous one) -/
def StableIsIdentity {σ} (pass : Pass σ) : Prop :=
  ∀ l s s', pass ⟨false, l⟩ s = .ok (s', true) → s' = s

/-- the first pass may assign the statically known items without comparing (they are
    marked `resolved` and skipped from then on); if it is stable its result is a strict
    fixed point -/
def FirstStable {σ} (pass : Pass σ) : Prop :=
  ∀ l s s', pass ⟨true, l⟩ s = .ok (s', true) → LastFix pass s'

theorem C02_fixed_point {σ} (pass : Pass σ) (hs : StableIsIdentity pass) (hf : FirstStable pass)
    (max : Nat) (s : σ) (k : Nat) (r : σ)
    (h : iterate pass max s = .ok (k, r)) :
    LastFix pass r := by
  obtain ⟨s', f, hp⟩ := iterate_ok_last_pass pass max s k r h
  cases f with
  | false =>
    have : r = s' := hs _ _ _ hp
    subst this
    exact ⟨false, hp⟩
  | true => exact hf _ _ _ hp

structure Laws {σ} (pass : Pass σ) : Prop where
  stableId : StableIsIdentity pass
  firstStable : FirstStable pass
  /-- where the strict pass succeeds and is stable, the guessing pass computes the same state
      (guessing only replaces errors by `Unknown`; `b = false` only for `#assert`) -/
  modeMono : ∀ f s s', pass ⟨f, true⟩ s = .ok (s', true) → ∃ b, pass ⟨f, false⟩ s = .ok (s', b)
  /-- the `first` flag only sets short-cut marks -/
  firstIrrel : ∀ r, LastFix pass r → ∀ f, pass ⟨f, true⟩ r = .ok (r, true)

theorem lastFix_of_stable {σ} (pass : Pass σ) (L : Laws pass) (f : Bool) (s s' : σ)
    (hp : pass ⟨f, true⟩ s = .ok (s', true)) : LastFix pass s' := by
  cases f with
  | true => exact L.firstStable _ _ _ hp
  | false =>
    have := L.stableId _ _ _ hp
    subst this
    exact ⟨false, hp⟩

/-- from a strict fixed point the loop can only end there -/
theorem loop_from_fix {σ} (pass : Pass σ) (L : Laws pass) (m : Nat) (r : σ) (hr : LastFix pass r) :
    ∀ fuel i, i + fuel = m →
      (∃ k, loop pass m fuel i r = .ok (.inl (k, r))) ∨ (∃ k, loop pass m fuel i r = .ok (.inr (k, r))) := by
  intro fuel
  induction fuel with
  | zero => intro i _; right; exact ⟨i, rfl⟩
  | succ n ih =>
    intro i hi
    simp only [loop]
    have hstrict := L.firstIrrel r hr (i + 1 == 1)
    by_cases hl : (i + 1 == m) = true
    · simp only [hl]
      rw [hstrict]; simp
    · have hl' : (i + 1 == m) = false := by simpa using hl
      obtain ⟨b, hb⟩ := L.modeMono _ _ _ hstrict
      simp only [hl']
      rw [hb]
      cases b with
      | true => simp
      | false =>
        simp
        exact ih (i + 1) (by omega)

/-- main simulation lemma: run budgets `n ≤ m` side by side from the same point -/
theorem loop_sim {σ} (pass : Pass σ) (L : Laws pass) (n m : Nat) (hnm : n ≤ m) :
    ∀ fuel i s, i + fuel = n →
      (∀ k r, loop pass n fuel i s = .ok (.inr (k, r)) →
          (fuel = 0 ∧ k = i ∧ r = s) ∨ loop pass m (fuel + (m - n)) i s = .ok (.inr (k, r))) ∧
      (∀ k r, loop pass n fuel i s = .ok (.inl (k, r)) →
          LastFix pass r ∧
          ((∃ k', loop pass m (fuel + (m - n)) i s = .ok (.inl (k', r))) ∨
           (∃ k', loop pass m (fuel + (m - n)) i s = .ok (.inr (k', r))))) := by
  intro fuel
  induction fuel with
  | zero =>
    intro i s hi
    constructor
    · intro k r h; left; simp [loop] at h; exact ⟨rfl, h.1.symm, h.2.symm⟩
    · intro k r h; simp [loop] at h
  | succ f ih =>
    intro i s hi
    have hstep : f + 1 + (m - n) = (f + (m - n)) + 1 := by omega
    constructor
    · intro k r h
      right
      rw [hstep]
      simp only [loop] at h ⊢
      by_cases hln : (i + 1 == n) = true
      · simp only [hln] at h
        split at h <;> simp at h
      · have hln' : (i + 1 == n) = false := by simpa using hln
        have hlm' : (i + 1 == m) = false := by
          simp at hln' ⊢; omega
        simp only [hln'] at h
        simp only [hlm']
        split at h
        · simp at h
        · simpa using h
        · rename_i s' hp
          simp at h
          have := (ih (i + 1) s' (by omega)).1 k r h
          rcases this with ⟨hf, _, _⟩ | this
          · exfalso
            simp at hln'; omega
          · simpa using this
    · intro k r h
      simp only [loop] at h
      by_cases hln : (i + 1 == n) = true
      · simp only [hln] at h
        split at h
        · simp at h
        · rename_i s' hp
          simp at h
          obtain ⟨_, rfl⟩ := h
          have hfix : LastFix pass s' := lastFix_of_stable pass L _ _ _ hp
          refine ⟨hfix, ?_⟩
          rw [hstep]
          simp only [loop]
          by_cases hlm : (i + 1 == m) = true
          · simp only [hlm]
            rw [hp]; simp
          · have hlm' : (i + 1 == m) = false := by simpa using hlm
            obtain ⟨b, hb⟩ := L.modeMono _ _ _ hp
            simp only [hlm']
            rw [hb]
            cases b with
            | true => simp
            | false =>
              simp
              exact loop_from_fix pass L m s' hfix _ _ (by simp at hln; omega)
        · simp at h
      · have hln' : (i + 1 == n) = false := by simpa using hln
        have hlm' : (i + 1 == m) = false := by
          simp at hln' ⊢; omega
        simp only [hln'] at h
        split at h
        · simp at h
        · simp at h
        · rename_i s' hp
          simp at h
          have := (ih (i + 1) s' (by omega)).2 k r h
          refine ⟨this.1, ?_⟩
          rw [hstep]
          simp only [loop, hlm', hp]
          simpa using this.2

theorem iters_le_budget_loop {σ} (pass : Pass σ) (max : Nat) :
    ∀ fuel i s, i + fuel = max → ∀ x, loop pass max fuel i s = .ok x →
      (match x with | .inl (k, _) => k ≤ max | .inr (k, _) => k ≤ max) := by
  intro fuel
  induction fuel with
  | zero => intro i s hi x h; simp [loop] at h; subst h; simp; omega
  | succ f ih =>
    intro i s hi x h
    simp only [loop] at h
    split at h
    · simp at h
    · split at h <;> (simp at h; subst h; simp; omega)
    · split at h
      · simp at h
      · exact ih _ _ (by omega) _ h

/-- C09: the number of passes reported never exceeds the budget -/
theorem iters_le_budget {σ} (pass : Pass σ) (max : Nat) (s : σ) (k : Nat) (r : σ)
    (h : iterate pass max s = .ok (k, r)) : k ≤ max := by
  unfold iterate at h
  split at h
  · simp at h
  · rename_i x hx
    simp at h; subst h
    exact iters_le_budget_loop pass max _ _ _ (by omega) _ hx
  · rename_i i s' hx
    have := iters_le_budget_loop pass max _ _ _ (by omega) _ hx
    split at h
    · simp at h; obtain ⟨rfl, _⟩ := h; simpa using this
    · simp at h

/-- C09: success with budget `n` implies the same result with every larger budget -/
theorem budget_monotone {σ} (pass : Pass σ) (L : Laws pass) (n m : Nat) (hn : 1 ≤ n) (hnm : n ≤ m)
    (s : σ) (k : Nat) (r : σ) (h : iterate pass n s = .ok (k, r)) :
    ∃ k', iterate pass m s = .ok (k', r) := by
  have sim := loop_sim pass L n m hnm n 0 s (by omega)
  have hm : n + (m - n) = m := by omega
  unfold iterate at h
  split at h
  · simp at h
  · rename_i x hx
    simp at h; subst h
    obtain ⟨hfix, hcases⟩ := sim.2 k r hx
    unfold iterate
    rw [hm] at hcases
    rcases hcases with ⟨k', hk⟩ | ⟨k', hk⟩
    · exact ⟨k', by rw [hk]⟩
    · refine ⟨k', ?_⟩
      rw [hk]; simp only
      rw [L.firstIrrel r hfix false]
  · rename_i i s' hx
    split at h
    · rename_i s'' hp
      simp at h
      obtain ⟨rfl, rfl⟩ := h
      have hs : s'' = s' := L.stableId _ _ _ hp
      subst hs
      rcases sim.1 i s'' hx with ⟨hf, _, _⟩ | hk
      · omega
      · unfold iterate
        rw [hm] at hk
        refine ⟨i, ?_⟩
        rw [hk]; simp only
        rw [hp]
    · simp at h

end Casm.Iter
