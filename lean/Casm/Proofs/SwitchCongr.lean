import Casm.Proofs.ViewCongr
/-!
# Casm.Proofs.SwitchCongr — evaluation does not read the static-optimisation switch

Expression evaluation, candidate resolution and `asm` blocks consult the static part of the
assembler for the declarations, the files, the matcher switch and the inner budget — never for
`optimize_statically_known`.  With the switch set either way they are equal functions.
-/
namespace Casm

theorem evalVariable_switch (st : Static) (b : Bool) (d : Defs) : evalVariable (st.withStatic b) d = evalVariable st d := rfl
theorem evalAsmBuiltin_switch (st : Static) (b : Bool) : evalAsmBuiltin (st.withStatic b) = evalAsmBuiltin st := rfl

structure SwitchEq (st : Static) (b : Bool) (d d' : Defs) (fuel : Nat) : Prop where
  env : mkEnv (st.withStatic b) d' fuel = mkEnv st d fuel
  rmatch : resolveMatch (st.withStatic b) d' fuel = resolveMatch st d fuel
  rargs : resolveArgs (st.withStatic b) d' fuel = resolveArgs st d fuel
  rmatches : resolveMatches (st.withStatic b) d' fuel = resolveMatches st d fuel
  renc : resolveEncoding (st.withStatic b) d' fuel = resolveEncoding st d fuel
  easm : evalAsm (st.withStatic b) d' fuel = evalAsm st d fuel
  aiter : asmIterate (st.withStatic b) d' fuel = asmIterate st d fuel
  aonce : asmOnce (st.withStatic b) d' fuel = asmOnce st d fuel

theorem switchEq (st : Static) (b : Bool) {d d' : Defs} (h : SameView d d') : ∀ fuel, SwitchEq st b d d' fuel := by
  have hm : (st.withStatic b).opts.optMatcher = st.opts.optMatcher := rfl
  have hi : (st.withStatic b).opts.maxIter = st.opts.maxIter := rfl
  have hii : (st.withStatic b).opts.innerIter = st.opts.innerIter := rfl
  intro fuel
  induction fuel with
  | zero =>
    refine ⟨?_, ?_, ?_, ?_, ?_, ?_, ?_, ?_⟩
    · funext ctx; simp only [mkEnv, evalVariable_switch, evalVariable_view st h]
    · funext ctx m a; simp only [resolveMatch]
    · funext ctx r args i a b; simp only [resolveArgs]
    · funext ctx ms a acc; simp only [resolveMatches]
    · funext ctx ms a; simp only [resolveEncoding]
    · funext ctx t e; simp only [evalAsm]
    · funext ctx ns e l b i; rw [asmIterate, asmIterate]
    · funext ctx ns e l c r u; simp only [asmOnce]
  | succ f ih =>
    refine ⟨?_, ?_, ?_, ?_, ?_, ?_, ?_, ?_⟩
    · funext ctx; simp only [mkEnv, evalVariable_switch, evalAsmBuiltin_switch, evalVariable_view st h, h.fns, ih.env, ih.easm]
    · funext ctx m a; simp only [resolveMatch, h.ruledefs, ih.rargs, ih.env]
    · funext ctx r args i a b
      cases args with
      | nil => simp only [resolveArgs]
      | cons x rest => cases x <;> simp only [resolveArgs, ih.env, ih.rmatch, ih.rargs]
    · funext ctx ms a acc
      cases ms with
      | nil => simp only [resolveMatches]
      | cons x rest => simp only [resolveMatches, ih.rmatch, ih.rmatches]
    · funext ctx ms a; simp only [resolveEncoding, ih.rmatches]
    · funext ctx t e; simp only [evalAsm, ih.aiter, hi, hii]
    · funext ctx ns e l b i; rw [asmIterate, asmIterate]; simp only [ih.aonce, ih.aiter]
    · funext ctx ns e l c r u
      cases ns with
      | nil => simp only [asmOnce]
      | cons x rest => cases x <;> simp only [asmOnce, evalAddress_view h, h.ruledefs, ih.renc, ih.aonce, hm]

theorem resolverEval_switch (st : Static) (b : Bool) {d d' : Defs} (h : SameView d d') :
    resolverEval (st.withStatic b) d' = resolverEval st d := by
  funext ctx e x; simp only [resolverEval, (switchEq st b h evalFuel).env]

end Casm
