import Casm.Proofs.Unfreeze
/-!
# Casm.Proofs.UnfreezeS — clearing the first-pass marks of symbols as well

`Defs.unfS H` clears the marks of instructions and data elements and the `resolved` mark of every
symbol outside `H` (the symbols marked by the front end for reasons other than the static
optimisation: command-line defines, functions).  The unoptimised assembler works on such states.
-/
namespace Casm

theorem unfS_symbols_getD (H : Nat → Bool) (d : Defs) (r : Nat) :
    (d.unfS H).symbols.getD r none = (d.symbols.getD r none).map fun s => s.keep (H r) := by
  unfold Defs.unfS
  simp only
  by_cases hr : r < d.symbols.length
  · simp [List.getD_eq_getElem?_getD, List.getElem?_map, List.getElem?_range hr]
  · have h1 : d.symbols.getD r none = none := by simp [List.getD_eq_getElem?_getD, Nat.not_lt.mp hr]
    rw [h1]
    simp [List.getD_eq_getElem?_getD, List.getElem?_map, Nat.not_lt.mp hr]

theorem sym_unfS (H : Nat → Bool) (d : Defs) (r : Nat) : (d.unfS H).sym r = (d.sym r).keep (H r) := by
  unfold Defs.sym
  rw [unfS_symbols_getD]
  cases d.symbols.getD r none <;> rfl

theorem unfS_view (H : Nat → Bool) (d : Defs) : SameView d (d.unfS H) :=
  ⟨fun r => by rw [sym_unfS]; rfl, rfl, rfl, rfl⟩

theorem unfS_length (H : Nat → Bool) (d : Defs) : (d.unfS H).symbols.length = d.symbols.length := by
  simp [Defs.unfS]

theorem setSym_unfS (H : Nat → Bool) (d : Defs) (r : Nat) (s : SymDef) :
    (d.setSym r s).unfS H = (d.unfS H).setSym r (s.keep (H r)) := by
  have hsy : ((d.setSym r s).unfS H).symbols = ((d.unfS H).setSym r (s.keep (H r))).symbols := by
    apply List.ext_getElem?
    intro i
    have e1 := unfS_symbols_getD H (d.setSym r s) i
    have e2 : ((d.unfS H).setSym r (s.keep (H r))).symbols.getD i none =
        if r = i ∧ r < d.symbols.length then some (s.keep (H r)) else (d.symbols.getD i none).map fun x => x.keep (H i) := by
      unfold Defs.setSym
      simp only
      by_cases hri : r = i
      · subst hri
        by_cases hl : r < d.symbols.length
        · simp only [hl, and_self, if_true]
          rw [getD_set_self_lt _ _ _ _ (by rw [unfS_length]; exact hl)]
        · simp only [hl, and_false, if_false]
          rw [← unfS_symbols_getD]
          simp [List.getD_eq_getElem?_getD, unfS_length, Nat.not_lt.mp hl]
      · simp only [hri, false_and, if_false]
        rw [getD_set_ne _ _ _ _ _ hri, unfS_symbols_getD]
    have e3 : (d.setSym r s).symbols.getD i none = if r = i ∧ r < d.symbols.length then some s else d.symbols.getD i none := by
      unfold Defs.setSym
      simp only
      by_cases hri : r = i
      · subst hri
        by_cases hl : r < d.symbols.length
        · simp only [hl, and_self, if_true]; exact getD_set_self_lt _ _ _ _ hl
        · simp only [hl, and_false, if_false]
          simp [List.getD_eq_getElem?_getD, Nat.not_lt.mp hl]
      · simp only [hri, false_and, if_false]; exact getD_set_ne _ _ _ _ _ hri
    have len1 : ((d.setSym r s).unfS H).symbols.length = d.symbols.length := by
      rw [unfS_length]; simp [Defs.setSym]
    have len2 : ((d.unfS H).setSym r (s.keep (H r))).symbols.length = d.symbols.length := by
      simp [Defs.setSym, unfS_length]
    by_cases hi : i < d.symbols.length
    · have a1 : ((d.setSym r s).unfS H).symbols[i]? = some (((d.setSym r s).unfS H).symbols.getD i none) := by
        rw [List.getD_eq_getElem?_getD, List.getElem?_eq_getElem (by rw [len1]; exact hi)]; rfl
      have a2 : ((d.unfS H).setSym r (s.keep (H r))).symbols[i]? = some (((d.unfS H).setSym r (s.keep (H r))).symbols.getD i none) := by
        rw [List.getD_eq_getElem?_getD, List.getElem?_eq_getElem (by rw [len2]; exact hi)]; rfl
      rw [a1, a2, e1, e2, e3]
      by_cases hc : r = i ∧ r < d.symbols.length
      · obtain ⟨h1, h2⟩ := hc
        subst h1
        simp only [h2, and_self, if_true, Option.map_some]
      · simp only [hc, if_false]
    · rw [List.getElem?_eq_none (by rw [len1]; omega), List.getElem?_eq_none (by rw [len2]; omega)]
  unfold Defs.unfS at hsy ⊢
  unfold Defs.setSym at hsy ⊢
  simp only at hsy ⊢
  simp only [Defs.unfreeze] at hsy ⊢
  simp only [hsy]

def usRes (H : Nat → Bool) (r : Defs × Bool × List String) : Defs × Bool × List String := (r.1.unfS H, r.2.1, r.2.2)

macro "us_tac" : tactic => `(tactic| (
  simp only [Defs.unfS, Defs.unfreeze, usRes, Except.map]
  repeat' split
  all_goals (first
    | rfl
    | contradiction
    | (simp_all; done)
    | (simp_all
       repeat' split
       all_goals (first | rfl | contradiction | (exfalso; exact Nat.lt_irrefl _ (Nat.lt_of_lt_of_le ‹_ < USIZE_MAX1› ‹USIZE_MAX1 ≤ _›)) | (rename_i heq; cases heq; rfl) | (subst_vars; rfl) | (subst_vars; simp_all; done) | (simp_all; done))))))

theorem resolveRes_us (H : Nat → Bool) (st : Static) (d : Defs) (ctx : RCtx) (ref : Nat) (e : Expr) :
    resolveRes st (d.unfS H) ctx ref e = (resolveRes st d ctx ref e).map (usRes H) := by
  unfold resolveRes
  rw [resolverEval_view st (unfS_view H d)]
  cases resolverEval st d ctx {} e with
  | error m => rfl
  | ok x => obtain ⟨v, c⟩ := x; simp only; us_tac

theorem resolveAlign_us (H : Nat → Bool) (st : Static) (d : Defs) (ctx : RCtx) (ref : Nat) (e : Expr) :
    resolveAlign st (d.unfS H) ctx ref e = (resolveAlign st d ctx ref e).map (usRes H) := by
  unfold resolveAlign
  rw [resolverEval_view st (unfS_view H d)]
  cases resolverEval st d ctx {} e with
  | error m => rfl
  | ok x => obtain ⟨v, c⟩ := x; simp only; us_tac

theorem resolveAddr_us (H : Nat → Bool) (st : Static) (d : Defs) (ctx : RCtx) (ref : Nat) (e : Expr) :
    resolveAddr st (d.unfS H) ctx ref e = (resolveAddr st d ctx ref e).map (usRes H) := by
  unfold resolveAddr
  rw [resolverEval_view st (unfS_view H d)]
  cases resolverEval st d ctx {} e with
  | error m => rfl
  | ok x => obtain ⟨v, c⟩ := x; simp only; us_tac

theorem resolveAssert_us (H : Nat → Bool) (st : Static) (d : Defs) (ctx : RCtx) (e : Expr) :
    resolveAssert st (d.unfS H) ctx e = (resolveAssert st d ctx e).map (usRes H) := by
  unfold resolveAssert
  rw [resolverEval_view st (unfS_view H d)]
  cases resolverEval st d ctx {} e with
  | error m => simp only; us_tac
  | ok x => obtain ⟨v, c⟩ := x; simp only; us_tac

theorem keep_value (s : SymDef) (b : Bool) (v : Value) : ({ s.keep b with value := v } : SymDef) = ({ s with value := v } : SymDef).keep b := rfl

theorem resolveLabel_us (H : Nat → Bool) (st : Static) (d : Defs) (ctx : RCtx) (ref : Nat) :
    resolveLabel st (d.unfS H) ctx ref = (resolveLabel st d ctx ref).map (usRes H) := by
  unfold resolveLabel
  rw [evalAddress_view (unfS_view H d)]
  cases evalAddress d ctx ctx.canGuess with
  | error m => rfl
  | ok a =>
    simp only [sym_unfS, keep_value, ← setSym_unfS, map_ite]
    rfl

/-- a constant that is not marked, or is marked for both assemblers, in a pass that is not the first -/
theorem resolveConstant_us (H : Nat → Bool) (st : Static) (d : Defs) (ctx : RCtx) (ref : Nat) (e : Expr)
    (hf : ctx.first = false) (hm : (d.sym ref).resolved = true → H ref = true) :
    resolveConstant st (d.unfS H) ctx ref e = (resolveConstant st d ctx ref e).map (usRes H) := by
  unfold resolveConstant
  rw [resolverEval_view st (unfS_view H d)]
  simp only [sym_unfS]
  cases hr : (d.sym ref).resolved with
  | true =>
    have : ((d.sym ref).keep (H ref)).resolved = true := by simp [SymDef.keep, hr, hm hr]
    simp only [this, if_true]
    rfl
  | false =>
    have : ((d.sym ref).keep (H ref)).resolved = false := by simp [SymDef.keep, hr]
    simp only [this, Bool.false_eq_true, if_false, hf, Bool.and_false, Bool.false_and]
    cases resolverEval st d ctx {} e with
    | error m => rfl
    | ok x =>
      obtain ⟨v, c⟩ := x
      have hv : ((d.sym ref).keep (H ref)).value = (d.sym ref).value := rfl
      have hn : ((d.sym ref).keep (H ref)).noEmit = (d.sym ref).noEmit := rfl
      have hk : ((d.sym ref).keep (H ref)).known = (d.sym ref).known := rfl
      simp only [hv, hn, hk]
      by_cases hc : (!valuesStable v (d.sym ref).value) = true
      · rw [if_pos hc, if_pos hc]
        simp only [Except.map, usRes, setSym_unfS, SymDef.keep, Bool.false_and]
      · rw [if_neg hc, if_neg hc]
        simp only [Except.map, usRes, setSym_unfS, SymDef.keep, Bool.false_and]

theorem unfS_instr (H : Nat → Bool) (d : Defs) (ref : Nat) :
    (d.unfS H).instrs.getD ref default = { (d.instrs.getD ref default) with resolved := false } := unfreeze_instr d ref

theorem unfS_data (H : Nat → Bool) (d : Defs) (ref : Nat) :
    (d.unfS H).datas.getD ref default = { (d.datas.getD ref default) with resolved := false } := unfreeze_data d ref

theorem unfS_setInstr (H : Nat → Bool) (d : Defs) (ref : Nat) (x : InstrDef) :
    ({ d.unfS H with instrs := (d.unfS H).instrs.set ref { x with resolved := false } } : Defs) =
      ({ d with instrs := d.instrs.set ref x } : Defs).unfS H := by
  simp only [Defs.unfS, Defs.unfreeze, List.map_set]

theorem unfS_setData (H : Nat → Bool) (d : Defs) (ref : Nat) (x : DataDef) :
    ({ d.unfS H with datas := (d.unfS H).datas.set ref { x with resolved := false } } : Defs) =
      ({ d with datas := d.datas.set ref x } : Defs).unfS H := by
  simp only [Defs.unfS, Defs.unfreeze, List.map_set]

theorem resolveInstruction_us (H : Nat → Bool) (st : Static) (d : Defs) (ctx : RCtx) (ref : Nat)
    (hr : (d.instrs.getD ref default).resolved = false) (hf : ctx.first = false) :
    resolveInstruction st (d.unfS H) ctx ref = (resolveInstruction st d ctx ref).map (usRes H) := by
  unfold resolveInstruction
  simp only [unfS_instr, hr, Bool.false_eq_true, if_false, (viewEq st (unfS_view H d) evalFuel).renc]
  cases resolveEncoding st d evalFuel ctx ((d.instrs.getD ref default).cands.map (·.m)) {} with
  | error m => rfl
  | ok x =>
    obtain ⟨encs, reported⟩ := x
    simp only [hf, Bool.and_false, Bool.false_and, Bool.false_eq_true, if_false]
    cases hc : (encs.bind fun l => l.head?.map (·.2)) with
    | none => rfl
    | some e =>
      simp only
      have := unfS_setInstr H d ref { (d.instrs.getD ref default) with encoding := e }
      simp only [hr] at this
      simp only [this, map_ite]
      rfl

theorem dataStore_us (H : Nat → Bool) (st : Static) (d : Defs) (ctx : RCtx) (ref : Nat) (sliced : Option BI)
    (hr : (d.datas.getD ref default).resolved = false) (hf : ctx.first = false) :
    dataStore st (d.unfS H) ctx ref sliced = (dataStore st d ctx ref sliced).map (usRes H) := by
  unfold dataStore
  simp only [unfS_data, hf, Bool.and_false, Bool.false_and, Bool.false_eq_true, if_false]
  cases sliced with
  | none => simp only [map_ite]; rfl
  | some b =>
    simp only
    have := unfS_setData H d ref { (d.datas.getD ref default) with encoding := b }
    simp only [hr] at this
    simp only [this, map_ite, hr]
    rfl

theorem resolveData_us (H : Nat → Bool) (st : Static) (d : Defs) (ctx : RCtx) (ref : Nat) (sz : Option Nat) (e : Expr)
    (hr : (d.datas.getD ref default).resolved = false) (hf : ctx.first = false) :
    resolveData st (d.unfS H) ctx ref sz e = (resolveData st d ctx ref sz e).map (usRes H) := by
  unfold resolveData
  simp only [unfS_data, hr, Bool.false_eq_true, if_false, resolverEval_view st (unfS_view H d)]
  cases resolverEval st d ctx {} e with
  | error m => rfl
  | ok x =>
    obtain ⟨v, c⟩ := x
    simp only
    cases dataEnc (ctx.last || (d.datas.getD ref default).known) v with
    | error m => rfl
    | ok enc =>
      simp only
      cases dataCheck (ctx.last || (d.datas.getD ref default).known) sz enc with
      | error m => rfl
      | ok u => exact dataStore_us H st d ctx ref _ hr hf

end Casm
