import Casm.Proofs.CondNames
import Casm.Proofs.FrontInv
import Casm.Proofs.FrontEndLemmas
/-!
# Casm.Proofs.CondValues — during the first loop of `assemble` a definite value is never replaced

`defineSymbols` creates slots holding `Unknown`; `resolve_constants_simple` overwrites the value of a
constant that is not marked — with a define (then the constant had no value yet), or with the result of
`eval_simple` (then, if it had a definite value, that value was the result of `eval_simple` in an earlier
state, and by `evalSimple_later` the new result is the same).  Hence every round leads to a `Later` state.
-/
namespace Casm

def ValLe (defs defs' : Defs) : Prop :=
  ∀ r v, slotVal defs r = .ok v → v.shouldPropagate = false → slotVal defs' r = .ok v

theorem ValLe.refl (defs : Defs) : ValLe defs defs := fun _ _ h _ => h
theorem ValLe.trans {a b c : Defs} (h1 : ValLe a b) (h2 : ValLe b c) : ValLe a c :=
  fun r v h hv => h2 r v (h1 r v h hv) hv

theorem slotVal_eq (defs : Defs) (r : Nat) : slotVal defs r = .ok (defs.sym r).value := by
  unfold slotVal Defs.sym
  cases defs.symbols.getD r none <;> rfl

theorem later_of (d : Decls) (defs defs' : Defs) (h : ValLe defs defs') : Later d defs d defs' := ⟨fun _ _ _ h => h, h⟩

theorem later_of_grows (d d' : Decls) (defs : Defs) (h : Grows d.symbols d'.symbols) : Later d defs d' defs :=
  ⟨h, fun _ _ h _ => h⟩

/-- a write to the entry of `r` that keeps a definite value of `r` keeps every definite value -/
theorem valLe_setSym (defs : Defs) (r : Nat) (s' : SymDef)
    (h : (defs.sym r).value.shouldPropagate = false → s'.value = (defs.sym r).value) : ValLe defs (defs.setSym r s') := by
  intro r' v hv hp
  rw [slotVal_eq] at hv ⊢
  injection hv with hv
  rcases sym_setSym defs r r' s' with e | ⟨e1, e2⟩
  · rw [e, hv]
  · subst e1
    rw [e2, h (by rw [hv]; exact hp), hv]

/-- what the loop knows about a constant that holds a definite value and is not marked: no define names
    it, and the value is what `eval_simple` gave for its expression in an earlier state -/
def CI (opts : Opts) (d : Decls) (defs : Defs) : AstNode → Prop
  | .symbol _ _ (.constant e) _ (some r) =>
    (defs.sym r).value.shouldPropagate = false → (defs.sym r).resolved = false →
      notDefined opts d r = true ∧ ∃ d0 defs0, Later d0 defs0 d defs ∧ evalSimple d0 defs0 e = .ok (defs.sym r).value
  | _ => True

def CInv (opts : Opts) (d : Decls) (defs : Defs) (nodes : List AstNode) : Prop := ∀ n ∈ nodes, CI opts d defs n

/-- `CI` of a node whose own entry is untouched survives a step to a later state -/
theorem CI_step (opts : Opts) (d d' : Decls) (defs defs' : Defs) (n : AstNode)
    (hsym : ∀ r, symRef n = some r → defs'.sym r = defs.sym r)
    (hnd : ∀ r, symRef n = some r → notDefined opts d' r = notDefined opts d r)
    (hl : Later d defs d' defs') (h : CI opts d defs n) : CI opts d' defs' n := by
  cases n with
  | symbol lv nm kd ne rr =>
    cases rr with
    | none => cases kd <;> trivial
    | some r =>
      cases kd with
      | label => trivial
      | constant e =>
        simp only [CI] at h ⊢
        rw [hsym r rfl, hnd r rfl]
        intro hp hr
        obtain ⟨h1, d0, defs0, hl0, he⟩ := h hp hr
        exact ⟨h1, d0, defs0, hl0.trans hl, he⟩
  | _ => trivial

theorem writeOf_value (opts : Opts) (s : SymDef) (v : Value) : (writeOf opts s v).value = v := by
  unfold writeOf
  split
  · rfl
  · split <;> rfl

/-- **one pass of `resolve_constants_simple` leads to a later state and keeps the invariants** -/
theorem consts_later {opts : Opts} {d : Decls} {defs defs' : Defs} {nodes : List AstNode} {c : Nat}
    (f : FInv opts d defs nodes) (hs : SlotsOK defs nodes) (ci : CInv opts d defs nodes)
    (h : resolveConstantsSimple opts d defs nodes = .ok (defs', c)) :
    FInv opts d defs' nodes ∧ SlotsOK defs' nodes ∧ CInv opts d defs' nodes ∧ ValLe defs defs' := by
  have := resolveConstantsSimple_ind opts d nodes
    (fun x => FInv opts d x nodes ∧ SlotsOK x nodes ∧ CInv opts d x nodes ∧ ValLe defs x) ?_ ?_ nodes (fun _ hn => hn)
    defs defs' c ⟨f, hs, ci, ValLe.refl _⟩ h
  exact this
  · -- a define
    intro x lv nm e ne r dv hn hp hres hfind
    obtain ⟨fx, sx, cx, vx⟩ := hp
    obtain ⟨f', s'⟩ := fx.step_def sx lv nm e ne r dv hn hfind
    have hold : (x.sym r).value.shouldPropagate = true := by
      cases hq : (x.sym r).value.shouldPropagate with
      | true => rfl
      | false =>
        have := (cx _ hn) hq hres
        unfold notDefined at this
        rw [hfind] at this
        cases this.1
    have hv : ValLe x (x.setSym r { x.sym r with value := dv.2, resolved := true }) :=
      valLe_setSym x r _ (fun hq => by rw [hold] at hq; cases hq)
    have hslot := sx _ hn r rfl
    refine ⟨f', s', fun m hm => ?_, vx.trans hv⟩
    by_cases hr : symRef m = some r
    · have hm' : m = AstNode.symbol lv nm (.constant e) ne (some r) := fx.fn m hm _ hn r hr rfl
      subst hm'
      simp only [CI]
      rw [sym_setSym_self x r _ hslot]
      intro _ hr'
      cases hr'
    · refine CI_step opts d d x _ m (fun r' hr' => ?_) (fun _ _ => rfl) (later_of d x _ hv) (cx m hm)
      have hne : r' ≠ r := fun he => hr (by rw [hr', he])
      rcases sym_setSym x r r' { x.sym r with value := dv.2, resolved := true } with h1 | ⟨h1, _⟩
      · exact h1
      · exact absurd h1 hne
  · -- an evaluation
    intro x lv nm e ne r v hn hp hres hfind hev
    obtain ⟨fx, sx, cx, vx⟩ := hp
    obtain ⟨f', s'⟩ := fx.step_ev sx lv nm e ne r v hn hres hev
    have hslot := sx _ hn r rfl
    have hkeep : (x.sym r).value.shouldPropagate = false → (writeOf opts (x.sym r) v).value = (x.sym r).value := by
      intro hq
      obtain ⟨_, d0, defs0, hl0, he0⟩ := (cx _ hn) hq hres
      have := evalSimple_later d0 defs0 d x hl0 e _ he0 hq
      rw [hev] at this
      injection this with this
      rw [writeOf_value, this]
    have hv : ValLe x (x.setSym r (writeOf opts (x.sym r) v)) := valLe_setSym x r _ hkeep
    refine ⟨f', s', fun m hm => ?_, vx.trans hv⟩
    by_cases hr : symRef m = some r
    · have hm' : m = AstNode.symbol lv nm (.constant e) ne (some r) := fx.fn m hm _ hn r hr rfl
      subst hm'
      simp only [CI]
      rw [sym_setSym_self x r _ hslot, writeOf_value]
      intro hp' _
      refine ⟨by unfold notDefined; rw [hfind]; rfl, d, x, later_of d x _ hv, hev⟩
    · refine CI_step opts d d x _ m (fun r' hr' => ?_) (fun _ _ => rfl) (later_of d x _ hv) (cx m hm)
      have hne : r' ≠ r := fun he => hr (by rw [hr', he])
      rcases sym_setSym x r r' (writeOf opts (x.sym r) v) with h1 | ⟨h1, _⟩
      · exact h1
      · exact absurd h1 hne

/-- a node without a referenced symbol carries no obligation -/
theorem CI_noref (opts : Opts) (d : Decls) (defs : Defs) (n : AstNode) (h : symRef n = none) : CI opts d defs n := by
  cases n with
  | symbol l nm kd ne rr =>
    cases rr with
    | none => cases kd <;> trivial
    | some r => cases h
  | _ => trivial

theorem CInv.sub {opts : Opts} {d : Decls} {defs : Defs} {nodes out : List AstNode} (c : CInv opts d defs nodes)
    (hs : RefSub out nodes) : CInv opts d defs out := by
  intro n hn
  cases hr : symRef n with
  | none => exact CI_noref opts d defs n hr
  | some r => exact c n (hs n hn (by rw [hr]; rfl))

/-- a slot that does not exist holds no definite value -/
theorem CI_noslot (opts : Opts) (d : Decls) (defs : Defs) (n : AstNode) (r : Nat) (hr : symRef n = some r)
    (hv : (defs.sym r).value = .unknown) : CI opts d defs n := by
  cases n with
  | symbol l nm kd ne rr =>
    cases rr with
    | none => cases hr
    | some r' =>
      simp only [symRef, Option.some.injEq] at hr
      subst hr
      cases kd with
      | label => trivial
      | constant e =>
        simp only [CI, hv]
        intro h; cases h
  | _ => trivial

/-- `collect` keeps the invariant: old nodes keep their declaration's name, new ones have no slot yet -/
theorem CInv.collect {opts : Opts} {d d' : Decls} {defs : Defs} {nodes nodes' : List AstNode} (f : FInv opts d defs nodes)
    (c : CInv opts d defs nodes) (hb : Built d.symbols) (h : collectAll d nodes = .ok (d', nodes')) : CInv opts d' defs nodes' := by
  obtain ⟨hext, _, hsrc⟩ := collectAll_ext d d' nodes nodes' f.kinv f.fn h
  have hg := collectAll_grows d d' nodes nodes' hb h
  intro n hn
  cases hr : symRef n with
  | none => exact CI_noref opts d' defs n hr
  | some r =>
    rcases hsrc n hn r hr with hold | hnew
    · refine CI_step opts d d' defs defs n (fun _ _ => rfl) (fun r' hr' => ?_) (later_of_grows d d' defs hg) (c n hold)
      have hkn := f.kinv n hold
      have hlt : r' < d.symbols.decls.length := by
        cases n with
        | symbol l nm kd ne rr =>
          cases rr with
          | none => cases hr'
          | some r'' =>
            simp only [symRef, Option.some.injEq] at hr'
            subst hr'
            simp only [KN] at hkn
            exact hkn.1
        | _ => cases hr'
      unfold notDefined
      rw [hext.2 r' hlt]
    · have hno : (defs.symbols.getD r none).isSome = false := by
        cases hx : (defs.symbols.getD r none).isSome with
        | false => rfl
        | true => have := f.s0 r hx; omega
      exact CI_noslot opts d' defs n r hr (by rw [sym_of_noslot defs r hno])

theorem defineStep_valLe (defs : Defs) (n : AstNode) : ValLe defs (Casm.defineStep defs n) := by
  cases n with
  | symbol lv nm kind ne rr =>
    cases rr with
    | none => exact ValLe.refl _
    | some r =>
      by_cases hs : (defs.symbols.getD r none).isSome = true
      · have : Casm.defineStep defs (.symbol lv nm kind ne (some r)) = defs := by simp only [Casm.defineStep, hs, if_true]
        rw [this]; exact ValLe.refl _
      · have hno : (defs.symbols.getD r none).isSome = false := by simpa using hs
        intro r' v hv hp
        rw [slotVal_eq] at hv ⊢
        simp only [Casm.defineStep, hno, Bool.false_eq_true, if_false]
        rw [sym_padset]
        by_cases he : r' = r
        · subst he
          rw [sym_of_noslot defs r' hno] at hv
          injection hv with hv
          subst hv
          cases hp
        · simp only [he, if_false]; exact hv
  | _ => exact ValLe.refl _

theorem defineStep_sym (defs : Defs) (n : AstNode) (r' : Nat) (hv : (defs.symbols.getD r' none).isSome = true) :
    (Casm.defineStep defs n).sym r' = defs.sym r' := by
  cases n with
  | symbol lv nm kind ne rr =>
    cases rr with
    | none => rfl
    | some r =>
      by_cases hs : (defs.symbols.getD r none).isSome = true
      · simp only [Casm.defineStep, hs, if_true]
      · have hno : (defs.symbols.getD r none).isSome = false := by simpa using hs
        simp only [Casm.defineStep, hno, Bool.false_eq_true, if_false]
        rw [sym_padset]
        have : r' ≠ r := fun he => by subst he; rw [hv] at hno; cases hno
        simp only [this, if_false]
  | _ => rfl

theorem defineStep_value_new (defs : Defs) (n : AstNode) (r' : Nat) (hv : (defs.symbols.getD r' none).isSome = false) :
    ((Casm.defineStep defs n).sym r').value = .unknown := by
  cases n with
  | symbol lv nm kind ne rr =>
    cases rr with
    | none => show (defs.sym r').value = _; rw [sym_of_noslot defs r' hv]
    | some r =>
      by_cases hs : (defs.symbols.getD r none).isSome = true
      · simp only [Casm.defineStep, hs, if_true]; rw [sym_of_noslot defs r' hv]
      · have hno : (defs.symbols.getD r none).isSome = false := by simpa using hs
        simp only [Casm.defineStep, hno, Bool.false_eq_true, if_false]
        rw [sym_padset]
        by_cases he : r' = r
        · simp only [he, if_true]
        · simp only [he, if_false]; rw [sym_of_noslot defs r' hv]
  | _ => show (defs.sym r').value = _; rw [sym_of_noslot defs r' hv]

theorem CInv.define_one {opts : Opts} {d : Decls} {defs : Defs} {nodes : List AstNode} (c : CInv opts d defs nodes) (n : AstNode) :
    CInv opts d (Casm.defineStep defs n) nodes := by
  intro m hm
  cases hr : symRef m with
  | none => exact CI_noref opts d _ m hr
  | some r =>
    by_cases hs : (defs.symbols.getD r none).isSome = true
    · refine CI_step opts d d defs _ m (fun r' hr' => ?_) (fun _ _ => rfl) (later_of d defs _ (defineStep_valLe defs n)) (c m hm)
      rw [hr] at hr'; injection hr' with hr'; subst hr'
      exact defineStep_sym defs n r hs
    · have hno : (defs.symbols.getD r none).isSome = false := by simpa using hs
      exact CI_noslot opts d _ m r hr (defineStep_value_new defs n r hno)

theorem defineSymbols_later {opts : Opts} {d : Decls} {nodes : List AstNode} :
    ∀ (l : List AstNode) (defs : Defs), CInv opts d defs nodes →
      CInv opts d (defineSymbols defs l) nodes ∧ ValLe defs (defineSymbols defs l) := by
  intro l
  induction l with
  | nil => intro defs c; exact ⟨c, ValLe.refl _⟩
  | cons n rest ih =>
    intro defs c
    rw [defineSymbols_eq, List.foldl_cons, ← defineSymbols_eq]
    obtain ⟨c2, v2⟩ := ih (Casm.defineStep defs n) (c.define_one n)
    exact ⟨c2, (defineStep_valLe defs n).trans v2⟩

/-- **one round of the first loop leads to a later state**: the state in which the conditions of the round
    are evaluated (`d1`, `defs2`) is later than the state the round started from -/
theorem round_later {opts : Opts} {d d1 : Decls} {defs defs2 : Defs} {nodes n1 : List AstNode} {cnt : Nat}
    (f : FInv opts d defs nodes) (c : CInv opts d defs nodes) (hb : Built d.symbols)
    (hc : collectAll d nodes = .ok (d1, n1))
    (hr : resolveConstantsSimple opts d1 (defineSymbols defs n1) n1 = .ok (defs2, cnt)) :
    Later d defs d1 defs2 ∧ FInv opts d1 defs2 n1 ∧ SlotsOK defs2 n1 ∧ CInv opts d1 defs2 n1 ∧ Built d1.symbols := by
  have f1 := f.collect hc
  have c1 := c.collect f hb hc
  have hb1 := collectAll_built d d1 nodes n1 hb hc
  obtain ⟨f2, s2, _⟩ := FInv.define (opts := opts) (d := d1) (nodes := n1) n1 defs (fun _ hn => hn) f1
  obtain ⟨c2, v2⟩ := defineSymbols_later (opts := opts) (d := d1) (nodes := n1) n1 defs c1
  obtain ⟨f3, s3, c3, v3⟩ := consts_later f2 (fun n hn r hr' => s2 n hn r hr') c2 hr
  exact ⟨(later_of_grows d d1 defs (collectAll_grows d d1 nodes n1 hb hc)).trans (later_of d1 defs defs2 (v2.trans v3)), f3, s3, c3, hb1⟩

end Casm
