import Casm.Model.ExprEval
import Casm.Proofs.BitsLemmas
/-! Bit-level lemmas about the integer operators of the expression evaluator. -/
namespace Casm

theorem tbit_ofNat (n i : Nat) : tbit (n : Int) i = n.testBit i := by
  rw [tbit_eq, Nat.testBit_eq_decide_div_mod_eq]
  have : ((n : Int) / 2 ^ i) % 2 = ((n / 2 ^ i % 2 : Nat) : Int) := by
    push_cast; rfl
  rw [this]
  have h : n / 2 ^ i % 2 = 0 ∨ n / 2 ^ i % 2 = 1 := by omega
  rcases h with h | h <;> simp [h]

/-- bits of `-n-1` are the complemented bits of `n` -/
theorem tbit_negSucc (n i : Nat) : tbit (-(n : Int) - 1) i = !n.testBit i := by
  have e : -(n : Int) - 1 = Int.negSucc n := by omega
  rw [e, tbit_eq, Nat.testBit_eq_decide_div_mod_eq]
  have hp : (0 : Int) < 2 ^ i := Int.pow_pos (by decide)
  rw [Int.negSucc_ediv n hp]
  have hq : ((n : Int).ediv (2 ^ i)) = ((n / 2 ^ i : Nat) : Int) := by
    push_cast; rfl
  rw [hq]
  generalize n / 2 ^ i = q
  have h : q % 2 = 0 ∨ q % 2 = 1 := by omega
  rcases h with h | h
  · have : (-((q : Int) + 1)) % 2 = 1 := by omega
    rw [this]; simp [h]
  · have : (-((q : Int) + 1)) % 2 = 0 := by omega
    rw [this]; simp [h]

theorem tbit_intNot (x : Int) (i : Nat) : tbit (intNot x) i = !tbit x i := by
  unfold intNot
  rcases Int.lt_or_le x 0 with h | h
  · -- x = -(m) - 1
    obtain ⟨m, rfl⟩ : ∃ m : Nat, x = -(m : Int) - 1 := ⟨(-x - 1).toNat, by omega⟩
    have : -(-(m : Int) - 1) - 1 = (m : Int) := by omega
    rw [this, tbit_ofNat, tbit_negSucc]; simp
  · obtain ⟨m, rfl⟩ : ∃ m : Nat, x = (m : Int) := ⟨x.toNat, by omega⟩
    rw [tbit_negSucc, tbit_ofNat]

/-- sign/magnitude view of the two's-complement bits -/
theorem tbit_repr (x : Int) (i : Nat) :
    tbit x i = ((mag x).testBit i != decide (x < 0)) := by
  unfold mag
  rcases Int.lt_or_le x 0 with h | h
  · obtain ⟨m, rfl⟩ : ∃ m : Nat, x = -(m : Int) - 1 := ⟨(-x - 1).toNat, by omega⟩
    have h1 : (-(m : Int) - 1 < 0) := by omega
    have e1 : (-(-(m : Int) - 1) - 1).toNat = m := by omega
    rw [if_pos h1, e1, tbit_negSucc]; simp [h1]
  · obtain ⟨m, rfl⟩ : ∃ m : Nat, x = (m : Int) := ⟨x.toNat, by omega⟩
    have h1 : ¬ ((m : Int) < 0) := by omega
    have e1 : ((m : Int)).toNat = m := by omega
    rw [if_neg h1, e1, tbit_ofNat]; simp [h1]

theorem tbit_bitwiseCore (f : Bool → Bool → Bool) (nx ny : Bool) (a b i : Nat) :
    tbit (bitwiseCore f nx ny a b) i = f (a.testBit i != nx) (b.testBit i != ny) := by
  unfold bitwiseCore
  simp only
  cases hs : f nx ny
  · simp only [Bool.false_eq_true, if_false]
    rw [tbit_ofNat, Nat.testBit_bitwise (by simpa using hs)]
    simp
  · simp only [if_true]
    rw [tbit_negSucc, Nat.testBit_bitwise (by simpa using hs)]
    simp

/-- the bits of `intBitwise f x y` are `f` applied bitwise -/
theorem tbit_intBitwise (f : Bool → Bool → Bool) (x y : Int) (i : Nat) :
    tbit (intBitwise f x y) i = f (tbit x i) (tbit y i) := by
  rw [tbit_repr x i, tbit_repr y i]
  exact tbit_bitwiseCore f _ _ _ _ i

theorem tbit_shiftRight (x : Int) (r i : Nat) : tbit (x >>> r) i = tbit x (r + i) := by
  unfold tbit; rw [Int.shiftRight_add]

theorem tbit_bitsRange (x : Int) (l r i : Nat) :
    tbit (bitsRange x l r) i = (decide (i < l - r) && tbit x (r + i)) := by
  unfold bitsRange
  rw [pow2_cast, tbit_emod_pow, tbit_shiftRight]

/-- bits of `a * 2^k + b` for `0 ≤ b < 2^k` -/
theorem tbit_mul_pow_add (a b : Int) (k i : Nat) (hb0 : 0 ≤ b) (hb : b < 2 ^ k) :
    tbit (a * 2 ^ k + b) i = if i < k then tbit b i else tbit a (i - k) := by
  have hpk : (0 : Int) < 2 ^ k := Int.pow_pos (by decide)
  split
  · rename_i h
    -- low bits: compare modulo 2^k
    have h1 := tbit_emod_pow (a * 2 ^ k + b) k i
    have h2 := tbit_emod_pow b k i
    simp only [h, decide_true, Bool.true_and] at h1 h2
    rw [← h1, ← h2]
    congr 1
    rw [Int.add_comm, Int.mul_comm, Int.add_mul_emod_self_left]
  · rename_i h
    obtain ⟨j, rfl⟩ : ∃ j, i = k + j := ⟨i - k, by omega⟩
    have e : k + j - k = j := by omega
    rw [e, tbit_eq, tbit_eq]
    have : (a * 2 ^ k + b) / 2 ^ (k + j) = a / 2 ^ j := by
      rw [Int.pow_add, ← Int.ediv_ediv_of_nonneg (Int.le_of_lt hpk)]
      have : (a * 2 ^ k + b) / 2 ^ k = a := by
        rw [Int.add_comm, Int.mul_comm, Int.add_mul_ediv_left _ _ (by omega)]
        rw [Int.ediv_eq_zero_of_lt hb0 hb]; omega
      rw [this]
    rw [this]

/-- the executable short-cut of the arithmetic right shift is the arithmetic right shift -/
theorem shrInt_eq (l : Int) (n : Nat) : shrInt l n = l >>> n := by
  unfold shrInt
  split
  · rename_i h
    have hlt : l.natAbs < 2 ^ n := (nbits_le_iff _ _).mp h
    rw [Int.shiftRight_eq_div_pow]
    have hp : (0 : Int) < ((2 ^ n : Nat) : Int) := by exact_mod_cast Nat.two_pow_pos n
    split
    · rename_i hneg
      have : l / ((2 ^ n : Nat) : Int) = -1 ∧ l % ((2 ^ n : Nat) : Int) = l + ((2 ^ n : Nat) : Int) := by
        rw [Int.ediv_emod_unique hp]
        refine ⟨by omega, by omega, by omega⟩
      simpa using this.1.symm
    · rename_i hpos
      have : l / ((2 ^ n : Nat) : Int) = 0 := Int.ediv_eq_zero_of_lt (by omega) (by omega)
      simpa using this.symm
  · rfl

end Casm
