import Casm.Proofs.CondValues
import Casm.Proofs.IfSplice
/-!
# Casm.Proofs.CondLoop — the first loop of `assemble` selects arms as the final state decides

`Sel d defs ns out`: `out` is `ns` with every conditional whose condition `eval_simple` decides **in the one
state `(d, defs)`** replaced by the selected arm, recursively; conditionals that state does not decide stay.
The loop splices conditionals round by round, each in the state of its round; since a decided condition keeps
its value in every later state (`evalSimple_later`, `round_later`), the node list the loop ends with is the
selection **by the final state** of the node list it started from (`declLoop_selects`).
-/
namespace Casm
open Casm.C16

/-! ## references are the only thing `collect` changes -/

theorem fresh_fresh (n : AstNode) : n.fresh.fresh = n.fresh := by cases n <;> rfl

theorem fresh_ifDir (c : Expr) (t : List AstNode) (f : Option (List AstNode)) : (AstNode.ifDir c t f).fresh = .ifDir c t f := rfl

theorem map_fresh_fresh (l : List AstNode) : (l.map AstNode.fresh).map AstNode.fresh = l.map AstNode.fresh := by
  rw [List.map_map]
  congr 1
  funext n
  exact fresh_fresh n

theorem mapNodesE_fresh {σ} (f : σ → AstNode → Except String (σ × AstNode))
    (hstep : ∀ s n s' n', f s n = .ok (s', n') → n'.fresh = n.fresh) :
    ∀ (nodes : List AstNode) (s : σ) (acc : List AstNode) (s' : σ) (out : List AstNode),
      mapNodesE f s nodes acc = .ok (s', out) → out.map AstNode.fresh = acc.reverse.map AstNode.fresh ++ nodes.map AstNode.fresh := by
  intro nodes
  induction nodes with
  | nil =>
    intro s acc s' out h
    simp only [mapNodesE] at h
    injection h with h; injection h with _ h2
    rw [← h2]; simp
  | cons n rest ih =>
    intro s acc s' out h
    simp only [mapNodesE] at h
    cases hf : f s n with
    | error e => rw [hf] at h; cases h
    | ok x =>
      obtain ⟨s1, n1⟩ := x
      rw [hf] at h
      have := ih s1 (n1 :: acc) s' out h
      rw [this]
      simp [hstep s n s1 n1 hf]

theorem collectBankdefs_fresh (d d' : Decls) (nodes nodes' : List AstNode) (h : collectBankdefs d nodes = .ok (d', nodes')) :
    nodes'.map AstNode.fresh = nodes.map AstNode.fresh := by
  unfold collectBankdefs at h
  have := mapNodesE_fresh _ ?_ nodes d [] d' nodes' h
  simpa using this
  intro s n s' n' hf
  split at hf
  · split at hf
    · cases hf
    · injection hf with hf; injection hf with _ h2; rw [← h2]; rfl
  · injection hf with hf; injection hf with _ h2; rw [← h2]

theorem collectBanks_fresh (d d' : Decls) (nodes nodes' : List AstNode) (h : collectBanks d nodes = .ok (d', nodes')) :
    nodes'.map AstNode.fresh = nodes.map AstNode.fresh := by
  unfold collectBanks at h
  have := mapNodesE_fresh _ ?_ nodes d [] d' nodes' h
  simpa using this
  intro s n s' n' hf
  split at hf
  · split at hf
    · cases hf
    · injection hf with hf; injection hf with _ h2; rw [← h2]; rfl
  · injection hf with hf; injection hf with _ h2; rw [← h2]

theorem collectRuledefs_fresh (d d' : Decls) (nodes nodes' : List AstNode) (h : collectRuledefs d nodes = .ok (d', nodes')) :
    nodes'.map AstNode.fresh = nodes.map AstNode.fresh := by
  unfold collectRuledefs at h
  have := mapNodesE_fresh _ ?_ nodes d [] d' nodes' h
  simpa using this
  intro s n s' n' hf
  split at hf
  · simp only at hf
    split at hf
    · cases hf
    · injection hf with hf; injection hf with _ h2; rw [← h2]; rfl
  · injection hf with hf; injection hf with _ h2; rw [← h2]

theorem collectSymbols_fresh (d d' : Decls) (nodes nodes' : List AstNode) (h : collectSymbols d nodes = .ok (d', nodes')) :
    nodes'.map AstNode.fresh = nodes.map AstNode.fresh := by
  unfold collectSymbols at h
  split at h
  · cases h
  · rename_i dd ctx ns hm
    injection h with h; injection h with _ h2
    subst h2
    have := mapNodesE_fresh _ ?_ nodes (d, []) [] (dd, ctx) ns hm
    simpa using this
    intro s n s' n' hf
    split at hf
    · rename_i level name kind ne ref
      cases ref with
      | some r =>
        simp only at hf
        injection hf with hf; injection hf with _ h2; rw [← h2]
      | none =>
        simp only at hf
        split at hf
        · cases hf
        · injection hf with hf; injection hf with _ h2; rw [← h2]; rfl
    · injection hf with hf; injection hf with _ h2; rw [← h2]

theorem collectFunctions_fresh (d d' : Decls) (nodes nodes' : List AstNode) (h : collectFunctions d nodes = .ok (d', nodes')) :
    nodes'.map AstNode.fresh = nodes.map AstNode.fresh := by
  unfold collectFunctions at h
  have := mapNodesE_fresh _ ?_ nodes d [] d' nodes' h
  simpa using this
  intro s n s' n' hf
  split at hf
  · split at hf
    · cases hf
    · injection hf with hf; injection hf with _ h2; rw [← h2]; rfl
  · injection hf with hf; injection hf with _ h2; rw [← h2]

theorem collectAll_fresh (d d' : Decls) (nodes nodes' : List AstNode) (h : collectAll d nodes = .ok (d', nodes')) :
    nodes'.map AstNode.fresh = nodes.map AstNode.fresh := by
  unfold collectAll at h
  simp only [bind, Except.bind] at h
  cases h1 : collectBankdefs d nodes with
  | error e => rw [h1] at h; cases h
  | ok x1 =>
    obtain ⟨d1, n1⟩ := x1
    rw [h1] at h
    simp only at h
    cases h2 : collectBanks d1 n1 with
    | error e => rw [h2] at h; cases h
    | ok x2 =>
      obtain ⟨d2, n2⟩ := x2
      rw [h2] at h
      simp only at h
      cases h3 : collectRuledefs d2 n2 with
      | error e => rw [h3] at h; cases h
      | ok x3 =>
        obtain ⟨d3, n3⟩ := x3
        rw [h3] at h
        simp only at h
        cases h4 : collectSymbols d3 n3 with
        | error e => rw [h4] at h; cases h
        | ok x4 =>
          obtain ⟨d4, n4⟩ := x4
          rw [h4] at h
          simp only at h
          rw [collectFunctions_fresh d4 d' n4 nodes' h, collectSymbols_fresh d3 d4 n3 n4 h4, collectRuledefs_fresh d2 d3 n2 n3 h3,
            collectBanks_fresh d1 d2 n1 n2 h2, collectBankdefs_fresh d d1 nodes n1 h1]

/-! ## selection by one state -/

mutual
/-- `out` is `ns` with the conditionals that `(d, defs)` decides replaced by their selected arms, to any depth -/
inductive Sel (d : Decls) (defs : Defs) : List AstNode → List AstNode → Prop
  | nil : Sel d defs [] []
  | cons {n : AstNode} {ns o os : List AstNode} : SelNode d defs n o → Sel d defs ns os → Sel d defs (n :: ns) (o ++ os)
/-- the contribution of one node -/
inductive SelNode (d : Decls) (defs : Defs) : AstNode → List AstNode → Prop
  | yes {c : Expr} {t : List AstNode} {f : Option (List AstNode)} {o : List AstNode} :
      evalSimple d defs c = .ok (.bool true) → Sel d defs (t.map AstNode.fresh) o → SelNode d defs (.ifDir c t f) o
  | no {c : Expr} {t : List AstNode} {f : Option (List AstNode)} {o : List AstNode} :
      evalSimple d defs c = .ok (.bool false) → Sel d defs ((f.getD []).map AstNode.fresh) o → SelNode d defs (.ifDir c t f) o
  | keep {n : AstNode} : spliceOne d defs n = [n] → SelNode d defs n [n]
end

theorem Sel.append {d : Decls} {defs : Defs} {a b oa ob : List AstNode} (ha : Sel d defs a oa) (hb : Sel d defs b ob) :
    Sel d defs (a ++ b) (oa ++ ob) := by
  induction a generalizing oa with
  | nil => cases ha; exact hb
  | cons n ns ih =>
    cases ha with
    | cons hn hs =>
      rw [List.cons_append, List.append_assoc]
      exact Sel.cons hn (ih hs)

theorem Sel.split {d : Decls} {defs : Defs} {a b out : List AstNode} (h : Sel d defs (a ++ b) out) :
    ∃ oa ob, out = oa ++ ob ∧ Sel d defs a oa ∧ Sel d defs b ob := by
  induction a generalizing out with
  | nil => exact ⟨[], out, rfl, Sel.nil, h⟩
  | cons n ns ih =>
    rw [List.cons_append] at h
    cases h with
    | cons hn hs =>
      obtain ⟨oa, ob, he, h1, h2⟩ := ih hs
      exact ⟨_ ++ oa, ob, by rw [he, List.append_assoc], Sel.cons hn h1, h2⟩

theorem sel_singleton {d : Decls} {defs : Defs} {n : AstNode} {o : List AstNode} (h : Sel d defs [n] o) : SelNode d defs n o := by
  cases h with
  | cons hn hs => cases hs; simpa using hn

/-- a list none of whose conditionals the state decides is its own selection -/
theorem Sel.id_of_undecided {d : Decls} {defs : Defs} (ns : List AstNode) (h : ∀ n ∈ ns, spliceOne d defs n = [n]) : Sel d defs ns ns := by
  induction ns with
  | nil => exact Sel.nil
  | cons n rest ih =>
    have := Sel.cons (SelNode.keep (h n List.mem_cons_self)) (ih (fun m hm => h m (List.mem_cons_of_mem _ hm)))
    simpa using this

/-- **absorption**: selecting by a later state after one round in an earlier state is selecting by the later state -/
theorem Sel.absorb_round {d0 : Decls} {defs0 : Defs} {d : Decls} {defs : Defs} (hl : Later d0 defs0 d defs) :
    ∀ (ns out : List AstNode), Sel d defs (ns.flatMap (spliceOne d0 defs0)) out → Sel d defs ns out := by
  intro ns
  induction ns with
  | nil => intro out h; simpa using h
  | cons n rest ih =>
    intro out h
    rw [List.flatMap_cons] at h
    obtain ⟨oa, ob, he, h1, h2⟩ := h.split
    rw [he]
    refine Sel.cons ?_ (ih ob h2)
    -- the contribution of `n`
    cases n with
    | ifDir c t f =>
      cases hc : evalSimple d0 defs0 c with
      | error m =>
        have : spliceOne d0 defs0 (.ifDir c t f) = [.ifDir c t f] := by simp [spliceOne, hc]
        rw [this] at h1
        cases h1 with
        | cons hn hs => cases hs; simpa using hn
      | ok v =>
        by_cases hb : ∃ b, v = .bool b
        · obtain ⟨b, rfl⟩ := hb
          have hst := evalSimple_later d0 defs0 d defs hl c (.bool b) hc rfl
          cases b with
          | true =>
            have : spliceOne d0 defs0 (.ifDir c t f) = t.map AstNode.fresh := by simp [spliceOne, hc]
            rw [this] at h1
            exact SelNode.yes hst h1
          | false =>
            have : spliceOne d0 defs0 (.ifDir c t f) = (f.getD []).map AstNode.fresh := by simp [spliceOne, hc]
            rw [this] at h1
            exact SelNode.no hst h1
        · have : spliceOne d0 defs0 (.ifDir c t f) = [.ifDir c t f] := by
            unfold spliceOne
            simp only [hc]
            split
            · rename_i he; injection he with he; exact absurd ⟨true, he⟩ hb
            · rename_i he; injection he with he; exact absurd ⟨false, he⟩ hb
            · rfl
          rw [this] at h1
          cases h1 with
          | cons hn hs => cases hs; simpa using hn
    | _ => exact sel_singleton h1

/-! ## the rounds -/

theorem spliceOne_of_not_if (d : Decls) (defs : Defs) (n : AstNode) (h : ∀ c t f, n ≠ .ifDir c t f) : spliceOne d defs n = [n] := by
  cases n with
  | ifDir c t f => exact absurd rfl (h c t f)
  | _ => rfl

theorem spliceOne_fresh (d : Decls) (defs : Defs) (n : AstNode) :
    (spliceOne d defs n).map AstNode.fresh = spliceOne d defs n.fresh := by
  cases n with
  | ifDir c t f =>
    rw [fresh_ifDir]
    unfold spliceOne
    simp only
    split
    · exact map_fresh_fresh _
    · exact map_fresh_fresh _
    · rfl
  | _ => rfl

/-- one round on the node list with its references erased -/
theorem flatMap_splice_fresh (d : Decls) (defs : Defs) (ns : List AstNode) :
    (ns.flatMap (spliceOne d defs)).map AstNode.fresh = (ns.map AstNode.fresh).flatMap (spliceOne d defs) := by
  induction ns with
  | nil => rfl
  | cons n rest ih =>
    simp only [List.flatMap_cons, List.map_append, List.map_cons, ih, spliceOne_fresh]

theorem spliceOne_fresh_undecided (d : Decls) (defs : Defs) (n : AstNode) (h : spliceOne d defs n = [n]) :
    spliceOne d defs n.fresh = [n.fresh] := by
  rw [← spliceOne_fresh, h]; rfl

/-- a round that splices nothing leaves the list as it is, and the state decides none of its conditionals -/
theorem foldr_ifStep_zero (d : Decls) (defs : Defs) (nodes : List AstNode) (out : List AstNode) (k : Nat)
    (h : nodes.foldr (ifStep d defs) (.ok ([], 0)) = .ok (out, k)) (hk : k = 0) : ∀ n ∈ nodes, spliceOne d defs n = [n] := by
  induction nodes generalizing out k with
  | nil => intro n hn; cases hn
  | cons n rest ih =>
    simp only [List.foldr_cons] at h
    cases hr : rest.foldr (ifStep d defs) (.ok ([], 0)) with
    | error e => rw [hr] at h; simp [ifStep] at h
    | ok x =>
      obtain ⟨out', k'⟩ := x
      rw [hr] at h
      unfold ifStep at h
      simp only at h
      have step : k' = 0 ∧ spliceOne d defs n = [n] := by
        split at h
        · rename_i cond t f
          split at h
          · cases h
          · injection h with h; injection h with _ h2; omega
          · injection h with h; injection h with _ h2; omega
          · rename_i v hv1 hv2 he
            injection h with h; injection h with _ h2
            refine ⟨by omega, ?_⟩
            unfold spliceOne
            simp only [he]
            split
            · rename_i he'; injection he' with he'; exact absurd he' (hv1 ·)
            · rename_i he'; injection he' with he'; exact absurd he' (hv2 ·)
            · rfl
        · rename_i hni
          injection h with h; injection h with _ h2
          refine ⟨by omega, ?_⟩
          cases n with
          | ifDir c t f => exact absurd rfl (hni c t f)
          | _ => rfl
      intro m hm
      cases hm with
      | head => exact step.2
      | tail _ hm => exact ih out' k' hr step.1 m hm

theorem flatMap_id_of_undecided (d : Decls) (defs : Defs) (ns : List AstNode) (h : ∀ n ∈ ns, spliceOne d defs n = [n]) :
    ns.flatMap (spliceOne d defs) = ns := by
  induction ns with
  | nil => rfl
  | cons n rest ih =>
    rw [List.flatMap_cons, h n List.mem_cons_self, ih (fun m hm => h m (List.mem_cons_of_mem _ hm))]
    rfl

/-- **the first loop of `assemble` selects arms as its final state decides**: the state it ends in is later than
    the one it started from, the node list it ends with is — references aside — the selection by that final state
    of the node list it started from, and the final state decides none of the conditionals that are left -/
theorem declLoop_selects (opts : Opts) :
    ∀ (fuel : Nat) (d : Decls) (defs : Defs) (nodes : List AstNode) (prev : Nat) (d' : Decls) (defs' : Defs) (nodes' : List AstNode),
      FInv opts d defs nodes → CInv opts d defs nodes → Built d.symbols →
      declLoop opts fuel d defs nodes prev = .ok (d', defs', nodes') →
      Later d defs d' defs' ∧ Sel d' defs' (nodes.map AstNode.fresh) (nodes'.map AstNode.fresh) ∧
        ∀ n ∈ nodes', spliceOne d' defs' n = [n] := by
  intro fuel
  induction fuel with
  | zero => intro d defs nodes prev d' defs' nodes' _ _ _ h; simp [declLoop] at h
  | succ f ih =>
    intro d defs nodes prev d' defs' nodes' fi ci hb h
    simp only [declLoop] at h
    cases hc : collectAll d nodes with
    | error e => rw [hc] at h; cases h
    | ok x =>
      obtain ⟨d1, n1⟩ := x
      rw [hc] at h
      simp only at h
      cases hr : resolveConstantsSimple opts d1 (defineSymbols defs n1) n1 with
      | error e => rw [hr] at h; cases h
      | ok y =>
        obtain ⟨defs2, cnt⟩ := y
        rw [hr] at h
        simp only at h
        obtain ⟨hl, f3, s3, c3, hb1⟩ := round_later fi ci hb hc hr
        have hfr := collectAll_fresh d d1 nodes n1 hc
        split at h
        · cases h
        · rename_i nodes2 ifs hri
          have hri' := hri
          rw [resolveIfs_foldr] at hri'
          have hsp := foldr_splices d1 defs2 n1 nodes2 ifs hri'
          split at h
          · rename_i hstop
            injection h with h; injection h with h1 h; injection h with h2 h3
            subst h1 h2 h3
            have hz : ifs = 0 := by
              simp only [Bool.and_eq_true, beq_iff_eq] at hstop
              exact hstop.2
            have hund := foldr_ifStep_zero d1 defs2 n1 nodes2 ifs hri' hz
            have hid : nodes2 = n1 := by rw [hsp, flatMap_id_of_undecided d1 defs2 n1 hund]
            refine ⟨hl, ?_, ?_⟩
            · rw [hid, ← hfr]
              refine Sel.id_of_undecided _ (fun m hm => ?_)
              obtain ⟨n, hn, rfl⟩ := List.mem_map.mp hm
              exact spliceOne_fresh_undecided d1 defs2 n (hund n hn)
            · rw [hid]; exact hund
          · have hsub := resolveIfs_refSub d1 defs2 n1 nodes2 ifs hri
            have hk2 := resolveIfs_kinv d1.symbols _ _ _ _ _ f3.kinv hri
            obtain ⟨hl2, hs2, hu2⟩ := ih _ _ _ _ _ _ _ (f3.sub hk2 hsub) (c3.sub hsub) hb1 h
            refine ⟨hl.trans hl2, ?_, hu2⟩
            rw [← hfr]
            refine Sel.absorb_round hl2 _ _ ?_
            rw [← flatMap_splice_fresh, ← hsp]
            exact hs2

end Casm
