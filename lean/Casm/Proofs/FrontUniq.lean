import Casm.Proofs.FrontFacts
import Casm.Proofs.Corner
/-!
# Casm.Proofs.FrontUniq — the front end numbers instructions and data elements without repetition
-/
namespace Casm

/-- the numbering invariant holds of the nodes the front end returns -/
theorem frontEnd_ar (opts : Opts) (fs : SrcFiles) (roots : List (List Char)) (st : Static) (nodes : List AstNode) (defs0 : Defs)
    (h : frontEnd opts fs roots = .ok (st, nodes, defs0)) : ∃ defsR, AR defsR nodes := by
  unfold frontEnd at h
  split at h
  · cases h
  · rename_i d defsR nodesR hp
    split at h
    rename_i defsM rep hm
    split at h
    · cases h
    · injection h with h; injection h with h1 h2
      injection h2 with h2 h3
      subst h1 h2 h3
      refine ⟨defsR, ?_⟩
      unfold frontEndPre at hp
      split at hp
      · cases hp
      · split at hp
        · cases hp
        · simp only at hp
          split at hp
          · cases hp
          · rename_i d2 defs2 nodes2 hl
            split at hp
            · cases hp
            · split at hp
              · cases hp
              · rename_i defs3 nodes3 hdr
                injection hp with hp; injection hp with _ hp; injection hp with h4 h5
                subst h4 h5
                have := declLoop_items opts _ _ _ _ _ _ _ _ hl
                exact defineRemaining_ar _ defs2 _ nodes2 _ this.1 this.2 hdr

theorem ar_data_ref (df : Defs) (out : List AstNode) (h : AR df out) (pre : List AstNode) (sz : Option Nat) (es : List Expr) (refs : List Nat)
    (post : List AstNode) (hs : out = pre ++ .data sz es refs :: post) (k : Nat) (hk : k < es.length) :
    refs.getD k 0 = k + countD pre := by
  obtain ⟨r1, _⟩ := h.dpos pre sz es refs post hs
  rw [r1]; simp [List.getD_eq_getElem?_getD, List.getElem?_map, List.getElem?_range hk]

theorem uniq_of_ar (df : Defs) (nodes : List AstNode) (h : AR df nodes) : Uniq nodes := by
  refine ⟨?_, ?_, ?_⟩
  · intro pre src ref post hs src' hm
    obtain ⟨p1, p2, hp⟩ := List.append_of_mem hm
    have hs' : nodes = (pre ++ .instr src (some ref) :: p1) ++ .instr src' (some ref) :: p2 := by
      rw [hs, hp]; simp
    have := ar_instrPos df nodes h pre src ref post _ src' p2 hs hs'
    have hl := congrArg List.length this
    simp at hl
  · intro sz es refs hm k1 k2 hk1 hk2 heq
    obtain ⟨pre, post, hs⟩ := List.append_of_mem hm
    rw [ar_data_ref df nodes h pre sz es refs post hs k1 hk1, ar_data_ref df nodes h pre sz es refs post hs k2 hk2] at heq
    omega
  · intro pre sz es refs post hs sz' es' refs' hm k k' hk hk' heq
    obtain ⟨p1, p2, hp⟩ := List.append_of_mem hm
    have hs' : nodes = (pre ++ .data sz es refs :: p1) ++ .data sz' es' refs' :: p2 := by
      rw [hs, hp]; simp
    rw [ar_data_ref df nodes h pre sz es refs post hs k hk, ar_data_ref df nodes h _ sz' es' refs' p2 hs' k' hk'] at heq
    rw [countD_append] at heq
    simp only [countD] at heq
    omega

/-- **references of instructions and data elements are pairwise distinct in the front end's result** -/
theorem frontEnd_uniq (opts : Opts) (fs : SrcFiles) (roots : List (List Char)) (st : Static) (nodes : List AstNode) (defs0 : Defs)
    (h : frontEnd opts fs roots = .ok (st, nodes, defs0)) : Uniq nodes := by
  obtain ⟨df, har⟩ := frontEnd_ar opts fs roots st nodes defs0 h
  exact uniq_of_ar df nodes har

end Casm
