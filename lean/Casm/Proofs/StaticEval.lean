import Casm.Model.Inspect
/-!
# Casm.Proofs.StaticEval — what `is_value_statically_known` promises

If the analysis answers "statically known" for an expression, then its evaluation in two
environments that agree on everything the analysis calls known (known variables, the asm-builtin
functions) is the same — value, error text and resulting context alike — when started from the same
evaluation context.
-/
namespace Casm

theorem Locals.get_set_self (l : Locals) (n : String) (v : Value) : (l.set n v).get n = some v := by
  simp [Locals.get, Locals.set]

theorem Locals.get_set_ne (l : Locals) (n m : String) (v : Value) (h : n ≠ m) : (l.set n v).get m = l.get m := by
  have h1 : ((n == m) = false) := by simpa using h
  simp only [Locals.get, Locals.set, List.find?, h1]
  congr 1
  induction l with
  | nil => rfl
  | cons a t ih =>
    simp only [List.filter]
    by_cases ha : a.1 = n
    · have : (a.1 != n) = false := by simp [ha]
      have h2 : (a.1 == m) = false := by rw [ha]; exact h1
      simp only [this, List.find?, h2]; exact ih
    · have : (a.1 != n) = true := by simp [ha]
      simp only [this, List.find?]
      cases (a.1 == m) <;> simp [ih]

/-- what the two environments must agree on -/
structure Agree (p : SKProvider) (env1 env2 : EvalEnv) : Prop where
  var : ∀ l path, p.queryVariable l path = true → env2.var l path = env1.var l path
  fn : ∀ n vs c, env2.fn (.asmBuiltin n) vs c = env1.fn (.asmBuiltin n) vs c
  callee : ∀ n, p.queryFunction n = true → isBuiltinName n = false →
    ∃ n', env1.var 0 [n] = .ok (.asmBuiltin n') ∧ env2.var 0 [n] = .ok (.asmBuiltin n')

/-- a name the analysis treats as a known function is not a known variable -/
def ProviderOK (p : SKProvider) : Prop :=
  ∀ n, p.queryFunction n = true → p.queryVariable 0 [n] = false

/-- the evaluation context holds every local the provider calls known, and none named like a known function -/
def CtxInv (p : SKProvider) (c : ECtx) : Prop :=
  (∀ n, p.queryFunction n = true → p.local? n = none → c.locals.get n = none) ∧
  (∀ n l, p.local? n = some l → l.valueKnown = true → (c.locals.get n).isSome = true)

theorem builtinKnown_isBuiltin (n : String) (h : builtinStaticallyKnownValue n = true) : isBuiltinName n = true := by
  unfold builtinStaticallyKnownValue at h
  split at h
  · rename_i q hq
    have hm := List.mem_of_find?_eq_some hq
    have hn : (q.1 == n) = true := @List.find?_some _ (fun x : String × Bool => x.1 == n) q _ hq
    have hn' : q.1 = n := by simpa using hn
    have key : ∀ q ∈ Gen.builtinStaticallyKnown, q.2 = true → isBuiltinName q.1 = true := by decide
    rw [← hn']; exact key q hm h
  · cases h

theorem CtxInv.setLocal {p : SKProvider} {c : ECtx} (hp : ProviderOK p) (hi : CtxInv p c) (name : String) (v : Value)
    (hk : staticallyKnown p (.var 0 [name]) = true) : CtxInv p (c.setLocal name v) := by
  refine ⟨fun n hn hloc => ?_, fun n l hl hv => ?_⟩
  · have hne : name ≠ n := by
      intro e; subst e
      have h2 := hp _ hn
      simp [staticallyKnown, hloc, h2] at hk
    simp only [ECtx.setLocal]
    rw [Locals.get_set_ne _ _ _ _ hne]; exact hi.1 n hn hloc
  · simp only [ECtx.setLocal]
    by_cases hne : name = n
    · subst hne; rw [Locals.get_set_self]; rfl
    · rw [Locals.get_set_ne _ _ _ _ hne]; exact hi.2 n l hl hv

theorem map_pair_ok {α} (r : Except String α) (c c' : ECtx) (v : α) :
    (Except.map (fun x => (x, c)) r = .ok (v, c')) ↔ r = .ok v ∧ c = c' := by
  cases r with
  | error e => simp [Except.map]
  | ok a => simp [Except.map]

theorem map_ok_snd {α β} (r : Except String α) (g : α → β) (c c' : ECtx) (v : β)
    (h : Except.map (fun x => (g x, c)) r = .ok (v, c')) : c' = c := by
  cases r with
  | error e => cases h
  | ok a => simp [Except.map] at h; exact h.2.symm

theorem call_known_inv (p : SKProvider) (f : Expr) (args : List Expr) (h : staticallyKnown p (.call f args) = true) :
    ∃ n, f = .var 0 [n] ∧ staticallyKnownAll p args = true ∧
      (builtinStaticallyKnownValue n || ((p.local? n).isNone && p.queryFunction n)) = true := by
  simp only [staticallyKnown] at h
  split at h
  · rename_i names
    split at h
    · cases h
    · rename_i hka
      split at h
      · rename_i n
        exact ⟨n, rfl, by simpa using hka, h⟩
      · cases h
  · cases h

/-- the callee of a known call evaluates, in both environments and without touching the
    context, to the same builtin or asm-builtin function -/
theorem callee_eval (p : SKProvider) (env1 env2 : EvalEnv) (ag : Agree p env1 env2) (c : ECtx) (n : String)
    (hkn : (builtinStaticallyKnownValue n || ((p.local? n).isNone && p.queryFunction n)) = true) (hinv : CtxInv p c) :
    ∃ fv, eval env1 c (.var 0 [n]) = .ok (fv, c) ∧ eval env2 c (.var 0 [n]) = .ok (fv, c) ∧ fv.shouldPropagate = false ∧
      (fv = .builtin n ∨ ∃ n', fv = .asmBuiltin n') := by
  by_cases hb : isBuiltinName n = true
  · exact ⟨.builtin n, by simp [eval, hb], by simp [eval, hb], rfl, Or.inl rfl⟩
  · have hq : (p.local? n).isNone = true ∧ p.queryFunction n = true := by
      cases h1 : builtinStaticallyKnownValue n with
      | true => exact absurd (builtinKnown_isBuiltin n h1) hb
      | false => simpa [h1] using hkn
    have hloc : p.local? n = none := by
      cases hh : p.local? n with
      | none => rfl
      | some l => rw [hh] at hq; cases hq.1
    have hl := hinv.1 n hq.2 hloc
    have hq := hq.2
    obtain ⟨n', e1, e2⟩ := ag.callee n hq (by simpa using hb)
    refine ⟨.asmBuiltin n', ?_, ?_, rfl, Or.inr ⟨n', rfl⟩⟩
    · simp [eval, hb, hl, e1, Except.map]
    · simp [eval, hb, hl, e2, Except.map]

theorem call_static (p : SKProvider) (env1 env2 : EvalEnv) (ag : Agree p env1 env2) (c : ECtx) (n : String) (args : List Expr)
    (hkn : (builtinStaticallyKnownValue n || ((p.local? n).isNone && p.queryFunction n)) = true) (hinv : CtxInv p c)
    (iha : evalArgs env2 c [] args = evalArgs env1 c [] args ∧ ∀ r c', evalArgs env1 c [] args = .ok (r, c') → CtxInv p c') :
    eval env2 c (.call (.var 0 [n]) args) = eval env1 c (.call (.var 0 [n]) args) ∧
      ∀ v c', eval env1 c (.call (.var 0 [n]) args) = .ok (v, c') → CtxInv p c' := by
  obtain ⟨fv, h1, h2, hnp, hfv⟩ := callee_eval p env1 env2 ag c n hkn hinv
  generalize Expr.var 0 [n] = f at h1 h2 ⊢
  rw [eval, eval, h1, h2]
  simp only [hnp, Bool.false_eq_true, if_false, iha.1]
  cases ha : evalArgs env1 c [] args with
  | error m => exact ⟨rfl, fun _ _ h => by cases h⟩
  | ok x =>
    obtain ⟨r, c1⟩ := x
    have hc1 := iha.2 r c1 ha
    cases r with
    | inl v => exact ⟨rfl, fun _ _ h => by injection h with h; injection h with _ h2; rw [← h2]; exact hc1⟩
    | inr vs =>
      rcases hfv with hfv | ⟨n', hfv⟩
      · subst hfv
        exact ⟨rfl, fun _ _ h => by rw [map_ok_snd _ id _ _ _ h]; exact hc1⟩
      · subst hfv
        simp only [ag.fn]
        exact ⟨trivial, fun _ _ h => by rw [map_ok_snd _ id _ _ _ h]; exact hc1⟩

set_option maxHeartbeats 4000000 in
/-- **what "statically known" means**: evaluation in two environments that agree on what the
    analysis calls known gives the same result (value or error text, and context) -/
theorem eval_static (p : SKProvider) (hp : ProviderOK p) (env1 env2 : EvalEnv) (ag : Agree p env1 env2) :
    ∀ c e, staticallyKnown p e = true → CtxInv p c →
      eval env2 c e = eval env1 c e ∧ ∀ v c', eval env1 c e = .ok (v, c') → CtxInv p c' := by
  intro c e
  apply eval.induct env1
    (motive_1 := fun c e => staticallyKnown p e = true → CtxInv p c →
      eval env2 c e = eval env1 c e ∧ ∀ v c', eval env1 c e = .ok (v, c') → CtxInv p c')
    (motive_2 := fun c acc es => staticallyKnownAll p es = true → CtxInv p c →
      evalArgs env2 c acc es = evalArgs env1 c acc es ∧ ∀ r c', evalArgs env1 c acc es = .ok (r, c') → CtxInv p c')
    (motive_3 := fun c last es => staticallyKnownAll p es = true → CtxInv p c →
      evalBlock env2 c last es = evalBlock env1 c last es ∧ ∀ v c', evalBlock env1 c last es = .ok (v, c') → CtxInv p c')
  case case4 =>
    intro locals name hb hl hk hinv
    have hv : env2.var 0 [name] = env1.var 0 [name] := by
      simp only [staticallyKnown] at hk
      split at hk
      · rename_i l hpl
        have := hinv.2 name l hpl hk
        rw [hl] at this; cases this
      · exact ag.var 0 [name] hk
    have ee : ∀ env : EvalEnv, eval env locals (.var 0 [name]) = (env.var 0 [name]).map (·, locals) := by
      intro env; simp [eval, hb, hl]
    rw [ee, ee, hv]
    exact ⟨rfl, fun v c' h => by rw [((map_pair_ok _ _ _ _).mp h).2] at hinv; exact hinv⟩
  case case5 =>
    intro locals level path hx hk hinv
    have hq : p.queryVariable level path = true := by
      simp only [staticallyKnown] at hk
      first
        | exact hk
        | (split at hk
           · rename_i n; exact absurd rfl (fun e => hx n rfl e)
           · exact hk)
    have ee : ∀ env : EvalEnv, eval env locals (.var level path) = (env.var level path).map (·, locals) := by
      intro env; rw [eval]; exact hx
    rw [ee, ee, ag.var level path hq]
    exact ⟨rfl, fun v c' h => by rw [((map_pair_ok _ _ _ _).mp h).2] at hinv; exact hinv⟩
  case case14 =>
    intro locals r name v locals1 hx hnp ih1 hk hinv
    have hk' : staticallyKnown p (.var 0 [name]) = true ∧ staticallyKnown p r = true := by
      simpa [staticallyKnown] using hk
    obtain ⟨e1, i1⟩ := ih1 hk'.2 hinv
    have hnp' : v.shouldPropagate = false := by simpa using hnp
    simp only [eval, e1, hx, hnp', Bool.false_eq_true, if_false]
    refine ⟨trivial, fun v' c' h => ?_⟩
    injection h with h; injection h with _ h2
    rw [← h2]
    exact CtxInv.setLocal hp (i1 _ _ hx) name v hk'.1
  case case65 | case66 | case67 | case68 | case69 | case70 | case71 | case72 | case73 =>
    intros
    rename_i hk hinv
    obtain ⟨n, hf, hka, hkn⟩ := call_known_inv p _ _ hk
    subst hf
    obtain ⟨fv, h1, h2, hnp, hfv⟩ := callee_eval p env1 env2 ag _ n hkn hinv
    simp only [h1, Except.ok.injEq, Prod.mk.injEq, reduceCtorEq] at *
    all_goals (
      try (obtain ⟨rfl, rfl⟩ := ‹fv = _ ∧ _ = _›)
      first
        | (simp_all; done)
        | exact call_static p env1 env2 ag _ n _ hkn hinv (by apply_assumption <;> assumption))
  case case56 =>
    intros; rename_i hk hinv; simp only [staticallyKnown, staticallyKnownAll, Bool.and_eq_true] at hk; simp_all [eval, evalArgs, evalBlock]
    intro v c' h
    split at h
    · cases h
    · split at h
      · cases h
      · have := map_ok_snd _ _ _ _ _ h; subst this; simp_all
  all_goals (intros; try (rename_i hk hinv; simp only [staticallyKnown, staticallyKnownAll, Bool.and_eq_true] at hk; first
    | (simp_all [eval, evalArgs, evalBlock]; done)
    | (simp_all [eval, evalArgs, evalBlock, map_pair_ok]; done)
    | (simp_all [eval, evalArgs, evalBlock]; intro v c' h; have := map_ok_snd _ _ _ _ _ h; subst this; simp_all; done)
    | (simp_all [eval, evalArgs, evalBlock]; intro v c' h; split at h <;> cases h)
    | skip))

/-! ## the one-directional form: a definite result survives the refinement of unknown answers -/

/-- the second environment answers every known query the first answers definitely, identically -/
structure AgreeLe (p : SKProvider) (env1 env2 : EvalEnv) : Prop where
  var : ∀ l path, p.queryVariable l path = true → ∀ v, env1.var l path = .ok v → v ≠ .unknown → env2.var l path = .ok v
  fn : ∀ n vs c v, env1.fn (.asmBuiltin n) vs c = .ok v → v ≠ .unknown → env2.fn (.asmBuiltin n) vs c = .ok v
  callee : ∀ n, p.queryFunction n = true → isBuiltinName n = false →
    (∃ n', env1.var 0 [n] = .ok (.asmBuiltin n') ∧ env2.var 0 [n] = .ok (.asmBuiltin n')) ∨ env1.var 0 [n] = .ok .unknown

theorem ne_unknown_of_not_propagate {v : Value} (h : ¬ v.shouldPropagate = true) : v ≠ .unknown := by
  intro e; subst e; exact h rfl

def Value.isUnk : Value → Bool
  | .unknown => true
  | _ => false

theorem isUnk_of_not_propagate (v : Value) (h : v.shouldPropagate = false) : v.isUnk = false := by
  cases v <;> simp_all [Value.isUnk, Value.shouldPropagate]

theorem isUnk_failed (m : String) : (Value.failed m).isUnk = false := rfl
theorem isUnk_void : Value.void.isUnk = false := rfl
theorem isUnk_int (b : BI) : (Value.int b).isUnk = false := rfl
theorem isUnk_str (s : List Char) (e : Enc) : (Value.str s e).isUnk = false := rfl
theorem isUnk_bool (b : Bool) : (Value.bool b).isUnk = false := rfl
theorem isUnk_builtin (n : String) : (Value.builtin n).isUnk = false := rfl
theorem isUnk_asmBuiltin (n : String) : (Value.asmBuiltin n).isUnk = false := rfl
theorem isUnk_fn (n : Nat) : (Value.fn n).isUnk = false := rfl
theorem isUnk_unknown : Value.unknown.isUnk = true := rfl

theorem callee_eval' (p : SKProvider) (env1 env2 : EvalEnv)
    (hc : ∀ n, p.queryFunction n = true → isBuiltinName n = false →
      ∃ n', env1.var 0 [n] = .ok (.asmBuiltin n') ∧ env2.var 0 [n] = .ok (.asmBuiltin n'))
    (c : ECtx) (n : String)
    (hkn : (builtinStaticallyKnownValue n || ((p.local? n).isNone && p.queryFunction n)) = true) (hinv : CtxInv p c) :
    ∃ fv, eval env1 c (.var 0 [n]) = .ok (fv, c) ∧ eval env2 c (.var 0 [n]) = .ok (fv, c) ∧ fv.shouldPropagate = false ∧
      (fv = .builtin n ∨ ∃ n', fv = .asmBuiltin n') := by
  by_cases hb : isBuiltinName n = true
  · exact ⟨.builtin n, by simp [eval, hb], by simp [eval, hb], rfl, Or.inl rfl⟩
  · have hq : (p.local? n).isNone = true ∧ p.queryFunction n = true := by
      cases h1 : builtinStaticallyKnownValue n with
      | true => exact absurd (builtinKnown_isBuiltin n h1) hb
      | false => simpa [h1] using hkn
    have hloc : p.local? n = none := by
      cases hh : p.local? n with
      | none => rfl
      | some l => rw [hh] at hq; cases hq.1
    have hl := hinv.1 n hq.2 hloc
    have hq := hq.2
    obtain ⟨n', e1, e2⟩ := hc n hq (by simpa using hb)
    refine ⟨.asmBuiltin n', ?_, ?_, rfl, Or.inr ⟨n', rfl⟩⟩
    · simp [eval, hb, hl, e1, Except.map]
    · simp [eval, hb, hl, e2, Except.map]

theorem callee_evalU (p : SKProvider) (env1 env2 : EvalEnv)
    (hc : ∀ n, p.queryFunction n = true → isBuiltinName n = false →
      (∃ n', env1.var 0 [n] = .ok (.asmBuiltin n') ∧ env2.var 0 [n] = .ok (.asmBuiltin n')) ∨ env1.var 0 [n] = .ok .unknown)
    (c : ECtx) (n : String)
    (hkn : (builtinStaticallyKnownValue n || ((p.local? n).isNone && p.queryFunction n)) = true) (hinv : CtxInv p c) :
    ∃ fv, eval env1 c (.var 0 [n]) = .ok (fv, c) ∧
      ((eval env2 c (.var 0 [n]) = .ok (fv, c) ∧ fv.shouldPropagate = false ∧ (fv = .builtin n ∨ ∃ n', fv = .asmBuiltin n')) ∨
        fv = .unknown) := by
  by_cases hb : isBuiltinName n = true
  · exact ⟨.builtin n, by simp [eval, hb], Or.inl ⟨by simp [eval, hb], rfl, Or.inl rfl⟩⟩
  · have hq : (p.local? n).isNone = true ∧ p.queryFunction n = true := by
      cases h1 : builtinStaticallyKnownValue n with
      | true => exact absurd (builtinKnown_isBuiltin n h1) hb
      | false => simpa [h1] using hkn
    have hloc : p.local? n = none := by
      cases hh : p.local? n with
      | none => rfl
      | some l => rw [hh] at hq; cases hq.1
    have hl := hinv.1 n hq.2 hloc
    have hq := hq.2
    rcases hc n hq (by simpa using hb) with ⟨n', e1, e2⟩ | e1
    · refine ⟨.asmBuiltin n', ?_, Or.inl ⟨?_, rfl, Or.inr ⟨n', rfl⟩⟩⟩
      · simp [eval, hb, hl, e1, Except.map]
      · simp [eval, hb, hl, e2, Except.map]
    · refine ⟨.unknown, ?_, Or.inr rfl⟩
      simp [eval, hb, hl, e1, Except.map]

theorem call_static_le (p : SKProvider) (env1 env2 : EvalEnv) (ag : AgreeLe p env1 env2) (c : ECtx) (n : String) (args : List Expr)
    (hkn : (builtinStaticallyKnownValue n || ((p.local? n).isNone && p.queryFunction n)) = true) (hinv : CtxInv p c)
    (iha : ∀ r c', evalArgs env1 c [] args = .ok (r, c') → (∀ u, r = .inl u → u.isUnk = false) →
      evalArgs env2 c [] args = .ok (r, c') ∧ CtxInv p c')
    (v : Value) (c' : ECtx) (hev : eval env1 c (.call (.var 0 [n]) args) = .ok (v, c')) (hne : v.isUnk = false) :
    eval env2 c (.call (.var 0 [n]) args) = .ok (v, c') ∧ CtxInv p c' := by
  obtain ⟨fv, h1, hcase⟩ := callee_evalU p env1 env2 ag.callee c n hkn hinv
  rcases hcase with ⟨h2, hnp, hfv⟩ | hunk
  case inr =>
    subst hunk
    generalize Expr.var 0 [n] = f at h1 hev ⊢
    rw [eval, h1] at hev
    simp only [Value.shouldPropagate, if_true] at hev
    injection hev with hev; injection hev with hu _
    subst hu
    cases hne
  generalize Expr.var 0 [n] = f at h1 h2 hev ⊢
  rw [eval, h1] at hev
  rw [eval, h2]
  simp only [hnp, Bool.false_eq_true, if_false] at hev ⊢
  cases ha : evalArgs env1 c [] args with
  | error m => rw [ha] at hev; cases hev
  | ok x =>
    obtain ⟨r, c1⟩ := x
    rw [ha] at hev
    cases r with
    | inl u =>
      simp only at hev
      injection hev with hev; injection hev with hu hc; subst hu; subst hc
      obtain ⟨e2, i2⟩ := iha _ _ ha (fun u' h => by injection h with h; rw [← h]; exact hne)
      rw [e2]; exact ⟨rfl, i2⟩
    | inr vs =>
      obtain ⟨e2, i2⟩ := iha _ _ ha (fun u' h => by cases h)
      rw [e2]
      simp only at hev ⊢
      rcases hfv with hfv | ⟨n', hfv⟩
      · subst hfv
        simp only at hev ⊢
        have := map_ok_snd _ id _ _ _ hev
        subst this
        exact ⟨hev, i2⟩
      · subst hfv
        simp only at hev ⊢
        have := map_ok_snd _ id _ _ _ hev
        subst this
        obtain ⟨hv, _⟩ := (map_pair_ok _ _ _ _).mp hev
        rw [ag.fn n' vs _ v hv (by intro e; subst e; cases hne)]
        exact ⟨rfl, i2⟩

set_option maxHeartbeats 4000000 in
theorem eval_static_le (p : SKProvider) (hp : ProviderOK p) (env1 env2 : EvalEnv) (ag : AgreeLe p env1 env2) :
    ∀ c e, staticallyKnown p e = true → CtxInv p c →
      ∀ v c', eval env1 c e = .ok (v, c') → v.isUnk = false → eval env2 c e = .ok (v, c') ∧ CtxInv p c' := by
  intro c e
  apply eval.induct env1
    (motive_1 := fun c e => staticallyKnown p e = true → CtxInv p c →
      ∀ v c', eval env1 c e = .ok (v, c') → v.isUnk = false → eval env2 c e = .ok (v, c') ∧ CtxInv p c')
    (motive_2 := fun c acc es => staticallyKnownAll p es = true → CtxInv p c →
      ∀ r c', evalArgs env1 c acc es = .ok (r, c') → (∀ u, r = .inl u → u.isUnk = false) → evalArgs env2 c acc es = .ok (r, c') ∧ CtxInv p c')
    (motive_3 := fun c last es => staticallyKnownAll p es = true → CtxInv p c →
      ∀ v c', evalBlock env1 c last es = .ok (v, c') → v.isUnk = false → evalBlock env2 c last es = .ok (v, c') ∧ CtxInv p c')
  all_goals (intros; try (rename_i hk hinv v' c'' hev hne; simp only [staticallyKnown, staticallyKnownAll, Bool.and_eq_true] at hk; first
    | (simp_all [eval, evalArgs, evalBlock, isUnk_of_not_propagate, isUnk_failed, isUnk_void, isUnk_int, isUnk_str, isUnk_bool, isUnk_builtin, isUnk_asmBuiltin, isUnk_fn, isUnk_unknown]; done)
    | (simp_all [eval, evalArgs, evalBlock, map_pair_ok, isUnk_of_not_propagate, isUnk_failed, isUnk_void, isUnk_int, isUnk_str, isUnk_bool, isUnk_builtin, isUnk_asmBuiltin, isUnk_fn, isUnk_unknown]; done)
    | (simp_all [eval, evalArgs, evalBlock, map_pair_ok, isUnk_of_not_propagate, isUnk_failed, isUnk_void, isUnk_int, isUnk_str, isUnk_bool, isUnk_builtin, isUnk_asmBuiltin, isUnk_fn, isUnk_unknown]; obtain ⟨rfl, rfl⟩ := hev; simp_all [eval, evalArgs, evalBlock, map_pair_ok, isUnk_of_not_propagate, isUnk_failed, isUnk_void, isUnk_int, isUnk_str, isUnk_bool, isUnk_builtin, isUnk_asmBuiltin, isUnk_fn, isUnk_unknown]; done)
    | skip))
  case case4 =>
    rename_i locals name hb hl
    have ee : ∀ env : EvalEnv, eval env locals (.var 0 [name]) = (env.var 0 [name]).map (·, locals) := by
      intro env; simp [eval, hb, hl]
    rw [ee] at hev ⊢
    obtain ⟨hv, hc⟩ := (map_pair_ok _ _ _ _).mp hev
    subst hc
    have hq : p.queryVariable 0 [name] = true := by
      split at hk
      · rename_i l hpl
        have := hinv.2 name l hpl hk
        rw [hl] at this; cases this
      · exact hk
    rw [ag.var 0 [name] hq v' hv (by intro e; subst e; simp [isUnk_unknown] at hne)]
    exact ⟨rfl, hinv⟩
  case case5 =>
    rename_i locals level path hx
    have ee : ∀ env : EvalEnv, eval env locals (.var level path) = (env.var level path).map (·, locals) := by
      intro env; rw [eval]; exact hx
    rw [ee] at hev ⊢
    obtain ⟨hv, hc⟩ := (map_pair_ok _ _ _ _).mp hev
    subst hc
    have hq : p.queryVariable level path = true := by
      first
        | exact hk
        | (split at hk
           · rename_i n; exact absurd rfl (fun e => hx n rfl e)
           · exact hk)
    rw [ag.var level path hq v' hv (by intro e; subst e; simp [isUnk_unknown] at hne)]
    exact ⟨rfl, hinv⟩
  case case55 => simp_all [eval, evalArgs, evalBlock, map_pair_ok, isUnk_of_not_propagate, isUnk_failed, isUnk_void, isUnk_int, isUnk_str, isUnk_bool, isUnk_builtin, isUnk_asmBuiltin, isUnk_fn, isUnk_unknown]; split at hev <;> cases hev
  case case56 =>
    simp_all [eval, evalArgs, evalBlock, map_pair_ok, isUnk_of_not_propagate, isUnk_failed, isUnk_void, isUnk_int, isUnk_str, isUnk_bool, isUnk_builtin, isUnk_asmBuiltin, isUnk_fn, isUnk_unknown]
    split at hev
    · cases hev
    · split at hev
      · cases hev
      · have := map_ok_snd _ _ _ _ _ hev; subst this; simp_all
  case case14 =>
    rename_i locals r name v locals1 hx hnp ih1
    have hk' : staticallyKnown p (.var 0 [name]) = true ∧ staticallyKnown p r = true := by
      simpa [staticallyKnown] using hk
    have hnp' : v.shouldPropagate = false := by simpa using hnp
    obtain ⟨e1, i1⟩ := ih1 hk'.2 hinv v locals1 hx (isUnk_of_not_propagate v hnp')
    simp only [eval, e1, hx, hnp', Bool.false_eq_true, if_false] at hev ⊢
    injection hev with hev; injection hev with h1 h2
    subst h1; subst h2
    exact ⟨rfl, CtxInv.setLocal hp i1 name v hk'.1⟩
  case case66 | case68 | case69 | case70 | case71 =>
    obtain ⟨n, hf, hka, hkn⟩ := call_known_inv p _ _ (by simpa [staticallyKnown] using hk)
    subst hf
    obtain ⟨fv, h1, hcase⟩ := callee_evalU p env1 env2 ag.callee _ n hkn hinv
    rcases hcase with ⟨h2, hnp, hfv⟩ | hunk
    · simp only [h1, Except.ok.injEq, Prod.mk.injEq, reduceCtorEq] at *
      all_goals (
        try (obtain ⟨rfl, rfl⟩ := ‹fv = _ ∧ _ = _›)
        first
          | (simp_all; done)
          | exact call_static_le p env1 env2 ag _ n _ hkn hinv (by apply_assumption <;> assumption) _ _ hev hne)
    · subst hunk
      all_goals (
        rw [eval, h1] at hev; simp only [Value.shouldPropagate, if_true] at hev
        injection hev with hev; injection hev with hu _; subst hu; cases hne)

end Casm
