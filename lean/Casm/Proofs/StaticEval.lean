import Casm.Model.Inspect
/-!
# Casm.Proofs.StaticEval — what `is_value_statically_known` promises

If the analysis answers "statically known" for an expression, then its evaluation in two
environments that agree on everything the analysis calls known (known variables, the asm-builtin
functions) is the same — value, error text and resulting context alike — when started from the same
evaluation context.
-/
namespace Casm

theorem Locals.get_set_self (l : Locals) (n : String) (v : Value) : (l.set n v).get n = some v := by
  simp [Locals.get, Locals.set]

theorem Locals.get_set_ne (l : Locals) (n m : String) (v : Value) (h : n ≠ m) : (l.set n v).get m = l.get m := by
  have h1 : ((n == m) = false) := by simpa using h
  simp only [Locals.get, Locals.set, List.find?, h1]
  congr 1
  induction l with
  | nil => rfl
  | cons a t ih =>
    simp only [List.filter]
    by_cases ha : a.1 = n
    · have : (a.1 != n) = false := by simp [ha]
      have h2 : (a.1 == m) = false := by rw [ha]; exact h1
      simp only [this, List.find?, h2]; exact ih
    · have : (a.1 != n) = true := by simp [ha]
      simp only [this, List.find?]
      cases (a.1 == m) <;> simp [ih]

/-- what the two environments must agree on -/
structure Agree (p : SKProvider) (env1 env2 : EvalEnv) : Prop where
  var : ∀ l path, p.queryVariable l path = true → env2.var l path = env1.var l path
  fn : ∀ n vs c, env2.fn (.asmBuiltin n) vs c = env1.fn (.asmBuiltin n) vs c
  callee : ∀ n, p.queryFunction n = true → isBuiltinName n = false →
    ∃ n', env1.var 0 [n] = .ok (.asmBuiltin n') ∧ env2.var 0 [n] = .ok (.asmBuiltin n')

/-- a name the analysis treats as a known function is neither a local of the provider nor a known variable -/
def ProviderOK (p : SKProvider) : Prop :=
  ∀ n, p.queryFunction n = true → p.local? n = none ∧ p.queryVariable 0 [n] = false

/-- the evaluation context holds every local the provider calls known, and none named like a known function -/
def CtxInv (p : SKProvider) (c : ECtx) : Prop :=
  (∀ n, p.queryFunction n = true → c.locals.get n = none) ∧
  (∀ n l, p.local? n = some l → l.valueKnown = true → (c.locals.get n).isSome = true)

theorem builtinKnown_isBuiltin (n : String) (h : builtinStaticallyKnownValue n = true) : isBuiltinName n = true := by
  unfold builtinStaticallyKnownValue at h
  split at h
  · rename_i q hq
    have hm := List.mem_of_find?_eq_some hq
    have hn : (q.1 == n) = true := @List.find?_some _ (fun x : String × Bool => x.1 == n) q _ hq
    have hn' : q.1 = n := by simpa using hn
    have key : ∀ q ∈ Gen.builtinStaticallyKnown, q.2 = true → isBuiltinName q.1 = true := by decide
    rw [← hn']; exact key q hm h
  · cases h

theorem CtxInv.setLocal {p : SKProvider} {c : ECtx} (hp : ProviderOK p) (hi : CtxInv p c) (name : String) (v : Value)
    (hk : staticallyKnown p (.var 0 [name]) = true) : CtxInv p (c.setLocal name v) := by
  refine ⟨fun n hn => ?_, fun n l hl hv => ?_⟩
  · have hne : name ≠ n := by
      intro e; subst e
      obtain ⟨h1, h2⟩ := hp _ hn
      simp [staticallyKnown, h1, h2] at hk
    simp only [ECtx.setLocal]
    rw [Locals.get_set_ne _ _ _ _ hne]; exact hi.1 n hn
  · simp only [ECtx.setLocal]
    by_cases hne : name = n
    · subst hne; rw [Locals.get_set_self]; rfl
    · rw [Locals.get_set_ne _ _ _ _ hne]; exact hi.2 n l hl hv

end Casm
