import Casm.Proofs.EvalDefinite
import Casm.Proofs.FrontOKSb
/-!
# Casm.Proofs.CondStable — a condition decided once stays decided

`eval_simple` sees the declarations and the values of the symbols.  During the first loop of `assemble`
both only grow: names that resolve keep resolving to the same declaration, and a symbol that has a
definite value keeps it (`Later`).  A definite value of `eval_simple` — in particular the `true` or `false`
of an `#if` condition — is therefore the value `eval_simple` gives in every later state.
-/
namespace Casm

/-- the state `(d', defs')` is a later state of `(d, defs)`: global names that resolve keep resolving
    to the same declaration, and definite values are kept -/
structure Later (d : Decls) (defs : Defs) (d' : Decls) (defs' : Defs) : Prop where
  names : ∀ level path r, d.symbols.tryGetByName [] level path = some r → d'.symbols.tryGetByName [] level path = some r
  values : ∀ r v, slotVal defs r = .ok v → v.shouldPropagate = false → slotVal defs' r = .ok v

theorem Later.refl (d : Decls) (defs : Defs) : Later d defs d defs := ⟨fun _ _ _ h => h, fun _ _ h _ => h⟩

theorem Later.trans {d1 d2 d3 : Decls} {f1 f2 f3 : Defs} (a : Later d1 f1 d2 f2) (b : Later d2 f2 d3 f3) : Later d1 f1 d3 f3 :=
  ⟨fun l p r h => b.names l p r (a.names l p r h), fun r v h hv => b.values r v (a.values r v h hv) hv⟩

theorem simpleEnv_var_nil (d : Decls) (defs : Defs) (l : Nat) :
    (simpleEnv d defs).var l [] = match d.symbols.tryGetByName [] l [] with
      | some r => slotVal defs r
      | none => .ok .unknown := by
  simp [simpleEnv]
  rfl

theorem simpleEnv_var_single (d : Decls) (defs : Defs) (l : Nat) (n : String) :
    (simpleEnv d defs).var l [n] =
      if l == 0 && (n == "$" || n == "pc") then .ok .unknown
      else if l == 0 && isAsmBuiltinName n then .ok (.asmBuiltin n)
      else match d.symbols.tryGetByName [] l [n] with
        | some r => slotVal defs r
        | none => .ok .unknown := by
  simp [simpleEnv]
  rfl

theorem simpleEnv_var_multi (d : Decls) (defs : Defs) (l : Nat) (n m : String) (rest : List String) :
    (simpleEnv d defs).var l (n :: m :: rest) = match d.symbols.tryGetByName [] l (n :: m :: rest) with
      | some r => slotVal defs r
      | none => .ok .unknown := by
  simp [simpleEnv]
  rfl

theorem simpleEnv_defLe (d : Decls) (defs : Defs) (d' : Decls) (defs' : Defs) (h : Later d defs d' defs') :
    DefLe (simpleEnv d defs) (simpleEnv d' defs') := by
  refine ⟨?_, ?_, ?_⟩
  · intro l p v hv hp
    have tail : (match d.symbols.tryGetByName [] l p with
          | some r => slotVal defs r
          | none => Except.ok Value.unknown) = Except.ok v →
        (match d'.symbols.tryGetByName [] l p with
          | some r => slotVal defs' r
          | none => Except.ok Value.unknown) = Except.ok v := by
      intro hv
      cases hr : d.symbols.tryGetByName [] l p with
      | none => rw [hr] at hv; injection hv with hv; subst hv; cases hp
      | some r =>
        rw [hr] at hv
        rw [h.names l p r hr]
        exact h.values r v hv hp
    cases p with
    | nil =>
      rw [simpleEnv_var_nil] at hv ⊢
      exact tail hv
    | cons n rest =>
      cases rest with
      | cons m rest' =>
        rw [simpleEnv_var_multi] at hv ⊢
        exact tail hv
      | nil =>
        rw [simpleEnv_var_single] at hv ⊢
        by_cases h1 : (l == 0 && (n == "$" || n == "pc")) = true
        · rw [if_pos h1] at hv; injection hv with hv; subst hv; cases hp
        · rw [if_neg h1] at hv ⊢
          by_cases h2 : (l == 0 && isAsmBuiltinName n) = true
          · rw [if_pos h2] at hv ⊢; exact hv
          · rw [if_neg h2] at hv ⊢
            exact tail hv
  · intro f a c v hv hp
    have : (simpleEnv d defs).fn f a c = .ok .unknown := rfl
    rw [this] at hv; injection hv with hv; subst hv; cases hp
  · intro t c v hv hp
    have : (simpleEnv d defs).asm t c = .ok .unknown := rfl
    rw [this] at hv; injection hv with hv; subst hv; cases hp

/-- **a definite value of `eval_simple` is its value in every later state** -/
theorem evalSimple_later (d : Decls) (defs : Defs) (d' : Decls) (defs' : Defs) (h : Later d defs d' defs') (e : Expr) (v : Value)
    (hv : evalSimple d defs e = .ok v) (hp : v.shouldPropagate = false) : evalSimple d' defs' e = .ok v := by
  rw [evalSimple_eq] at hv ⊢
  cases he : eval (simpleEnv d defs) {} e with
  | error m => rw [he] at hv; cases hv
  | ok x =>
    obtain ⟨w, c⟩ := x
    rw [he] at hv
    have hw : w = v := by
      cases w <;> first | (injection hv) | cases hv
    subst hw
    rw [eval_definite _ _ (simpleEnv_defLe d defs d' defs' h) {} e w c he hp]
    exact hv

end Casm
