import Casm.Proofs.ModeMono
/-!
# Casm.Proofs.ModeMonoFirst — `ModeMono`'s pass-level lemmas for the first pass too

The item-level lemmas (`dispatch_guess`) never looked at the "first pass" flag; here the node, element
loop, pass and `resolve_once` lemmas are restated with that flag as a parameter.
-/
namespace Casm

theorem passNode_guessF (st : Static) (first : Bool) (ps pg ps' : PassSt) (n : AstNode) (k : Nat) (rel : SameRun ps pg)
    (h : passNode st first true ps n k = .ok ps') (hs : ps'.stable = true) :
    ∃ pg', passNode st first false pg n k = .ok pg' ∧ SameRun ps' pg' := by
  obtain ⟨r1, r2, r3⟩ := rel
  rw [passNode_eq] at h ⊢
  simp only at h ⊢
  rw [← r1, ← r2, ← r3]
  split at h
  · cases h
  · rename_i it hv
    try simp only [hv]
    split at h
    · cases h
    · rename_i defs' stable reported hd
      split at h
      · cases h
      · rename_i it' ha
        injection h with h
        subst h
        simp only [Bool.and_eq_true] at hs
        obtain ⟨_, hs2⟩ := hs
        subst hs2
        obtain ⟨b, rep', hg⟩ := dispatch_guess st ps.defs defs' _ rfl n k reported hd
        simp only [guessOf] at hg
        rw [hg]
        simp only [ha]
        exact ⟨_, rfl, rfl, rfl, rfl⟩

theorem go_guessF (st : Static) (first : Bool) (n : AstNode) :
    ∀ (fuel k : Nat) (ps pg ps' : PassSt), SameRun ps pg → passNodes.go st first true n k fuel ps = .ok ps' → ps'.stable = true →
      ∃ pg', passNodes.go st first false n k fuel pg = .ok pg' ∧ SameRun ps' pg' := by
  intro fuel
  induction fuel with
  | zero =>
    intro k ps pg ps' rel h _
    simp only [passNodes.go] at h ⊢
    injection h with h; subst h
    exact ⟨pg, rfl, rel⟩
  | succ f ih =>
    intro k ps pg ps' rel h hs
    simp only [passNodes.go] at h ⊢
    cases hp : passNode st first true ps n k with
    | error m => rw [hp] at h; cases h
    | ok ps1 =>
      rw [hp] at h
      simp only at h
      -- the tail is stable, hence so is the head
      have mono : ∀ (fuel k : Nat) (x y : PassSt), passNodes.go st first true n k fuel x = .ok y → y.stable = true → x.stable = true := by
        intro fuel
        induction fuel with
        | zero => intro k x y hh2 hy; simp only [passNodes.go] at hh2; injection hh2 with hh2; subst hh2; exact hy
        | succ g ihg =>
          intro k x y hh2 hy
          simp only [passNodes.go] at hh2
          cases hq : passNode st first true x n k with
          | error e => rw [hq] at hh2; cases hh2
          | ok x1 =>
            rw [hq] at hh2
            exact passNode_stable_mono st first true x x1 n k hq (ihg _ _ _ hh2 hy)
      have hs1 : ps1.stable = true := mono f (k + 1) ps1 ps' h hs
      obtain ⟨pg1, hg1, rel1⟩ := passNode_guessF st first ps pg ps1 n k rel hp hs1
      rw [hg1]
      exact ih (k + 1) ps1 pg1 ps' rel1 h hs

theorem passNodes_guessF (st : Static) (first : Bool) :
    ∀ (nodes : List AstNode) (ps pg ps' : PassSt), SameRun ps pg → passNodes st first true nodes ps = .ok ps' → ps'.stable = true →
      ∃ pg', passNodes st first false nodes pg = .ok pg' ∧ SameRun ps' pg' := by
  intro nodes
  induction nodes with
  | nil =>
    intro ps pg ps' rel h _
    simp only [passNodes] at h ⊢
    injection h with h; subst h
    exact ⟨pg, rfl, rel⟩
  | cons n rest ih =>
    intro ps pg ps' rel h hs
    rw [passNodes_cons] at h ⊢
    cases hg : passNodes.go st first true n 0 (nodeElems n) ps with
    | error e => rw [hg] at h; cases h
    | ok ps1 =>
      rw [hg] at h
      simp only at h
      have hs1 : ps1.stable = true := passNodes_stable_mono st first true rest ps1 ps' h hs
      obtain ⟨pg1, hg1, rel1⟩ := go_guessF st first n _ 0 ps pg ps1 rel hg hs1
      rw [hg1]
      exact ih ps1 pg1 ps' rel1 h hs

/-- **Where a strict pass (first or not) is stable, the guessing pass of the same kind computes the same state.** -/
theorem resolveOnce_guessF (st : Static) (first : Bool) (nodes : List AstNode) (d d' : Defs) (rep : List String)
    (h : resolveOnce st nodes first true d = .ok (d', true, rep)) :
    ∃ b rep', resolveOnce st nodes first false d = .ok (d', b, rep') := by
  unfold resolveOnce at h ⊢
  split at h
  · cases h
  · rename_i ps hp
    injection h with h; injection h with h1 h2; injection h2 with h2 _
    obtain ⟨pg, hg, rel⟩ := passNodes_guessF st first nodes _ _ ps ⟨rfl, rfl, rfl⟩ hp h2
    rw [hg]
    refine ⟨pg.stable, pg.reported, ?_⟩
    simp only
    rw [← rel.1, h1]

end Casm
