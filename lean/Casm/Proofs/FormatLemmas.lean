import Casm.Model.Format
import Casm.Proofs.BitsLemmas
/-! Lemmas about `bitsVal`, `toBitsMSB`, `chunks`. -/
namespace Casm

theorem bitsVal_eq_ofBits (l : List Bool) : bitsVal l = ofBits l := rfl

theorem bitsVal_cons (b : Bool) (l : List Bool) :
    bitsVal (b :: l) = (if b then 1 else 0) * 2 ^ l.length + bitsVal l := by
  simp only [bitsVal, List.foldl_cons]
  have := ofBits_foldl l (2 * 0 + if b then 1 else 0)
  simp only [ofBits] at this
  rw [this]; simp

theorem bitsVal_lt (l : List Bool) : bitsVal l < 2 ^ l.length := by
  induction l with
  | nil => simp [bitsVal]
  | cons b l ih =>
    rw [bitsVal_cons, List.length_cons, Nat.pow_succ]
    cases b <;> simp <;> omega

/-- expanding the value of a bit list to its length gives the list back -/
theorem toBitsMSB_bitsVal (l : List Bool) : toBitsMSB l.length (bitsVal l) = l := by
  induction l with
  | nil => simp [toBitsMSB]
  | cons b l ih =>
    have hlt := bitsVal_lt l
    have hp : 0 < 2 ^ l.length := Nat.two_pow_pos _
    unfold toBitsMSB
    rw [List.length_cons, List.range_succ_eq_map, List.map_cons, List.map_map]
    congr 1
    · -- head: bit l.length of the value
      simp only [Nat.add_sub_cancel, Nat.sub_zero]
      rw [bitsVal_cons]
      cases b
      · simp; rw [Nat.div_eq_of_lt hlt]
      · simp
        rw [Nat.div_eq_of_lt hlt]
    · -- tail
      conv => rhs; rw [← ih]
      unfold toBitsMSB
      apply List.map_congr_left
      intro j hj
      have hj' : j < l.length := List.mem_range.1 hj
      simp only [Function.comp]
      have e : l.length + 1 - 1 - (j + 1) = l.length - 1 - j := by omega
      rw [e, bitsVal_cons]
      -- the top bit contributes a multiple of 2^(len - 1 - j + 1)
      have hk : l.length = (l.length - 1 - j) + 1 + j := by omega
      generalize l.length - 1 - j = m at hk
      cases b
      · simp
      · simp only [if_true, Nat.one_mul]
        have : 2 ^ l.length = 2 ^ m * (2 * 2 ^ j) := by
          rw [hk, Nat.pow_add, Nat.pow_succ]; ac_rfl
        rw [this, Nat.mul_add_div (Nat.two_pow_pos m)]
        rw [Nat.mul_add_mod]

theorem chunkVal_bits (bits : Bits) (start k : Nat) :
    toBitsMSB k (chunkVal bits start k) = (List.range k).map fun j => readBit bits (start + j) := by
  unfold chunkVal
  have := toBitsMSB_bitsVal ((List.range k).map fun j => readBit bits (start + j))
  simpa using this

end Casm
