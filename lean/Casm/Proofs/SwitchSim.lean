import Casm.Proofs.FrozenS
import Casm.Proofs.SwitchPass
import Casm.Proofs.BudgetMono
import Casm.Proofs.Quiet
/-!
# Casm.Proofs.SwitchSim — the two settings of the static-value optimisation, step by step

`st` is the optimising assembler, `st.withStatic false` the one started with
`--debug-no-optimize-static`.  The state of the second is the state of the first with the
first-pass marks cleared (`Defs.unfS H`, `H` = the symbols marked under both settings).  One
resolver step of the optimising assembler on `d` and one step of the other on `d.unfS H` give
related results (`SimR`): the same error, or the same values, the same messages and — in every
pass but the first — the same stability flag; in the first pass a frozen instruction or data
element is reported stable by the optimising assembler only.
-/
namespace Casm

theorem off_opt (st : Static) : (st.withStatic false).opts.optStatic = false := rfl

/-- related results of one resolver step -/
def SimR (H : Nat → Bool) (first : Bool) (on off : ItemRes) : Prop :=
  match on with
  | .error e => off = .error e
  | .ok (d1, s1, r1) => ∃ s2, off = .ok (d1.unfS H, s2, r1) ∧ (s2 = true → s1 = true) ∧ (first = false → s2 = s1)

theorem simR_of_map (H : Nat → Bool) (first : Bool) (on off : ItemRes) (h : off = on.map (usRes H)) : SimR H first on off := by
  subst h
  cases on with
  | error e => rfl
  | ok x => obtain ⟨d1, s1, r1⟩ := x; exact ⟨s1, rfl, id, fun _ => rfl⟩

theorem allDefinite_off (H : Nat → Bool) (st : Static) (d : Defs) (ctx : RCtx) (cs : List IMatch) :
    allDefinite (st.withStatic false) (d.unfS H) ctx cs = allDefinite st d ctx cs := by
  unfold allDefinite
  rw [(switchEq st false (unfS_view H d) (evalFuel - 1)).rmatches]

/-- an instruction that carries no mark -/
theorem resolveInstruction_sim (H : Nat → Bool) (st : Static) (d : Defs) (ctx : RCtx) (ref : Nat)
    (hr : (d.instrs.getD ref default).resolved = false) (hfl : ctx.first = true → ctx.last = false) :
    SimR H ctx.first (resolveInstruction st d ctx ref) (resolveInstruction (st.withStatic false) (d.unfS H) ctx ref) := by
  unfold resolveInstruction
  simp only [unfS_instr, hr, Bool.false_eq_true, if_false, (switchEq st false (unfS_view H d) evalFuel).renc, off_opt, Bool.false_and]
  cases resolveEncoding st d evalFuel ctx ((d.instrs.getD ref default).cands.map (·.m)) {} with
  | error m => rfl
  | ok x =>
    obtain ⟨encs, reported⟩ := x
    simp only
    cases encs with
    | none => exact ⟨false, rfl, id, fun _ => rfl⟩
    | some l =>
    simp only [Option.bind_some]
    rcases Option.eq_none_or_eq_some (l.head?.map (·.2)) with hc | ⟨e, hc⟩
    · simp only [hc]; exact ⟨false, rfl, id, fun _ => rfl⟩
    · simp only [hc]
      have hset := unfS_setInstr H d ref { (d.instrs.getD ref default) with encoding := e }
      have hset' := unfS_setInstr H d ref { (d.instrs.getD ref default) with encoding := e, resolved := true }
      simp only [hr] at hset
      simp only at hset'
      by_cases hfz : (st.opts.optStatic && ctx.first && (d.instrs.getD ref default).known && (l.length == 1) &&
          allDefinite st d ctx ((d.instrs.getD ref default).cands.map (·.m))) = true
      · rw [if_pos hfz]
        have hfirst : ctx.first = true := by
          simp only [Bool.and_eq_true] at hfz; exact hfz.1.1.1.2
        have hlast := hfl hfirst
        simp only [hlast, Bool.false_and, Bool.false_eq_true, if_false, List.append_nil, hset']
        split
        · exact ⟨false, rfl, fun h => (by cases h), fun h => (by rw [hfirst] at h; cases h)⟩
        · exact ⟨true, rfl, id, fun _ => rfl⟩
      · rw [if_neg hfz]
        simp only [hset]
        split
        · exact ⟨false, rfl, id, fun _ => rfl⟩
        · exact ⟨true, rfl, id, fun _ => rfl⟩

/-- storing a data element that carries no mark -/
theorem dataStore_sim (H : Nat → Bool) (st : Static) (d : Defs) (ctx : RCtx) (ref : Nat) (sliced : Option BI)
    (hr : (d.datas.getD ref default).resolved = false) (hfl : ctx.first = true → ctx.last = false) :
    SimR H ctx.first (dataStore st d ctx ref sliced) (dataStore (st.withStatic false) (d.unfS H) ctx ref sliced) := by
  unfold dataStore
  simp only [unfS_data, off_opt, Bool.false_and, Bool.false_eq_true, if_false]
  cases sliced with
  | none => exact ⟨false, rfl, id, fun _ => rfl⟩
  | some b =>
    simp only
    have hset := unfS_setData H d ref { (d.datas.getD ref default) with encoding := b }
    have hset' := unfS_setData H d ref { (d.datas.getD ref default) with encoding := b, resolved := true }
    simp only [hr] at hset
    simp only at hset'
    by_cases hfz : (st.opts.optStatic && ctx.first && (d.datas.getD ref default).known && b.size.isSome) = true
    · rw [if_pos hfz]
      have hfirst : ctx.first = true := by
        simp only [Bool.and_eq_true] at hfz; exact hfz.1.1.2
      have hlast := hfl hfirst
      simp only [hlast, Bool.false_eq_true, if_false, hset']
      split
      · exact ⟨false, rfl, fun h => (by cases h), fun h => (by rw [hfirst] at h; cases h)⟩
      · exact ⟨true, rfl, id, fun _ => rfl⟩
    · rw [if_neg hfz]
      simp only [hset, hr]
      split
      · exact ⟨false, rfl, id, fun _ => rfl⟩
      · exact ⟨true, rfl, id, fun _ => rfl⟩

theorem resolveData_sim (H : Nat → Bool) (st : Static) (d : Defs) (ctx : RCtx) (ref : Nat) (sz : Option Nat) (e : Expr)
    (hr : (d.datas.getD ref default).resolved = false) (hfl : ctx.first = true → ctx.last = false) :
    SimR H ctx.first (resolveData st d ctx ref sz e) (resolveData (st.withStatic false) (d.unfS H) ctx ref sz e) := by
  unfold resolveData
  simp only [unfS_data, hr, Bool.false_eq_true, if_false, resolverEval_switch st false (unfS_view H d)]
  cases resolverEval st d ctx {} e with
  | error m => rfl
  | ok x =>
    obtain ⟨v, c⟩ := x
    simp only
    cases dataEnc (ctx.last || (d.datas.getD ref default).known) v with
    | error m => rfl
    | ok enc =>
      simp only
      cases dataCheck (ctx.last || (d.datas.getD ref default).known) sz enc with
      | error m => rfl
      | ok u => exact dataStore_sim H st d ctx ref _ hr hfl

/-- a constant that carries no mark, or the mark both assemblers have -/
theorem resolveConstant_sim (H : Nat → Bool) (st : Static) (d : Defs) (ctx : RCtx) (ref : Nat) (e : Expr)
    (hm : (d.sym ref).resolved = true → H ref = true) (hH : H ref = true → (d.sym ref).resolved = true) :
    resolveConstant (st.withStatic false) (d.unfS H) ctx ref e = (resolveConstant st d ctx ref e).map (usRes H) := by
  unfold resolveConstant
  rw [resolverEval_switch st false (unfS_view H d)]
  simp only [sym_unfS, off_opt, Bool.false_and]
  cases hr : (d.sym ref).resolved with
  | true =>
    have : ((d.sym ref).keep (H ref)).resolved = true := by simp [SymDef.keep, hr, hm hr]
    simp only [this, if_true]
    rfl
  | false =>
    have : ((d.sym ref).keep (H ref)).resolved = false := by simp [SymDef.keep, hr]
    simp only [this, Bool.false_eq_true, if_false]
    have hh : H ref = false := by
      cases h : H ref with
      | false => rfl
      | true => rw [hH h] at hr; cases hr
    cases resolverEval st d ctx {} e with
    | error m => rfl
    | ok x =>
      obtain ⟨v, c⟩ := x
      have hv : ((d.sym ref).keep (H ref)).value = (d.sym ref).value := rfl
      have hn : ((d.sym ref).keep (H ref)).noEmit = (d.sym ref).noEmit := rfl
      have hk : ((d.sym ref).keep (H ref)).known = (d.sym ref).known := rfl
      simp only [hv, hn, hk]
      by_cases hc : (!valuesStable v (d.sym ref).value) = true
      · rw [if_pos hc, if_pos hc]
        simp only [Except.map, usRes, setSym_unfS, SymDef.keep, hh, Bool.and_false]
      · rw [if_neg hc, if_neg hc]
        simp only [Except.map, usRes, setSym_unfS, SymDef.keep, hh, Bool.and_false]

/-- **one step of an item that carries no mark (or the mark both assemblers have)** -/
theorem dispatch_sim_unmarked (H : Nat → Bool) (st : Static) (d : Defs) (ctx : RCtx) (n : AstNode) (k : Nat)
    (hm : markedS H d n k = false) (hH : ∀ r, H r = true → (d.sym r).resolved = true)
    (hfl : ctx.first = true → ctx.last = false) :
    SimR H ctx.first (dispatch st d ctx n k) (dispatch (st.withStatic false) (d.unfS H) ctx n k) := by
  unfold dispatch
  split
  · rename_i level name kind ne ref
    cases kind with
    | label =>
      refine simR_of_map H _ _ _ ?_
      exact resolveLabel_us H st d ctx ref
    | constant e =>
      refine simR_of_map H _ _ _ (resolveConstant_sim H st d ctx ref e (fun hr => ?_) (hH ref))
      simp only [markedS, hr, Bool.true_and, Bool.not_eq_false'] at hm
      exact hm
  · exact resolveInstruction_sim H st d ctx _ hm hfl
  · exact resolveData_sim H st d ctx _ _ _ hm hfl
  · refine simR_of_map H _ _ _ ?_
    rw [← resolveRes_us H st d ctx _ _]
    simp only [resolveRes, resolverEval_switch st false (SameView.refl (d.unfS H))]
  · refine simR_of_map H _ _ _ ?_
    rw [← resolveAlign_us H st d ctx _ _]
    simp only [resolveAlign, resolverEval_switch st false (SameView.refl (d.unfS H))]
  · refine simR_of_map H _ _ _ ?_
    rw [← resolveAddr_us H st d ctx _ _]
    simp only [resolveAddr, resolverEval_switch st false (SameView.refl (d.unfS H))]
  · refine simR_of_map H _ _ _ ?_
    rw [← resolveAssert_us H st d ctx _]
    simp only [resolveAssert, resolverEval_switch st false (SameView.refl (d.unfS H))]
  · exact ⟨true, rfl, id, fun _ => rfl⟩

/-! ## marked items: the other assembler recomputes what the mark keeps -/

theorem valuesStable_refl (v : Value) : valuesStable v v = true := by
  unfold valuesStable
  split <;> simp

theorem instr_recomputes_off (H : Nat → Bool) (st : Static) (nodes : List AstNode) (d0 d : Defs) (g : Good st nodes d0 d)
    (pre : List AstNode) (src : List Char) (ref : Nat) (post : List AstNode) (hsplit : nodes = pre ++ .instr src (some ref) :: post)
    (hm : (d.instrs.getD ref default).resolved = true) (ctx : RCtx)
    (hc : ctx.symCtx = ctxAfter st [] (pre ++ [.instr src (some ref)])) :
    resolveInstruction (st.withStatic false) (d.unfS H) ctx ref = .ok (d.unfS H, true, []) := by
  obtain ⟨s1, ctx1, encs, rp, e, w1, w2, w3, w4, w5, w6, w7, w8, w9⟩ := g.hi ref hm
  have hsc : ctx.symCtx = ctx1.symCtx := by
    rw [hc, w3 pre src post hsplit]; simp [ctxAfter, stepCtx]
  have rel : SRel d0 s1 d ctx1 ctx := ⟨w1, g.rd, hsc, w2⟩
  have hrec := frozen_instruction_sound st d0 s1 d ctx1 ctx rel 64 _
    (fun c hc => by obtain ⟨mi, hmi, rfl⟩ := List.mem_map.mp hc; exact w4 mi hmi) w5 encs rp w6 w7
  unfold resolveInstruction
  simp only [unfS_instr, Bool.false_eq_true, if_false, (switchEq st false (unfS_view H d) evalFuel).renc, (g.ic ref).1, hrec]
  cases encs with
  | nil => cases w8
  | cons e' t =>
    simp only [List.head?_cons, Option.some.injEq] at w8
    subst w8
    simp only [Option.bind_some, List.head?_cons, Option.map_some, off_opt, Bool.false_and, Bool.false_eq_true, if_false, ← w9]
    have hset : ({ d.unfS H with instrs := ((d.unfS H).instrs.set ref
        ⟨(d0.instrs.getD ref default).cands, (d.instrs.getD ref default).known, (d.instrs.getD ref default).encoding, false⟩) } : Defs)
        = d.unfS H := by
      have := set_getD_self (d.unfS H).instrs ref default
      rw [unfS_instr] at this
      simp only [(g.ic ref).1] at this
      simp only [this]
    simp only [hset, beq_self_eq_true, Bool.and_self, Bool.not_true, Bool.false_eq_true, if_false]

theorem data_recomputes_off (H : Nat → Bool) (st : Static) (nodes : List AstNode) (d0 d : Defs) (g : Good st nodes d0 d)
    (pre : List AstNode) (sz : Option Nat) (es : List Expr) (refs : List Nat) (post : List AstNode) (k : Nat)
    (hsplit : nodes = pre ++ .data sz es refs :: post) (hk : k < es.length)
    (hm : (d.datas.getD (refs.getD k 0) default).resolved = true) (ctx : RCtx) :
    resolveData (st.withStatic false) (d.unfS H) ctx (refs.getD k 0) sz (es.getD k default) = .ok (d.unfS H, true, []) := by
  obtain ⟨v, c, b0, w1, w2, w3, w4⟩ := g.hd _ hm pre sz es refs post k hsplit hk rfl
  unfold resolveData
  simp only [unfS_data, Bool.false_eq_true, if_false, resolverEval_switch st false (unfS_view H d), w1, dataEnc_any _ v b0 w2, dataCheck_any _ sz b0 w3]
  unfold dataStore
  simp only [unfS_data, Option.map_some, off_opt, Bool.false_and, Bool.false_eq_true, if_false, ← w4]
  have hset : ({ d.unfS H with datas := ((d.unfS H).datas.set (refs.getD k 0)
      ⟨(d.datas.getD (refs.getD k 0) default).known, (d.datas.getD (refs.getD k 0) default).encoding, false⟩) } : Defs)
      = d.unfS H := by
    have := set_getD_self (d.unfS H).datas (refs.getD k 0) default
    rw [unfS_data] at this
    simp only [this]
  simp only [hset, beq_self_eq_true, Bool.and_self, Bool.not_true, Bool.false_eq_true, if_false]

theorem sym_resolved_ok (d : Defs) (r : Nat) (h : (d.sym r).resolved = true) : SymOK d r := by
  unfold Defs.sym at h
  cases hs : d.symbols.getD r none with
  | none => rw [hs] at h; cases h
  | some s => exact Or.inr ⟨s, hs⟩

theorem const_recomputes_off (H : Nat → Bool) (st : Static) (nodes : List AstNode) (d0 d : Defs) (gc : GoodC st nodes d0 d H)
    (l : Nat) (nm : String) (e : Expr) (ne : Bool) (r : Nat) (hmem : AstNode.symbol l nm (.constant e) ne (some r) ∈ nodes)
    (hm : (d.sym r).resolved = true) (hh : H r = false) (ctx : RCtx) :
    resolveConstant (st.withStatic false) (d.unfS H) ctx r e = .ok (d.unfS H, true, []) := by
  obtain ⟨_, v, c, hp, hv⟩ := gc.2 r hm hh l nm e ne hmem
  unfold resolveConstant
  rw [resolverEval_switch st false (unfS_view H d), hp]
  have hres : ((d.unfS H).sym r).resolved = false := by rw [sym_unfS]; simp [SymDef.keep, hh]
  have hval : ((d.unfS H).sym r).value = v := by rw [sym_unfS]; exact hv
  simp only [hres, Bool.false_eq_true, if_false, off_opt, Bool.false_and, hval, valuesStable_refl, Bool.not_true]
  have hok : SymOK (d.unfS H) r := by
    rcases sym_resolved_ok d r hm with h | ⟨s, hs⟩
    · exact Or.inl (by rw [unfS_length]; exact h)
    · right
      refine ⟨s.keep (H r), ?_⟩
      rw [unfS_symbols_getD, hs]
      rfl
  have : ({ (d.unfS H).sym r with value := v, resolved := false } : SymDef) = (d.unfS H).sym r := by
    rw [← hval, ← hres]
  rw [this, setSym_self _ _ hok]

/-- **one resolver step under the two settings** -/
theorem dispatch_sim (H : Nat → Bool) (st : Static) (nodes : List AstNode) (d0 d : Defs)
    (g : Good st nodes d0 d) (gc : GoodC st nodes d0 d H)
    (pre : List AstNode) (n : AstNode) (post : List AstNode) (hsplit : nodes = pre ++ n :: post)
    (ctx : RCtx) (hctx : ctx.symCtx = ctxAfter st [] (pre ++ [n])) (k : Nat) (hk : k < nodeElems n)
    (hfl : ctx.first = true → ctx.last = false) :
    SimR H ctx.first (dispatch st d ctx n k) (dispatch (st.withStatic false) (d.unfS H) ctx n k) := by
  cases hm : markedS H d n k with
  | false => exact dispatch_sim_unmarked H st d ctx n k hm gc.1 hfl
  | true =>
    rw [dispatch_markedS H st d ctx n k hm]
    refine ⟨true, ?_, id, fun _ => rfl⟩
    cases n with
    | instr src r =>
      cases r with
      | none => simp [markedS] at hm
      | some ref =>
        simp only [markedS] at hm
        simp only [dispatch]
        exact instr_recomputes_off H st nodes d0 d g pre src ref post hsplit hm ctx hctx
    | data sz es refs =>
      simp only [markedS] at hm
      simp only [dispatch]
      exact data_recomputes_off H st nodes d0 d g pre sz es refs post k hsplit (by simpa [nodeElems] using hk) hm ctx
    | symbol l nm kd ne r =>
      cases r with
      | none => cases kd <;> simp [markedS] at hm
      | some r =>
        cases kd with
        | label => simp [markedS] at hm
        | constant e =>
          simp only [markedS, Bool.and_eq_true, Bool.not_eq_true'] at hm
          simp only [dispatch]
          exact const_recomputes_off H st nodes d0 d gc l nm e ne r (by rw [hsplit]; simp) hm.1 hm.2 ctx
    | _ => simp [markedS] at hm

/-! ## one pass under the two settings -/

/-- related pass states: the same but for the marks, and the stability flag as in `SimR` -/
def SimPS (H : Nat → Bool) (first : Bool) (a b : PassSt) : Prop :=
  b.defs = a.defs.unfS H ∧ b.it = a.it ∧ b.symCtx = a.symCtx ∧ b.reported = a.reported ∧
    (b.stable = true → a.stable = true) ∧ (first = false → b.stable = a.stable)

theorem passNode_sim (H : Nat → Bool) (st : Static) (nodes : List AstNode) (d0 : Defs) (f : FrontOK st nodes d0)
    (fs : FrontOKS st nodes d0 H) (first last : Bool) (hfl : first = true → last = false)
    (pre : List AstNode) (n : AstNode) (post : List AstNode) (hsplit : nodes = pre ++ n :: post)
    (a b : PassSt) (k : Nat) (hkn : k < nodeElems n) (g : Good st nodes d0 a.defs) (gc : GoodC st nodes d0 a.defs H)
    (hsc : stepCtx st a.symCtx n = ctxAfter st [] (pre ++ [n])) (hsim : SimPS H first a b) :
    match passNode st first last a n k with
    | .error m => passNode (st.withStatic false) first last b n k = .error m
    | .ok a' => GoodC st nodes d0 a'.defs H ∧ ∃ b', passNode (st.withStatic false) first last b n k = .ok b' ∧ SimPS H first a' b' := by
  obtain ⟨bd, bi, bs, bst, br⟩ := b
  obtain ⟨h1, h2, h3, h4, h5, h6⟩ := hsim
  simp only at h1 h2 h3 h4 h5 h6
  subst h1 h2 h3 h4
  rw [passNode_eq', passNode_eq']
  have hn : ∀ d, nodeItem (st.withStatic false) d n k = nodeItem st d n k := fun d => rfl
  have hs : stepCtx (st.withStatic false) a.symCtx n = stepCtx st a.symCtx n := rfl
  have hb : (a.defs.unfS H).banks = a.defs.banks := rfl
  simp only [hn, hs, nodeItem_us H, hb]
  cases hv : visit a.defs.banks a.it (nodeItem st a.defs n k) with
  | error e => rfl
  | ok it =>
    simp only
    have hmem : n ∈ nodes := by rw [hsplit]; simp
    have sim := dispatch_sim H st nodes d0 a.defs g gc pre n post hsplit
      ⟨first, last, stepCtx st a.symCtx n, it.bank, it.pos⟩ hsc k hkn hfl
    cases hd : dispatch st a.defs ⟨first, last, stepCtx st a.symCtx n, it.bank, it.pos⟩ n k with
    | error m =>
      rw [hd] at sim
      have : dispatch (st.withStatic false) (a.defs.unfS H) ⟨first, last, stepCtx st a.symCtx n, it.bank, it.pos⟩ n k = .error m := sim
      rw [this]
    | ok x =>
      obtain ⟨d1, s1, r1⟩ := x
      rw [hd] at sim
      obtain ⟨s2, e2, i1, i2⟩ := sim
      rw [e2]
      simp only
      have hb1 : (d1.unfS H).banks = d1.banks := rfl
      rw [nodeItem_us H, hb1]
      cases ha : advance d1.banks it (nodeItem st d1 n k) with
      | error e => rfl
      | ok it' =>
        simp only
        refine ⟨dispatch_goodC st nodes d0 a.defs d1 H f fs n hmem _ k s1 r1 g gc hd, _, rfl, rfl, rfl, rfl, rfl, ?_, ?_⟩
        · intro hh
          simp only [Bool.and_eq_true] at hh ⊢
          exact ⟨h5 hh.1, i1 hh.2⟩
        · intro hf
          simp only
          rw [h6 hf, i2 hf]

theorem go_sim (H : Nat → Bool) (st : Static) (nodes : List AstNode) (d0 : Defs) (f : FrontOK st nodes d0)
    (fs : FrontOKS st nodes d0 H) (first last : Bool) (hfl : first = true → last = false)
    (pre : List AstNode) (n : AstNode) (post : List AstNode) (hsplit : nodes = pre ++ n :: post) :
    ∀ (fuel k : Nat) (a b : PassSt), k + fuel ≤ nodeElems n → Good st nodes d0 a.defs → GoodC st nodes d0 a.defs H →
      stepCtx st a.symCtx n = ctxAfter st [] (pre ++ [n]) → PhaseOK st nodes d0 first pre a.defs → SimPS H first a b →
      match passNodes.go st first last n k fuel a with
      | .error e => passNodes.go (st.withStatic false) first last n k fuel b = .error e
      | .ok a' => GoodC st nodes d0 a'.defs H ∧
          ∃ b', passNodes.go (st.withStatic false) first last n k fuel b = .ok b' ∧ SimPS H first a' b' := by
  intro fuel
  induction fuel with
  | zero =>
    intro k a b _ _ gc _ _ hsim
    simp only [passNodes.go]
    exact ⟨gc, b, rfl, hsim⟩
  | succ fl ih =>
    intro k a b hkf g gc hsc ph hsim
    simp only [passNodes.go]
    have step := passNode_sim H st nodes d0 f fs first last hfl pre n post hsplit a b k (by omega) g gc hsc hsim
    cases hp : passNode st first last a n k with
    | error m =>
      rw [hp] at step
      simp only at step ⊢
      rw [step, hsim.2.2.2.1]
    | ok a1 =>
      rw [hp] at step
      obtain ⟨gc1, b1, e1, sim1⟩ := step
      simp only [e1]
      obtain ⟨g1, sc1, ph1, _⟩ := passNode_good st nodes d0 f first last pre n post hsplit a a1 k (by omega) g hsc ph hp
      have hsc1 : stepCtx st a1.symCtx n = ctxAfter st [] (pre ++ [n]) := by
        rw [sc1, ← hsc, stepCtx_idem]
      exact ih (k + 1) a1 b1 (by omega) g1 gc1 hsc1 ph1 sim1

theorem passNodes_sim (H : Nat → Bool) (st : Static) (nodes : List AstNode) (d0 : Defs) (f : FrontOK st nodes d0)
    (fs : FrontOKS st nodes d0 H) (first last : Bool) (hfl : first = true → last = false) :
    ∀ (rest pre : List AstNode) (a b : PassSt), nodes = pre ++ rest → Good st nodes d0 a.defs → GoodC st nodes d0 a.defs H →
      a.symCtx = ctxAfter st [] pre → PhaseOK st nodes d0 first pre a.defs → SimPS H first a b →
      match passNodes st first last rest a with
      | .error e => passNodes (st.withStatic false) first last rest b = .error e
      | .ok a' => GoodC st nodes d0 a'.defs H ∧
          ∃ b', passNodes (st.withStatic false) first last rest b = .ok b' ∧ SimPS H first a' b' := by
  intro rest
  induction rest with
  | nil =>
    intro pre a b _ _ gc _ _ hsim
    simp only [passNodes]
    exact ⟨gc, b, rfl, hsim⟩
  | cons n rest ih =>
    intro pre a b hs g gc hsc ph hsim
    rw [passNodes_cons, passNodes_cons]
    have hsc0 : stepCtx st a.symCtx n = ctxAfter st [] (pre ++ [n]) := by rw [ctxAfter_snoc, hsc]
    have step := go_sim H st nodes d0 f fs first last hfl pre n rest hs (nodeElems n) 0 a b (by omega) g gc hsc0 ph hsim
    cases hg : passNodes.go st first last n 0 (nodeElems n) a with
    | error e =>
      rw [hg] at step
      simp only at step ⊢
      rw [step]
    | ok a1 =>
      rw [hg] at step
      obtain ⟨gc1, b1, e1, sim1⟩ := step
      simp only [e1]
      obtain ⟨g1, _, ph1, c1, c0, r1⟩ := go_good st nodes d0 f first last pre n rest hs (nodeElems n) 0 a a1 (by omega) g hsc0 ph hg
      have hsc1 : a1.symCtx = ctxAfter st [] (pre ++ [n]) := by
        cases hz : nodeElems n with
        | zero =>
          rw [c0 hz, hsc, ctxAfter_snoc, nodeElems_pos_of_symbol st _ n hz]
        | succ m => exact c1 (by rw [hz]; exact Nat.succ_pos m)
      have ph1' : PhaseOK st nodes d0 first (pre ++ [n]) a1.defs := by
        unfold PhaseOK at ph1 ⊢
        cases first with
        | false => simpa using ph1
        | true =>
          simp only [if_true] at ph1 ⊢
          refine ⟨ph1.1, fun l nm e ne r hm hk => ?_⟩
          rcases List.mem_append.mp hm with hm | hm
          · exact ph1.2 l nm e ne r hm hk
          · have hn : n = .symbol l nm (.constant e) ne (some r) := by
              cases hm with
              | head => rfl
              | tail _ hm => cases hm
            have hpos : 0 < nodeElems n := by rw [hn]; simp [nodeElems]
            exact r1 hpos rfl l nm e ne r hn hk
      exact ih (pre ++ [n]) a1 b1 (by rw [hs]; simp) g1 gc1 hsc1 ph1' sim1

/-- **one pass under the two settings**: the same error, or the same values and messages; the same
    stability flag in every pass but the first, where the unoptimised assembler may report a change
    the optimised one does not -/
theorem resolveOnce_sim (H : Nat → Bool) (st : Static) (nodes : List AstNode) (d0 : Defs) (f : FrontOK st nodes d0)
    (fs : FrontOKS st nodes d0 H) (first last : Bool) (hfl : first = true → last = false)
    (d : Defs) (g : Good st nodes d0 d) (gc : GoodC st nodes d0 d H)
    (ph : if first = true then st.opts.optStatic = true else K3 nodes d0 d) :
    match resolveOnce st nodes first last d with
    | .error e => resolveOnce (st.withStatic false) nodes first last (d.unfS H) = .error e
    | .ok (d', s, r) => GoodC st nodes d0 d' H ∧
        ∃ s2, resolveOnce (st.withStatic false) nodes first last (d.unfS H) = .ok (d'.unfS H, s2, r) ∧
          (s2 = true → s = true) ∧ (first = false → s2 = s) := by
  unfold resolveOnce
  have ph0 : PhaseOK st nodes d0 first [] d := by
    unfold PhaseOK
    cases first with
    | true => simp only [if_true] at ph ⊢; exact ⟨ph, fun _ _ _ _ _ hm => by cases hm⟩
    | false => simpa using ph
  have hb : (d.unfS H).banks = d.banks := rfl
  rw [hb]
  have step := passNodes_sim H st nodes d0 f fs first last hfl nodes [] ⟨d, initIter d.banks, [], true, []⟩
    ⟨d.unfS H, initIter d.banks, [], true, []⟩ rfl g gc rfl ph0 ⟨rfl, rfl, rfl, rfl, id, fun _ => rfl⟩
  cases hp : passNodes st first last nodes ⟨d, initIter d.banks, [], true, []⟩ with
  | error e =>
    rw [hp] at step
    simp only at step ⊢
    rw [step]
  | ok a' =>
    rw [hp] at step
    obtain ⟨gc', b', e', h1, h2, h3, h4, h5, h6⟩ := step
    simp only [e']
    exact ⟨gc', b'.stable, by rw [h1, h4], h5, h6⟩

/-! ## the iteration under the two settings -/

def usLoop (H : Nat → Bool) (x : Nat × Defs × List String × Bool) : Nat × Defs × List String × Bool :=
  (x.1, x.2.1.unfS H, x.2.2.1, x.2.2.2)

/-- from the second pass on the two iterations run in lockstep -/
theorem iterLoop_sim_later (H : Nat → Bool) (st : Static) (nodes : List AstNode) (d0 : Defs) (f : FrontOK st nodes d0)
    (fs : FrontOKS st nodes d0 H) (max : Nat) :
    ∀ (fuel i : Nat) (d : Defs) (rep : List String), 1 ≤ i → Good st nodes d0 d → GoodC st nodes d0 d H → K3 nodes d0 d →
      iterLoop (st.withStatic false) nodes max fuel i (d.unfS H) rep = (iterLoop st nodes max fuel i d rep).map (usLoop H) ∧
      ∀ k d' rep' fin, iterLoop st nodes max fuel i d rep = .ok (k, d', rep', fin) →
        Good st nodes d0 d' ∧ GoodC st nodes d0 d' H ∧ K3 nodes d0 d' := by
  intro fuel
  induction fuel with
  | zero =>
    intro i d rep _ g gc k3
    simp only [iterLoop]
    refine ⟨rfl, fun k d' rep' fin h => ?_⟩
    injection h with h; injection h with _ h; injection h with h _
    subst h; exact ⟨g, gc, k3⟩
  | succ fl ih =>
    intro i d rep hi g gc k3
    simp only [iterLoop]
    by_cases hge : i ≥ max
    · simp only [hge, if_true]
      refine ⟨rfl, fun k d' rep' fin h => ?_⟩
      injection h with h; injection h with _ h; injection h with h _
      subst h; exact ⟨g, gc, k3⟩
    · simp only [hge, if_false]
      have hfirst : (i + 1 == 1) = false := by
        have : i + 1 ≠ 1 := by omega
        simpa using this
      rw [hfirst]
      have sim := resolveOnce_sim H st nodes d0 f fs false (i + 1 == max) (fun h => by cases h) d g gc (by simpa using k3)
      cases hp : resolveOnce st nodes false (i + 1 == max) d with
      | error e =>
        rw [hp] at sim
        simp only at sim
        rw [sim]
        obtain ⟨m, r⟩ := e
        exact ⟨rfl, fun k d' rep' fin h => by cases h⟩
      | ok x =>
        obtain ⟨d1, s1, r1⟩ := x
        rw [hp] at sim
        obtain ⟨gc1, s2, e2, _, i2⟩ := sim
        have hs : s2 = s1 := i2 rfl
        subst hs
        rw [e2]
        simp only
        obtain ⟨g1, k31⟩ := resolveOnce_good st nodes d0 f false (i + 1 == max) d d1 s2 r1 g (by simpa using k3) hp
        cases s2 with
        | true =>
          simp only [if_true]
          cases hl : (i + 1 == max) with
          | true =>
            simp only [if_true]
            refine ⟨rfl, fun k d' rep' fin h => ?_⟩
            injection h with h; injection h with _ h; injection h with h _
            subst h; exact ⟨g1, gc1, k31⟩
          | false =>
            simp only [Bool.false_eq_true, if_false]
            refine ⟨rfl, fun k d' rep' fin h => ?_⟩
            injection h with h; injection h with _ h; injection h with h _
            subst h; exact ⟨g1, gc1, k31⟩
        | false =>
          simp only [Bool.false_eq_true, if_false]
          cases hl : (i + 1 == max) with
          | true =>
            simp only [if_true]
            exact ⟨rfl, fun k d' rep' fin h => by cases h⟩
          | false =>
            simp only [Bool.false_eq_true, if_false]
            exact ih (i + 1) d1 (rep ++ r1) (by omega) g1 gc1 k31

/-- what `resolve_iteratively` does with the result of its loop -/
def finish (st : Static) (nodes : List AstNode) (x : Except (List String) (Nat × Defs × List String × Bool)) :
    Except (List String) (Nat × Defs × List String) :=
  match x with
  | .error e => .error e
  | .ok (i, defs, rep, true) => .ok (i, defs, rep)
  | .ok (i, defs, rep, false) =>
    match resolveOnce st nodes false true defs with
    | .error (m, r) => .error (rep ++ r ++ [m])
    | .ok (defs', stable, r) =>
      if stable then .ok (i, defs', rep ++ r) else .error (rep ++ r ++ ["did not converge"])

theorem resolveIterativelyN_finish (st : Static) (nodes : List AstNode) (max : Nat) (d : Defs) :
    resolveIterativelyN st nodes max d = finish st nodes (iterLoop st nodes max max 0 d []) := by
  unfold resolveIterativelyN finish
  cases iterLoop st nodes max max 0 d [] with
  | error e => rfl
  | ok x =>
    obtain ⟨i, d1, rep, fin⟩ := x
    cases fin <;> rfl

def usFin (H : Nat → Bool) (x : Nat × Defs × List String) : Nat × Defs × List String := (x.1, x.2.1.unfS H, x.2.2)

theorem finish_sim (H : Nat → Bool) (st : Static) (nodes : List AstNode) (d0 : Defs) (f : FrontOK st nodes d0)
    (fs : FrontOKS st nodes d0 H) (i : Nat) (d : Defs) (rep : List String) (fin : Bool)
    (g : Good st nodes d0 d) (gc : GoodC st nodes d0 d H) (k3 : K3 nodes d0 d) :
    finish (st.withStatic false) nodes (.ok (i, d.unfS H, rep, fin)) = (finish st nodes (.ok (i, d, rep, fin))).map (usFin H) := by
  cases fin with
  | true => rfl
  | false =>
    simp only [finish]
    have sim := resolveOnce_sim H st nodes d0 f fs false true (fun h => by cases h) d g gc (by simpa using k3)
    cases hp : resolveOnce st nodes false true d with
    | error e =>
      rw [hp] at sim
      simp only at sim
      rw [sim]
      obtain ⟨m, r⟩ := e
      rfl
    | ok x =>
      obtain ⟨d1, s1, r1⟩ := x
      rw [hp] at sim
      obtain ⟨_, s2, e2, _, i2⟩ := sim
      have hs : s2 = s1 := i2 rfl
      subst hs
      rw [e2]
      cases s2 <;> rfl

/-- from a fixed point of the strict pass, any budget ends there, having reported what the strict
    pass reports and nothing else -/
theorem from_fix_rep (st : Static) (nodes : List AstNode) (m : Nat) (d : Defs) (r : List String)
    (hfix : resolveOnce st nodes false true d = .ok (d, true, r)) :
    ∀ (fuel i : Nat) (rep : List String), 1 ≤ i → i + fuel = m →
      ∃ k, finish st nodes (iterLoop st nodes m fuel i d rep) = .ok (k, d, rep ++ r) := by
  intro fuel
  induction fuel with
  | zero =>
    intro i rep _ _
    simp only [iterLoop, finish, hfix, if_true]
    exact ⟨i, rfl⟩
  | succ f ih =>
    intro i rep hi him
    have hlt : ¬ (i ≥ m) := by omega
    have hfirst : (i + 1 == 1) = false := by
      have : i + 1 ≠ 1 := by omega
      simpa using this
    simp only [iterLoop, hlt, if_false, hfirst]
    by_cases hl : (i + 1 == m) = true
    · simp only [hl, hfix, if_true, finish]
      exact ⟨i + 1, rfl⟩
    · have hl' : (i + 1 == m) = false := by simpa using hl
      obtain ⟨b, r', hg⟩ := resolveOnce_guess st nodes d d r hfix
      have hq : r' = [] := resolveOnce_quiet st nodes false d d b r' hg
      subst hq
      simp only [hl', hg, Bool.false_eq_true, if_false, List.append_nil]
      cases b with
      | true =>
        simp only [if_true, finish, hfix]
        exact ⟨i + 1, rfl⟩
      | false =>
        simp only [Bool.false_eq_true, if_false]
        exact ih (i + 1) rep (by omega) (by omega)

/-- the first pass unrolled (budget at least two: it is not the last one) -/
theorem iterLoop_first (st : Static) (nodes : List AstNode) (m : Nat) (d : Defs) :
    iterLoop st nodes (m + 2) (m + 2) 0 d [] =
      match resolveOnce st nodes true false d with
      | .error (msg, r) => .error ([] ++ r ++ [msg])
      | .ok (d', stable, r) =>
        if stable then .ok (1, d', [] ++ r, false) else iterLoop st nodes (m + 2) (m + 1) 1 d' ([] ++ r) := by
  have h1 : ¬ (0 ≥ m + 2) := by omega
  have h2 : ((0 + 1 : Nat) == 1) = true := rfl
  have h3 : ((0 + 1 : Nat) == m + 2) = false := by
    have : (0 + 1 : Nat) ≠ m + 2 := by omega
    simp
  rw [iterLoop]
  simp only [h1, if_false, h2, h3, Bool.false_eq_true, Nat.zero_add]
  cases resolveOnce st nodes true false d with
  | error e => obtain ⟨_, _⟩ := e; rfl
  | ok x => obtain ⟨_, _, _⟩ := x; rfl

/-- **the two settings side by side, when their first passes agree on stability** (they always do
    unless the optimised first pass is stable and the unoptimised one is not): the same iteration
    count, the same values, the same messages, or the same errors -/
theorem resolveIterativelyN_switch_lockstep (H : Nat → Bool) (st : Static) (nodes : List AstNode) (d0 : Defs)
    (f : FrontOK st nodes d0) (fs : FrontOKS st nodes d0 H) (ho : st.opts.optStatic = true) (m : Nat)
    (hagree : ∀ d1 r1, resolveOnce st nodes true false d0 = .ok (d1, true, r1) →
      resolveOnce (st.withStatic false) nodes true false (d0.unfS H) = .ok (d1.unfS H, true, r1)) :
    resolveIterativelyN (st.withStatic false) nodes (m + 2) (d0.unfS H) =
      (resolveIterativelyN st nodes (m + 2) d0).map (usFin H) := by
  rw [resolveIterativelyN_finish, resolveIterativelyN_finish, iterLoop_first, iterLoop_first]
  have g0 := good_init st nodes d0 f
  have gc0 := goodC_init st nodes d0 H fs
  have sim := resolveOnce_sim H st nodes d0 f fs true false (fun _ => rfl) d0 g0 gc0 (by simpa using ho)
  cases hp : resolveOnce st nodes true false d0 with
  | error e =>
    rw [hp] at sim
    simp only at sim
    rw [sim]
    obtain ⟨msg, r⟩ := e
    rfl
  | ok x =>
    obtain ⟨d1, s1, r1⟩ := x
    rw [hp] at sim
    obtain ⟨gc1, s2, e2, i1, _⟩ := sim
    obtain ⟨g1, k31⟩ := resolveOnce_good st nodes d0 f true false d0 d1 s1 r1 g0 (by simpa using ho) hp
    cases s1 with
    | true =>
      rw [hagree d1 r1 hp]
      simp only [if_true]
      exact finish_sim H st nodes d0 f fs 1 d1 _ false g1 gc1 k31
    | false =>
      have hs2 : s2 = false := by
        cases s2 with
        | false => rfl
        | true => exact absurd (i1 rfl) (by simp)
      subst hs2
      rw [e2]
      simp only [Bool.false_eq_true, if_false]
      obtain ⟨el, inv⟩ := iterLoop_sim_later H st nodes d0 f fs (m + 2) (m + 1) 1 d1 ([] ++ r1) (by omega) g1 gc1 k31
      rw [el]
      cases hl : iterLoop st nodes (m + 2) (m + 1) 1 d1 ([] ++ r1) with
      | error e => rfl
      | ok y =>
        obtain ⟨k, d2, rep2, fin⟩ := y
        obtain ⟨g2, gc2, k32⟩ := inv k d2 rep2 fin hl
        exact finish_sim H st nodes d0 f fs k d2 rep2 fin g2 gc2 k32

/-- **whenever the optimising assembler succeeds, so does the other, with the same values** (budget at
    least two).  In the one case where the two iterations do not run in lockstep — the optimised
    first pass is stable, the unoptimised one is not — the optimised assembler confirms its state at
    once; that state is a fixed point, which the other assembler reaches one pass later and keeps. -/
theorem resolveIterativelyN_switch_success (H : Nat → Bool) (st : Static) (nodes : List AstNode) (d0 : Defs)
    (f : FrontOK st nodes d0) (fs : FrontOKS st nodes d0 H) (ho : st.opts.optStatic = true) (hwf : NoClash nodes) (m : Nat)
    (k : Nat) (d : Defs) (rep : List String) (h : resolveIterativelyN st nodes (m + 2) d0 = .ok (k, d, rep)) :
    ∃ k', resolveIterativelyN (st.withStatic false) nodes (m + 2) (d0.unfS H) = .ok (k', d.unfS H, rep) := by
  by_cases hagree : ∀ d1 r1, resolveOnce st nodes true false d0 = .ok (d1, true, r1) →
      resolveOnce (st.withStatic false) nodes true false (d0.unfS H) = .ok (d1.unfS H, true, r1)
  · rw [resolveIterativelyN_switch_lockstep H st nodes d0 f fs ho m hagree, h]
    exact ⟨k, rfl⟩
  · have hex : ∃ d1 r1, resolveOnce st nodes true false d0 = .ok (d1, true, r1) ∧
        ¬ resolveOnce (st.withStatic false) nodes true false (d0.unfS H) = .ok (d1.unfS H, true, r1) := by
      refine Classical.byContradiction fun hno => hagree fun d1 r1 hp => ?_
      exact Classical.byContradiction fun hn => hno ⟨d1, r1, hp, hn⟩
    obtain ⟨d1, r1, hp, hn⟩ := hex
    have g0 := good_init st nodes d0 f
    have gc0 := goodC_init st nodes d0 H fs
    have sim := resolveOnce_sim H st nodes d0 f fs true false (fun _ => rfl) d0 g0 gc0 (by simpa using ho)
    rw [hp] at sim
    obtain ⟨gc1, s2, e2, _, _⟩ := sim
    have hs2 : s2 = false := by
      cases s2 with
      | false => rfl
      | true => exact absurd e2 hn
    subst hs2
    obtain ⟨g1, k31⟩ := resolveOnce_good st nodes d0 f true false d0 d1 true r1 g0 (by simpa using ho) hp
    -- the optimising assembler: one pass, then the confirming pass on `d1`
    rw [resolveIterativelyN_finish, iterLoop_first, hp] at h
    simp only [if_true, finish] at h
    have sim2 := resolveOnce_sim H st nodes d0 f fs false true (fun hh => by cases hh) d1 g1 gc1 (by simpa using k31)
    cases hq : resolveOnce st nodes false true d1 with
    | error e => rw [hq] at h; obtain ⟨_, _⟩ := e; cases h
    | ok x =>
      obtain ⟨d', s', r2⟩ := x
      rw [hq] at h sim2
      cases s' with
      | false => simp at h
      | true =>
        simp only [if_true] at h
        injection h with h; injection h with _ h; injection h with hd hrep
        subst hd
        subst hrep
        have hok1 : NodesOK d1 nodes := pass_establishes_ok st nodes true false d0 d1 true r1 hp hwf
        have hid : d' = d1 := resolveOnce_stable_id st nodes true d1 d' r2 hq hok1
        subst hid
        obtain ⟨_, s2', e2', _, i2'⟩ := sim2
        have : s2' = true := i2' rfl
        subst this
        obtain ⟨k', hfin⟩ := from_fix_rep (st.withStatic false) nodes (m + 2) (d'.unfS H) r2 e2' (m + 1) 1 ([] ++ r1) (by omega) (by omega)
        refine ⟨k', ?_⟩
        rw [resolveIterativelyN_finish, iterLoop_first, e2]
        simpa using hfin

end Casm
