import Casm.Proofs.FrozenS
import Casm.Proofs.SwitchPass
/-!
# Casm.Proofs.SwitchSim — the two settings of the static-value optimisation, step by step

`st` is the optimising assembler, `st.withStatic false` the one started with
`--debug-no-optimize-static`.  The state of the second is the state of the first with the
first-pass marks cleared (`Defs.unfS H`, `H` = the symbols marked under both settings).  One
resolver step of the optimising assembler on `d` and one step of the other on `d.unfS H` give
related results (`SimR`): the same error, or the same values, the same messages and — in every
pass but the first — the same stability flag; in the first pass a frozen instruction or data
element is reported stable by the optimising assembler only.
-/
namespace Casm

theorem off_opt (st : Static) : (st.withStatic false).opts.optStatic = false := rfl

/-- related results of one resolver step -/
def SimR (H : Nat → Bool) (first : Bool) (on off : ItemRes) : Prop :=
  match on with
  | .error e => off = .error e
  | .ok (d1, s1, r1) => ∃ s2, off = .ok (d1.unfS H, s2, r1) ∧ (s2 = true → s1 = true) ∧ (first = false → s2 = s1)

theorem simR_of_map (H : Nat → Bool) (first : Bool) (on off : ItemRes) (h : off = on.map (usRes H)) : SimR H first on off := by
  subst h
  cases on with
  | error e => rfl
  | ok x => obtain ⟨d1, s1, r1⟩ := x; exact ⟨s1, rfl, id, fun _ => rfl⟩

theorem allDefinite_off (H : Nat → Bool) (st : Static) (d : Defs) (ctx : RCtx) (cs : List IMatch) :
    allDefinite (st.withStatic false) (d.unfS H) ctx cs = allDefinite st d ctx cs := by
  unfold allDefinite
  rw [(switchEq st false (unfS_view H d) (evalFuel - 1)).rmatches]

/-- an instruction that carries no mark -/
theorem resolveInstruction_sim (H : Nat → Bool) (st : Static) (d : Defs) (ctx : RCtx) (ref : Nat)
    (hr : (d.instrs.getD ref default).resolved = false) (hfl : ctx.first = true → ctx.last = false) :
    SimR H ctx.first (resolveInstruction st d ctx ref) (resolveInstruction (st.withStatic false) (d.unfS H) ctx ref) := by
  unfold resolveInstruction
  simp only [unfS_instr, hr, Bool.false_eq_true, if_false, (switchEq st false (unfS_view H d) evalFuel).renc, off_opt, Bool.false_and]
  cases resolveEncoding st d evalFuel ctx ((d.instrs.getD ref default).cands.map (·.m)) {} with
  | error m => rfl
  | ok x =>
    obtain ⟨encs, reported⟩ := x
    simp only
    cases encs with
    | none => exact ⟨false, rfl, id, fun _ => rfl⟩
    | some l =>
    simp only [Option.bind_some]
    rcases Option.eq_none_or_eq_some (l.head?.map (·.2)) with hc | ⟨e, hc⟩
    · simp only [hc]; exact ⟨false, rfl, id, fun _ => rfl⟩
    · simp only [hc]
      have hset := unfS_setInstr H d ref { (d.instrs.getD ref default) with encoding := e }
      have hset' := unfS_setInstr H d ref { (d.instrs.getD ref default) with encoding := e, resolved := true }
      simp only [hr] at hset
      simp only at hset'
      by_cases hfz : (st.opts.optStatic && ctx.first && (d.instrs.getD ref default).known && (l.length == 1) &&
          allDefinite st d ctx ((d.instrs.getD ref default).cands.map (·.m))) = true
      · rw [if_pos hfz]
        have hfirst : ctx.first = true := by
          simp only [Bool.and_eq_true] at hfz; exact hfz.1.1.1.2
        have hlast := hfl hfirst
        simp only [hlast, Bool.false_and, Bool.false_eq_true, if_false, List.append_nil, hset']
        split
        · exact ⟨false, rfl, fun h => (by cases h), fun h => (by rw [hfirst] at h; cases h)⟩
        · exact ⟨true, rfl, id, fun _ => rfl⟩
      · rw [if_neg hfz]
        simp only [hset]
        split
        · exact ⟨false, rfl, id, fun _ => rfl⟩
        · exact ⟨true, rfl, id, fun _ => rfl⟩

/-- storing a data element that carries no mark -/
theorem dataStore_sim (H : Nat → Bool) (st : Static) (d : Defs) (ctx : RCtx) (ref : Nat) (sliced : Option BI)
    (hr : (d.datas.getD ref default).resolved = false) (hfl : ctx.first = true → ctx.last = false) :
    SimR H ctx.first (dataStore st d ctx ref sliced) (dataStore (st.withStatic false) (d.unfS H) ctx ref sliced) := by
  unfold dataStore
  simp only [unfS_data, off_opt, Bool.false_and, Bool.false_eq_true, if_false]
  cases sliced with
  | none => exact ⟨false, rfl, id, fun _ => rfl⟩
  | some b =>
    simp only
    have hset := unfS_setData H d ref { (d.datas.getD ref default) with encoding := b }
    have hset' := unfS_setData H d ref { (d.datas.getD ref default) with encoding := b, resolved := true }
    simp only [hr] at hset
    simp only at hset'
    by_cases hfz : (st.opts.optStatic && ctx.first && (d.datas.getD ref default).known && b.size.isSome) = true
    · rw [if_pos hfz]
      have hfirst : ctx.first = true := by
        simp only [Bool.and_eq_true] at hfz; exact hfz.1.1.2
      have hlast := hfl hfirst
      simp only [hlast, Bool.false_eq_true, if_false, hset']
      split
      · exact ⟨false, rfl, fun h => (by cases h), fun h => (by rw [hfirst] at h; cases h)⟩
      · exact ⟨true, rfl, id, fun _ => rfl⟩
    · rw [if_neg hfz]
      simp only [hset, hr]
      split
      · exact ⟨false, rfl, id, fun _ => rfl⟩
      · exact ⟨true, rfl, id, fun _ => rfl⟩

theorem resolveData_sim (H : Nat → Bool) (st : Static) (d : Defs) (ctx : RCtx) (ref : Nat) (sz : Option Nat) (e : Expr)
    (hr : (d.datas.getD ref default).resolved = false) (hfl : ctx.first = true → ctx.last = false) :
    SimR H ctx.first (resolveData st d ctx ref sz e) (resolveData (st.withStatic false) (d.unfS H) ctx ref sz e) := by
  unfold resolveData
  simp only [unfS_data, hr, Bool.false_eq_true, if_false, resolverEval_switch st false (unfS_view H d)]
  cases resolverEval st d ctx {} e with
  | error m => rfl
  | ok x =>
    obtain ⟨v, c⟩ := x
    simp only
    cases dataEnc (ctx.last || (d.datas.getD ref default).known) v with
    | error m => rfl
    | ok enc =>
      simp only
      cases dataCheck (ctx.last || (d.datas.getD ref default).known) sz enc with
      | error m => rfl
      | ok u => exact dataStore_sim H st d ctx ref _ hr hfl

/-- a constant that carries no mark, or the mark both assemblers have -/
theorem resolveConstant_sim (H : Nat → Bool) (st : Static) (d : Defs) (ctx : RCtx) (ref : Nat) (e : Expr)
    (hm : (d.sym ref).resolved = true → H ref = true) (hH : H ref = true → (d.sym ref).resolved = true) :
    resolveConstant (st.withStatic false) (d.unfS H) ctx ref e = (resolveConstant st d ctx ref e).map (usRes H) := by
  unfold resolveConstant
  rw [resolverEval_switch st false (unfS_view H d)]
  simp only [sym_unfS, off_opt, Bool.false_and]
  cases hr : (d.sym ref).resolved with
  | true =>
    have : ((d.sym ref).keep (H ref)).resolved = true := by simp [SymDef.keep, hr, hm hr]
    simp only [this, if_true]
    rfl
  | false =>
    have : ((d.sym ref).keep (H ref)).resolved = false := by simp [SymDef.keep, hr]
    simp only [this, Bool.false_eq_true, if_false]
    have hh : H ref = false := by
      cases h : H ref with
      | false => rfl
      | true => rw [hH h] at hr; cases hr
    cases resolverEval st d ctx {} e with
    | error m => rfl
    | ok x =>
      obtain ⟨v, c⟩ := x
      have hv : ((d.sym ref).keep (H ref)).value = (d.sym ref).value := rfl
      have hn : ((d.sym ref).keep (H ref)).noEmit = (d.sym ref).noEmit := rfl
      have hk : ((d.sym ref).keep (H ref)).known = (d.sym ref).known := rfl
      simp only [hv, hn, hk]
      by_cases hc : (!valuesStable v (d.sym ref).value) = true
      · rw [if_pos hc, if_pos hc]
        simp only [Except.map, usRes, setSym_unfS, SymDef.keep, hh, Bool.and_false]
      · rw [if_neg hc, if_neg hc]
        simp only [Except.map, usRes, setSym_unfS, SymDef.keep, hh, Bool.and_false]

/-- **one step of an item that carries no mark (or the mark both assemblers have)** -/
theorem dispatch_sim_unmarked (H : Nat → Bool) (st : Static) (d : Defs) (ctx : RCtx) (n : AstNode) (k : Nat)
    (hm : markedS H d n k = false) (hH : ∀ r, H r = true → (d.sym r).resolved = true)
    (hfl : ctx.first = true → ctx.last = false) :
    SimR H ctx.first (dispatch st d ctx n k) (dispatch (st.withStatic false) (d.unfS H) ctx n k) := by
  unfold dispatch
  split
  · rename_i level name kind ne ref
    cases kind with
    | label =>
      refine simR_of_map H _ _ _ ?_
      exact resolveLabel_us H st d ctx ref
    | constant e =>
      refine simR_of_map H _ _ _ (resolveConstant_sim H st d ctx ref e (fun hr => ?_) (hH ref))
      simp only [markedS, hr, Bool.true_and, Bool.not_eq_false'] at hm
      exact hm
  · exact resolveInstruction_sim H st d ctx _ hm hfl
  · exact resolveData_sim H st d ctx _ _ _ hm hfl
  · refine simR_of_map H _ _ _ ?_
    rw [← resolveRes_us H st d ctx _ _]
    simp only [resolveRes, resolverEval_switch st false (SameView.refl (d.unfS H))]
  · refine simR_of_map H _ _ _ ?_
    rw [← resolveAlign_us H st d ctx _ _]
    simp only [resolveAlign, resolverEval_switch st false (SameView.refl (d.unfS H))]
  · refine simR_of_map H _ _ _ ?_
    rw [← resolveAddr_us H st d ctx _ _]
    simp only [resolveAddr, resolverEval_switch st false (SameView.refl (d.unfS H))]
  · refine simR_of_map H _ _ _ ?_
    rw [← resolveAssert_us H st d ctx _]
    simp only [resolveAssert, resolverEval_switch st false (SameView.refl (d.unfS H))]
  · exact ⟨true, rfl, id, fun _ => rfl⟩

/-! ## marked items: the other assembler recomputes what the mark keeps -/

theorem valuesStable_refl (v : Value) : valuesStable v v = true := by
  unfold valuesStable
  split <;> simp

theorem instr_recomputes_off (H : Nat → Bool) (st : Static) (nodes : List AstNode) (d0 d : Defs) (g : Good st nodes d0 d)
    (pre : List AstNode) (src : List Char) (ref : Nat) (post : List AstNode) (hsplit : nodes = pre ++ .instr src (some ref) :: post)
    (hm : (d.instrs.getD ref default).resolved = true) (ctx : RCtx)
    (hc : ctx.symCtx = ctxAfter st [] (pre ++ [.instr src (some ref)])) :
    resolveInstruction (st.withStatic false) (d.unfS H) ctx ref = .ok (d.unfS H, true, []) := by
  obtain ⟨s1, ctx1, encs, rp, e, w1, w2, w3, w4, w5, w6, w7, w8, w9⟩ := g.hi ref hm
  have hsc : ctx.symCtx = ctx1.symCtx := by
    rw [hc, w3 pre src post hsplit]; simp [ctxAfter, stepCtx]
  have rel : SRel d0 s1 d ctx1 ctx := ⟨w1, g.rd, hsc, w2⟩
  have hrec := frozen_instruction_sound st d0 s1 d ctx1 ctx rel 64 _
    (fun c hc => by obtain ⟨mi, hmi, rfl⟩ := List.mem_map.mp hc; exact w4 mi hmi) w5 encs rp w6 w7
  unfold resolveInstruction
  simp only [unfS_instr, Bool.false_eq_true, if_false, (switchEq st false (unfS_view H d) evalFuel).renc, (g.ic ref).1, hrec]
  cases encs with
  | nil => cases w8
  | cons e' t =>
    simp only [List.head?_cons, Option.some.injEq] at w8
    subst w8
    simp only [Option.bind_some, List.head?_cons, Option.map_some, off_opt, Bool.false_and, Bool.false_eq_true, if_false, ← w9]
    have hset : ({ d.unfS H with instrs := ((d.unfS H).instrs.set ref
        ⟨(d0.instrs.getD ref default).cands, (d.instrs.getD ref default).known, (d.instrs.getD ref default).encoding, false⟩) } : Defs)
        = d.unfS H := by
      have := set_getD_self (d.unfS H).instrs ref default
      rw [unfS_instr] at this
      simp only [(g.ic ref).1] at this
      simp only [this]
    simp only [hset, beq_self_eq_true, Bool.and_self, Bool.not_true, Bool.false_eq_true, if_false]

theorem data_recomputes_off (H : Nat → Bool) (st : Static) (nodes : List AstNode) (d0 d : Defs) (g : Good st nodes d0 d)
    (pre : List AstNode) (sz : Option Nat) (es : List Expr) (refs : List Nat) (post : List AstNode) (k : Nat)
    (hsplit : nodes = pre ++ .data sz es refs :: post) (hk : k < es.length)
    (hm : (d.datas.getD (refs.getD k 0) default).resolved = true) (ctx : RCtx) :
    resolveData (st.withStatic false) (d.unfS H) ctx (refs.getD k 0) sz (es.getD k default) = .ok (d.unfS H, true, []) := by
  obtain ⟨v, c, b0, w1, w2, w3, w4⟩ := g.hd _ hm pre sz es refs post k hsplit hk rfl
  unfold resolveData
  simp only [unfS_data, Bool.false_eq_true, if_false, resolverEval_switch st false (unfS_view H d), w1, dataEnc_any _ v b0 w2, dataCheck_any _ sz b0 w3]
  unfold dataStore
  simp only [unfS_data, Option.map_some, off_opt, Bool.false_and, Bool.false_eq_true, if_false, ← w4]
  have hset : ({ d.unfS H with datas := ((d.unfS H).datas.set (refs.getD k 0)
      ⟨(d.datas.getD (refs.getD k 0) default).known, (d.datas.getD (refs.getD k 0) default).encoding, false⟩) } : Defs)
      = d.unfS H := by
    have := set_getD_self (d.unfS H).datas (refs.getD k 0) default
    rw [unfS_data] at this
    simp only [this]
  simp only [hset, beq_self_eq_true, Bool.and_self, Bool.not_true, Bool.false_eq_true, if_false]

theorem sym_resolved_ok (d : Defs) (r : Nat) (h : (d.sym r).resolved = true) : SymOK d r := by
  unfold Defs.sym at h
  cases hs : d.symbols.getD r none with
  | none => rw [hs] at h; cases h
  | some s => exact Or.inr ⟨s, hs⟩

theorem const_recomputes_off (H : Nat → Bool) (st : Static) (nodes : List AstNode) (d0 d : Defs) (gc : GoodC st nodes d0 d H)
    (l : Nat) (nm : String) (e : Expr) (ne : Bool) (r : Nat) (hmem : AstNode.symbol l nm (.constant e) ne (some r) ∈ nodes)
    (hm : (d.sym r).resolved = true) (hh : H r = false) (ctx : RCtx) :
    resolveConstant (st.withStatic false) (d.unfS H) ctx r e = .ok (d.unfS H, true, []) := by
  obtain ⟨_, v, c, hp, hv⟩ := gc.2 r hm hh l nm e ne hmem
  unfold resolveConstant
  rw [resolverEval_switch st false (unfS_view H d), hp]
  have hres : ((d.unfS H).sym r).resolved = false := by rw [sym_unfS]; simp [SymDef.keep, hh]
  have hval : ((d.unfS H).sym r).value = v := by rw [sym_unfS]; exact hv
  simp only [hres, Bool.false_eq_true, if_false, off_opt, Bool.false_and, hval, valuesStable_refl, Bool.not_true]
  have hok : SymOK (d.unfS H) r := by
    rcases sym_resolved_ok d r hm with h | ⟨s, hs⟩
    · exact Or.inl (by rw [unfS_length]; exact h)
    · right
      refine ⟨s.keep (H r), ?_⟩
      rw [unfS_symbols_getD, hs]
      rfl
  have : ({ (d.unfS H).sym r with value := v, resolved := false } : SymDef) = (d.unfS H).sym r := by
    rw [← hval, ← hres]
  rw [this, setSym_self _ _ hok]

/-- **one resolver step under the two settings** -/
theorem dispatch_sim (H : Nat → Bool) (st : Static) (nodes : List AstNode) (d0 d : Defs)
    (g : Good st nodes d0 d) (gc : GoodC st nodes d0 d H)
    (pre : List AstNode) (n : AstNode) (post : List AstNode) (hsplit : nodes = pre ++ n :: post)
    (ctx : RCtx) (hctx : ctx.symCtx = ctxAfter st [] (pre ++ [n])) (k : Nat) (hk : k < nodeElems n)
    (hfl : ctx.first = true → ctx.last = false) :
    SimR H ctx.first (dispatch st d ctx n k) (dispatch (st.withStatic false) (d.unfS H) ctx n k) := by
  cases hm : markedS H d n k with
  | false => exact dispatch_sim_unmarked H st d ctx n k hm gc.1 hfl
  | true =>
    rw [dispatch_markedS H st d ctx n k hm]
    refine ⟨true, ?_, id, fun _ => rfl⟩
    cases n with
    | instr src r =>
      cases r with
      | none => simp [markedS] at hm
      | some ref =>
        simp only [markedS] at hm
        simp only [dispatch]
        exact instr_recomputes_off H st nodes d0 d g pre src ref post hsplit hm ctx hctx
    | data sz es refs =>
      simp only [markedS] at hm
      simp only [dispatch]
      exact data_recomputes_off H st nodes d0 d g pre sz es refs post k hsplit (by simpa [nodeElems] using hk) hm ctx
    | symbol l nm kd ne r =>
      cases r with
      | none => cases kd <;> simp [markedS] at hm
      | some r =>
        cases kd with
        | label => simp [markedS] at hm
        | constant e =>
          simp only [markedS, Bool.and_eq_true, Bool.not_eq_true'] at hm
          simp only [dispatch]
          exact const_recomputes_off H st nodes d0 d gc l nm e ne r (by rw [hsplit]; simp) hm.1 hm.2 ctx
    | _ => simp [markedS] at hm

end Casm
