import Casm.Proofs.SwitchSim
import Casm.Proofs.FrontOKSb
import Casm.Proofs.FrontSyms
import Casm.Proofs.KindInv
/-!
# Casm.Proofs.SwitchAsm — `assemble` under the two settings of the static-value optimisation

What is emitted reads values and encodings, never marks; with the simulation of the iteration
(`resolveIterativelyN_switch_success`) and the relation of the two front ends (`FrontRel`: they
produce the same declarations, nodes and values, and the marks of the unoptimised one are the marks
`markedByBoth`), a successful assembly with the optimisation is a successful assembly without it,
with the same bits, spans and symbols.
-/
namespace Casm

theorem outputItems_us (H : Nat → Bool) (st : Static) (d : Defs) (nodes : List AstNode) :
    outputItems (st.withStatic false) (d.unfS H) nodes = outputItems st d nodes := by
  unfold outputItems
  congr 1
  funext n
  have hn : ∀ k, nodeItem (st.withStatic false) (d.unfS H) n k = nodeItem st d n k := fun k => nodeItem_us H st d n k
  split
  · simp only [unfS_instr]
  · simp only [unfS_data]
  · rw [hn 0]

theorem symbolListing_go_us (H : Nat → Bool) (dc : Decls) (d : Defs) :
    ∀ (fuel : Nat) (ch : List (String × Nat)), symbolListing.go dc (d.unfS H) fuel ch = symbolListing.go dc d fuel ch := by
  intro fuel
  induction fuel with
  | zero => intro ch; rfl
  | succ f ih =>
    intro ch
    simp only [symbolListing.go, sym_unfS, ih]
    rfl

theorem symbolListing_us (H : Nat → Bool) (dc : Decls) (d : Defs) : symbolListing dc (d.unfS H) = symbolListing dc d := by
  unfold symbolListing
  exact symbolListing_go_us H dc d _ _

/-- **a program the optimising assembler accepts is accepted without the optimisation, with the same
    output** (budget at least two; the two front ends related, the decidable facts about constants
    holding of the front end's result) -/
theorem assemble_switch_success (opts : Opts) (fs : SrcFiles) (roots : List (List Char))
    (ho : opts.optStatic = true) (hmax : 2 ≤ opts.maxIter) (hrel : FrontRel opts fs roots)
    (hS : ∀ st nodes d0, frontEnd opts fs roots = .ok (st, nodes, d0) → frontOKSb st nodes d0 = true)
    (out : AsmOk) (h : assemble opts fs roots = .ok out) :
    ∃ out', assemble opts.staticOff fs roots = .ok out' ∧
      out'.bits = out.bits ∧ out'.spans = out.spans ∧ out'.symbols = out.symbols := by
  unfold assemble at h ⊢
  unfold FrontRel at hrel
  cases hf : frontEnd opts fs roots with
  | error e => rw [hf] at h; cases h
  | ok x =>
    obtain ⟨st, nodes, d0⟩ := x
    rw [hf] at h hrel
    simp only [Except.map] at hrel
    rw [hrel]
    simp only at h ⊢
    have hso : st.opts = opts := by
      unfold frontEnd at hf
      split at hf
      · cases hf
      · split at hf
        split at hf
        · cases hf
        · injection hf with hf; injection hf with h1 _; rw [← h1]
    have hos : st.opts.optStatic = true := by rw [hso]; exact ho
    have f := frontEnd_frontOK opts ho fs roots st nodes d0 hf
    have fsS := frontOKSb_sound st nodes d0 (hS st nodes d0 hf)
    have hwf := frontEnd_noClash opts fs roots st nodes d0 hf
    obtain ⟨m, hm⟩ : ∃ m, st.opts.maxIter = m + 2 := ⟨st.opts.maxIter - 2, by rw [hso]; omega⟩
    unfold resolveIteratively at h ⊢
    have hmo : (st.withStatic false).opts.maxIter = st.opts.maxIter := rfl
    rw [hmo, hm] at ⊢
    rw [hm] at h
    cases hr : resolveIterativelyN st nodes (m + 2) d0 with
    | error e => rw [hr] at h; cases h
    | ok y =>
      obtain ⟨iters, d, rep⟩ := y
      rw [hr] at h
      obtain ⟨k', hoff⟩ := resolveIterativelyN_switch_success (markedByBoth st d0) st nodes d0 f fsS hos hwf m iters d rep hr
      rw [hoff]
      simp only at h ⊢
      have hb : (d.unfS (markedByBoth st d0)).banks = d.banks := rfl
      have hd : (st.withStatic false).decls = st.decls := rfl
      have hu : checkUnusedDefines opts.staticOff st.decls = checkUnusedDefines opts st.decls := rfl
      rw [hb, hd, hu, outputItems_us, symbolListing_us]
      split at h
      · cases h
      · rename_i hrep
        simp only [hrep, if_false] at ⊢
        split at h
        · cases h
        · rename_i hov
          simp only [hov, if_false] at ⊢
          split at h
          · cases h
          · rename_i hun
            simp only [hun, if_false] at ⊢
            cases hbl : buildLoop d.banks ⟨initIter d.banks, fillBanks d.banks [], [], []⟩ (outputItems st d nodes) with
            | error e => rw [hbl] at h; cases h
            | ok bst =>
              rw [hbl] at h
              injection h with h
              subst h
              exact ⟨_, rfl, rfl, rfl, rfl⟩

end Casm
