import Casm.Proofs.CornerLast
import Casm.Proofs.ModeMonoFirst
import Casm.Proofs.BudgetMono
import Casm.Proofs.FullFix
import Casm.Proofs.RepExact
/-!
# Casm.Proofs.BudgetOne — budget monotonicity from a budget of one pass

A successful assembly with budget 1 consists of one pass that is first, strict and stable.  Its result
is a fixed point of the strict pass (`CornerLast`); the guessing first pass computes the same state
(`ModeMonoFirst`); so every larger budget reaches that state in its first pass and stays there.
-/
namespace Casm

theorem budget_monotone_from_one (st : Static) (nodes : List AstNode) (hwf : NoClash nodes) (u : Uniq nodes)
    (d0 : Defs) (hok0 : NodesOK d0 nodes) (k : Nat) (d : Defs) (rep : List String)
    (h : resolveIterativelyN st nodes 1 d0 = .ok (k, d, rep)) (m : Nat) (hm : 1 ≤ m) :
    ∃ k' rep', resolveIterativelyN st nodes m d0 = .ok (k', d, rep') := by
  by_cases hm1 : m = 1
  · subst hm1; exact ⟨k, rep, h⟩
  · have hfix : IsFix st nodes d := ⟨rep, resolveIterativelyN_fixed_point_one st nodes hwf u d0 hok0 k d rep h⟩
    -- the single pass of budget 1
    have hp : resolveOnce st nodes true true d0 = .ok (d, true, rep) := by
      unfold resolveIterativelyN at h
      have h1 : ¬ (0 ≥ 1) := by omega
      simp only [iterLoop, h1, if_false] at h
      have e1 : ((0 + 1 : Nat) == 1) = true := rfl
      simp only [e1] at h
      cases hq : resolveOnce st nodes true true d0 with
      | error e => rw [hq] at h; obtain ⟨_, _⟩ := e; cases h
      | ok x =>
        obtain ⟨d1, s, r⟩ := x
        rw [hq] at h
        cases s with
        | false => simp at h
        | true =>
          simp only [if_true, List.nil_append] at h
          injection h with h; injection h with _ h; injection h with h2 h3
          subst h2; subst h3; rfl
    obtain ⟨b, r', hg⟩ := resolveOnce_guessF st true nodes d0 d rep hp
    refine (resolveIterativelyN_final st nodes m d0 d).mpr ?_
    obtain ⟨m', rfl⟩ : ∃ m', m = m' + 2 := ⟨m - 2, by omega⟩
    have h1 : ¬ (0 ≥ m' + 2) := by omega
    have e1 : ((0 + 1 : Nat) == 1) = true := rfl
    have e2 : ((0 + 1 : Nat) == m' + 2) = false := by simp
    rw [iterLoop]
    simp only [h1, if_false, e1, e2, hg, Bool.false_eq_true]
    cases b with
    | true =>
      simp only [if_true]
      exact finalOf_confirm st nodes d hfix _ _
    | false =>
      simp only [Bool.false_eq_true, if_false]
      exact from_fix st nodes (m' + 2) d hfix (m' + 1) (0 + 1) _ (by omega) (by omega)

/-- **the final state recomputes to itself, marks cleared — for every budget of at least one pass** -/
theorem resolveIterativelyN_full_fixed_point_any (st : Static) (nodes : List AstNode) (d0 : Defs) (f : FrontOK st nodes d0)
    (max : Nat) (hmax : 1 ≤ max) (ho : st.opts.optStatic = true) (hwf : NoClash nodes) (u : Uniq nodes) (hok0 : NodesOK d0 nodes)
    (k : Nat) (d : Defs) (rep : List String) (h : resolveIterativelyN st nodes max d0 = .ok (k, d, rep)) :
    ∃ r pre, resolveOnce st nodes false true d.unfreeze = .ok (d.unfreeze, true, r) ∧ rep = pre ++ r := by
  obtain ⟨r, pre, hfix, hrep⟩ := resolveIterativelyN_fixed_point_any st nodes max hmax hwf u d0 hok0 k d rep h
  have g := resolveIterativelyN_good st nodes d0 f max ho hmax k d rep h
  have hok : NodesOK d nodes := pass_establishes_ok st nodes false true d d true r hfix hwf
  exact ⟨r, pre, resolveOnce_uf st nodes true d r hfix hok (good_recomputesAll st nodes d0 d f g), hrep⟩

/-- budget monotonicity of the loop from every budget of at least one pass -/
theorem budget_monotone_any (st : Static) (nodes : List AstNode) (hwf : NoClash nodes) (u : Uniq nodes)
    (d0 : Defs) (hok0 : NodesOK d0 nodes) (n m : Nat) (hn : 1 ≤ n) (hnm : n ≤ m) (k : Nat) (d : Defs) (rep : List String)
    (h : resolveIterativelyN st nodes n d0 = .ok (k, d, rep)) :
    ∃ k' rep', resolveIterativelyN st nodes m d0 = .ok (k', d, rep') := by
  by_cases h2 : 2 ≤ n
  · exact budget_monotone_model st nodes hwf n m h2 hnm d0 k d rep h
  · have : n = 1 := by omega
    subst this
    exact budget_monotone_from_one st nodes hwf u d0 hok0 k d rep h m hnm

/-- the messages of a successful iteration are those of the strict pass on its result, for every budget -/
theorem resolveIterativelyN_rep_any (st : Static) (nodes : List AstNode) (max : Nat) (hmax : 1 ≤ max) (hwf : NoClash nodes)
    (u : Uniq nodes) (d0 : Defs) (hok0 : NodesOK d0 nodes) (k : Nat) (d : Defs) (rep : List String)
    (h : resolveIterativelyN st nodes max d0 = .ok (k, d, rep)) :
    resolveOnce st nodes false true d = .ok (d, true, rep) := by
  by_cases h2 : 2 ≤ max
  · exact resolveIterativelyN_rep st nodes max h2 hwf d0 k d rep h
  · have : max = 1 := by omega
    subst this
    exact resolveIterativelyN_fixed_point_one st nodes hwf u d0 hok0 k d rep h

end Casm
