import Casm.Model.Assemble
import Casm.Proofs.AssembleLemmas
/-!
# Casm.Proofs.IfSplice — one round of `resolve_ifs` as a `flatMap`
-/
namespace Casm.C16

/-- what one round does with one node -/
def spliceOne (d : Decls) (defs : Defs) (n : AstNode) : List AstNode :=
  match n with
  | .ifDir cond t f =>
    match evalSimple d defs cond with
    | .ok (.bool true) => t.map AstNode.fresh
    | .ok (.bool false) => (f.getD []).map AstNode.fresh
    | _ => [n]
  | _ => [n]

/-- the step of `resolveIfs` (as a right fold) -/
def ifStep (d : Decls) (defs : Defs) (n : AstNode) (acc : Except String (List AstNode × Nat)) : Except String (List AstNode × Nat) :=
  match acc with
  | .error e => .error e
  | .ok (out, count) =>
    match n with
    | .ifDir cond t f =>
      match evalSimple d defs cond with
      | .error m => .error m
      | .ok (.bool true) => .ok (t.map AstNode.fresh ++ out, count + 1)
      | .ok (.bool false) => .ok ((f.getD []).map AstNode.fresh ++ out, count + 1)
      | .ok _ => .ok (n :: out, count)
    | _ => .ok (n :: out, count)

theorem resolveIfs_foldr (d : Decls) (defs : Defs) (nodes : List AstNode) :
    resolveIfs d defs nodes = nodes.foldr (ifStep d defs) (.ok ([], 0)) := by
  unfold resolveIfs
  rw [List.foldl_reverse]
  rfl

theorem foldr_splices (d : Decls) (defs : Defs) (nodes : List AstNode) (out : List AstNode) (k : Nat)
    (h : nodes.foldr (ifStep d defs) (.ok ([], 0)) = .ok (out, k)) :
    out = nodes.flatMap (spliceOne d defs) := by
  induction nodes generalizing out k with
  | nil => simp only [List.foldr_nil] at h; injection h with h; injection h with h1 _; simp [← h1]
  | cons n rest ih =>
    simp only [List.foldr_cons] at h
    cases hr : rest.foldr (ifStep d defs) (.ok ([], 0)) with
    | error e => rw [hr] at h; simp [ifStep] at h
    | ok x =>
      obtain ⟨out', k'⟩ := x
      have ih' := ih out' k' hr
      rw [hr] at h
      simp only [List.flatMap_cons, ← ih']
      unfold ifStep at h
      simp only at h
      unfold spliceOne
      split at h
      · rename_i cond t f
        split at h
        · cases h
        · rename_i he; injection h with h; injection h with h1 _; simp [he, ← h1]
        · rename_i he; injection h with h; injection h with h1 _; simp [he, ← h1]
        · rename_i v hv1 hv2 he
          injection h with h; injection h with h1 _
          rw [← h1]
          split
          · rename_i he'; rw [he] at he'; injection he' with he'; exact absurd he' (hv1 ·)
          · rename_i he'; rw [he] at he'; injection he' with he'; exact absurd he' (hv2 ·)
          · rfl
      · injection h with h; injection h with h1 _
        rw [← h1]
        rfl

end Casm.C16
