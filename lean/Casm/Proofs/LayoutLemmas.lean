import Casm.Model.Layout
import Casm.Proofs.OverlapLemmas
/-! Lemmas about `writeAt`, `extendTo`, `fillBanks` and one step of `build_output`. -/
namespace Casm

theorem length_writeAt (out : List Bool) (pos : Nat) (bs : List Bool) :
    (writeAt out pos bs).length = max out.length (pos + bs.length) := by
  unfold writeAt
  simp only [List.length_append, List.length_take, List.length_drop, List.length_replicate]
  omega

theorem readBit_writeAt (out : List Bool) (pos : Nat) (bs : List Bool) (i : Nat) :
    readBit (writeAt out pos bs) i =
      if pos ≤ i ∧ i < pos + bs.length then bs.getD (i - pos) false else readBit out i := by
  unfold writeAt readBit
  simp only
  generalize hout' : out ++ List.replicate (pos + bs.length - out.length) false = out'
  have hlen : out'.length = max out.length (pos + bs.length) := by
    rw [← hout']; simp; omega
  have hget : ∀ j, out'.getD j false = out.getD j false := by
    intro j
    rw [← hout']
    simp only [List.getD_eq_getElem?_getD, List.getElem?_append]
    split
    · rfl
    · rename_i h
      rw [List.getElem?_eq_none (by omega : out.length ≤ j)]
      by_cases h2 : j - out.length < pos + bs.length - out.length
      · rw [List.getElem?_replicate_of_lt h2]; rfl
      · rw [List.getElem?_eq_none (by simp; omega)]
  simp only [List.getD_eq_getElem?_getD]
  by_cases h1 : i < pos
  · have : ¬ (pos ≤ i ∧ i < pos + bs.length) := by omega
    rw [if_neg this, List.append_assoc, List.getElem?_append_left (by simp; omega), List.getElem?_take_of_lt h1]
    have := hget i
    simpa [List.getD_eq_getElem?_getD] using this
  · by_cases h2 : i < pos + bs.length
    · rw [if_pos ⟨by omega, h2⟩, List.append_assoc,
        List.getElem?_append_right (by simp; omega)]
      have hl : (List.take pos out').length = pos := by simp; omega
      rw [hl, List.getElem?_append_left (by omega)]
    · have : ¬ (pos ≤ i ∧ i < pos + bs.length) := by omega
      rw [if_neg this, List.getElem?_append_right (by simp; omega)]
      have hl : (List.take pos out' ++ bs).length = pos + bs.length := by simp; omega
      rw [hl, List.getElem?_drop]
      have e : pos + bs.length + (i - (pos + bs.length)) = i := by omega
      rw [e]
      have := hget i
      simpa [List.getD_eq_getElem?_getD] using this

theorem length_extendTo (out : List Bool) (n : Nat) : (extendTo out n).length = max out.length n := by
  unfold extendTo; simp; omega

theorem readBit_extendTo (out : List Bool) (n i : Nat) : readBit (extendTo out n) i = readBit out i := by
  unfold extendTo readBit
  simp only [List.getD_eq_getElem?_getD, List.getElem?_append]
  split
  · rfl
  · rename_i h
    rw [List.getElem?_eq_none (by omega : out.length ≤ i)]
    by_cases h2 : i - out.length < n - out.length
    · rw [List.getElem?_replicate_of_lt h2]; rfl
    · rw [List.getElem?_eq_none (by simp; omega)]

/-- `fill_banks` only lengthens the output; every bit stays zero -/
theorem fillBanks_zero (banks : List Bank) (out : List Bool) (h : ∀ i, readBit out i = false) :
    ∀ i, readBit (fillBanks banks out) i = false := by
  unfold fillBanks
  induction banks generalizing out with
  | nil => simpa using h
  | cons b rest ih =>
    simp only [List.foldl_cons]
    apply ih
    intro i
    split
    · split
      · rw [readBit_extendTo]; exact h i
      · exact h i
    · exact h i

end Casm

namespace Casm

theorem checkBankOutput_ok (b : Bank) (cur size : Nat) (write : Bool)
    (h : checkBankOutput b cur size write = .ok ()) :
    (∀ sz, b.size = some sz → cur + size ≤ sz) ∧ (write = true → b.outp.isSome = true) := by
  unfold checkBankOutput at h
  cases hsz : b.size with
  | none =>
    rw [hsz] at h
    simp only at h
    refine ⟨fun sz hc => (by cases hc), ?_⟩
    intro hw
    split at h
    · cases h
    · cases ho : b.outp with
      | none => rw [ho] at h; simp [hw] at h
      | some _ => rfl
  | some sz =>
    rw [hsz] at h
    simp only at h
    by_cases hc : cur + size > sz
    · rw [if_pos hc] at h; cases h
    · rw [if_neg hc] at h
      refine ⟨fun sz' hs => by (simp only [Option.some.injEq] at hs; omega), ?_⟩
      intro hw
      split at h
      · cases h
      · cases ho : b.outp with
        | none => rw [ho] at h; simp [hw] at h
        | some _ => rfl

/-- **an accepted item's output position fits a machine word**: `outp + position + size` is never taken modulo 2^64 -/
theorem checkBankOutput_fits (b : Bank) (cur size : Nat) (write : Bool)
    (h : checkBankOutput b cur size write = .ok ()) : ∀ o, b.outp = some o → o + cur + size < 2 ^ 64 := by
  intro o ho
  have hf : outputFits b cur size = true := by
    unfold checkBankOutput at h
    cases hb : outputFits b cur size with
    | true => rfl
    | false =>
      rw [hb] at h
      cases hsz : b.size with
      | none => rw [hsz] at h; simp at h
      | some sz =>
        rw [hsz] at h
        simp only at h
        split at h
        · cases h
        · simp at h
  unfold outputFits at hf
  rw [ho] at hf
  simpa using hf

theorem checkBankUsage_ok (banks : List Bank) (s : IterSt) (h : checkBankUsage banks s = .ok ()) :
    ¬ (s.bank = 0 ∧ banks.length ≠ 1) := by
  unfold checkBankUsage at h
  by_cases hc : s.bank = 0 ∧ banks.length ≠ 1
  · rw [if_pos hc] at h; cases h
  · exact hc

/-- what an accepted emitting node did -/
theorem nodeEmit_ok (banks : List Bank) (b : Bank) (it : IterSt) (st st' : BuildSt) (bits : List Bool)
    (h : nodeEmit banks b it st bits = .ok st') :
    ∃ o, b.outp = some o ∧
      ¬ (it.bank = 0 ∧ banks.length ≠ 1) ∧
      (∀ sz, b.size = some sz → it.pos + bits.length ≤ sz) ∧
      checkAndInsert st.ov (o + it.pos) bits.length = some st'.ov ∧
      st'.out = writeAt st.out (o + it.pos) bits ∧
      st'.spans = st.spans ++ [⟨some (o + it.pos), bits.length, getAddress b it.pos⟩] ∧
      st'.it = it := by
  unfold nodeEmit at h
  cases h1 : checkBankUsage banks it with
  | error e => rw [h1] at h; cases h
  | ok u =>
    rw [h1] at h
    cases h2 : checkBankOutput b it.pos bits.length true with
    | error e => rw [h2] at h; cases h
    | ok u2 =>
      rw [h2] at h
      simp only at h
      have hw := checkBankOutput_ok b it.pos bits.length true h2
      cases ho : b.outp with
      | none => have := hw.2 rfl; rw [ho] at this; cases this
      | some o =>
        have hp : getOutputPosition b it.pos = some (o + it.pos) := by simp [getOutputPosition, ho]
        rw [hp] at h
        simp only at h
        cases hci : checkAndInsert st.ov (o + it.pos) bits.length with
        | none => rw [hci] at h; cases h
        | some ov =>
          rw [hci] at h
          simp only [Except.ok.injEq] at h
          subst h
          exact ⟨o, rfl, checkBankUsage_ok banks it h1, hw.1, hci, rfl, rfl, rfl⟩

/-- a reservation node changes neither the output nor the spans -/
theorem nodeRes_ok (banks : List Bank) (b : Bank) (it : IterSt) (st st' : BuildSt) (n : Nat)
    (h : nodeRes banks b it st n = .ok st') :
    st'.out = st.out ∧ st'.spans = st.spans ∧ st'.it = it ∧
    (st'.ov = st.ov ∨ ∃ o, b.outp = some o ∧ checkAndInsert st.ov (o + it.pos) n = some st'.ov) := by
  unfold nodeRes at h
  cases h1 : checkBankUsage banks it with
  | error e => rw [h1] at h; cases h
  | ok u =>
    rw [h1] at h
    cases h2 : checkBankOutput b it.pos n false with
    | error e => rw [h2] at h; cases h
    | ok u2 =>
      rw [h2] at h
      simp only at h
      cases ho : b.outp with
      | none =>
        have hp : getOutputPosition b it.pos = none := by simp [getOutputPosition, ho]
        rw [hp] at h
        simp only [Except.ok.injEq] at h
        subst h
        exact ⟨rfl, rfl, rfl, Or.inl rfl⟩
      | some o =>
        have hp : getOutputPosition b it.pos = some (o + it.pos) := by simp [getOutputPosition, ho]
        rw [hp] at h
        simp only at h
        cases hci : checkAndInsert st.ov (o + it.pos) n with
        | none => rw [hci] at h; cases h
        | some ov =>
          rw [hci] at h
          simp only [Except.ok.injEq] at h
          subst h
          exact ⟨rfl, rfl, rfl, Or.inr ⟨o, rfl, hci⟩⟩

theorem nodeLabel_ok (banks : List Bank) (b : Bank) (it : IterSt) (st st' : BuildSt) (v : Int)
    (h : nodeLabel banks b it st v = .ok st') :
    st'.out = st.out ∧ st'.ov = st.ov ∧ st'.it = it ∧
    st'.spans = st.spans ++ [⟨getOutputPosition b it.pos, 0, v⟩] := by
  unfold nodeLabel at h
  cases h1 : checkBankUsage banks it with
  | error e => rw [h1] at h; cases h
  | ok u =>
    rw [h1] at h
    cases h2 : checkBankOutput b it.pos 0 false with
    | error e => rw [h2] at h; cases h
    | ok u2 =>
      rw [h2] at h
      simp only [Except.ok.injEq] at h
      subst h
      exact ⟨rfl, rfl, rfl, rfl⟩

end Casm
