import Casm.Model.Assemble
/-!
# Casm.Proofs.ViewCongr — evaluation reads a state only through its values

Expression evaluation, candidate resolution and `asm` blocks read a resolver state through the
symbol *values*, the banks, the rule definitions and the functions; never through the "resolved"
marks or the stored encodings.  Two states with the same view give the same functions.
-/
namespace Casm

/-- what evaluation can see of a state -/
structure SameView (d d' : Defs) : Prop where
  vals : ∀ r, (d'.sym r).value = (d.sym r).value
  banks : d'.banks = d.banks
  ruledefs : d'.ruledefs = d.ruledefs
  fns : d'.fns = d.fns

theorem SameView.refl (d : Defs) : SameView d d := ⟨fun _ => rfl, rfl, rfl, rfl⟩

theorem evalAddress_view {d d' : Defs} (h : SameView d d') : evalAddress d' = evalAddress d := by
  funext ctx g; simp only [evalAddress, h.banks]

theorem evalVariable_view (st : Static) {d d' : Defs} (h : SameView d d') : evalVariable st d' = evalVariable st d := by
  funext ctx level path
  simp only [evalVariable, evalAddress_view h, h.vals]

/-- all the functions of the mutual block, at one fuel -/
structure ViewEq (st : Static) (d d' : Defs) (fuel : Nat) : Prop where
  env : mkEnv st d' fuel = mkEnv st d fuel
  rmatch : resolveMatch st d' fuel = resolveMatch st d fuel
  rargs : resolveArgs st d' fuel = resolveArgs st d fuel
  rmatches : resolveMatches st d' fuel = resolveMatches st d fuel
  renc : resolveEncoding st d' fuel = resolveEncoding st d fuel
  easm : evalAsm st d' fuel = evalAsm st d fuel
  aiter : asmIterate st d' fuel = asmIterate st d fuel
  aonce : asmOnce st d' fuel = asmOnce st d fuel

theorem viewEq (st : Static) {d d' : Defs} (h : SameView d d') : ∀ fuel, ViewEq st d d' fuel := by
  intro fuel
  induction fuel with
  | zero =>
    refine ⟨?_, ?_, ?_, ?_, ?_, ?_, ?_, ?_⟩
    · funext ctx; simp only [mkEnv, evalVariable_view st h]
    · funext ctx m a; simp only [resolveMatch]
    · funext ctx r args i a b; simp only [resolveArgs]
    · funext ctx ms a acc; simp only [resolveMatches]
    · funext ctx ms a; simp only [resolveEncoding]
    · funext ctx t e; simp only [evalAsm]
    · funext ctx ns e l b i; rw [asmIterate, asmIterate]
    · funext ctx ns e l c r u; simp only [asmOnce]
  | succ f ih =>
    refine ⟨?_, ?_, ?_, ?_, ?_, ?_, ?_, ?_⟩
    · funext ctx; simp only [mkEnv, evalVariable_view st h, h.fns, ih.env, ih.easm]
    · funext ctx m a; simp only [resolveMatch, h.ruledefs, ih.rargs, ih.env]
    · funext ctx r args i a b
      cases args with
      | nil => simp only [resolveArgs]
      | cons x rest => cases x <;> simp only [resolveArgs, ih.env, ih.rmatch, ih.rargs]
    · funext ctx ms a acc
      cases ms with
      | nil => simp only [resolveMatches]
      | cons x rest => simp only [resolveMatches, ih.rmatch, ih.rmatches]
    · funext ctx ms a; simp only [resolveEncoding, ih.rmatches]
    · funext ctx t e; simp only [evalAsm, ih.aiter]
    · funext ctx ns e l b i; rw [asmIterate, asmIterate]; simp only [ih.aonce, ih.aiter]
    · funext ctx ns e l c r u
      cases ns with
      | nil => simp only [asmOnce]
      | cons x rest => cases x <;> simp only [asmOnce, evalAddress_view h, h.ruledefs, ih.renc, ih.aonce]

theorem resolverEval_view (st : Static) {d d' : Defs} (h : SameView d d') : resolverEval st d' = resolverEval st d := by
  funext ctx e x; simp only [resolverEval, (viewEq st h evalFuel).env]

end Casm
