import Casm.Proofs.Frozen
/-!
# Casm.Proofs.FullFix — the final state recomputes to itself with every short-cut mark cleared

From the invariant `Good`: every marked instruction recomputes, in the final state, to the frozen
encoding (`frozen_instruction_sound`), every marked data element to its frozen bits
(`pure_static_eval`).  Hence (`resolveOnce_uf`) the final state of a successful assembly, with
all first-pass marks cleared, is a fixed point of the strict pass: recomputing *every* item from
the final values reproduces exactly what is emitted.
-/
namespace Casm

theorem instr_recomputes (st : Static) (nodes : List AstNode) (d0 d : Defs) (g : Good st nodes d0 d)
    (pre : List AstNode) (src : List Char) (ref : Nat) (post : List AstNode) (hsplit : nodes = pre ++ .instr src (some ref) :: post)
    (hm : (d.instrs.getD ref default).resolved = true) (ctx : RCtx) (hf : ctx.first = false)
    (hc : ctx.symCtx = ctxAfter st [] (pre ++ [.instr src (some ref)])) :
    resolveInstruction st d.unfreeze ctx ref = .ok (d.unfreeze, true, []) := by
  obtain ⟨s1, ctx1, encs, rp, e, w1, w2, w3, w4, w5, w6, w7, w8, w9⟩ := g.hi ref hm
  have hsc : ctx.symCtx = ctx1.symCtx := by
    rw [hc, w3 pre src post hsplit]; simp [ctxAfter, stepCtx]
  have rel : SRel d0 s1 d ctx1 ctx := ⟨w1, g.rd, hsc, w2⟩
  have hrec := frozen_instruction_sound st d0 s1 d ctx1 ctx rel 64 _
    (fun c hc => by obtain ⟨mi, hmi, rfl⟩ := List.mem_map.mp hc; exact w4 mi hmi) w5 encs rp w6 w7
  unfold resolveInstruction
  simp only [unfreeze_instr, Bool.false_eq_true, if_false, (viewEq st (unfreeze_view d) evalFuel).renc, (g.ic ref).1, hrec]
  cases encs with
  | nil => cases w8
  | cons e' t =>
    simp only [List.head?_cons, Option.some.injEq] at w8
    subst w8
    simp only [Option.bind_some, List.head?_cons, Option.map_some, hf, Bool.and_false, Bool.false_and, Bool.false_eq_true, if_false, ← w9]
    have hset : ({ d.unfreeze with instrs := (d.unfreeze.instrs.set ref
        ⟨(d0.instrs.getD ref default).cands, (d.instrs.getD ref default).known, (d.instrs.getD ref default).encoding, false⟩) } : Defs)
        = d.unfreeze := by
      have := set_getD_self d.unfreeze.instrs ref default
      rw [unfreeze_instr] at this
      simp only [(g.ic ref).1] at this
      simp only [this]
    simp only [hset, beq_self_eq_true, Bool.and_self, Bool.not_true, Bool.false_eq_true, if_false]

theorem dataEnc_any (must : Bool) (v : Value) (b0 : BI) (h : dataEnc true v = .ok (some b0)) : dataEnc must v = .ok (some b0) := by
  unfold dataEnc at h ⊢
  cases v <;> first | exact h | (simp at h)

theorem dataCheck_any (must : Bool) (sz : Option Nat) (b0 : BI) (h : dataCheck true sz (some b0) = .ok ()) :
    dataCheck must sz (some b0) = .ok () := by
  cases must with
  | true => exact h
  | false => simp [dataCheck]

theorem data_recomputes (st : Static) (nodes : List AstNode) (d0 d : Defs) (g : Good st nodes d0 d)
    (pre : List AstNode) (sz : Option Nat) (es : List Expr) (refs : List Nat) (post : List AstNode) (k : Nat)
    (hsplit : nodes = pre ++ .data sz es refs :: post) (hk : k < es.length)
    (hm : (d.datas.getD (refs.getD k 0) default).resolved = true) (ctx : RCtx) (hf : ctx.first = false) :
    resolveData st d.unfreeze ctx (refs.getD k 0) sz (es.getD k default) = .ok (d.unfreeze, true, []) := by
  obtain ⟨v, c, b0, w1, w2, w3, w4⟩ := g.hd _ hm pre sz es refs post k hsplit hk rfl
  unfold resolveData
  simp only [unfreeze_data, Bool.false_eq_true, if_false, w1, dataEnc_any _ v b0 w2, dataCheck_any _ sz b0 w3]
  unfold dataStore
  simp only [unfreeze_data, Option.map_some, hf, Bool.and_false, Bool.false_and, Bool.false_eq_true, if_false, ← w4]
  have hset : ({ d.unfreeze with datas := (d.unfreeze.datas.set (refs.getD k 0)
      ⟨(d.datas.getD (refs.getD k 0) default).known, (d.datas.getD (refs.getD k 0) default).encoding, false⟩) } : Defs)
      = d.unfreeze := by
    have := set_getD_self d.unfreeze.datas (refs.getD k 0) default
    rw [unfreeze_data] at this
    simp only [this]
  simp only [hset, beq_self_eq_true, Bool.and_self, Bool.not_true, Bool.false_eq_true, if_false]

/-- under the invariant every marked item recomputes to its stored value -/
theorem good_recomputesAll (st : Static) (nodes : List AstNode) (d0 d : Defs) (f : FrontOK st nodes d0) (g : Good st nodes d0 d) :
    RecomputesAll st d [] nodes := by
  intro pre n post k hsplit hk hm ctx hf hc
  cases n with
  | instr src r =>
    cases r with
    | none => simp [marked] at hm
    | some ref =>
      simp only [marked] at hm
      simp only [dispatch]
      exact instr_recomputes st nodes d0 d g pre src ref post hsplit hm ctx hf hc
  | data sz es refs =>
    simp only [marked] at hm
    simp only [dispatch]
    exact data_recomputes st nodes d0 d g pre sz es refs post k hsplit (by simpa [nodeElems] using hk) hm ctx hf
  | _ => simp [marked] at hm

/-- **the final state recomputes to itself, marks cleared** -/
theorem resolveIterativelyN_full_fixed_point (st : Static) (nodes : List AstNode) (d0 : Defs) (f : FrontOK st nodes d0)
    (max : Nat) (hmax : 2 ≤ max) (ho : st.opts.optStatic = true) (hwf : NoClash nodes)
    (k : Nat) (d : Defs) (rep : List String) (h : resolveIterativelyN st nodes max d0 = .ok (k, d, rep)) :
    ∃ r pre, resolveOnce st nodes false true d.unfreeze = .ok (d.unfreeze, true, r) ∧ rep = pre ++ r := by
  obtain ⟨r, pre, hfix, hrep⟩ := resolveIterativelyN_fixed_point st nodes max hmax hwf d0 k d rep h
  have g := resolveIterativelyN_good st nodes d0 f max ho (by omega) k d rep h
  have hok : NodesOK d nodes := pass_establishes_ok st nodes false true d d true r hfix hwf
  exact ⟨r, pre, resolveOnce_uf st nodes true d r hfix hok (good_recomputesAll st nodes d0 d f g), hrep⟩

end Casm
