import Casm.Model.Assemble
import Casm.Proofs.SymbolLemmas
/-!
# Casm.Proofs.FrontEndLemmas — the symbol table the front end builds is a `Built` table

`collect` declares every symbol either in the root context or in the context left by the symbol
declared (or met) just before it; functions are declared in the root context.  Hence the table
handed to the resolver is one of the tables for which `lookup_refines_scope` holds.
-/
namespace Casm

theorem mapNodesE_inv {σ} (f : σ → AstNode → Except String (σ × AstNode)) (I : σ → Prop)
    (hstep : ∀ s n s' n', I s → f s n = .ok (s', n') → I s') :
    ∀ (nodes : List AstNode) (s : σ) (acc : List AstNode) (s' : σ) (out : List AstNode),
      I s → mapNodesE f s nodes acc = .ok (s', out) → I s' := by
  intro nodes
  induction nodes with
  | nil => intro s acc s' out hi h; simp only [mapNodesE] at h; injection h with h; injection h with h1 _; rw [← h1]; exact hi
  | cons n rest ih =>
    intro s acc s' out hi h
    simp only [mapNodesE] at h
    cases hf : f s n with
    | error e => rw [hf] at h; cases h
    | ok x =>
      obtain ⟨s1, n1⟩ := x
      rw [hf] at h
      exact ih s1 _ s' out (hstep s n s1 n1 hi hf) h

/-- a context that is the root or the path of a declaration -/
def CtxOK (m : SymMgr) (ctx : List String) : Prop := ctx = [] ∨ ∃ i, i < m.decls.length ∧ (m.decls.getD i default).ctx = ctx

theorem ctxOK_of_decl (m : SymMgr) (r : Nat) : CtxOK m (m.decls.getD r default).ctx := by
  by_cases h : r < m.decls.length
  · exact Or.inr ⟨r, h, rfl⟩
  · left
    have : m.decls[r]? = none := List.getElem?_eq_none (by omega)
    simp [List.getD_eq_getElem?_getD, this]
    rfl

theorem collectSymbols_built (d d' : Decls) (nodes nodes' : List AstNode) (hb : Built d.symbols)
    (h : collectSymbols d nodes = .ok (d', nodes')) : Built d'.symbols := by
  unfold collectSymbols at h
  split at h
  · cases h
  · rename_i dd ctx ns hm
    injection h with h; injection h with h1 _
    subst h1
    have := mapNodesE_inv _ (fun (s : Decls × List String) => Built s.1.symbols ∧ CtxOK s.1.symbols s.2) ?_ nodes (d, []) [] (dd, ctx) ns
      ⟨hb, Or.inl rfl⟩ hm
    exact this.1
    intro s n s' n' hi hf
    obtain ⟨hbs, hcs⟩ := hi
    split at hf
    · rename_i level name kind ne ref
      cases ref with
      | some r =>
        simp only at hf
        injection hf with hf; injection hf with h1 _
        rw [← h1]
        exact ⟨hbs, ctxOK_of_decl _ r⟩
      | none =>
        simp only at hf
        split at hf
        · cases hf
        · rename_i r m hd
          injection hf with hf; injection hf with h1 _
          rw [← h1]
          exact ⟨Built.declare hbs hcs hd, ctxOK_of_decl m r⟩
    · injection hf with hf; injection hf with h1 _
      rw [← h1]; exact ⟨hbs, hcs⟩

theorem collectFunctions_built (d d' : Decls) (nodes nodes' : List AstNode) (hb : Built d.symbols)
    (h : collectFunctions d nodes = .ok (d', nodes')) : Built d'.symbols := by
  unfold collectFunctions at h
  refine mapNodesE_inv _ (fun (s : Decls) => Built s.symbols) ?_ nodes d [] d' nodes' hb h
  intro s n s' n' hi hf
  split at hf
  · split at hf
    · cases hf
    · rename_i r m hd
      injection hf with hf; injection hf with h1 _
      rw [← h1]
      exact Built.declare hi (Or.inl rfl) hd
  · injection hf with hf; injection hf with h1 _
    rw [← h1]; exact hi

theorem collectBankdefs_symbols (d d' : Decls) (nodes nodes' : List AstNode)
    (h : collectBankdefs d nodes = .ok (d', nodes')) : d'.symbols = d.symbols := by
  unfold collectBankdefs at h
  refine mapNodesE_inv _ (fun (s : Decls) => s.symbols = d.symbols) ?_ nodes d [] d' nodes' rfl h
  intro s n s' n' hi hf
  split at hf
  · split at hf
    · cases hf
    · injection hf with hf; injection hf with h1 _
      rw [← h1]; exact hi
  · injection hf with hf; injection hf with h1 _
    rw [← h1]; exact hi

theorem collectBanks_symbols (d d' : Decls) (nodes nodes' : List AstNode)
    (h : collectBanks d nodes = .ok (d', nodes')) : d'.symbols = d.symbols := by
  unfold collectBanks at h
  refine mapNodesE_inv _ (fun (s : Decls) => s.symbols = d.symbols) ?_ nodes d [] d' nodes' rfl h
  intro s n s' n' hi hf
  split at hf
  · split at hf
    · cases hf
    · injection hf with hf; injection hf with h1 _
      rw [← h1]; exact hi
  · injection hf with hf; injection hf with h1 _
    rw [← h1]; exact hi

theorem collectRuledefs_symbols (d d' : Decls) (nodes nodes' : List AstNode)
    (h : collectRuledefs d nodes = .ok (d', nodes')) : d'.symbols = d.symbols := by
  unfold collectRuledefs at h
  refine mapNodesE_inv _ (fun (s : Decls) => s.symbols = d.symbols) ?_ nodes d [] d' nodes' rfl h
  intro s n s' n' hi hf
  split at hf
  · simp only at hf
    split at hf
    · cases hf
    · injection hf with hf; injection hf with h1 _
      rw [← h1]; exact hi
  · injection hf with hf; injection hf with h1 _
    rw [← h1]; exact hi

theorem collectAll_built (d d' : Decls) (nodes nodes' : List AstNode) (hb : Built d.symbols)
    (h : collectAll d nodes = .ok (d', nodes')) : Built d'.symbols := by
  unfold collectAll at h
  simp only [bind, Except.bind] at h
  cases h1 : collectBankdefs d nodes with
  | error e => rw [h1] at h; cases h
  | ok x1 =>
    obtain ⟨d1, n1⟩ := x1
    rw [h1] at h
    simp only at h
    cases h2 : collectBanks d1 n1 with
    | error e => rw [h2] at h; cases h
    | ok x2 =>
      obtain ⟨d2, n2⟩ := x2
      rw [h2] at h
      simp only at h
      cases h3 : collectRuledefs d2 n2 with
      | error e => rw [h3] at h; cases h
      | ok x3 =>
        obtain ⟨d3, n3⟩ := x3
        rw [h3] at h
        simp only at h
        cases h4 : collectSymbols d3 n3 with
        | error e => rw [h4] at h; cases h
        | ok x4 =>
          obtain ⟨d4, n4⟩ := x4
          rw [h4] at h
          simp only at h
          have e1 := collectBankdefs_symbols d d1 nodes n1 h1
          have e2 := collectBanks_symbols d1 d2 n1 n2 h2
          have e3 := collectRuledefs_symbols d2 d3 n2 n3 h3
          have hb3 : Built d3.symbols := by rw [e3, e2, e1]; exact hb
          exact collectFunctions_built d4 d' n4 nodes' (collectSymbols_built d3 d4 n3 n4 hb3 h4) h

theorem declLoop_built (opts : Opts) :
    ∀ (fuel : Nat) (d : Decls) (defs : Defs) (nodes : List AstNode) (prev : Nat) (d' : Decls) (defs' : Defs) (nodes' : List AstNode),
      Built d.symbols → declLoop opts fuel d defs nodes prev = .ok (d', defs', nodes') → Built d'.symbols := by
  intro fuel
  induction fuel with
  | zero => intro d defs nodes prev d' defs' nodes' _ h; simp [declLoop] at h
  | succ f ih =>
    intro d defs nodes prev d' defs' nodes' hb h
    simp only [declLoop] at h
    cases hc : collectAll d nodes with
    | error e => rw [hc] at h; cases h
    | ok x =>
      obtain ⟨d1, n1⟩ := x
      rw [hc] at h
      simp only at h
      have hb1 := collectAll_built d d1 nodes n1 hb hc
      split at h
      · cases h
      · split at h
        · cases h
        · split at h
          · injection h with h; injection h with h1 _
            rw [← h1]; exact hb1
          · exact ih _ _ _ _ _ _ _ hb1 h

/-- **the symbol table handed to the resolver is a `Built` table** -/
theorem frontEnd_built (opts : Opts) (fs : SrcFiles) (roots : List (List Char)) (st : Static) (nodes : List AstNode) (defs : Defs)
    (h : frontEnd opts fs roots = .ok (st, nodes, defs)) : Built st.decls.symbols := by
  unfold frontEnd at h
  split at h
  · cases h
  · rename_i d defs0 nodes0 hp
    split at h
    split at h
    · cases h
    · injection h with h; injection h with h1 _
      rw [← h1]
      simp only
      unfold frontEndPre at hp
      split at hp
      · cases hp
      · split at hp
        · cases hp
        · simp only at hp
          split at hp
          · cases hp
          · rename_i d2 defs2 nodes2 hl
            split at hp
            · cases hp
            · split at hp
              · cases hp
              · injection hp with hp; injection hp with h2 _
                rw [← h2]
                exact declLoop_built opts _ _ _ _ _ _ _ _ (Built.new "symbol") hl

end Casm
