import Casm.Proofs.EvalMono
/-!
# Casm.Proofs.EvalDefinite — a definite value does not depend on what was unknown

`Unknown` and `FailedConstraint` propagate: as soon as a sub-expression yields one of them the whole
expression yields it.  Hence a *definite* result was computed from definite answers of the environment
only, and every environment that repeats those definite answers — whatever it says where the first one
said `Unknown` — computes the same result.
-/
namespace Casm

/-- `env2` repeats every definite answer of `env1` -/
structure DefLe (env1 env2 : EvalEnv) : Prop where
  var : ∀ l p v, env1.var l p = .ok v → v.shouldPropagate = false → env2.var l p = .ok v
  fn : ∀ f a c v, env1.fn f a c = .ok v → v.shouldPropagate = false → env2.fn f a c = .ok v
  asm : ∀ t c v, env1.asm t c = .ok v → v.shouldPropagate = false → env2.asm t c = .ok v

theorem evalArgs_inl_propagates (env : EvalEnv) : ∀ (es : List Expr) (c : ECtx) (acc : List Value) (v : Value) (c' : ECtx),
    evalArgs env c acc es = .ok (.inl v, c') → v.shouldPropagate = true := by
  intro es
  induction es with
  | nil => intro c acc v c' h; simp [evalArgs] at h
  | cons e rest ih =>
    intro c acc v c' h
    rw [evalArgs] at h
    cases he : eval env c e with
    | error m => rw [he] at h; cases h
    | ok x =>
      obtain ⟨w, c1⟩ := x
      rw [he] at h
      simp only at h
      split at h
      · rename_i hw
        injection h with h; injection h with h1 _; injection h1 with h1
        rw [← h1]; exact hw
      · exact ih _ _ _ _ h

set_option maxHeartbeats 2000000 in
theorem eval_definite (env1 env2 : EvalEnv) (le : DefLe env1 env2) :
    (∀ c e v c', eval env1 c e = .ok (v, c') → v.shouldPropagate = false → eval env2 c e = .ok (v, c')) := by
  intro c e
  apply eval.induct env1
    (motive_1 := fun c e => ∀ v c', eval env1 c e = .ok (v, c') → v.shouldPropagate = false → eval env2 c e = .ok (v, c'))
    (motive_2 := fun c acc es => ∀ vs c', evalArgs env1 c acc es = .ok (.inr vs, c') → evalArgs env2 c acc es = .ok (.inr vs, c'))
    (motive_3 := fun c last es => ∀ v c', evalBlock env1 c last es = .ok (v, c') → v.shouldPropagate = false → evalBlock env2 c last es = .ok (v, c'))
  case case19 =>
    intro locals l r locals1 x h ih1 v c' a hp
    have h1 := ih1 _ _ x rfl
    rw [eval] at a ⊢
    rw [x] at a; rw [h1]
    simpa using a
  case case27 =>
    intro locals l r locals1 x h ih1 v c' a hp
    have h1 := ih1 _ _ x rfl
    rw [eval] at a ⊢
    rw [x] at a; rw [h1]
    simpa using a
  case case22 =>
    intro locals l r locals1 locals2 b x1 h1 x2 h2 ih2 ih1 v c' a hp
    have e1 := ih2 _ _ x1 rfl
    have e2 := ih1 _ _ x2 rfl
    rw [eval] at a ⊢
    rw [x1] at a; rw [e1]
    simp only [Value.shouldPropagate, Bool.false_eq_true, if_false] at a ⊢
    rw [x2] at a; rw [e2]
    simpa using a
  case case30 =>
    intro locals l r locals1 locals2 b x1 h1 x2 h2 ih2 ih1 v c' a hp
    have e1 := ih2 _ _ x1 rfl
    have e2 := ih1 _ _ x2 rfl
    rw [eval] at a ⊢
    rw [x1] at a; rw [e1]
    simp only [Value.shouldPropagate, Bool.false_eq_true, if_false] at a ⊢
    rw [x2] at a; rw [e2]
    simpa using a
  case case68 =>
    intro locals f args fv locals1 x1 h1 v1 locals2 x2 ih2 ih1 v c' a hp
    rw [eval] at a
    rw [x1] at a
    simp only [h1, if_false] at a
    rw [x2] at a
    simp only at a
    injection a with a; injection a with a1 _
    rw [← a1, evalArgs_inl_propagates env1 _ _ _ _ _ x2] at hp
    cases hp
  case case4 =>
    intro locals name h x v c' a hp
    rw [eval] at a ⊢
    simp only [h, x, Bool.false_eq_true, if_false] at a ⊢
    obtain ⟨w, hw, hr⟩ := map_ok _ _ _ a
    injection hr with hr1 hr2; subst hr1; subst hr2
    rw [le.var _ _ _ hw hp]; rfl
  case case5 =>
    intro locals level path hx v c' a hp
    have ea : ∀ env : EvalEnv, eval env locals (Expr.var level path) = Except.map (fun x => (x, locals)) (env.var level path) := by
      intro env; rw [eval]; exact hx
    rw [ea] at a ⊢
    obtain ⟨w, hw, hr⟩ := map_ok _ _ _ a
    injection hr with hr1 hr2; subst hr1; subst hr2
    rw [le.var _ _ _ hw hp]; rfl
  case case70 =>
    intro locals f args locals1 vs locals2 x1 name x2 h ih2 ih1 v c' a hp
    have e2 := ih2 _ _ x2 rfl
    have e1 := ih1 _ _ x1
    rw [eval] at a ⊢
    rw [x2] at a; rw [e2]
    simp only [Value.shouldPropagate, Bool.false_eq_true, if_false] at a ⊢
    rw [x1] at a; rw [e1]
    simp only at a ⊢
    obtain ⟨w, hw, hr⟩ := map_ok _ _ _ a
    injection hr with hr1 hr2; subst hr1; subst hr2
    rw [le.fn _ _ _ _ hw hp]; rfl
  case case71 =>
    intro locals f args locals1 vs locals2 x1 idx x2 h ih2 ih1 v c' a hp
    have e2 := ih2 _ _ x2 rfl
    have e1 := ih1 _ _ x1
    rw [eval] at a ⊢
    rw [x2] at a; rw [e2]
    simp only [Value.shouldPropagate, Bool.false_eq_true, if_false] at a ⊢
    rw [x1] at a; rw [e1]
    simp only at a ⊢
    obtain ⟨w, hw, hr⟩ := map_ok _ _ _ a
    injection hr with hr1 hr2; subst hr1; subst hr2
    rw [le.fn _ _ _ _ hw hp]; rfl
  all_goals (intros; first
    | (simp_all [eval, evalArgs, evalBlock]; done)
    | (rename_i a hp; rw [eval] at a ⊢; simp only [*] at a ⊢
       obtain ⟨w, hw, hr⟩ := map_ok _ _ _ a
       injection hr with hr1 hr2; subst hr1; subst hr2
       rw [le.var _ _ _ hw hp]; rfl)
    | (rename_i a hp; rw [eval] at a ⊢
       obtain ⟨w, hw, hr⟩ := map_ok _ _ _ a
       injection hr with hr1 hr2; subst hr1; subst hr2
       rw [le.asm _ _ _ hw hp]; rfl))

end Casm
