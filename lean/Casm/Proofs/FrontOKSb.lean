import Casm.Proofs.FrozenS
import Casm.Proofs.FrontOKb
/-!
# Casm.Proofs.FrontOKSb — the decision procedure `frontOKSb` is sound for `FrontOKS`

The one fact that is not a plain look-up: a definite value `eval_simple` computes for a statically
known expression is the value the resolver computes for it, in every state, at every address, in
every pass (`evalSimple_pure`).  `eval_simple` answers `unknown` where the resolver reads a file; the
one-directional agreement `eval_static_le` carries every definite answer over.
-/
namespace Casm

/-- the value of a symbol slot as `eval_simple` reads it -/
def slotVal (defs : Defs) (r : Nat) : Except String Value :=
  match defs.symbols.getD r none with
  | some s => .ok s.value
  | none => .ok .unknown

/-- the evaluation environment of `eval_simple` -/
def simpleEnv (d : Decls) (defs : Defs) : EvalEnv :=
  { var := fun level path =>
      if level == 0 && (path == ["$"] || path == ["pc"]) then .ok .unknown
      else if level == 0 && (match path with | [n] => isAsmBuiltinName n | _ => false) then
        .ok (.asmBuiltin (path.head?.getD ""))
      else match d.symbols.tryGetByName [] level path with
        | some r => slotVal defs r
        | none => .ok .unknown
    fn := fun _ _ _ => .ok .unknown
    asm := fun _ _ => .ok .unknown }

theorem evalSimple_eq (d : Decls) (defs : Defs) (e : Expr) :
    evalSimple d defs e = match eval (simpleEnv d defs) {} e with
      | .error m => .error m
      | .ok (.failed msg, _) => .error msg
      | .ok (v, _) => .ok v := rfl

theorem simpleEnv_asmBuiltin (d : Decls) (defs : Defs) (n : String) (h : isAsmBuiltinName n = true) :
    (simpleEnv d defs).var 0 [n] = .ok (.asmBuiltin n) := by
  rcases asmBuiltin_cases n h with rfl | rfl | rfl <;> simp [simpleEnv, isAsmBuiltinName]

/-- **a definite value of `eval_simple` for a statically known expression is the resolver's value**,
    in every state and context -/
theorem evalSimple_pure (st : Static) (d : Decls) (defs : Defs) (e : Expr) (hk : staticallyKnown pureP e = true)
    (v : Value) (h : evalSimple d defs e = .ok v) (hv : v ≠ .unknown) :
    ∃ c, ∀ s ctx, resolverEval st s ctx {} e = .ok (v, c) := by
  rw [evalSimple_eq] at h
  cases hev : eval (simpleEnv d defs) {} e with
  | error m => rw [hev] at h; cases h
  | ok x =>
    obtain ⟨v', c⟩ := x
    rw [hev] at h
    have hvv : v' = v := by
      cases v' <;> first | (injection h) | cases h
    subst hvv
    refine ⟨c, fun s ctx => ?_⟩
    unfold resolverEval
    have ag : AgreeLe pureP (simpleEnv d defs) (mkEnv st s evalFuel ctx) := by
      refine ⟨fun l path hq => (by cases hq), ?_, ?_⟩
      · intro n vs c' w hw hne
        have : (simpleEnv d defs).fn (.asmBuiltin n) vs c' = .ok .unknown := rfl
        rw [this] at hw
        injection hw with hw
        exact absurd hw.symm hne
      · intro n hq _
        exact Or.inl ⟨n, simpleEnv_asmBuiltin d defs n hq, by rw [mkEnv_var]; exact evalVariable_asmBuiltin st s ctx n hq⟩
    have hp : ProviderOK pureP := fun n _ => rfl
    have hc : CtxInv pureP {} := ⟨fun n _ _ => rfl, fun n l hl _ => by cases hl⟩
    have hu : v'.isUnk = false := by
      cases v' <;> first | rfl | exact absurd rfl hv
    exact (eval_static_le pureP hp _ _ ag {} e hk hc v' c hev hu).1

theorem frontOKSb_sound (st : Static) (nodes : List AstNode) (d0 : Defs) (h : frontOKSb st nodes d0 = true) :
    FrontOKS st nodes d0 (markedByBoth st d0) := by
  unfold frontOKSb at h
  have pos : ∀ pre l nm e ne r post, nodes = pre ++ .symbol l nm (.constant e) ne (some r) :: post →
      (((positions nodes).all fun q => match q.2 with
         | .symbol _ _ (.constant _) _ (some r') => r' != r || q.1 == pre.length
         | _ => true)
      && (!(d0.sym r).known || staticallyKnown pureP e)
      && (!((d0.sym r).resolved && !markedByBoth st d0 r) ||
            ((d0.sym r).known && (match evalSimple st.decls d0 e with
              | .ok v => v == (d0.sym r).value && (match v with | .unknown => false | _ => true)
              | .error _ => false)))) = true := by
    intro pre l nm e ne r post hs
    obtain ⟨hm, _⟩ := positions_of_split nodes pre _ post hs
    exact List.all_eq_true.mp h _ hm
  refine ⟨?_, ?_, ?_, ?_⟩
  · -- constKnown
    intro l nm e ne r hm hk
    obtain ⟨pre, post, hs⟩ := split_of_mem nodes _ hm
    have hp := pos pre l nm e ne r post hs
    simp only [Bool.and_eq_true] at hp
    have := hp.1.2
    rw [hk] at this
    simpa using this
  · -- constUniq
    intro l nm e ne l' nm' e' ne' r hm hm'
    obtain ⟨pre, post, hs⟩ := split_of_mem nodes _ hm
    obtain ⟨pre', post', hs'⟩ := split_of_mem nodes _ hm'
    have hp := pos pre l nm e ne r post hs
    simp only [Bool.and_eq_true] at hp
    obtain ⟨hq, _⟩ := positions_of_split nodes pre' _ post' hs'
    have := List.all_eq_true.mp hp.1.1 _ hq
    simp only [bne_self_eq_false, Bool.false_or, beq_iff_eq] at this
    have e1 : pre' = pre := by
      have t1 := (positions_of_split nodes pre' _ post' hs').2
      have t2 := (positions_of_split nodes pre _ post hs).2
      rw [← t1, ← t2, this]
    subst e1
    have := hs.symm.trans hs'
    have := List.append_cancel_left this
    injection this with h1 _
    injection h1 with _ _ h3 _ _
    injection h3 with h3
    exact h3.symm
  · -- hmarked
    intro r hr
    unfold markedByBoth at hr
    simp only [Bool.and_eq_true] at hr
    exact hr.1
  · -- cw0
    intro l nm e ne r hm hres hh
    obtain ⟨pre, post, hs⟩ := split_of_mem nodes _ hm
    have hp := pos pre l nm e ne r post hs
    simp only [Bool.and_eq_true] at hp
    have h3 := hp.2
    rw [hres, hh] at h3
    simp only [Bool.not_false, Bool.and_self, Bool.not_true, Bool.false_or, Bool.and_eq_true] at h3
    obtain ⟨hk, hev⟩ := h3
    have hpure : staticallyKnown pureP e = true := by
      have := hp.1.2
      rw [hk] at this
      simpa using this
    refine ⟨hk, ?_⟩
    cases hes : evalSimple st.decls d0 e with
    | error m => rw [hes] at hev; cases hev
    | ok v =>
      rw [hes] at hev
      simp only [Bool.and_eq_true, beq_iff_eq] at hev
      obtain ⟨hval, hne⟩ := hev
      have hvu : v ≠ .unknown := by
        intro hh; subst hh; cases hne
      obtain ⟨c, hc⟩ := evalSimple_pure st st.decls d0 e hpure v hes hvu
      exact ⟨v, c, hc, hval.symm⟩

end Casm
