import Casm.Proofs.FullFix
import Casm.Proofs.RecomputeS
/-!
# Casm.Proofs.FrozenS — marked constants recompute too

`Good` extended by the witness of a marked constant outside `H`: its value is the value its
(statically known, hence state-independent) expression evaluates to.  With it the final state with
the marks of instructions, data elements *and* these constants cleared is a fixed point of the
strict pass.
-/
namespace Casm

/-- front-end facts about constants: a flagged constant's expression is statically known; a
    constant marked for the optimisation only (outside `H`) already holds its pure value -/
structure FrontOKS (st : Static) (nodes : List AstNode) (d0 : Defs) (H : Nat → Bool) : Prop where
  constKnown : ∀ l nm e ne r, AstNode.symbol l nm (.constant e) ne (some r) ∈ nodes → (d0.sym r).known = true →
    staticallyKnown pureP e = true
  constUniq : ∀ l nm e ne l' nm' e' ne' r, AstNode.symbol l nm (.constant e) ne (some r) ∈ nodes →
    AstNode.symbol l' nm' (.constant e') ne' (some r) ∈ nodes → e' = e
  hmarked : ∀ r, H r = true → (d0.sym r).resolved = true
  cw0 : ∀ l nm e ne r, AstNode.symbol l nm (.constant e) ne (some r) ∈ nodes → (d0.sym r).resolved = true → H r = false →
    (d0.sym r).known = true ∧ ∃ v c, (∀ s ctx, resolverEval st s ctx {} e = .ok (v, c)) ∧ (d0.sym r).value = v

/-- the witness of a marked constant -/
def CWit (st : Static) (nodes : List AstNode) (d0 d : Defs) (r : Nat) : Prop :=
  ∀ l nm e ne, AstNode.symbol l nm (.constant e) ne (some r) ∈ nodes →
    (d0.sym r).known = true ∧ ∃ v c, (∀ s ctx, resolverEval st s ctx {} e = .ok (v, c)) ∧ (d.sym r).value = v

def GoodC (st : Static) (nodes : List AstNode) (d0 d : Defs) (H : Nat → Bool) : Prop :=
  (∀ r, H r = true → (d.sym r).resolved = true) ∧
  (∀ r, (d.sym r).resolved = true → H r = false → CWit st nodes d0 d r)

theorem goodC_init (st : Static) (nodes : List AstNode) (d0 : Defs) (H : Nat → Bool) (f : FrontOKS st nodes d0 H) :
    GoodC st nodes d0 d0 H :=
  ⟨f.hmarked, fun r hr hh l nm e ne hm => f.cw0 l nm e ne r hm hr hh⟩

/-- one resolver step preserves the constant witnesses -/
theorem dispatch_goodC (st : Static) (nodes : List AstNode) (d0 d d' : Defs) (H : Nat → Bool)
    (f : FrontOK st nodes d0) (fs : FrontOKS st nodes d0 H) (n : AstNode) (hmem : n ∈ nodes)
    (ctx : RCtx) (k : Nat) (s : Bool) (rep : List String) (g : Good st nodes d0 d) (gc : GoodC st nodes d0 d H)
    (h : dispatch st d ctx n k = .ok (d', s, rep)) : GoodC st nodes d0 d' H := by
  have sf := dispatch_symframe st d d' ctx n k s rep h
  refine ⟨fun r hr => sf.res r (gc.1 r hr), fun r hres' hh l nm e ne hm => ?_⟩
  by_cases hres : (d.sym r).resolved = true
  · -- already marked: the symbol is not touched
    obtain ⟨hk, v, c, hp, hv⟩ := gc.2 r hres hh l nm e ne hm
    refine ⟨hk, v, c, hp, ?_⟩
    have hkeep : d'.sym r = d.sym r := by
      by_cases hn : ∃ l' nm' kd ne', n = .symbol l' nm' kd ne' (some r)
      case neg => exact sf.other r (fun l' nm' kd ne' he => hn ⟨l', nm', kd, ne', he⟩)
      case pos =>
        obtain ⟨l', nm', kd, ne', hn⟩ := hn
        cases kd with
        | label =>
          have := f.labelNotKnown l' nm' ne' r (by rw [← hn]; exact hmem)
          rw [this] at hk; cases hk
        | constant e' => rw [sf.constRes l' nm' e' ne' r hn hres]
    rw [hkeep]; exact hv
  · -- marked by this step: `n` is this constant's node and the short-cut branch was taken
    have hres0 : (d.sym r).resolved = false := by simpa using hres
    have hn : ∃ l' nm' kd ne', n = .symbol l' nm' kd ne' (some r) := by
      refine Classical.byContradiction fun hno => ?_
      have := sf.other r (fun l' nm' kd ne' he => hno ⟨l', nm', kd, ne', he⟩)
      rw [this, hres0] at hres'; cases hres'
    obtain ⟨l', nm', kd, ne', hn⟩ := hn
    subst hn
    cases kd with
    | label =>
      -- a label step keeps the mark as it was
      have hd : resolveLabel st d ctx r = .ok (d', s, rep) := by simpa [dispatch] using h
      unfold resolveLabel at hd
      cases ha : evalAddress d ctx ctx.canGuess with
      | error e => rw [ha] at hd; cases hd
      | ok a =>
        rw [ha] at hd
        simp only at hd
        have hdd : d' = d.setSym r { d.sym r with value := .int ⟨a, none⟩ } := by
          rcases ite_ok_inv _ _ _ _ hd with ⟨_, hd⟩ | ⟨_, hd⟩ <;>
          · injection hd with hd; injection hd with h1 _; exact h1.symm
        subst hdd
        rcases sym_setSym d r r { d.sym r with value := .int ⟨a, none⟩ } with h1 | ⟨_, h1⟩
        · rw [h1, hres0] at hres'; cases hres'
        · rw [h1] at hres'; simp only at hres'; rw [hres0] at hres'; cases hres'
    | constant e' =>
      have hd : resolveConstant st d ctx r e' = .ok (d', s, rep) := by simpa [dispatch] using h
      unfold resolveConstant at hd
      simp only [hres0, Bool.false_eq_true, if_false] at hd
      cases hev : resolverEval st d ctx {} e' with
      | error m => rw [hev] at hd; cases hd
      | ok x =>
        obtain ⟨v, c⟩ := x
        rw [hev] at hd
        simp only at hd
        have hdd : d' = d.setSym r { d.sym r with value := v, resolved := st.opts.optStatic && ctx.first && (d.sym r).known } := by
          rcases ite_ok_inv _ _ _ _ hd with ⟨_, hd⟩ | ⟨_, hd⟩ <;>
          · injection hd with hd; injection hd with h1 _; exact h1.symm
        subst hdd
        rcases sym_setSym d r r { d.sym r with value := v, resolved := st.opts.optStatic && ctx.first && (d.sym r).known } with h1 | ⟨_, h1⟩
        · rw [h1, hres0] at hres'; cases hres'
        · rw [h1] at hres' ⊢
          simp only [Bool.and_eq_true] at hres'
          have hk0 : (d0.sym r).known = true := by rw [← g.kn r]; exact hres'.2
          refine ⟨hk0, ?_⟩
          have he : e' = e := fs.constUniq l nm e ne l' nm' e' ne' r hm hmem
          subst he
          have hpure : staticallyKnown pureP e' = true := fs.constKnown l' nm' e' ne' r hmem hk0
          exact ⟨v, c, fun s2 ctx2 => by rw [pure_static_eval st d s2 ctx ctx2 e' hpure]; exact hev, rfl⟩

end Casm
