import Casm.Proofs.FrontFacts
import Casm.Proofs.KindInv
/-!
# Casm.Proofs.FrontSyms — the symbol-table facts of `FrontOK`

Through the declaration loop: a symbol flagged statically known is a constant (so no label is
flagged), and — with the static optimisation on — a flagged symbol that has a value is marked
resolved; `define_remaining` adds the function symbols (flagged, marked).
-/
namespace Casm

theorem collectAll_kindExt (d d' : Decls) (nodes nodes' : List AstNode) (hk : KInv d.symbols nodes)
    (h : collectAll d nodes = .ok (d', nodes')) : KindExt d.symbols d'.symbols := by
  unfold collectAll at h
  simp only [bind, Except.bind] at h
  cases h1 : collectBankdefs d nodes with
  | error e => rw [h1] at h; cases h
  | ok x1 =>
    obtain ⟨d1, n1⟩ := x1
    rw [h1] at h
    simp only at h
    cases h2 : collectBanks d1 n1 with
    | error e => rw [h2] at h; cases h
    | ok x2 =>
      obtain ⟨d2, n2⟩ := x2
      rw [h2] at h
      simp only at h
      cases h3 : collectRuledefs d2 n2 with
      | error e => rw [h3] at h; cases h
      | ok x3 =>
        obtain ⟨d3, n3⟩ := x3
        rw [h3] at h
        simp only at h
        cases h4 : collectSymbols d3 n3 with
        | error e => rw [h4] at h; cases h
        | ok x4 =>
          obtain ⟨d4, n4⟩ := x4
          rw [h4] at h
          simp only at h
          have k1 := collectBankdefs_kinv d d1 nodes n1 hk h1
          have k2 := collectBanks_kinv d1 d2 n1 n2 k1 h2
          have k3 := collectRuledefs_kinv d2 d3 n2 n3 k2 h3
          have e1 := collectBankdefs_symbols d d1 nodes n1 h1
          have e2 := collectBanks_symbols d1 d2 n1 n2 h2
          have e3 := collectRuledefs_symbols d2 d3 n2 n3 h3
          obtain ⟨x4, k4⟩ := collectSymbols_kinv d3 d4 n3 n4 k3 h4
          obtain ⟨x5, _⟩ := collectFunctions_kinv d4 d' n4 nodes' k4 h
          have : d3.symbols = d.symbols := by rw [e3, e2, e1]
          rw [this] at x4
          exact x4.trans x5

/-! ## symbol slots under `padTo … set` -/

theorem padTo_getD {α} (l : List α) (n i : Nat) (x : α) : (padTo l n x).getD i x = l.getD i x := by
  unfold padTo
  by_cases hi : i < l.length
  · simp [List.getD_eq_getElem?_getD, List.getElem?_append_left hi]
  · have hi' : l.length ≤ i := Nat.not_lt.mp hi
    simp only [List.getD_eq_getElem?_getD, List.getElem?_append_right hi']
    have : l[i]? = none := List.getElem?_eq_none hi'
    rw [this]
    cases h : (List.replicate (n + 1 - l.length) x)[i - l.length]? with
    | none => rfl
    | some y =>
      have := List.mem_of_getElem? h
      rw [List.mem_replicate] at this
      simp [this.2]

theorem padTo_length_gt {α} (l : List α) (n : Nat) (x : α) : n < (padTo l n x).length := by
  unfold padTo; simp; omega

theorem sym_padset (defs : Defs) (r r' : Nat) (sd : SymDef) :
    ({ defs with symbols := (padTo defs.symbols r none).set r (some sd) } : Defs).sym r' = if r' = r then sd else defs.sym r' := by
  unfold Defs.sym
  simp only
  by_cases h : r' = r
  · subst h
    simp only [if_true]
    rw [getD_set_self_lt _ _ _ _ (padTo_length_gt _ _ _)]
    rfl
  · simp only [h, if_false]
    rw [getD_set_ne _ _ _ _ _ (Ne.symm h), padTo_getD]

/-- a flagged symbol is a declared constant -/
def KK (d : Decls) (defs : Defs) : Prop :=
  ∀ r, (defs.sym r).known = true → r < d.symbols.decls.length ∧ (d.symbols.decls.getD r default).kind = .constant

/-- a flagged symbol with a value is marked resolved -/
def JJ (defs : Defs) : Prop :=
  ∀ r, (defs.sym r).known = true → (defs.sym r).value ≠ .unknown → (defs.sym r).resolved = true

theorem KK_ext {d d' : Decls} {defs : Defs} (h : KindExt d.symbols d'.symbols) (k : KK d defs) : KK d' defs := by
  intro r hr
  obtain ⟨h1, h2⟩ := k r hr
  exact ⟨Nat.lt_of_lt_of_le h1 h.1, by rw [h.2 r h1]; exact h2⟩

theorem defineSymbols_kk (d : Decls) (nodes : List AstNode) (hk : KInv d.symbols nodes) :
    ∀ (defs : Defs), KK d defs → JJ defs → KK d (defineSymbols defs nodes) ∧ JJ (defineSymbols defs nodes) := by
  unfold defineSymbols
  induction nodes with
  | nil => intro defs k j; exact ⟨k, j⟩
  | cons n rest ih =>
    intro defs k j
    rw [List.foldl_cons]
    have hrest : KInv d.symbols rest := fun m hm => hk m (List.mem_cons_of_mem _ hm)
    apply ih hrest
    · -- KK
      split
      · rename_i lv nm kind ne r
        split
        · exact k
        · intro r' hr'
          rw [sym_padset] at hr'
          by_cases he : r' = r
          · subst he
            simp only [if_true] at hr'
            have kn := hk _ (List.mem_cons_self ..)
            simp only [KN] at kn
            cases kind with
            | label => simp at hr'
            | constant e => exact ⟨kn.1, kn.2⟩
          · simp only [he, if_false] at hr'
            exact k r' hr'
      · exact k
    · -- JJ
      split
      · rename_i lv nm kind ne r
        split
        · exact j
        · intro r' hr' hv
          rw [sym_padset] at hr' hv ⊢
          by_cases he : r' = r
          · subst he
            simp only [if_true] at hv
            exact absurd rfl hv
          · simp only [he, if_false] at hr' hv ⊢
            exact j r' hr' hv
      · exact j

/-- every write of `resolve_constants_simple` keeps the flag and either marks the symbol, leaves
    it without a value, or concerns a symbol that is not flagged (static optimisation on) -/
theorem resolveConstantsSimple_inv (opts : Opts) (ho : opts.optStatic = true) (d : Decls) (P : Defs → Prop)
    (hstep : ∀ (defs : Defs) (r : Nat) (s' : SymDef), P defs → s'.known = (defs.sym r).known →
      (s'.resolved = true ∨ s'.value = .unknown ∨ (defs.sym r).known = false) → P (defs.setSym r s'))
    (defs defs' : Defs) (nodes : List AstNode) (c : Nat) (hp : P defs)
    (h : resolveConstantsSimple opts d defs nodes = .ok (defs', c)) : P defs' := by
  unfold resolveConstantsSimple at h
  have key : ∀ (l : List AstNode) (acc : Except String (Defs × Nat)) (defs' : Defs) (c : Nat),
      (∀ x k, acc = .ok (x, k) → P x) →
      l.foldl (fun acc n =>
        match acc with
        | .error e => .error e
        | .ok (defs, count) =>
          match n with
          | .symbol _ _ (.constant e) _ (some r) =>
            let s := defs.sym r
            if s.resolved then .ok (defs, count + 1)
            else
              let fullName := (d.symbols.decls.getD r default).name
              match opts.defines.find? (·.1 == fullName) with
              | some dv => .ok (defs.setSym r { s with value := dv.2, resolved := true }, count + 1)
              | none =>
                match evalSimple d defs e with
                | .error m => .error m
                | .ok v =>
                  let s' := { s with value := v }
                  match v with
                  | .unknown => .ok (defs.setSym r s', count)
                  | _ =>
                    if opts.optStatic && s.known then .ok (defs.setSym r { s' with resolved := true }, count + 1)
                    else .ok (defs.setSym r s', count + 1)
          | _ => .ok (defs, count)) acc = .ok (defs', c) → P defs' := by
    intro l
    induction l with
    | nil => intro acc defs' c hacc h; exact hacc defs' c h
    | cons n rest ih =>
      intro acc defs' c hacc h
      rw [List.foldl_cons] at h
      refine ih _ defs' c ?_ h
      intro x k hx
      cases acc with
      | error e => cases hx
      | ok y =>
        obtain ⟨y1, y2⟩ := y
        have hy := hacc y1 y2 rfl
        simp only at hx
        split at hx
        · rename_i lv nm e ne r
          split at hx
          · injection hx with hx; injection hx with h1 _; rw [← h1]; exact hy
          · split at hx
            · injection hx with hx; injection hx with h1 _; rw [← h1]
              exact hstep y1 r _ hy rfl (Or.inl rfl)
            · split at hx
              · cases hx
              · split at hx
                · injection hx with hx; injection hx with h1 _; rw [← h1]
                  exact hstep y1 r _ hy rfl (Or.inr (Or.inl rfl))
                · split at hx
                  · injection hx with hx; injection hx with h1 _; rw [← h1]
                    exact hstep y1 r _ hy rfl (Or.inl rfl)
                  · rename_i hc
                    injection hx with hx; injection hx with h1 _; rw [← h1]
                    refine hstep y1 r _ hy rfl (Or.inr (Or.inr ?_))
                    rw [ho] at hc
                    simpa using hc
        · injection hx with hx; injection hx with h1 _; rw [← h1]; exact hy
  exact key nodes (.ok (defs, 0)) defs' c (fun x k hx => by injection hx with hx; injection hx with h1 _; rw [← h1]; exact hp) h

theorem setSym_kk (d : Decls) (defs : Defs) (r : Nat) (s' : SymDef) (k : KK d defs) (hk : s'.known = (defs.sym r).known) :
    KK d (defs.setSym r s') := by
  intro r' hr'
  rcases sym_setSym defs r r' s' with h | ⟨h1, h2⟩
  · rw [h] at hr'; exact k r' hr'
  · subst h1; rw [h2, hk] at hr'; exact k r' hr'

theorem setSym_jj (defs : Defs) (r : Nat) (s' : SymDef) (j : JJ defs) (hk : s'.known = (defs.sym r).known)
    (hc : s'.resolved = true ∨ s'.value = .unknown ∨ (defs.sym r).known = false) : JJ (defs.setSym r s') := by
  intro r' hr' hv
  rcases sym_setSym defs r r' s' with h | ⟨h1, h2⟩
  · rw [h] at hr' hv ⊢; exact j r' hr' hv
  · subst h1
    rw [h2] at hr' hv ⊢
    rcases hc with hc | hc | hc
    · exact hc
    · exact absurd hc hv
    · rw [hk, hc] at hr'; cases hr'

theorem declLoop_syms (opts : Opts) (ho : opts.optStatic = true) :
    ∀ (fuel : Nat) (d : Decls) (defs : Defs) (nodes : List AstNode) (prev : Nat) (d' : Decls) (defs' : Defs) (nodes' : List AstNode),
      KInv d.symbols nodes → KK d defs → JJ defs → declLoop opts fuel d defs nodes prev = .ok (d', defs', nodes') →
      KK d' defs' ∧ JJ defs' := by
  intro fuel
  induction fuel with
  | zero => intro d defs nodes prev d' defs' nodes' _ _ _ h; simp [declLoop] at h
  | succ f ih =>
    intro d defs nodes prev d' defs' nodes' hk k j h
    simp only [declLoop] at h
    cases hc : collectAll d nodes with
    | error e => rw [hc] at h; cases h
    | ok x =>
      obtain ⟨d1, n1⟩ := x
      rw [hc] at h
      simp only at h
      have hk1 := collectAll_kinv d d1 nodes n1 hk hc
      have k1 := KK_ext (collectAll_kindExt d d1 nodes n1 hk hc) k
      obtain ⟨k2, j2⟩ := defineSymbols_kk d1 n1 hk1 defs k1 j
      cases hr : resolveConstantsSimple opts d1 (defineSymbols defs n1) n1 with
      | error e => rw [hr] at h; cases h
      | ok y =>
        obtain ⟨defs2, cnt⟩ := y
        rw [hr] at h
        simp only at h
        have k3 : KK d1 defs2 := resolveConstantsSimple_inv opts ho d1 (KK d1)
          (fun df r s' hp hkn _ => setSym_kk d1 df r s' hp hkn) _ defs2 n1 cnt k2 hr
        have j3 : JJ defs2 := resolveConstantsSimple_inv opts ho d1 JJ
          (fun df r s' hp hkn hcc => setSym_jj df r s' hp hkn hcc) _ defs2 n1 cnt j2 hr
        split at h
        · cases h
        · rename_i nodes2 ifs hri
          split at h
          · injection h with h; injection h with h1 h; injection h with h2 _
            rw [← h1, ← h2]; exact ⟨k3, j3⟩
          · exact ih _ _ _ _ _ _ _ (resolveIfs_kinv d1.symbols _ _ _ _ _ hk1 hri) k3 j3 h

/-! ## `define_remaining`: the function symbols -/

/-- a flagged symbol is a declared constant or function -/
def KF (d : Decls) (defs : Defs) : Prop :=
  ∀ r, (defs.sym r).known = true → r < d.symbols.decls.length ∧
    ((d.symbols.decls.getD r default).kind = .constant ∨ (d.symbols.decls.getD r default).kind = .function)

theorem fnFold_syms (d : Decls) (nodes : List AstNode) (hk : KInv d.symbols nodes) :
    ∀ (acc : List FnDef × List (Option SymDef)) (base : Defs),
      KF d { base with symbols := acc.2 } → JJ { base with symbols := acc.2 } →
      KF d { base with symbols := (nodes.foldl (fun (acc : List FnDef × List (Option SymDef)) n =>
        match n with
        | .fn _ ps body (some r) =>
          let idx := acc.1.length
          (acc.1 ++ [⟨r, ps, body⟩],
           (padTo acc.2 r none).set r (some { noEmit := true, known := true, value := .fn idx, resolved := true }))
        | _ => acc) acc).2 } ∧
      JJ { base with symbols := (nodes.foldl (fun (acc : List FnDef × List (Option SymDef)) n =>
        match n with
        | .fn _ ps body (some r) =>
          let idx := acc.1.length
          (acc.1 ++ [⟨r, ps, body⟩],
           (padTo acc.2 r none).set r (some { noEmit := true, known := true, value := .fn idx, resolved := true }))
        | _ => acc) acc).2 } := by
  induction nodes with
  | nil => intro acc base k j; exact ⟨k, j⟩
  | cons n rest ih =>
    intro acc base k j
    rw [List.foldl_cons]
    have hrest : KInv d.symbols rest := fun m hm => hk m (List.mem_cons_of_mem _ hm)
    split
    · rename_i nm ps body r
      have kn := hk _ (List.mem_cons_self ..)
      simp only [KN] at kn
      apply ih hrest
      · intro r' hr'
        have := sym_padset { base with symbols := acc.2 } r r' { noEmit := true, known := true, value := .fn acc.1.length, resolved := true }
        simp only at this
        rw [this] at hr'
        by_cases he : r' = r
        · subst he; exact ⟨kn.1, Or.inr kn.2⟩
        · simp only [he, if_false] at hr'; exact k r' hr'
      · intro r' hr' hv
        have := sym_padset { base with symbols := acc.2 } r r' { noEmit := true, known := true, value := .fn acc.1.length, resolved := true }
        simp only at this
        rw [this] at hr' hv ⊢
        by_cases he : r' = r
        · subst he; simp
        · simp only [he, if_false] at hr' hv ⊢; exact j r' hr' hv
    · exact ih hrest acc base k j

theorem foldl_assignRef_symbols : ∀ (l : List AstNode) (df : Defs) (out : List AstNode),
    (l.foldl assignRef (df, out)).1.symbols = df.symbols := by
  intro l
  induction l with
  | nil => intro df out; rfl
  | cons n rest ih =>
    intro df out
    rw [List.foldl_cons]
    have : (assignRef (df, out) n).1.symbols = df.symbols := by
      unfold assignRef
      simp only
      split <;> rfl
    rw [show assignRef (df, out) n = ((assignRef (df, out) n).1, (assignRef (df, out) n).2) from rfl, ih, this]

theorem defineRemaining_syms (d : Decls) (defs defs' : Defs) (nodes nodes' : List AstNode) (hk : KInv d.symbols nodes)
    (k : KK d defs) (j : JJ defs) (h : defineRemaining d defs nodes = .ok (defs', nodes')) : KF d defs' ∧ JJ defs' := by
  unfold defineRemaining at h
  simp only [bind, Except.bind] at h
  split at h
  · cases h
  · split at h
    · cases h
    · simp only [pure, Except.pure] at h
      injection h with h
      injection h with h1 _
      have kf0 : KF d { defs with symbols := defs.symbols } := fun r hr => ⟨(k r hr).1, Or.inl (k r hr).2⟩
      obtain ⟨kf, jf⟩ := fnFold_syms d nodes hk ([], defs.symbols) defs kf0 j
      subst h1
      constructor
      · intro r hr
        rw [sym_of_symbols_eq (foldl_assignRef_symbols nodes _ _) r] at hr
        exact kf r hr
      · intro r hr hv
        rw [sym_of_symbols_eq (foldl_assignRef_symbols nodes _ _) r] at hr hv ⊢
        exact jf r hr hv

/-- the symbol-table facts, for the state that enters `match_all` -/
theorem frontEndPre_syms (opts : Opts) (ho : opts.optStatic = true) (fs : SrcFiles) (roots : List (List Char))
    (d : Decls) (defs : Defs) (nodes : List AstNode) (hp : frontEndPre opts fs roots = .ok (d, defs, nodes)) :
    KF d defs ∧ JJ defs := by
  unfold frontEndPre at hp
  split at hp
  · cases hp
  · rename_i nodes0 hparse
    split at hp
    · cases hp
    · simp only at hp
      split at hp
      · cases hp
      · rename_i bm _ _ d2 defs2 nodes2 hl
        split at hp
        · cases hp
        · split at hp
          · cases hp
          · rename_i defs3 nodes3 hdr
            injection hp with hp; injection hp with h1 h2
            injection h2 with h2 _
            subst h1 h2
            have h0 : KInv ({ banks := bm } : Decls).symbols nodes0 := by
              cases hpm : parseMany fs roots with
              | error e => rw [hpm] at hparse; cases hparse
              | ok ns =>
                rw [hpm] at hparse
                injection hparse with hparse
                rw [← hparse]
                intro x hx
                obtain ⟨y, _, rfl⟩ := List.mem_map.mp hx
                exact KN_fresh _ y
            have kk0 : KK ({ banks := bm } : Decls) {} := fun r hr => by cases hr
            have jj0 : JJ {} := fun r hr => by cases hr
            obtain ⟨k2, j2⟩ := declLoop_syms opts ho _ _ _ _ _ _ _ _ h0 kk0 jj0 hl
            exact defineRemaining_syms _ defs2 _ nodes2 _ (declLoop_kinv opts _ _ _ _ _ _ _ _ h0 hl) k2 j2 hdr

/-- **the front end establishes `FrontOK`** (static optimisation on) -/
theorem frontEnd_frontOK (opts : Opts) (ho : opts.optStatic = true) (fs : SrcFiles) (roots : List (List Char))
    (st : Static) (nodes : List AstNode) (defs0 : Defs)
    (h : frontEnd opts fs roots = .ok (st, nodes, defs0)) : FrontOK st nodes defs0 := by
  obtain ⟨p1, p2, p3, p4, p5, p6⟩ := frontEnd_positional opts fs roots st nodes defs0 h
  -- the symbol facts
  have hsym : KInv st.decls.symbols nodes ∧ KF st.decls defs0 ∧ JJ defs0 := by
    unfold frontEnd at h
    split at h
    · cases h
    · rename_i d defsR nodesR hp
      split at h
      rename_i defsM rep hm
      split at h
      · cases h
      · injection h with h; injection h with h1 h2
        injection h2 with h2 h3
        subst h1 h2 h3
        obtain ⟨kf, jj⟩ := frontEndPre_syms opts ho fs roots d defsR nodesR hp
        have hm' : defsM = (matchAll opts d defsR nodesR).1 := by rw [hm]
        have hs : defsM.symbols = defsR.symbols := by
          rw [hm', matchAll_eq]
          -- `match_all` only writes instruction entries
          have : ∀ (l : List AstNode) (acc : Defs × List String × List String),
              (l.foldl (matchStep opts d) acc).1.symbols = acc.1.symbols := by
            intro l
            induction l with
            | nil => intro acc; rfl
            | cons n rest ih =>
              intro acc
              rw [List.foldl_cons, ih]
              obtain ⟨a, b, c⟩ := acc
              unfold matchStep
              simp only
              split
              · split <;> rfl
              · rfl
              · rfl
          exact this nodesR (defsR, [], [])
        refine ⟨frontEndPre_kinv opts fs roots d defsR nodesR hp, ?_, ?_⟩
        · intro r hr; rw [sym_of_symbols_eq hs r] at hr; exact kf r hr
        · intro r hr hv; rw [sym_of_symbols_eq hs r] at hr hv ⊢; exact jj r hr hv
  obtain ⟨hki, kf, jj⟩ := hsym
  refine ⟨p1, p2, p3, p4, p5, p6, ?_, jj⟩
  intro l nm ne r hm
  have kn := hki _ hm
  simp only [KN, kindOfSym] at kn
  cases hk : (defs0.sym r).known with
  | false => rfl
  | true =>
    obtain ⟨_, hc | hc⟩ := kf r hk
    · rw [kn.2] at hc; cases hc
    · rw [kn.2] at hc; cases hc

end Casm
