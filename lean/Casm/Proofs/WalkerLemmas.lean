import Casm.Model.Walker
/-! # Casm.Proofs.WalkerLemmas — facts about `tokenAt` and `skipIgnorable` -/
namespace Casm

theorem tokenAt_text_pos (c : Char) (cs : List Char) : 1 ≤ (tokenAt (c :: cs)).text.length := by
  unfold tokenAt
  simp only [List.length_take, List.length_cons]
  split
  · omega
  · rename_i h
    have : (decideNextToken (c :: cs)).snd ≠ 0 := by simpa using h
    omega

theorem skipIgnorableAux_fuel : ∀ (n m : Nat) (s : Src), s.length ≤ n → s.length ≤ m →
    skipIgnorableAux n s = skipIgnorableAux m s := by
  intro n
  induction n with
  | zero =>
    intro m s hn _
    have : s = [] := List.eq_nil_of_length_eq_zero (by omega)
    subst this
    cases m <;> simp [skipIgnorableAux]
  | succ n ih =>
    intro m s hn hm
    cases s with
    | nil => cases m <;> simp [skipIgnorableAux]
    | cons c cs =>
      cases m with
      | zero => simp at hm
      | succ m =>
        simp only [skipIgnorableAux]
        split
        · have hp := tokenAt_text_pos c cs
          apply ih
          · simp only [List.length_drop, List.length_cons] at *; omega
          · simp only [List.length_drop, List.length_cons] at *; omega
        · rfl

theorem spanLen_run (p : Char → Bool) (ws s : List Char) (hws : ∀ c ∈ ws, p c = true)
    (hs : ∀ c, s.head? = some c → p c = false) : spanLen p (ws ++ s) = ws.length := by
  induction ws with
  | nil =>
    cases s with
    | nil => rfl
    | cons c cs => simp [spanLen, hs c rfl]
  | cons w ws ih =>
    simp only [List.cons_append, spanLen, hws w (List.mem_cons_self), if_true, List.length_cons]
    rw [ih (fun c hc => hws c (List.mem_cons_of_mem _ hc))]

/-- a maximal run of blanks, tabs and carriage returns is exactly one `Whitespace` token -/
theorem tokenAt_blank_run (w : Char) (ws s : List Char) (hw : isWhitespace w = true) (hws : ∀ c ∈ ws, isWhitespace c = true)
    (hs : ∀ c, s.head? = some c → isWhitespace c = false) :
    tokenAt (w :: ws ++ s) = ⟨.Whitespace, w :: ws⟩ := by
  have hd : decideNextToken (w :: ws ++ s) = (.Whitespace, ws.length + 1) := by
    simp only [decideNextToken, checkWhitespace, List.cons_append, consumeWhile, hw, if_true, Option.map_some]
    rw [spanLen_run isWhitespace ws s hws hs]
  unfold tokenAt
  simp only [hd]
  have : (ws.length + 1 == 0) = false := by simp
  simp only [this, Bool.false_eq_true, if_false]
  congr 1
  simp

theorem whitespace_ignorable : TokKind.isIgnorable .Whitespace = true := by decide
theorem comment_ignorable : TokKind.isIgnorable .Comment = true := by decide
theorem linebreak_ignorable : TokKind.isIgnorable .LineBreak = true := by decide

/-- **any run of blanks/tabs in front of the next token is skipped like no run at all** -/
theorem skipIgnorable_blank_run (ws s : List Char) (hws : ∀ c ∈ ws, isWhitespace c = true)
    (hs : ∀ c, s.head? = some c → isWhitespace c = false) :
    skipIgnorable (ws ++ s) = skipIgnorable s := by
  cases ws with
  | nil => rfl
  | cons w ws =>
    have hw := hws w (List.mem_cons_self)
    have hws' : ∀ c ∈ ws, isWhitespace c = true := fun c hc => hws c (List.mem_cons_of_mem _ hc)
    have ht := tokenAt_blank_run w ws s hw hws' hs
    unfold skipIgnorable
    simp only [List.cons_append, List.length_cons, List.length_append, skipIgnorableAux]
    rw [show tokenAt (w :: (ws ++ s)) = ⟨.Whitespace, w :: ws⟩ from ht]
    simp only [whitespace_ignorable, if_true, List.length_cons]
    have hdrop : List.drop (ws.length + 1) (w :: (ws ++ s)) = s := by simp
    rw [hdrop]
    exact skipIgnorableAux_fuel _ _ s (by omega) (Nat.le_refl _)

theorem skipIgnorableAux_length : ∀ (n : Nat) (s : Src), (skipIgnorableAux n s).length ≤ s.length := by
  intro n
  induction n with
  | zero => intro s; simp [skipIgnorableAux]
  | succ n ih =>
    intro s
    cases s with
    | nil => simp [skipIgnorableAux]
    | cons c cs =>
      simp only [skipIgnorableAux]
      split
      · exact Nat.le_trans (ih _) (by simp only [List.length_drop]; omega)
      · exact Nat.le_refl _

theorem skipIgnorable_length (s : Src) : (skipIgnorable s).length ≤ s.length := skipIgnorableAux_length _ s

/-- a `; …` comment up to the end of the line is one ignorable token -/
theorem tokenAt_line_comment (rest : List Char) (h : ∀ c, rest.head? = some c → c ≠ '*') :
    tokenAt (';' :: rest) = ⟨.Comment, ';' :: rest.take (spanLen (fun c => c != '\n') rest)⟩ := by
  have hd : decideNextToken (';' :: rest) = (.Comment, spanLen (fun c => c != '\n') rest + 1) := by
    have hw : checkWhitespace (';' :: rest) = none := by
      simp [checkWhitespace, consumeWhile, isWhitespace]
    have hc : checkComment (';' :: rest) = some (.Comment, spanLen (fun c => c != '\n') rest + 1) := by
      cases rest with
      | nil => rfl
      | cons c cs =>
        have : c ≠ '*' := h c rfl
        unfold checkComment
        split
        · rename_i heq; injection heq with _ h2; injection h2 with h3 _; exact absurd h3.symm (by simpa using this.symm)
        · rename_i heq; injection heq with _ h2; subst h2; rfl
        · rename_i h1 h2; exact absurd rfl (h2 _)
    simp [decideNextToken, hw, hc]
  unfold tokenAt
  simp only [hd]
  have : (spanLen (fun c => c != '\n') rest + 1 == 0) = false := by simp
  simp only [this, Bool.false_eq_true, if_false]
  congr 1

end Casm
