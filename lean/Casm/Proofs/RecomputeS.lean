import Casm.Proofs.UnfreezeS
import Casm.Proofs.Recompute
/-!
# Casm.Proofs.RecomputeS — `Recompute`, with the symbol marks outside `H` cleared as well

The same development as `Casm.Proofs.Recompute` for `Defs.unfS H`: marked items now include the
constants whose mark the unoptimised assembler does not have.
-/
namespace Casm

/-- the item of node `n` (element `k`) carries a first-pass mark -/
def markedS (H : Nat → Bool) (d : Defs) : AstNode → Nat → Bool
  | .instr _ (some ref), _ => (d.instrs.getD ref default).resolved
  | .data _ _ refs, k => (d.datas.getD (refs.getD k 0) default).resolved
  | .symbol _ _ (.constant _) _ (some r), _ => (d.sym r).resolved && !H r
  | _, _ => false

theorem dispatch_us (H : Nat → Bool) (st : Static) (d : Defs) (ctx : RCtx) (n : AstNode) (k : Nat)
    (hm : markedS H d n k = false) (hf : ctx.first = false) :
    dispatch st (d.unfS H) ctx n k = (dispatch st d ctx n k).map (usRes H) := by
  unfold dispatch
  split
  · rename_i level name kind ne ref
    cases kind with
    | label => exact resolveLabel_us H st d ctx ref
    | constant e =>
      refine resolveConstant_us H st d ctx ref e hf (fun hr => ?_)
      simp only [markedS, hr, Bool.true_and, Bool.not_eq_false'] at hm
      exact hm
  · exact resolveInstruction_us H st d ctx _ hm hf
  · exact resolveData_us H st d ctx _ _ _ hm hf
  · exact resolveRes_us H st d ctx _ _
  · exact resolveAlign_us H st d ctx _ _
  · exact resolveAddr_us H st d ctx _ _
  · exact resolveAssert_us H st d ctx _
  · rfl

theorem dispatch_markedS (H : Nat → Bool) (st : Static) (d : Defs) (ctx : RCtx) (n : AstNode) (k : Nat) (hm : markedS H d n k = true) :
    dispatch st d ctx n k = .ok (d, true, []) := by
  cases n with
  | instr src r =>
    cases r with
    | none => simp [markedS] at hm
    | some ref => simp only [markedS] at hm; simp only [dispatch, resolveInstruction, hm, if_true]
  | data sz es refs => simp only [markedS] at hm; simp only [dispatch, resolveData, hm, if_true]
  | symbol l nm kd ne r =>
    cases r with
    | none => cases kd <;> simp [markedS] at hm
    | some r =>
      cases kd with
      | label => simp [markedS] at hm
      | constant e =>
        simp only [markedS, Bool.and_eq_true] at hm
        simp only [dispatch, resolveConstant, hm.1, if_true]
  | _ => simp [markedS] at hm

theorem nodeItem_us (H : Nat → Bool) (st : Static) (d : Defs) (n : AstNode) (k : Nat) : nodeItem st (d.unfS H) n k = nodeItem st d n k := by
  unfold nodeItem
  split <;> (try simp only [unfS_instr H, unfS_data H, sym_unfS H]) <;> rfl

def usPs (H : Nat → Bool) (ps : PassSt) : PassSt := { ps with defs := (ps.defs.unfS H) }

theorem passNode_us (H : Nat → Bool) (st : Static) (last : Bool) (ps ps' : PassSt) (n : AstNode) (k : Nat)
    (h : passNode st false last ps n k = .ok ps') (hs : ps'.stable = true) (hok : NodeOK ps.defs n)
    (hrec : markedS H ps.defs n k = true → ∀ ctx : RCtx, ctx.first = false → ctx.symCtx = stepCtx st ps.symCtx n →
      dispatch st (ps.defs.unfS H) ctx n k = .ok ((ps.defs.unfS H), true, [])) :
    passNode st false last (usPs H ps) n k = .ok (usPs H ps') := by
  rw [passNode_eq'] at h ⊢
  simp only [usPs, nodeItem_us H] at h ⊢
  have hb : (ps.defs.unfS H).banks = ps.defs.banks := rfl
  rw [hb]
  cases hv : visit ps.defs.banks ps.it (nodeItem st ps.defs n k) with
  | error e => rw [hv] at h; cases h
  | ok it =>
    rw [hv] at h
    simp only at h ⊢
    cases hd : dispatch st ps.defs ⟨false, last, stepCtx st ps.symCtx n, it.bank, it.pos⟩ n k with
    | error m => rw [hd] at h; cases h
    | ok x =>
      obtain ⟨defs, stable, reported⟩ := x
      rw [hd] at h
      simp only at h
      cases ha : advance defs.banks it (nodeItem st defs n k) with
      | error e => rw [ha] at h; cases h
      | ok it' =>
        rw [ha] at h
        injection h with h
        subst h
        simp only [Bool.and_eq_true] at hs
        obtain ⟨hs1, hs2⟩ := hs
        subst hs2
        have hdefs : defs = ps.defs := dispatch_id st ps.defs defs _ n k reported rfl hok hd
        subst hdefs
        cases hm : markedS H ps.defs n k with
        | false =>
          rw [dispatch_us H st ps.defs _ n k hm rfl, hd]
          simp only [Except.map, usRes, nodeItem_us H]
          have hb2 : (ps.defs.unfS H).banks = ps.defs.banks := rfl
          rw [hb2, ha]
        | true =>
          have hm' := dispatch_markedS H st ps.defs ⟨false, last, stepCtx st ps.symCtx n, it.bank, it.pos⟩ n k hm
          rw [hm'] at hd
          injection hd with hd; injection hd with _ hd2; injection hd2 with _ hrep
          subst hrep
          rw [hrec hm _ rfl rfl]
          simp only [nodeItem_us H]
          have hb2 : (ps.defs.unfS H).banks = ps.defs.banks := rfl
          rw [hb2, ha]

theorem go_us (H : Nat → Bool) (st : Static) (last : Bool) (n : AstNode) :
    ∀ (fuel k : Nat) (ps ps' : PassSt), passNodes.go st false last n k fuel ps = .ok ps' → ps'.stable = true →
      NodeOK ps.defs n →
      (∀ k', k' < k + fuel → markedS H ps.defs n k' = true → ∀ ctx : RCtx, ctx.first = false → ctx.symCtx = stepCtx st ps.symCtx n →
        dispatch st (ps.defs.unfS H) ctx n k' = .ok ((ps.defs.unfS H), true, [])) →
      passNodes.go st false last n k fuel (usPs H ps) = .ok (usPs H ps') ∧ ps'.defs = ps.defs ∧
        (0 < fuel → ps'.symCtx = stepCtx st ps.symCtx n) ∧ (fuel = 0 → ps'.symCtx = ps.symCtx) := by
  intro fuel
  induction fuel with
  | zero =>
    intro k ps ps' h _ _ _
    simp only [passNodes.go] at h ⊢
    injection h with h; subst h
    exact ⟨rfl, rfl, fun h => absurd h (Nat.lt_irrefl 0), fun _ => rfl⟩
  | succ f ih =>
    intro k ps ps' h hs hok hrec
    simp only [passNodes.go] at h ⊢
    cases hp : passNode st false last ps n k with
    | error m => rw [hp] at h; cases h
    | ok ps1 =>
      rw [hp] at h
      simp only at h
      have hs1 : ps1.stable = true := by
        have hmono : ∀ (fuel k : Nat) (a b : PassSt), passNodes.go st false last n k fuel a = .ok b → b.stable = true → a.stable = true := by
          intro fuel
          induction fuel with
          | zero => intro k a b hh hb; simp only [passNodes.go] at hh; injection hh with hh; subst hh; exact hb
          | succ g ihg =>
            intro k a b hh hb
            simp only [passNodes.go] at hh
            cases hq : passNode st false last a n k with
            | error m => rw [hq] at hh; cases hh
            | ok a1 =>
              rw [hq] at hh
              exact passNode_stable_mono st false last a a1 n k hq (ihg _ _ _ hh hb)
        exact hmono f (k + 1) ps1 ps' h hs
      obtain ⟨hd1, _⟩ := passNode_id st last ps ps1 n k hp hs1 hok
      have hsc1 := passNode_symCtx st false last ps ps1 n k hp
      rw [passNode_us H st last ps ps1 n k hp hs1 hok (hrec k (by omega))]
      simp only
      have hok1 : NodeOK ps1.defs n := by rw [hd1]; exact hok
      have hrec1 : ∀ k', k' < (k + 1) + f → markedS H ps1.defs n k' = true → ∀ ctx : RCtx, ctx.first = false → ctx.symCtx = stepCtx st ps1.symCtx n →
          dispatch st (ps1.defs.unfS H) ctx n k' = .ok ((ps1.defs.unfS H), true, []) := by
        intro k' hk' hm ctx hf hc
        rw [hd1] at hm ⊢
        rw [hsc1, stepCtx_idem] at hc
        exact hrec k' (by omega) hm ctx hf hc
      obtain ⟨e2, d2, c2, c3⟩ := ih (k + 1) ps1 ps' h hs hok1 hrec1
      refine ⟨e2, d2.trans hd1, fun _ => ?_, fun h0 => by cases h0⟩
      cases f with
      | zero => rw [c3 rfl, hsc1]
      | succ g => rw [c2 (Nat.succ_pos g), hsc1, stepCtx_idem]

/-- every markedS H item recomputes to its stored value, in any non-first context with the symbol
    context of its node -/
def RecomputesAllS (H : Nat → Bool) (st : Static) (d : Defs) (sc : List String) (nodes : List AstNode) : Prop :=
  ∀ pre n post k, nodes = pre ++ n :: post → k < nodeElems n → markedS H d n k = true →
    ∀ ctx : RCtx, ctx.first = false → ctx.symCtx = ctxAfter st sc (pre ++ [n]) →
      dispatch st (d.unfS H) ctx n k = .ok ((d.unfS H), true, [])

theorem passNodes_us (H : Nat → Bool) (st : Static) (last : Bool) :
    ∀ (nodes : List AstNode) (ps ps' : PassSt), passNodes st false last nodes ps = .ok ps' → ps'.stable = true →
      NodesOK ps.defs nodes → RecomputesAllS H st ps.defs ps.symCtx nodes →
      passNodes st false last nodes (usPs H ps) = .ok (usPs H ps') ∧ ps'.defs = ps.defs := by
  intro nodes
  induction nodes with
  | nil =>
    intro ps ps' h _ _ _
    simp only [passNodes] at h ⊢
    injection h with h; subst h; exact ⟨rfl, rfl⟩
  | cons n rest ih =>
    intro ps ps' h hs hok hrec
    rw [passNodes_cons] at h ⊢
    cases hg : passNodes.go st false last n 0 (nodeElems n) ps with
    | error e => rw [hg] at h; cases h
    | ok ps1 =>
      rw [hg] at h
      simp only at h
      have hs1 : ps1.stable = true := (passNodes_id st last rest ps1 ps' h hs (by
        intro m hm
        have : ps1.defs = ps.defs := by
          have hst := passNodes_stable_mono st false last rest ps1 ps' h hs
          exact (go_id st last n _ 0 ps ps1 hg hst (hok n List.mem_cons_self)).1
        rw [this]; exact hok m (List.mem_cons_of_mem _ hm))).2
      have hrecn : ∀ k', k' < 0 + nodeElems n → markedS H ps.defs n k' = true → ∀ ctx : RCtx, ctx.first = false → ctx.symCtx = stepCtx st ps.symCtx n →
          dispatch st (ps.defs.unfS H) ctx n k' = .ok ((ps.defs.unfS H), true, []) := by
        intro k' hk' hm ctx hf hc
        exact hrec [] n rest k' rfl (by omega) hm ctx hf (by simpa [ctxAfter] using hc)
      obtain ⟨e1, d1, c1, c0⟩ := go_us H st last n _ 0 ps ps1 hg hs1 (hok n List.mem_cons_self) hrecn
      rw [e1]
      simp only
      have hsc1 : ps1.symCtx = stepCtx st ps.symCtx n := by
        cases hz : nodeElems n with
        | zero => rw [c0 hz, nodeElems_pos_of_symbol st ps.symCtx n hz]
        | succ g => exact c1 (by rw [hz]; exact Nat.succ_pos g)
      have hok1 : NodesOK ps1.defs rest := by
        rw [d1]; exact fun m hm => hok m (List.mem_cons_of_mem _ hm)
      have hrec1 : RecomputesAllS H st ps1.defs ps1.symCtx rest := by
        intro pre m post k' hsplit hk' hm ctx hf hc
        rw [d1] at hm ⊢
        refine hrec (n :: pre) m post k' (by rw [hsplit]; rfl) hk' hm ctx hf ?_
        rw [hc, hsc1]
        simp [ctxAfter]
      obtain ⟨e2, d2⟩ := ih ps1 ps' h hs hok1 hrec1
      exact ⟨e2, d2.trans d1⟩

/-- **a fixed point stays one when every first-pass mark is cleared**, provided every markedS H item
    recomputes to its stored value -/
theorem resolveOnce_us (H : Nat → Bool) (st : Static) (nodes : List AstNode) (last : Bool) (d : Defs) (rep : List String)
    (h : resolveOnce st nodes false last d = .ok (d, true, rep)) (hok : NodesOK d nodes)
    (hrec : RecomputesAllS H st d [] nodes) :
    resolveOnce st nodes false last (d.unfS H) = .ok ((d.unfS H), true, rep) := by
  unfold resolveOnce at h ⊢
  cases hp : passNodes st false last nodes ⟨d, initIter d.banks, [], true, []⟩ with
  | error e => rw [hp] at h; cases h
  | ok ps' =>
    rw [hp] at h
    injection h with h; injection h with h1 h2; injection h2 with h2 h3
    have := passNodes_us H st last nodes ⟨d, initIter d.banks, [], true, []⟩ ps' hp h2 hok hrec
    have hb : (d.unfS H).banks = d.banks := rfl
    rw [hb]
    have e : (⟨(d.unfS H), initIter d.banks, [], true, []⟩ : PassSt) = usPs H ⟨d, initIter d.banks, [], true, []⟩ := rfl
    rw [e, this.1]
    simp only [usPs, h1, h2, h3]

end Casm
