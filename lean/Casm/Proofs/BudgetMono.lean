import Casm.Proofs.ModeMono
/-!
# Casm.Proofs.BudgetMono — a larger budget reaches the same final state (model of `resolve_iteratively`)

For budgets `2 ≤ n ≤ m`: if the iteration with budget `n` succeeds with final state `d`, the
iteration with budget `m` succeeds with the same `d`.  Ingredients: the two runs perform the
same passes with the same flags up to pass `n - 1`; pass `n` of the small budget is strict and,
being stable, leaves the state unchanged (`resolveOnce_stable_id`), so `d` is a fixed point of
the strict pass; the large budget runs the guessing pass there, which computes the same state
(`resolveOnce_guess`), and from a fixed point every further pass stays there until the loop
ends or the confirming pass accepts.
-/
namespace Casm

/-- the state `resolveIterativelyN` returns for a loop result, if it returns one -/
def finalOf (st : Static) (nodes : List AstNode) : Except (List String) (Nat × Defs × List String × Bool) → Option Defs
  | .error _ => none
  | .ok (_, d, _, true) => some d
  | .ok (_, d, _, false) =>
    match resolveOnce st nodes false true d with
    | .ok (d', true, _) => some d'
    | _ => none

theorem resolveIterativelyN_final (st : Static) (nodes : List AstNode) (max : Nat) (d0 : Defs) (d : Defs) :
    (∃ k rep, resolveIterativelyN st nodes max d0 = .ok (k, d, rep)) ↔
      finalOf st nodes (iterLoop st nodes max max 0 d0 []) = some d := by
  unfold resolveIterativelyN
  cases hl : iterLoop st nodes max max 0 d0 [] with
  | error e => simp [finalOf]
  | ok x =>
    obtain ⟨i, d1, rep1, fin⟩ := x
    cases fin with
    | true =>
      simp only [finalOf]
      constructor
      · rintro ⟨k, rep, h⟩; injection h with h; injection h with _ h; injection h with h _; rw [h]
      · intro h; injection h with h; exact ⟨i, rep1, by rw [h]⟩
    | false =>
      simp only [finalOf]
      cases hp : resolveOnce st nodes false true d1 with
      | error e => cases e; simp
      | ok y =>
        obtain ⟨d2, stable, r⟩ := y
        cases stable with
        | false => simp
        | true =>
          simp only [if_true]
          constructor
          · rintro ⟨k, rep, h⟩; injection h with h; injection h with _ h; injection h with h _; rw [h]
          · intro h; injection h with h; exact ⟨i, rep1 ++ r, by rw [h]⟩

/-- a fixed point of the strict non-first pass -/
def IsFix (st : Static) (nodes : List AstNode) (d : Defs) : Prop := ∃ r, resolveOnce st nodes false true d = .ok (d, true, r)

theorem finalOf_confirm (st : Static) (nodes : List AstNode) (d : Defs) (hfix : IsFix st nodes d) (k : Nat) (rep : List String) :
    finalOf st nodes (.ok (k, d, rep, false)) = some d := by
  obtain ⟨r, hr⟩ := hfix
  simp [finalOf, hr]

/-- from a fixed point, any budget ends in that fixed point -/
theorem from_fix (st : Static) (nodes : List AstNode) (m : Nat) (d : Defs) (hfix : IsFix st nodes d) :
    ∀ (fuel i : Nat) (rep : List String), 1 ≤ i → i + fuel = m →
      finalOf st nodes (iterLoop st nodes m fuel i d rep) = some d := by
  intro fuel
  induction fuel with
  | zero =>
    intro i rep _ _
    simp only [iterLoop]
    exact finalOf_confirm st nodes d hfix i rep
  | succ f ih =>
    intro i rep hi him
    have hlt : ¬ (i ≥ m) := by omega
    have hfirst : (i + 1 == 1) = false := by
      have : i + 1 ≠ 1 := by omega
      simpa using this
    simp only [iterLoop, hlt, if_false, hfirst]
    obtain ⟨r, hr⟩ := hfix
    by_cases hl : (i + 1 == m) = true
    · simp only [hl, hr, if_true]
      simp [finalOf]
    · have hl' : (i + 1 == m) = false := by simpa using hl
      obtain ⟨b, r', hg⟩ := resolveOnce_guess st nodes d d r hr
      simp only [hl', hg, Bool.false_eq_true, if_false]
      cases b with
      | true =>
        simp only [if_true]
        exact finalOf_confirm st nodes d ⟨r, hr⟩ _ _
      | false =>
        simp only [Bool.false_eq_true, if_false]
        exact ih (i + 1) _ (by omega) (by omega)

/-- the two budgets side by side -/
theorem loop_budget_sim (st : Static) (nodes : List AstNode) (hwf : NoClash nodes) (n m : Nat) (hn : 2 ≤ n) (hnm : n ≤ m) :
    ∀ (fn fm i : Nat) (d : Defs) (rep rep2 : List String) (r : Defs), i + fn = n → i + fm = m → (1 ≤ i → NodesOK d nodes) →
      finalOf st nodes (iterLoop st nodes n fn i d rep) = some r →
      finalOf st nodes (iterLoop st nodes m fm i d rep2) = some r := by
  intro fn
  induction fn with
  | zero =>
    intro fm i d rep rep2 r hin him hok h
    have hi : i = n := by omega
    simp only [iterLoop] at h
    -- the confirming pass of the small budget is stable: identity, so `d` is a fixed point
    simp only [finalOf] at h
    cases hp : resolveOnce st nodes false true d with
    | error e => rw [hp] at h; cases e; cases h
    | ok y =>
      obtain ⟨d2, stable, rr⟩ := y
      rw [hp] at h
      cases stable with
      | false => cases h
      | true =>
        simp only at h
        injection h with h
        have hid : d2 = d := resolveOnce_stable_id st nodes true d d2 rr hp (hok (by omega))
        subst hid
        subst h
        exact from_fix st nodes m d2 ⟨rr, hp⟩ fm i rep2 (by omega) him
  | succ f ih =>
    intro fm i d rep rep2 r hin him hok h
    have hltn : ¬ (i ≥ n) := by omega
    have hltm : ¬ (i ≥ m) := by omega
    cases fm with
    | zero => omega
    | succ g =>
      simp only [iterLoop, hltn, hltm, if_false] at h ⊢
      by_cases hlast : (i + 1 == n) = true
      · -- the last pass of the small budget: strict, not first
        have hin1 : i + 1 = n := by simpa using hlast
        have hfirst : (i + 1 == 1) = false := by
          have : i + 1 ≠ 1 := by omega
          simpa using this
        simp only [hlast, hfirst] at h ⊢
        cases hp : resolveOnce st nodes false true d with
        | error e => rw [hp] at h; cases e; simp [finalOf] at h
        | ok y =>
          obtain ⟨d1, stable, rr⟩ := y
          rw [hp] at h
          cases stable with
          | false => simp [finalOf] at h
          | true =>
            simp only [if_true, finalOf] at h
            injection h with h
            have hid : d1 = d := resolveOnce_stable_id st nodes true d d1 rr hp (hok (by omega))
            subst hid
            subst h
            by_cases hlm : (i + 1 == m) = true
            · simp only [hlm, hp, if_true]
              simp [finalOf]
            · have hlm' : (i + 1 == m) = false := by simpa using hlm
              obtain ⟨b, r', hg⟩ := resolveOnce_guess st nodes d1 d1 rr hp
              simp only [hlm', hg, Bool.false_eq_true, if_false]
              cases b with
              | true =>
                simp only [if_true]
                exact finalOf_confirm st nodes d1 ⟨rr, hp⟩ _ _
              | false =>
                simp only [Bool.false_eq_true, if_false]
                exact from_fix st nodes m d1 ⟨rr, hp⟩ g (i + 1) _ (by omega) (by omega)
      · -- an earlier pass: the same flags under both budgets
        have hlast' : (i + 1 == n) = false := by simpa using hlast
        have hlm' : (i + 1 == m) = false := by
          have : i + 1 ≠ n := by simpa using hlast
          have : i + 1 ≠ m := by omega
          simpa using this
        simp only [hlast', hlm'] at h ⊢
        cases hp : resolveOnce st nodes (i + 1 == 1) false d with
        | error e => rw [hp] at h; cases e; simp [finalOf] at h
        | ok y =>
          obtain ⟨d1, stable, rr⟩ := y
          rw [hp] at h
          simp only at h ⊢
          have hok1 : NodesOK d1 nodes := pass_establishes_ok st nodes _ _ d d1 stable rr hp hwf
          cases stable with
          | true =>
            simp only [if_true, Bool.false_eq_true, if_false] at h ⊢
            simp only [finalOf] at h ⊢
            exact h
          | false =>
            simp only [Bool.false_eq_true, if_false] at h ⊢
            exact ih g (i + 1) d1 _ _ r (by omega) (by omega) (fun _ => hok1) h

/-- **Budget monotonicity of the model's `resolve_iteratively`.**  For `2 ≤ n ≤ m`: success with
    budget `n` implies success with budget `m` with the identical final state. -/
theorem budget_monotone_model (st : Static) (nodes : List AstNode) (hwf : NoClash nodes) (n m : Nat) (hn : 2 ≤ n) (hnm : n ≤ m)
    (d0 : Defs) (k : Nat) (d : Defs) (rep : List String) (h : resolveIterativelyN st nodes n d0 = .ok (k, d, rep)) :
    ∃ k' rep', resolveIterativelyN st nodes m d0 = .ok (k', d, rep') := by
  have h1 := (resolveIterativelyN_final st nodes n d0 d).mp ⟨k, rep, h⟩
  have h2 := loop_budget_sim st nodes hwf n m hn hnm n m 0 d0 [] [] d (by omega) (by omega) (fun h0 => by omega) h1
  exact (resolveIterativelyN_final st nodes m d0 d).mpr h2

end Casm
