import Casm.Model.Resolve
/-!
# Casm.Proofs.Hygiene — which locals an `asm` block sees

`hygienize` (model of `hygienize_locals_for_asm_subst`) builds the evaluation context of the
instructions of a block from the context of the production that contains the block: every local whose
name does not already begin with `__` is kept under the name `__` ++ name, every other one is dropped.
Hence the locals visible inside a block are exactly the renamed locals of *that* production — which is
what makes `{v}` (a local passed by value, substituted as the text `__v`) work, and also why a name that
was hygienised one level up (`__y` of a calling block) is unbound or captured one level down (F40).
-/
namespace Casm

theorem hygienizeName_inj (a b : String) : (hygienizeName a == hygienizeName b) = (a == b) := by
  unfold hygienizeName
  by_cases h : a = b
  · subst h; simp
  · have : ¬ ("__" ++ a = "__" ++ b) := fun hh => h ((String.append_right_inj "__").mp hh)
    rw [beq_eq_false_iff_ne.mpr this, beq_eq_false_iff_ne.mpr h]

def renLocals (l : Locals) : Locals :=
  (l.filter (fun p => !p.1.startsWith "__")).map (fun p => (hygienizeName p.1, p.2))

theorem hygienize_locals (c : ECtx) : (hygienize c).locals = renLocals c.locals := rfl

/-- a local of the production whose name is not prefixed is visible in the block under its prefixed name -/
theorem renLocals_get (l : Locals) (m : String) (hm : m.startsWith "__" = false) :
    (renLocals l).get (hygienizeName m) = l.get m := by
  unfold renLocals Locals.get
  induction l with
  | nil => rfl
  | cons x rest ih =>
    by_cases hx : x.1.startsWith "__" = true
    · have hne : (x.1 == m) = false := by
        cases hq : x.1 == m with
        | false => rfl
        | true =>
          have : x.1 = m := by simpa using hq
          rw [this, hm] at hx; cases hx
      simp only [List.filter_cons, hx, Bool.not_true, Bool.false_eq_true, if_false, List.find?_cons, hne]
      exact ih
    · have hx' : x.1.startsWith "__" = false := by simpa using hx
      simp only [List.filter_cons, hx', Bool.not_false, if_true, List.map_cons, List.find?_cons, hygienizeName_inj]
      cases hq : x.1 == m with
      | true => rfl
      | false => exact ih

/-- every local visible in the block is a renamed, un-prefixed local of the production -/
theorem renLocals_get_some (l : Locals) (k : String) (v : Value) (h : (renLocals l).get k = some v) :
    ∃ m, k = hygienizeName m ∧ m.startsWith "__" = false ∧ l.get m = some v := by
  unfold renLocals Locals.get at h
  cases hf : List.find? (fun p => p.1 == k) ((l.filter (fun p => !p.1.startsWith "__")).map (fun p => (hygienizeName p.1, p.2))) with
  | none => rw [hf] at h; cases h
  | some y =>
    rw [hf] at h
    have hk : (y.1 == k) = true := @List.find?_some (String × Value) (fun p => p.1 == k) _ _ hf
    have hmem := List.mem_of_find?_eq_some hf
    simp only [List.mem_map, List.mem_filter] at hmem
    obtain ⟨x, ⟨_, hx⟩, hxy⟩ := hmem
    have hx' : x.1.startsWith "__" = false := by simpa using hx
    have hk' : k = hygienizeName x.1 := by
      have : y.1 = k := by simpa using hk
      rw [← this, ← hxy]
    refine ⟨x.1, hk', hx', ?_⟩
    have := renLocals_get l x.1 hx'
    rw [← hk'] at this
    rw [← this]
    unfold renLocals Locals.get
    rw [hf]
    exact h

end Casm
