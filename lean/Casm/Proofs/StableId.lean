import Casm.Model.Assemble
/-!
# Casm.Proofs.StableId — a stable pass that is not the first one leaves the state untouched

Every item resolver compares the value it has just computed with the previous one and reports
`stable = false` when they differ; so when a whole non-first pass ends `stable`, nothing was
changed.  Two well-formedness facts about the state are needed (and established for every
state that a pass has produced, `pass_establishes_ok`):

* `SymOK d r`  — the symbol slot `r` is not an in-range hole;
* `LabelOK d r` — additionally, if its value is an integer, that integer is unsized (labels are
  always written as unsized addresses, and `resolve_label` compares values only).
-/
namespace Casm

theorem set_getD_self {α} (l : List α) (i : Nat) (d : α) : l.set i (l.getD i d) = l := by
  induction l generalizing i with
  | nil => rfl
  | cons x xs ih =>
    cases i with
    | zero => simp
    | succ j => simp only [List.set_cons_succ, List.getD_cons_succ]; rw [ih]

theorem ite_ok_inv {α} (c : Prop) [Decidable c] (x y r : α) (h : (if c then x else y) = r) :
    (c ∧ x = r) ∨ (¬ c ∧ y = r) := by
  split at h
  · rename_i hc; exact Or.inl ⟨hc, h⟩
  · rename_i hc; exact Or.inr ⟨hc, h⟩

def SymOK (d : Defs) (r : Nat) : Prop := d.symbols.length ≤ r ∨ ∃ s, d.symbols.getD r none = some s

def LabelOK (d : Defs) (r : Nat) : Prop := SymOK d r ∧ ∀ x, (d.sym r).value = .int x → x.size = none

theorem setSym_self (d : Defs) (r : Nat) (h : SymOK d r) : d.setSym r (d.sym r) = d := by
  unfold Defs.setSym Defs.sym
  rcases h with h | ⟨s, hs⟩
  · have : d.symbols.set r (some ((d.symbols.getD r none).getD {})) = d.symbols := List.set_eq_of_length_le h
    rw [this]
  · rw [hs]
    simp only [Option.getD_some]
    have := set_getD_self d.symbols r none
    rw [hs] at this
    rw [this]

theorem valuesStable_eq (a b : Value) (h : valuesStable a b = true) : a = b := by
  unfold valuesStable at h
  split at h
  · rename_i x y
    simp only [Bool.and_eq_true, beq_iff_eq] at h
    cases x; cases y; simp_all
  · simpa using h

/-! ## the item resolvers -/

theorem resolveLabel_id (st : Static) (defs defs' : Defs) (ctx : RCtx) (ref : Nat) (rep : List String)
    (hok : LabelOK defs ref) (h : resolveLabel st defs ctx ref = .ok (defs', true, rep)) : defs' = defs := by
  unfold resolveLabel at h
  cases ha : evalAddress defs ctx ctx.canGuess with
  | error e => rw [ha] at h; cases h
  | ok a =>
    rw [ha] at h
    simp only at h
    rcases ite_ok_inv _ _ _ _ h with ⟨_, h⟩ | ⟨hc, h⟩
    · injection h with h; injection h with _ h2; injection h2 with h2 _; cases h2
    · injection h with h; injection h with h1 _
      subst h1
      cases hv : (defs.sym ref).value with
      | int x =>
        rw [hv] at hc
        have hxa : x.v = a := by simpa using hc
        have hsz := hok.2 x hv
        have : (Value.int ⟨a, none⟩) = (defs.sym ref).value := by
          rw [hv]; cases x; simp_all
        rw [this]
        exact setSym_self defs ref hok.1
      | _ => rw [hv] at hc; simp at hc

theorem resolveConstant_id (st : Static) (defs defs' : Defs) (ctx : RCtx) (ref : Nat) (e : Expr) (rep : List String)
    (hfirst : ctx.first = false) (hok : SymOK defs ref)
    (h : resolveConstant st defs ctx ref e = .ok (defs', true, rep)) : defs' = defs := by
  unfold resolveConstant at h
  simp only at h
  rcases ite_ok_inv _ _ _ _ h with ⟨_, h⟩ | ⟨hnr, h⟩
  · injection h with h; injection h with h1 _; exact h1.symm
  · cases hr : resolverEval st defs ctx {} e with
    | error m => rw [hr] at h; cases h
    | ok x =>
      obtain ⟨v, c⟩ := x
      rw [hr] at h
      simp only [hfirst, Bool.and_false, Bool.false_and, Bool.false_eq_true, if_false] at h
      rcases ite_ok_inv _ _ _ _ h with ⟨_, h⟩ | ⟨hc, h⟩
      · injection h with h; injection h with _ h2; injection h2 with h2 _; cases h2
      · injection h with h; injection h with h1 _
        subst h1
        have hv : valuesStable v (defs.sym ref).value = true := by simpa using hc
        rw [valuesStable_eq _ _ hv]
        have hres : (defs.sym ref).resolved = false := by simpa using hnr
        have : ({ defs.sym ref with value := (defs.sym ref).value, resolved := false } : SymDef) = defs.sym ref := by
          rw [← hres]
        rw [this]
        exact setSym_self defs ref hok

theorem resolveRes_id (st : Static) (defs defs' : Defs) (ctx : RCtx) (ref : Nat) (e : Expr) (rep : List String)
    (h : resolveRes st defs ctx ref e = .ok (defs', true, rep)) : defs' = defs := by
  unfold resolveRes at h
  cases hr : resolverEval st defs ctx {} e with
  | error m => rw [hr] at h; cases h
  | ok x =>
    obtain ⟨v, c⟩ := x
    rw [hr] at h
    simp only at h
    split at h
    · cases h
    · rename_i n hn
      split at h
      · cases h
      rcases ite_ok_inv _ _ _ _ h with ⟨_, h⟩ | ⟨hc, h⟩
      · injection h with h; injection h with _ h2; injection h2 with h2 _; cases h2
      · injection h with h; injection h with h1 _
        subst h1
        have : n * (defs.banks.getD ctx.bank defaultBank).addrUnit = defs.res.getD ref 0 := by simpa using hc
        rw [this, set_getD_self]

theorem resolveAlign_id (st : Static) (defs defs' : Defs) (ctx : RCtx) (ref : Nat) (e : Expr) (rep : List String)
    (h : resolveAlign st defs ctx ref e = .ok (defs', true, rep)) : defs' = defs := by
  unfold resolveAlign at h
  cases hr : resolverEval st defs ctx {} e with
  | error m => rw [hr] at h; cases h
  | ok x =>
    obtain ⟨v, c⟩ := x
    rw [hr] at h
    simp only at h
    split at h
    · cases h
    · rename_i n hn
      rcases ite_ok_inv _ _ _ _ h with ⟨_, h⟩ | ⟨hc, h⟩
      · injection h with h; injection h with _ h2; injection h2 with h2 _; cases h2
      · rcases ite_ok_inv _ _ _ _ h with ⟨_, h⟩ | ⟨_, h⟩
        · cases h
        · injection h with h; injection h with h1 _
          subst h1
          have : n = defs.aligns.getD ref 0 := by simpa using hc
          rw [this, set_getD_self]

theorem resolveAddr_id (st : Static) (defs defs' : Defs) (ctx : RCtx) (ref : Nat) (e : Expr) (rep : List String)
    (h : resolveAddr st defs ctx ref e = .ok (defs', true, rep)) : defs' = defs := by
  unfold resolveAddr at h
  cases hr : resolverEval st defs ctx {} e with
  | error m => rw [hr] at h; cases h
  | ok x =>
    obtain ⟨v, c⟩ := x
    rw [hr] at h
    simp only at h
    split at h
    · cases h
    · rename_i a ha
      rcases ite_ok_inv _ _ _ _ h with ⟨_, h⟩ | ⟨hc, h⟩
      · injection h with h; injection h with _ h2; injection h2 with h2 _; cases h2
      · have hself : ({ defs with addrs := defs.addrs.set ref a } : Defs) = defs := by
          have : a = defs.addrs.getD ref 0 := by simpa using hc
          rw [this, set_getD_self]
        rw [hself] at h
        -- every remaining successful branch returns `defs`
        have key : ∀ r : ItemRes, r = .ok (defs', true, rep) →
            (r = .ok (defs, true, []) ∨ (∃ m, r = .error m)) → defs' = defs := by
          intro r h1 h2
          rcases h2 with h2 | ⟨m, h2⟩
          · rw [h2] at h1; injection h1 with h1; injection h1 with h1 _; exact h1.symm
          · rw [h2] at h1; cases h1
        apply key _ h
        split
        · split
          · right; exact ⟨_, rfl⟩
          · split
            · right; exact ⟨_, rfl⟩
            · split
              · split
                · right; exact ⟨_, rfl⟩
                · left; rfl
              · left; rfl
        · left; rfl

theorem resolveAssert_id (st : Static) (defs defs' : Defs) (ctx : RCtx) (e : Expr) (stable : Bool) (rep : List String)
    (h : resolveAssert st defs ctx e = .ok (defs', stable, rep)) : defs' = defs := by
  unfold resolveAssert at h
  split at h
  · injection h with h; injection h with h1 _; exact h1.symm
  · split at h
    · cases h
    · split at h
      · injection h with h; injection h with h1 _; exact h1.symm
      · injection h with h; injection h with h1 _; exact h1.symm
      · cases h

theorem bi_eq_of_beq (a b : BI) (h : (a.v == b.v && a.size == b.size) = true) : a = b := by
  simp only [Bool.and_eq_true, beq_iff_eq] at h
  cases a; cases b; simp_all

theorem instrs_set_self (defs : Defs) (ref : Nat) :
    ({ defs with instrs := defs.instrs.set ref { (defs.instrs.getD ref default) with encoding := (defs.instrs.getD ref default).encoding } } : Defs) = defs := by
  have : ({ (defs.instrs.getD ref default) with encoding := (defs.instrs.getD ref default).encoding } : InstrDef) = defs.instrs.getD ref default := rfl
  rw [this, set_getD_self]

theorem resolveInstruction_id (st : Static) (defs defs' : Defs) (ctx : RCtx) (ref : Nat) (rep : List String)
    (hfirst : ctx.first = false)
    (h : resolveInstruction st defs ctx ref = .ok (defs', true, rep)) : defs' = defs := by
  unfold resolveInstruction at h
  simp only at h
  rcases ite_ok_inv _ _ _ _ h with ⟨_, h⟩ | ⟨_, h⟩
  · injection h with h; injection h with h1 _; exact h1.symm
  · cases he : resolveEncoding st defs evalFuel ctx ((defs.instrs.getD ref default).cands.map (·.m)) {} with
    | error m => rw [he] at h; cases h
    | ok x =>
      obtain ⟨encs, reported⟩ := x
      rw [he] at h
      simp only at h
      cases encs with
      | none => simp at h
      | some l =>
        cases l with
        | nil => simp at h
        | cons e t =>
          simp only [Option.bind_some, List.head?_cons, Option.map_some, hfirst, Bool.and_false, Bool.false_and,
            Bool.false_eq_true, if_false] at h
          rcases ite_ok_inv _ _ _ _ h with ⟨_, h⟩ | ⟨hc, h⟩
          · injection h with h; injection h with _ h2; injection h2 with h2 _; cases h2
          · injection h with h; injection h with h1 _
            subst h1
            have hb : (e.2.v == (defs.instrs.getD ref default).encoding.v && e.2.size == (defs.instrs.getD ref default).encoding.size) = true := by
              simpa using hc
            rw [bi_eq_of_beq _ _ hb]
            exact instrs_set_self defs ref

theorem datas_set_self (defs : Defs) (ref : Nat) :
    ({ defs with datas := defs.datas.set ref { (defs.datas.getD ref default) with encoding := (defs.datas.getD ref default).encoding } } : Defs) = defs := by
  have : ({ (defs.datas.getD ref default) with encoding := (defs.datas.getD ref default).encoding } : DataDef) = defs.datas.getD ref default := rfl
  rw [this, set_getD_self]

theorem dataStore_id (st : Static) (defs defs' : Defs) (ctx : RCtx) (ref : Nat) (sliced : Option BI) (rep : List String)
    (hfirst : ctx.first = false) (h : dataStore st defs ctx ref sliced = .ok (defs', true, rep)) : defs' = defs := by
  unfold dataStore at h
  cases sliced with
  | none =>
    simp only at h
    injection h with h; injection h with _ h2; injection h2 with h2 _; cases h2
  | some b =>
    simp only [hfirst, Bool.and_false, Bool.false_and, Bool.false_eq_true, if_false] at h
    rcases ite_ok_inv _ _ _ _ h with ⟨_, h⟩ | ⟨hc, h⟩
    · injection h with h; injection h with _ h2; injection h2 with h2 _; cases h2
    · injection h with h; injection h with h1 _
      subst h1
      have hb : (b.v == (defs.datas.getD ref default).encoding.v && b.size == (defs.datas.getD ref default).encoding.size) = true := by
        simpa using hc
      rw [bi_eq_of_beq _ _ hb]
      exact datas_set_self defs ref

theorem resolveData_id (st : Static) (defs defs' : Defs) (ctx : RCtx) (ref : Nat) (elemSize : Option Nat) (e : Expr) (rep : List String)
    (hfirst : ctx.first = false)
    (h : resolveData st defs ctx ref elemSize e = .ok (defs', true, rep)) : defs' = defs := by
  unfold resolveData at h
  simp only at h
  rcases ite_ok_inv _ _ _ _ h with ⟨_, h⟩ | ⟨_, h⟩
  · injection h with h; injection h with h1 _; exact h1.symm
  · cases hr : resolverEval st defs ctx {} e with
    | error m => rw [hr] at h; cases h
    | ok x =>
      obtain ⟨v, c⟩ := x
      rw [hr] at h
      simp only at h
      split at h
      · cases h
      · split at h
        · cases h
        · exact dataStore_id st defs defs' ctx ref _ rep hfirst h

/-! ## one node, the node list, the pass -/

def NodeOK (d : Defs) : AstNode → Prop
  | .symbol _ _ .label _ (some r) => LabelOK d r
  | .symbol _ _ (.constant _) _ (some r) => SymOK d r
  | _ => True

/-- the resolver dispatch of `passNode` -/
def dispatch (st : Static) (defs : Defs) (ctx : RCtx) (n : AstNode) (k : Nat) : ItemRes :=
  match n with
  | .symbol _ _ kind _ (some ref) =>
    match kind with
    | .label => resolveLabel st defs ctx ref
    | .constant e => resolveConstant st defs ctx ref e
  | .instr _ (some ref) => resolveInstruction st defs ctx ref
  | .data sz es refs => resolveData st defs ctx (refs.getD k 0) sz (es.getD k default)
  | .res e (some ref) => resolveRes st defs ctx ref e
  | .align e (some ref) => resolveAlign st defs ctx ref e
  | .addr e (some ref) => resolveAddr st defs ctx ref e
  | .assert e => resolveAssert st defs ctx e
  | _ => .ok (defs, true, [])

theorem dispatch_id (st : Static) (defs defs' : Defs) (ctx : RCtx) (n : AstNode) (k : Nat) (rep : List String)
    (hfirst : ctx.first = false) (hok : NodeOK defs n)
    (h : dispatch st defs ctx n k = .ok (defs', true, rep)) : defs' = defs := by
  unfold dispatch at h
  split at h
  · rename_i level name kind ne ref
    cases kind with
    | label => exact resolveLabel_id st defs defs' ctx ref rep hok h
    | constant e => exact resolveConstant_id st defs defs' ctx ref e rep hfirst hok h
  · exact resolveInstruction_id st defs defs' ctx _ rep hfirst h
  · exact resolveData_id st defs defs' ctx _ _ _ rep hfirst h
  · exact resolveRes_id st defs defs' ctx _ _ rep h
  · exact resolveAlign_id st defs defs' ctx _ _ rep h
  · exact resolveAddr_id st defs defs' ctx _ _ rep h
  · exact resolveAssert_id st defs defs' ctx _ true rep h
  · injection h with h; injection h with h1 _; exact h1.symm

theorem passNode_eq (st : Static) (first last : Bool) (ps : PassSt) (n : AstNode) (k : Nat) :
    passNode st first last ps n k =
      (let symCtx := match n with
        | .symbol _ _ _ _ (some r) => (st.decls.symbols.decls.getD r default).ctx
        | _ => ps.symCtx
      match visit ps.defs.banks ps.it (nodeItem st ps.defs n k) with
      | .error e => .error (layErrMsg e)
      | .ok it =>
        match dispatch st ps.defs ⟨first, last, symCtx, it.bank, it.pos⟩ n k with
        | .error m => .error m
        | .ok (defs, stable, reported) =>
          match advance defs.banks it (nodeItem st defs n k) with
          | .error e => .error (layErrMsg e)
          | .ok it' => .ok ⟨defs, it', symCtx, ps.stable && stable, ps.reported ++ reported⟩) := by
  unfold passNode dispatch
  rfl

/-- **one node of a stable non-first pass changes nothing** -/
theorem passNode_id (st : Static) (last : Bool) (ps ps' : PassSt) (n : AstNode) (k : Nat)
    (h : passNode st false last ps n k = .ok ps') (hs : ps'.stable = true) (hok : NodeOK ps.defs n) :
    ps'.defs = ps.defs ∧ ps.stable = true := by
  rw [passNode_eq] at h
  simp only at h
  split at h
  · cases h
  · rename_i it hv
    split at h
    · cases h
    · rename_i defs stable reported hd
      split at h
      · cases h
      · rename_i it' ha
        injection h with h
        subst h
        simp only [Bool.and_eq_true] at hs
        obtain ⟨hs1, hs2⟩ := hs
        subst hs2
        exact ⟨dispatch_id st ps.defs defs _ n k reported rfl hok hd, hs1⟩

/-- a node can only lower the `stable` flag -/
theorem passNode_stable_mono (st : Static) (first last : Bool) (ps ps' : PassSt) (n : AstNode) (k : Nat)
    (h : passNode st first last ps n k = .ok ps') (hs : ps'.stable = true) : ps.stable = true := by
  rw [passNode_eq] at h
  simp only at h
  split at h
  · cases h
  · split at h
    · cases h
    · split at h
      · cases h
      · injection h with h
        subst h
        simp only [Bool.and_eq_true] at hs
        exact hs.1

theorem go_id (st : Static) (last : Bool) (n : AstNode) :
    ∀ (fuel k : Nat) (ps ps' : PassSt), passNodes.go st false last n k fuel ps = .ok ps' → ps'.stable = true →
      NodeOK ps.defs n → ps'.defs = ps.defs ∧ ps.stable = true := by
  intro fuel
  induction fuel with
  | zero =>
    intro k ps ps' h hs _
    simp only [passNodes.go] at h
    injection h with h; subst h; exact ⟨rfl, hs⟩
  | succ f ih =>
    intro k ps ps' h hs hok
    simp only [passNodes.go] at h
    cases hp : passNode st false last ps n k with
    | error m => rw [hp] at h; cases h
    | ok ps1 =>
      rw [hp] at h
      simp only at h
      have hs1 : ps1.stable = true ∧ ps'.defs = ps1.defs := by
        -- first the tail with the hypothesis transported once the head is known to be the identity
        have htail_mono : ∀ (fuel k : Nat) (a b : PassSt), passNodes.go st false last n k fuel a = .ok b → b.stable = true → a.stable = true := by
          intro fuel
          induction fuel with
          | zero => intro k a b hh hb; simp only [passNodes.go] at hh; injection hh with hh; subst hh; exact hb
          | succ g ihg =>
            intro k a b hh hb
            simp only [passNodes.go] at hh
            cases hq : passNode st false last a n k with
            | error m => rw [hq] at hh; cases hh
            | ok a1 =>
              rw [hq] at hh
              exact passNode_stable_mono st false last a a1 n k hq (ihg _ _ _ hh hb)
        have hst1 := htail_mono f (k + 1) ps1 ps' h hs
        obtain ⟨hd1, _⟩ := passNode_id st last ps ps1 n k hp hst1 hok
        have hok1 : NodeOK ps1.defs n := by rw [hd1]; exact hok
        exact ⟨hst1, (ih (k + 1) ps1 ps' h hs hok1).1⟩
      obtain ⟨hd1, hs0⟩ := passNode_id st last ps ps1 n k hp hs1.1 hok
      exact ⟨hs1.2.trans hd1, hs0⟩

def NodesOK (d : Defs) (nodes : List AstNode) : Prop := ∀ n ∈ nodes, NodeOK d n

theorem passNodes_id (st : Static) (last : Bool) :
    ∀ (nodes : List AstNode) (ps ps' : PassSt), passNodes st false last nodes ps = .ok ps' → ps'.stable = true →
      NodesOK ps.defs nodes → ps'.defs = ps.defs ∧ ps.stable = true := by
  intro nodes
  induction nodes with
  | nil =>
    intro ps ps' h hs _
    simp only [passNodes] at h
    injection h with h; subst h; exact ⟨rfl, hs⟩
  | cons n rest ih =>
    intro ps ps' h hs hok
    simp only [passNodes] at h
    split at h
    · cases h
    · rename_i ps1 hg
      have hrest_ok : ∀ d, d = ps.defs → NodesOK d rest := by
        intro d hd; subst hd; exact fun m hm => hok m (List.mem_cons_of_mem _ hm)
      -- stability of the tail gives stability of ps1, then identity of the head, then of the tail
      have hmono : ∀ (l : List AstNode) (a b : PassSt), passNodes st false last l a = .ok b → b.stable = true → a.stable = true := by
        intro l
        induction l with
        | nil => intro a b hh hb; simp only [passNodes] at hh; injection hh with hh; subst hh; exact hb
        | cons m ms ihm =>
          intro a b hh hb
          simp only [passNodes] at hh
          split at hh
          · cases hh
          · rename_i a1 hga
            have ha1 := ihm a1 b hh hb
            -- the inner loop only lowers the flag
            have : ∀ (fuel k : Nat) (x y : PassSt), passNodes.go st false last m k fuel x = .ok y → y.stable = true → x.stable = true := by
              intro fuel
              induction fuel with
              | zero => intro k x y hh2 hy; simp only [passNodes.go] at hh2; injection hh2 with hh2; subst hh2; exact hy
              | succ g ihg =>
                intro k x y hh2 hy
                simp only [passNodes.go] at hh2
                cases hq : passNode st false last x m k with
                | error e => rw [hq] at hh2; cases hh2
                | ok x1 =>
                  rw [hq] at hh2
                  exact passNode_stable_mono st false last x x1 m k hq (ihg _ _ _ hh2 hy)
            exact this _ _ _ _ hga ha1
      have hs1 := hmono rest ps1 ps' h hs
      obtain ⟨hd1, hs0⟩ := go_id st last n _ 0 ps ps1 hg hs1 (hok n List.mem_cons_self)
      obtain ⟨hd2, _⟩ := ih ps1 ps' h hs (hrest_ok ps1.defs hd1)
      exact ⟨hd2.trans hd1, hs0⟩

/-- **a stable pass that is not the first one returns the state it was given** -/
theorem resolveOnce_stable_id (st : Static) (nodes : List AstNode) (last : Bool) (d0 d : Defs) (rep : List String)
    (h : resolveOnce st nodes false last d0 = .ok (d, true, rep)) (hok : NodesOK d0 nodes) : d = d0 := by
  unfold resolveOnce at h
  split at h
  · cases h
  · rename_i ps hp
    injection h with h; injection h with h1 h2; injection h2 with h2 _
    subst h1
    exact (passNodes_id st last nodes _ ps hp h2 hok).1

/-! ## every state produced by a pass is well-formed -/

theorem resolveInstruction_syms (st : Static) (defs defs' : Defs) (ctx : RCtx) (ref : Nat) (s : Bool) (rep : List String)
    (h : resolveInstruction st defs ctx ref = .ok (defs', s, rep)) : defs'.symbols = defs.symbols := by
  unfold resolveInstruction at h
  simp only at h
  repeat' (first | (split at h) )
  all_goals (cases h <;> rfl)
theorem resolveData_syms (st : Static) (defs defs' : Defs) (ctx : RCtx) (ref : Nat) (sz : Option Nat) (e : Expr) (s : Bool) (rep : List String)
    (h : resolveData st defs ctx ref sz e = .ok (defs', s, rep)) : defs'.symbols = defs.symbols := by
  unfold resolveData dataStore at h
  simp only at h
  repeat' (first | (split at h) )
  all_goals (cases h <;> rfl)
theorem resolveRes_syms (st : Static) (defs defs' : Defs) (ctx : RCtx) (ref : Nat) (e : Expr) (s : Bool) (rep : List String)
    (h : resolveRes st defs ctx ref e = .ok (defs', s, rep)) : defs'.symbols = defs.symbols := by
  unfold resolveRes at h
  simp only at h
  repeat' (first | (split at h) )
  all_goals (cases h <;> rfl)
theorem resolveAlign_syms (st : Static) (defs defs' : Defs) (ctx : RCtx) (ref : Nat) (e : Expr) (s : Bool) (rep : List String)
    (h : resolveAlign st defs ctx ref e = .ok (defs', s, rep)) : defs'.symbols = defs.symbols := by
  unfold resolveAlign at h
  simp only at h
  repeat' (first | (split at h) )
  all_goals (cases h <;> rfl)
theorem resolveAddr_syms (st : Static) (defs defs' : Defs) (ctx : RCtx) (ref : Nat) (e : Expr) (s : Bool) (rep : List String)
    (h : resolveAddr st defs ctx ref e = .ok (defs', s, rep)) : defs'.symbols = defs.symbols := by
  unfold resolveAddr at h
  simp only at h
  repeat' (first | (split at h) )
  all_goals (cases h <;> rfl)

theorem resolveAssert_syms (st : Static) (defs defs' : Defs) (ctx : RCtx) (e : Expr) (s : Bool) (rep : List String)
    (h : resolveAssert st defs ctx e = .ok (defs', s, rep)) : defs'.symbols = defs.symbols := by
  rw [resolveAssert_id st defs defs' ctx e s rep h]

/-- what a label node does to the symbol table -/
theorem resolveLabel_syms (st : Static) (defs defs' : Defs) (ctx : RCtx) (ref : Nat) (s : Bool) (rep : List String)
    (h : resolveLabel st defs ctx ref = .ok (defs', s, rep)) :
    ∃ a, defs'.symbols = defs.symbols.set ref (some { defs.sym ref with value := .int ⟨a, none⟩ }) := by
  unfold resolveLabel at h
  cases ha : evalAddress defs ctx ctx.canGuess with
  | error e => rw [ha] at h; cases h
  | ok a =>
    rw [ha] at h
    simp only at h
    refine ⟨a, ?_⟩
    rcases ite_ok_inv _ _ _ _ h with ⟨_, h⟩ | ⟨_, h⟩ <;>
    · injection h with h; injection h with h1 _; subst h1; rfl

/-- what a constant node does to the symbol table -/
theorem resolveConstant_syms (st : Static) (defs defs' : Defs) (ctx : RCtx) (ref : Nat) (e : Expr) (s : Bool) (rep : List String)
    (h : resolveConstant st defs ctx ref e = .ok (defs', s, rep)) :
    (defs' = defs ∧ (defs.sym ref).resolved = true) ∨ ∃ sd, defs'.symbols = defs.symbols.set ref (some sd) := by
  unfold resolveConstant at h
  simp only at h
  rcases ite_ok_inv _ _ _ _ h with ⟨hr, h⟩ | ⟨_, h⟩
  · injection h with h; injection h with h1 _; exact Or.inl ⟨h1.symm, hr⟩
  · right
    cases hr : resolverEval st defs ctx {} e with
    | error m => rw [hr] at h; cases h
    | ok x =>
      obtain ⟨v, c⟩ := x
      rw [hr] at h
      simp only at h
      rcases ite_ok_inv _ _ _ _ h with ⟨_, h⟩ | ⟨_, h⟩ <;>
      · injection h with h; injection h with h1 _; subst h1; exact ⟨_, rfl⟩

theorem SymOK_congr {d d' : Defs} (h : d'.symbols = d.symbols) (x : Nat) : SymOK d' x ↔ SymOK d x := by
  unfold SymOK; rw [h]

theorem LabelOK_congr {d d' : Defs} (h : d'.symbols = d.symbols) (x : Nat) : LabelOK d' x ↔ LabelOK d x := by
  unfold LabelOK Defs.sym; rw [SymOK_congr h, h]

theorem NodeOK_congr {d d' : Defs} (h : d'.symbols = d.symbols) (n : AstNode) : NodeOK d' n ↔ NodeOK d n := by
  unfold NodeOK
  split
  · exact LabelOK_congr h _
  · exact SymOK_congr h _
  · exact Iff.rfl

theorem getD_set_ne {α} (l : List α) (i j : Nat) (a d : α) (h : i ≠ j) : (l.set i a).getD j d = l.getD j d := by
  simp [List.getD_eq_getElem?_getD, List.getElem?_set_ne h]

theorem getD_set_self_lt {α} (l : List α) (i : Nat) (a d : α) (h : i < l.length) : (l.set i a).getD i d = a := by
  simp [List.getD_eq_getElem?_getD, List.getElem?_set_self h]

/-- writing `some _` into a slot never makes a slot ill-formed -/
theorem SymOK_set {d d' : Defs} {r : Nat} {sd : SymDef} (h : d'.symbols = d.symbols.set r (some sd)) (x : Nat)
    (hx : SymOK d x) : SymOK d' x := by
  unfold SymOK at *
  rw [h, List.length_set]
  rcases hx with hx | ⟨s, hs⟩
  · exact Or.inl hx
  · by_cases hxr : r = x
    · subst hxr
      by_cases hlt : r < d.symbols.length
      · right; exact ⟨sd, getD_set_self_lt _ _ _ _ hlt⟩
      · left; omega
    · right; exact ⟨s, by rw [getD_set_ne _ _ _ _ _ hxr]; exact hs⟩

/-- the written slot itself is well-formed -/
theorem SymOK_set_self {d d' : Defs} {r : Nat} {sd : SymDef} (h : d'.symbols = d.symbols.set r (some sd)) : SymOK d' r := by
  unfold SymOK
  rw [h, List.length_set]
  by_cases hlt : r < d.symbols.length
  · right; exact ⟨sd, getD_set_self_lt _ _ _ _ hlt⟩
  · left; omega

theorem LabelOK_set_ne {d d' : Defs} {r : Nat} {sd : SymDef} (h : d'.symbols = d.symbols.set r (some sd)) (x : Nat) (hxr : r ≠ x)
    (hx : LabelOK d x) : LabelOK d' x := by
  refine ⟨SymOK_set h x hx.1, ?_⟩
  have : d'.sym x = d.sym x := by
    unfold Defs.sym; rw [h, getD_set_ne _ _ _ _ _ hxr]
  rw [this]; exact hx.2

theorem LabelOK_set_self {d d' : Defs} {r : Nat} {sd : SymDef} (h : d'.symbols = d.symbols.set r (some sd))
    (hv : ∀ x, sd.value = .int x → x.size = none) : LabelOK d' r := by
  refine ⟨SymOK_set_self h, ?_⟩
  intro x hx
  unfold Defs.sym at hx
  rw [h] at hx
  by_cases hlt : r < d.symbols.length
  · rw [getD_set_self_lt _ _ _ _ hlt] at hx
    exact hv x hx
  · have h1 : (d.symbols.set r (some sd))[r]? = none :=
      List.getElem?_eq_none (by rw [List.length_set]; omega)
    have : (d.symbols.set r (some sd)).getD r none = none := by
      rw [List.getD_eq_getElem?_getD, h1]; rfl
    rw [this] at hx
    cases hx

theorem SymOK_of_resolved (d : Defs) (r : Nat) (h : (d.sym r).resolved = true) : SymOK d r := by
  unfold SymOK
  unfold Defs.sym at h
  cases hg : d.symbols.getD r none with
  | none => rw [hg] at h; cases h
  | some s => exact Or.inr ⟨s, rfl⟩

/-- a constant node and a label node sharing one symbol slot -/
def Clash (n m : AstNode) : Prop :=
  match n, m with
  | .symbol _ _ (.constant _) _ (some r), .symbol _ _ .label _ (some r') => r = r'
  | _, _ => False

theorem NodeOK_iff (d : Defs) (m : AstNode) :
    NodeOK d m ↔ (∀ l nm ne r, m = .symbol l nm .label ne (some r) → LabelOK d r) ∧
                 (∀ l nm e ne r, m = .symbol l nm (.constant e) ne (some r) → SymOK d r) := by
  unfold NodeOK
  split
  · constructor
    · intro h
      refine ⟨?_, ?_⟩
      · intro l nm ne r he; injection he with _ _ _ _ h5; injection h5 with h5; rw [← h5]; exact h
      · intro l nm e ne r he; injection he with _ _ h3; cases h3
    · intro h; exact h.1 _ _ _ _ rfl
  · constructor
    · intro h
      refine ⟨?_, ?_⟩
      · intro l nm ne r he; injection he with _ _ h3; cases h3
      · intro l nm e ne r he; injection he with _ _ _ _ h5; injection h5 with h5; rw [← h5]; exact h
    · intro h; exact h.2 _ _ _ _ _ rfl
  · rename_i h1 h2
    constructor
    · intro _
      exact ⟨fun l nm ne r he => absurd he (h1 l nm ne r), fun l nm e ne r he => absurd he (h2 l nm e ne r)⟩
    · intro _; trivial

/-- one resolver step keeps every node well-formed that does not clash with the node resolved,
    and makes the resolved node itself well-formed -/
theorem dispatch_ok_step (st : Static) (defs defs' : Defs) (ctx : RCtx) (n : AstNode) (k : Nat) (s : Bool) (rep : List String)
    (h : dispatch st defs ctx n k = .ok (defs', s, rep)) :
    (∀ m, ¬ Clash n m → NodeOK defs m → NodeOK defs' m) ∧ NodeOK defs' n := by
  have same : defs'.symbols = defs.symbols → (∀ m, ¬ Clash n m → NodeOK defs m → NodeOK defs' m) :=
    fun hs m _ hm => (NodeOK_congr hs m).mpr hm
  unfold dispatch at h
  split at h
  · rename_i level name kind ne ref
    cases kind with
    | label =>
      obtain ⟨a, hs⟩ := resolveLabel_syms st defs defs' ctx ref s rep h
      have hself : LabelOK defs' ref := LabelOK_set_self hs (by intro x hx; injection hx with hx; rw [← hx])
      refine ⟨?_, (NodeOK_iff _ _).mpr ⟨?_, ?_⟩⟩
      · intro m _ hm
        rw [NodeOK_iff] at hm ⊢
        refine ⟨?_, ?_⟩
        · intro l nm ne' r he
          by_cases hr : ref = r
          · subst hr; exact hself
          · exact LabelOK_set_ne hs _ hr (hm.1 l nm ne' r he)
        · intro l nm e ne' r he
          exact SymOK_set hs _ (hm.2 l nm e ne' r he)
      · intro l nm ne' r he; injection he with _ _ _ _ h5; injection h5 with h5; rw [← h5]; exact hself
      · intro l nm e ne' r he; injection he with _ _ h3; cases h3
    | constant e =>
      rcases resolveConstant_syms st defs defs' ctx ref e s rep h with ⟨hd, hres⟩ | ⟨sd, hs⟩
      · subst hd
        refine ⟨fun m _ hm => hm, (NodeOK_iff _ _).mpr ⟨?_, ?_⟩⟩
        · intro l nm ne' r he; injection he with _ _ h3; cases h3
        · intro l nm e' ne' r he; injection he with _ _ _ _ h5; injection h5 with h5; rw [← h5]; exact SymOK_of_resolved _ _ hres
      · refine ⟨?_, (NodeOK_iff _ _).mpr ⟨?_, ?_⟩⟩
        · intro m hcl hm
          rw [NodeOK_iff] at hm ⊢
          refine ⟨?_, ?_⟩
          · intro l nm ne' r he
            have hr : ref ≠ r := by
              intro heq; apply hcl; subst he; subst heq; simp [Clash]
            exact LabelOK_set_ne hs _ hr (hm.1 l nm ne' r he)
          · intro l nm e' ne' r he
            exact SymOK_set hs _ (hm.2 l nm e' ne' r he)
        · intro l nm ne' r he; injection he with _ _ h3; cases h3
        · intro l nm e' ne' r he; injection he with _ _ _ _ h5; injection h5 with h5; rw [← h5]; exact SymOK_set_self hs
  · exact ⟨same (resolveInstruction_syms st defs defs' ctx _ s rep h), trivial⟩
  · exact ⟨same (resolveData_syms st defs defs' ctx _ _ _ s rep h), trivial⟩
  · exact ⟨same (resolveRes_syms st defs defs' ctx _ _ s rep h), trivial⟩
  · exact ⟨same (resolveAlign_syms st defs defs' ctx _ _ s rep h), trivial⟩
  · exact ⟨same (resolveAddr_syms st defs defs' ctx _ _ s rep h), trivial⟩
  · exact ⟨same (resolveAssert_syms st defs defs' ctx _ s rep h), trivial⟩
  · rename_i hn _ _ _ _ _ _
    injection h with h; injection h with h1 _
    subst h1
    refine ⟨fun m _ hm => hm, (NodeOK_iff _ _).mpr ⟨?_, ?_⟩⟩
    · intro l nm ne' r he; exact absurd he (hn l nm _ ne' r)
    · intro l nm e' ne' r he; exact absurd he (hn l nm _ ne' r)

theorem passNode_ok_step (st : Static) (first last : Bool) (ps ps' : PassSt) (n : AstNode) (k : Nat)
    (h : passNode st first last ps n k = .ok ps') :
    (∀ m, ¬ Clash n m → NodeOK ps.defs m → NodeOK ps'.defs m) ∧ NodeOK ps'.defs n := by
  rw [passNode_eq] at h
  simp only at h
  split at h
  · cases h
  · split at h
    · cases h
    · rename_i defs stable reported hd
      split at h
      · cases h
      · injection h with h
        subst h
        exact dispatch_ok_step st ps.defs defs _ n k stable reported hd

theorem go_ok_step (st : Static) (first last : Bool) (n : AstNode) :
    ∀ (fuel k : Nat) (ps ps' : PassSt), passNodes.go st first last n k fuel ps = .ok ps' →
      (∀ m, ¬ Clash n m → NodeOK ps.defs m → NodeOK ps'.defs m) ∧ (0 < fuel → NodeOK ps'.defs n) := by
  intro fuel
  induction fuel with
  | zero =>
    intro k ps ps' h
    simp only [passNodes.go] at h
    injection h with h; subst h
    exact ⟨fun m _ hm => hm, fun hlt => absurd hlt (Nat.lt_irrefl 0)⟩
  | succ f ih =>
    intro k ps ps' h
    simp only [passNodes.go] at h
    cases hp : passNode st first last ps n k with
    | error m => rw [hp] at h; cases h
    | ok ps1 =>
      rw [hp] at h
      simp only at h
      obtain ⟨h1, h2⟩ := passNode_ok_step st first last ps ps1 n k hp
      obtain ⟨h3, h4⟩ := ih (k + 1) ps1 ps' h
      refine ⟨fun m hc hm => h3 m hc (h1 m hc hm), fun _ => ?_⟩
      by_cases hf : 0 < f
      · exact h4 hf
      · have : f = 0 := by omega
        subst this
        simp only [passNodes.go] at h
        injection h with h; subst h; exact h2

/-- no constant node shares its symbol slot with a label node -/
def NoClash (l : List AstNode) : Prop := ∀ a ∈ l, ∀ b ∈ l, ¬ Clash a b

theorem NodeOK_data (d : Defs) (sz : Option Nat) (es : List Expr) (refs : List Nat) : NodeOK d (.data sz es refs) := trivial

theorem passNodes_establish (st : Static) (first last : Bool) :
    ∀ (nodes visited : List AstNode) (ps ps' : PassSt), passNodes st first last nodes ps = .ok ps' →
      NoClash (visited ++ nodes) → (∀ m ∈ visited, NodeOK ps.defs m) → ∀ m ∈ visited ++ nodes, NodeOK ps'.defs m := by
  intro nodes
  induction nodes with
  | nil =>
    intro visited ps ps' h _ hv
    simp only [passNodes] at h
    injection h with h; subst h
    simpa using hv
  | cons n rest ih =>
    intro visited ps ps' h hwf hv
    simp only [passNodes] at h
    split at h
    · cases h
    · rename_i ps1 hg
      obtain ⟨h1, h2⟩ := go_ok_step st first last n _ 0 ps ps1 hg
      have hn : NodeOK ps1.defs n := by
        cases n with
        | data sz es refs => trivial
        | _ => exact h2 (by simp)
      have hv1 : ∀ m ∈ visited ++ [n], NodeOK ps1.defs m := by
        intro m hm
        simp only [List.mem_append, List.mem_singleton] at hm
        rcases hm with hm | hm
        · exact h1 m (hwf n (by simp) m (by simp [hm])) (hv m hm)
        · subst hm; exact hn
      have := ih (visited ++ [n]) ps1 ps' h (by simpa using hwf) hv1
      simpa using this

/-- **every state that a pass returns is well-formed** (whatever the flags and the input) -/
theorem pass_establishes_ok (st : Static) (nodes : List AstNode) (first last : Bool) (d0 d : Defs) (s : Bool) (rep : List String)
    (h : resolveOnce st nodes first last d0 = .ok (d, s, rep)) (hwf : NoClash nodes) : NodesOK d nodes := by
  unfold resolveOnce at h
  split at h
  · cases h
  · rename_i ps hp
    injection h with h; injection h with h1 _
    subst h1
    have := passNodes_establish st first last nodes [] _ ps hp (by simpa using hwf) (by intro m hm; cases hm)
    intro m hm
    exact this m (by simpa using hm)

theorem refsWF_noClash (nodes : List AstNode) (h : refsWF nodes = true) : NoClash nodes := by
  intro a ha b hb hc
  unfold Clash at hc
  split at hc
  · rename_i l1 n1 e1 ne1 r l2 n2 ne2 r'
    subst hc
    unfold refsWF at h
    rw [List.all_eq_true] at h
    have h1 : r ∈ constRefs nodes := by
      unfold constRefs
      exact List.mem_filterMap.mpr ⟨_, ha, rfl⟩
    have h2 : r ∈ labelRefs nodes := by
      unfold labelRefs
      exact List.mem_filterMap.mpr ⟨_, hb, rfl⟩
    have := h r h1
    simp only [Bool.not_eq_true', List.contains_eq_mem, decide_eq_false_iff_not] at this
    exact this h2
  · exact hc

/-! ## a fixed point is a fixed point at every node -/

/-- number of resolver steps of a node (`#d` lists have one per element) -/
def nodeElems : AstNode → Nat
  | .data _ es _ => es.length
  | _ => 1

theorem passNodes_cons (st : Static) (first last : Bool) (n : AstNode) (rest : List AstNode) (ps : PassSt) :
    passNodes st first last (n :: rest) ps =
      match passNodes.go st first last n 0 (nodeElems n) ps with
      | .error e => .error e
      | .ok ps' => passNodes st first last rest ps' := by
  cases n <;> (simp only [passNodes, nodeElems] <;> rfl)

theorem passNodes_append (st : Static) (first last : Bool) :
    ∀ (a b : List AstNode) (ps : PassSt), passNodes st first last (a ++ b) ps =
      match passNodes st first last a ps with
      | .error e => .error e
      | .ok ps1 => passNodes st first last b ps1 := by
  intro a
  induction a with
  | nil => intro b ps; simp [passNodes]
  | cons n rest ih =>
    intro b ps
    rw [List.cons_append, passNodes_cons, passNodes_cons]
    cases passNodes.go st first last n 0 (nodeElems n) ps with
    | error e => rfl
    | ok ps1 => exact ih b ps1

theorem passNodes_stable_mono (st : Static) (first last : Bool) :
    ∀ (l : List AstNode) (a b : PassSt), passNodes st first last l a = .ok b → b.stable = true → a.stable = true := by
  intro l
  induction l with
  | nil => intro a b hh hb; simp only [passNodes] at hh; injection hh with hh; subst hh; exact hb
  | cons m ms ihm =>
    intro a b hh hb
    rw [passNodes_cons] at hh
    cases hg : passNodes.go st first last m 0 (nodeElems m) a with
    | error e => rw [hg] at hh; cases hh
    | ok a1 =>
      rw [hg] at hh
      have ha1 := ihm a1 b hh hb
      have : ∀ (fuel k : Nat) (x y : PassSt), passNodes.go st first last m k fuel x = .ok y → y.stable = true → x.stable = true := by
        intro fuel
        induction fuel with
        | zero => intro k x y hh2 hy; simp only [passNodes.go] at hh2; injection hh2 with hh2; subst hh2; exact hy
        | succ g ihg =>
          intro k x y hh2 hy
          simp only [passNodes.go] at hh2
          cases hq : passNode st first last x m k with
          | error e => rw [hq] at hh2; cases hh2
          | ok x1 =>
            rw [hq] at hh2
            exact passNode_stable_mono st first last x x1 m k hq (ihg _ _ _ hh2 hy)
      exact this _ _ _ _ hg ha1

/-- **In a fixed point, every node is resolved on the final state and returns it**: for every
    position of the node list, the pass reaches that node with the state `d` unchanged, and the
    node's resolver steps return `d`, stable. -/
theorem fixed_point_at_every_node (st : Static) (nodes : List AstNode) (last : Bool) (d : Defs) (rep : List String)
    (h : resolveOnce st nodes false last d = .ok (d, true, rep)) (hok : NodesOK d nodes)
    (pre post : List AstNode) (n : AstNode) (hsplit : nodes = pre ++ n :: post) :
    ∃ ps ps1, passNodes st false last pre ⟨d, initIter d.banks, [], true, []⟩ = .ok ps ∧ ps.defs = d ∧
      passNodes.go st false last n 0 (nodeElems n) ps = .ok ps1 ∧ ps1.defs = d ∧ ps1.stable = true := by
  unfold resolveOnce at h
  split at h
  · cases h
  · rename_i psf hp
    injection h with h; injection h with h1 h2; injection h2 with h2 _
    rw [hsplit, passNodes_append] at hp
    cases hpre : passNodes st false last pre ⟨d, initIter d.banks, [], true, []⟩ with
    | error e => rw [hpre] at hp; cases hp
    | ok ps =>
      rw [hpre] at hp
      simp only at hp
      rw [passNodes_cons] at hp
      cases hg : passNodes.go st false last n 0 (nodeElems n) ps with
      | error e => rw [hg] at hp; cases hp
      | ok ps1 =>
        rw [hg] at hp
        simp only at hp
        have hs1 : ps1.stable = true := passNodes_stable_mono st false last post ps1 psf hp h2
        have hokpre : NodesOK d pre := fun m hm => hok m (by rw [hsplit]; simp [hm])
        have hs0 : ps.stable = true := by
          have := go_id st last n (nodeElems n) 0 ps ps1 hg hs1
          -- stability of ps follows from monotonicity without needing well-formedness
          have mono : ∀ (fuel k : Nat) (x y : PassSt), passNodes.go st false last n k fuel x = .ok y → y.stable = true → x.stable = true := by
            intro fuel
            induction fuel with
            | zero => intro k x y hh2 hy; simp only [passNodes.go] at hh2; injection hh2 with hh2; subst hh2; exact hy
            | succ g ihg =>
              intro k x y hh2 hy
              simp only [passNodes.go] at hh2
              cases hq : passNode st false last x n k with
              | error e => rw [hq] at hh2; cases hh2
              | ok x1 =>
                rw [hq] at hh2
                exact passNode_stable_mono st false last x x1 n k hq (ihg _ _ _ hh2 hy)
          exact mono _ _ _ _ hg hs1
        have hd0 : ps.defs = d := (passNodes_id st last pre _ ps hpre hs0 hokpre).1
        have hokn : NodeOK ps.defs n := by rw [hd0]; exact hok n (by rw [hsplit]; simp)
        have hd1 : ps1.defs = ps.defs := (go_id st last n (nodeElems n) 0 ps ps1 hg hs1 hokn).1
        exact ⟨ps, ps1, rfl, hd0, hg, hd1.trans hd0, hs1⟩

/-! ## the iteration ends in a fixed point -/

theorem iterLoop_fix (st : Static) (nodes : List AstNode) (max : Nat) (hmax : 2 ≤ max) (hwf : NoClash nodes) :
    ∀ (fuel i : Nat) (d : Defs) (rep : List String) (k : Nat) (d' : Defs) (rep' : List String) (fin : Bool),
      iterLoop st nodes max fuel i d rep = .ok (k, d', rep', fin) → i + fuel = max → (1 ≤ i → NodesOK d nodes) →
      (fin = true → ∃ r pre, resolveOnce st nodes false true d' = .ok (d', true, r) ∧ rep' = pre ++ r) ∧
      (fin = false → (1 ≤ i ∨ 1 ≤ fuel) → NodesOK d' nodes) := by
  intro fuel
  induction fuel with
  | zero =>
    intro i d rep k d' rep' fin h _ hinv
    simp only [iterLoop] at h
    injection h with h; injection h with h1 h; injection h with h2 h; injection h with h3 h4
    subst h2 h4
    refine ⟨(fun hf => by cases hf), fun _ hor => ?_⟩
    rcases hor with hi | hf
    · exact hinv hi
    · omega
  | succ n ih =>
    intro i d rep k d' rep' fin h hi hinv
    have hlt : ¬ (i ≥ max) := by omega
    simp only [iterLoop, hlt, if_false] at h
    cases hp : resolveOnce st nodes (i + 1 == 1) (i + 1 == max) d with
    | error e => rw [hp] at h; cases e; simp at h
    | ok x =>
      obtain ⟨d1, stable, r⟩ := x
      rw [hp] at h
      simp only at h
      have hok1 : NodesOK d1 nodes := pass_establishes_ok st nodes _ _ d d1 stable r hp hwf
      cases stable with
      | true =>
        simp only [if_true] at h
        by_cases hl : (i + 1 == max) = true
        · simp only [hl, if_true] at h
          injection h with h; injection h with h1 h; injection h with h2 h; injection h with h3 h4
          subst h2 h4
          refine ⟨fun _ => ?_, fun hf => by cases hf⟩
          -- the last pass is not the first one (budget ≥ 2), its input is the output of a pass: identity
          have hi1 : 1 ≤ i := by
            have : i + 1 = max := by simpa using hl
            omega
          have hfirst : (i + 1 == 1) = false := by
            have : i + 1 ≠ 1 := by omega
            simpa using this
          rw [hfirst, hl] at hp
          have hid : d1 = d := resolveOnce_stable_id st nodes true d d1 r hp (hinv hi1)
          rw [hid] at hp ⊢
          exact ⟨r, rep, hp, h3.symm⟩
        · have hl' : (i + 1 == max) = false := by simpa using hl
          simp only [hl', Bool.false_eq_true, if_false] at h
          injection h with h; injection h with h1 h; injection h with h2 h; injection h with h3 h4
          subst h2 h4
          exact ⟨(fun hf => by cases hf), fun _ _ => hok1⟩
      | false =>
        simp only [Bool.false_eq_true, if_false] at h
        by_cases hl : (i + 1 == max) = true
        · simp only [hl, if_true] at h; cases h
        · have hl' : (i + 1 == max) = false := by simpa using hl
          simp only [hl', Bool.false_eq_true, if_false] at h
          have := ih (i + 1) d1 (rep ++ r) k d' rep' fin h (by omega) (fun _ => hok1)
          exact ⟨this.1, fun hf _ => this.2 hf (Or.inl (by omega))⟩

/-- **With a budget of at least two passes, a successful iteration ends in a state on which the
    strict non-first pass is stable and which it returns unchanged**, and whose messages are the
    tail of all messages. -/
theorem resolveIterativelyN_fixed_point (st : Static) (nodes : List AstNode) (max : Nat) (hmax : 2 ≤ max) (hwf : NoClash nodes)
    (d0 : Defs) (k : Nat) (d : Defs) (rep : List String) (h : resolveIterativelyN st nodes max d0 = .ok (k, d, rep)) :
    ∃ r pre, resolveOnce st nodes false true d = .ok (d, true, r) ∧ rep = pre ++ r := by
  unfold resolveIterativelyN at h
  cases hl : iterLoop st nodes max max 0 d0 [] with
  | error e => rw [hl] at h; cases h
  | ok x =>
    obtain ⟨i, d1, rep1, fin⟩ := x
    rw [hl] at h
    have hfix := iterLoop_fix st nodes max hmax hwf max 0 d0 [] i d1 rep1 fin hl (by omega) (fun h0 => by omega)
    cases fin with
    | true =>
      simp only at h
      injection h with h; injection h with h1 h; injection h with h2 h3
      subst h1 h2 h3
      exact hfix.1 rfl
    | false =>
      simp only at h
      cases hp : resolveOnce st nodes false true d1 with
      | error e => rw [hp] at h; cases e; cases h
      | ok y =>
        obtain ⟨d2, stable, r⟩ := y
        rw [hp] at h
        cases stable with
        | false => simp at h
        | true =>
          simp only [if_true] at h
          injection h with h; injection h with h1 h; injection h with h2 h3
          subst h1 h2 h3
          have hok : NodesOK d1 nodes := hfix.2 rfl (Or.inr (by omega))
          have hid : d2 = d1 := resolveOnce_stable_id st nodes true d1 d2 r hp hok
          rw [hid] at hp ⊢
          exact ⟨r, rep1, hp, rfl⟩

end Casm
