import Casm.Model.Bits
import Mathlib.Tactic.Ring
/-! Helper lemmas about `nbits`, `minSize`, `tbit`, `bitsRange`. -/
namespace Casm

theorem nbits_le_iff (n k : Nat) : nbits n ≤ k ↔ n < 2 ^ k := by
  unfold nbits
  split
  · subst_vars
    constructor <;> intro _ <;> first | exact Nat.zero_le _ | exact Nat.two_pow_pos k
  · rename_i h
    rw [Nat.succ_le_iff]
    exact (Nat.log2_lt h)

theorem minSize_pos_le (x : Int) (hx : 0 < x) (k : Nat) : minSize x ≤ k ↔ x < 2 ^ k := by
  unfold minSize
  have h0 : x ≠ 0 := by omega
  have h1 : ¬ x < 0 := by omega
  simp only [h0, h1, if_false]
  rw [nbits_le_iff]
  constructor
  · intro h
    have : (x.natAbs : Int) < ((2 ^ k : Nat) : Int) := by exact_mod_cast h
    have e : (x.natAbs : Int) = x := Int.natAbs_of_nonneg (by omega)
    rw [e] at this
    simpa using this
  · intro h
    have e : (x.natAbs : Int) = x := Int.natAbs_of_nonneg (by omega)
    have : (x.natAbs : Int) < ((2 ^ k : Nat) : Int) := by rw [e]; simpa using h
    exact_mod_cast this

theorem minSize_neg_le (x : Int) (hx : x < 0) (k : Nat) : minSize x ≤ k + 1 ↔ -(2 ^ k) ≤ x := by
  unfold minSize
  have h0 : x ≠ 0 := by omega
  simp only [h0, hx, if_true, if_false]
  rw [Nat.add_le_add_iff_right, nbits_le_iff]
  have e : ((x + 1).natAbs : Int) = -(x + 1) := by omega
  constructor
  · intro h
    have : ((x + 1).natAbs : Int) < ((2 ^ k : Nat) : Int) := by exact_mod_cast h
    rw [e] at this
    have h2 : ((2 ^ k : Nat) : Int) = 2 ^ k := by simp
    omega
  · intro h
    have h2 : ((2 ^ k : Nat) : Int) = 2 ^ k := by simp
    have : ((x + 1).natAbs : Int) < ((2 ^ k : Nat) : Int) := by rw [e]; omega
    exact_mod_cast this

theorem minSize_pos (v : Int) : 0 < minSize v := by
  unfold minSize nbits
  split
  · decide
  · split
    · omega
    · split
      · rename_i h1 h2 h3; omega
      · omega

theorem minSize_zero : minSize 0 = 1 := by simp [minSize]

theorem minSize_neg_ge_one (x : Int) (_hx : x < 0) : 1 ≤ minSize x := minSize_pos x

/-- general characterisation: for `1 ≤ n`, `minSize v ≤ n ↔ -2^(n-1) ≤ v < 2^n` -/
theorem minSize_le_iff (v : Int) (n : Nat) (hn : 1 ≤ n) :
    minSize v ≤ n ↔ -(2 ^ (n - 1)) ≤ v ∧ v < 2 ^ n := by
  have hp : (0 : Int) < 2 ^ n := Int.pow_pos (by decide)
  have hp1 : (0 : Int) < 2 ^ (n - 1) := Int.pow_pos (by decide)
  rcases Int.lt_trichotomy v 0 with h | h | h
  · obtain ⟨k, rfl⟩ : ∃ k, n = k + 1 := ⟨n - 1, by omega⟩
    rw [minSize_neg_le v h]
    simp only [Nat.add_sub_cancel]
    constructor
    · intro h1; exact ⟨h1, by omega⟩
    · intro h1; exact h1.1
  · subst h
    rw [minSize_zero]
    constructor
    · intro _; exact ⟨by omega, hp⟩
    · intro _; exact hn
  · rw [minSize_pos_le v h]
    constructor
    · intro h1; exact ⟨by omega, h1⟩
    · intro h1; exact h1.2

/-! ### bits -/

theorem pow2_cast (k : Nat) : ((2 ^ k : Nat) : Int) = 2 ^ k := by simp

theorem tbit_eq (x : Int) (i : Nat) : tbit x i = ((x / 2 ^ i) % 2 == 1) := by
  unfold tbit; rw [Int.shiftRight_eq_div_pow]; simp

theorem bitsRange_zero_right (x : Int) (n : Nat) : bitsRange x n 0 = x % 2 ^ n := by
  unfold bitsRange; simp [Int.shiftRight_eq_div_pow]

theorem bitsRange_nonneg (x : Int) (l r : Nat) : 0 ≤ bitsRange x l r := by
  unfold bitsRange
  apply Int.emod_nonneg
  have := Nat.two_pow_pos (l - r)
  omega

theorem bitsRange_lt (x : Int) (l r : Nat) : bitsRange x l r < 2 ^ (l - r) := by
  unfold bitsRange
  rw [pow2_cast]
  apply Int.emod_lt_of_pos
  exact Int.pow_pos (by decide)

theorem emod_mul_ediv (x a b : Int) (ha : 0 < a) : x % (a * b) / a = (x / a) % b := by
  rw [Int.emod_def x (a*b), Int.emod_def (x/a) b]
  have : x - a * b * (x / (a * b)) = x + a * (-(b * (x / (a*b)))) := by
    rw [Int.mul_neg, Int.mul_assoc]; omega
  rw [this, Int.add_mul_ediv_left _ _ (by omega)]
  rw [Int.ediv_ediv_of_nonneg (by omega)]
  omega

/-- bit `i` of `x mod 2^n` -/
theorem tbit_emod_pow (x : Int) (n i : Nat) :
    tbit (x % 2 ^ n) i = (decide (i < n) && tbit x i) := by
  rw [tbit_eq, tbit_eq]
  by_cases h : i < n
  · simp only [h, decide_true, Bool.true_and]
    obtain ⟨d, rfl⟩ : ∃ d, n = i + (d + 1) := ⟨n - i - 1, by omega⟩
    have e : (2 : Int) ^ (i + (d + 1)) = 2 ^ i * (2 * 2 ^ d) := by
      rw [Int.pow_add, Int.pow_succ]; ac_rfl
    have hpi : (0 : Int) < 2 ^ i := Int.pow_pos (by decide)
    -- x % (a*b) / a = (x / a) % b
    have key : x % (2 ^ i * (2 * 2 ^ d)) / 2 ^ i = (x / 2 ^ i) % (2 * 2 ^ d) :=
      emod_mul_ediv _ _ _ hpi
    rw [e, key]
    have : (x / 2 ^ i) % (2 * 2 ^ d) % 2 = (x / 2 ^ i) % 2 :=
      Int.emod_emod_of_dvd _ (Int.dvd_mul_right 2 _)
    rw [this]
  · simp only [h, decide_false, Bool.false_and]
    have hp : (0 : Int) < 2 ^ n := Int.pow_pos (by decide)
    have h0 : 0 ≤ x % 2 ^ n := Int.emod_nonneg _ (by omega)
    have h1 : x % 2 ^ n < 2 ^ n := Int.emod_lt_of_pos _ hp
    have h2 : (2 : Int) ^ n ≤ 2 ^ i := by
      have : (2 : Nat) ^ n ≤ 2 ^ i := Nat.pow_le_pow_right (by decide) (by omega)
      exact_mod_cast this
    have : x % 2 ^ n / 2 ^ i = 0 := Int.ediv_eq_zero_of_lt h0 (by omega)
    rw [this]; simp

end Casm

namespace Casm

/-- MSB-first bit list to number -/
def ofBits (l : List Bool) : Nat := l.foldl (fun acc b => 2 * acc + (if b then 1 else 0)) 0

theorem ofBits_foldl (l : List Bool) (a : Nat) :
    l.foldl (fun acc b => 2 * acc + (if b then 1 else 0)) a = a * 2 ^ l.length + ofBits l := by
  induction l generalizing a with
  | nil => simp [ofBits]
  | cons b l ih =>
    simp only [List.foldl_cons, List.length_cons, ofBits]
    rw [ih, ih (2 * 0 + _)]
    rw [Nat.pow_succ]
    cases b <;> simp <;> ring

end Casm

namespace Casm
theorem rejects_u_prop (N : Nat) (v : Int) : rejects .u N v = true ↔ (v < 0 ∨ N < minSize v) := by
  unfold rejects sign
  rcases Int.lt_trichotomy v 0 with h | h | h
  · simp [h]
  · subst h; simp
  · have h1 : ¬ v < 0 := by omega
    have h2 : ¬ v = 0 := by omega
    simp [h1, h2]
theorem rejects_i_prop (N : Nat) (v : Int) : rejects .i N v = true ↔ N < minSize v := by
  unfold rejects; simp
theorem rejects_s_prop (N : Nat) (v : Int) : rejects .s N v = true ↔
    ((v = 0 ∧ N = 0) ∨ (0 < v ∧ N ≤ minSize v) ∨ (v < 0 ∧ N < minSize v)) := by
  unfold rejects sign
  rcases Int.lt_trichotomy v 0 with h | h | h
  · have h1 : ¬ v = 0 := by omega
    have h2 : ¬ 0 < v := by omega
    simp [h, h1, h2]
  · subst h; simp
  · have h1 : ¬ v < 0 := by omega
    have h2 : ¬ v = 0 := by omega
    simp [h1, h2, h]
theorem isSome_checkArg (t : Ty) (N : Nat) (v : Int) : (checkArg t N v).isSome = !rejects t N v := by
  unfold checkArg; cases rejects t N v <;> rfl
theorem isSome_checkArg_iff (t : Ty) (N : Nat) (v : Int) : (checkArg t N v).isSome ↔ ¬ (rejects t N v = true) := by
  rw [isSome_checkArg]; cases rejects t N v <;> simp
end Casm
