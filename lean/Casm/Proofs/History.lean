import Casm.Proofs.Recompute
/-!
# Casm.Proofs.History — what a first-pass mark stands for, through every later pass

Frame facts of the item resolvers (what they never change, what they never undo), the invariant
"a statically known symbol that has a value is marked resolved", and the witnesses that marked
instructions and data elements carry: the state and context in which they were frozen.
-/
namespace Casm

/-! ## frame facts of one resolver step -/

theorem getD_set_eq_or {α} (l : List α) (i j : Nat) (a d : α) :
    (l.set i a).getD j d = l.getD j d ∨ (i = j ∧ (l.set i a).getD j d = a) := by
  by_cases h : i = j
  · subst h
    by_cases hl : i < l.length
    · exact Or.inr ⟨rfl, getD_set_self_lt l i a d hl⟩
    · left
      simp [List.getD_eq_getElem?_getD, Nat.not_lt.mp hl]
  · exact Or.inl (getD_set_ne l i j a d h)

/-- what no step changes about instructions and data, and what it never undoes -/
structure ItemFrame (a b : Defs) : Prop where
  rd : b.ruledefs = a.ruledefs
  ic : ∀ ref, (b.instrs.getD ref default).cands = (a.instrs.getD ref default).cands ∧
    (b.instrs.getD ref default).known = (a.instrs.getD ref default).known
  dk : ∀ ref, (b.datas.getD ref default).known = (a.datas.getD ref default).known
  ifz : ∀ ref, (a.instrs.getD ref default).resolved = true → b.instrs.getD ref default = a.instrs.getD ref default
  dfz : ∀ ref, (a.datas.getD ref default).resolved = true → b.datas.getD ref default = a.datas.getD ref default

theorem ItemFrame.refl (a : Defs) : ItemFrame a a := ⟨rfl, fun _ => ⟨rfl, rfl⟩, fun _ => rfl, fun _ _ => rfl, fun _ _ => rfl⟩

theorem ItemFrame.of_same {a b : Defs} (h1 : b.ruledefs = a.ruledefs) (h2 : b.instrs = a.instrs) (h3 : b.datas = a.datas) : ItemFrame a b :=
  ⟨h1, fun _ => by rw [h2]; exact ⟨rfl, rfl⟩, fun _ => by rw [h3], fun _ _ => by rw [h2], fun _ _ => by rw [h3]⟩

theorem resolveInstruction_frame (st : Static) (d d' : Defs) (ctx : RCtx) (ref : Nat) (s : Bool) (rep : List String)
    (h : resolveInstruction st d ctx ref = .ok (d', s, rep)) : ItemFrame d d' := by
  unfold resolveInstruction at h
  simp only at h
  rcases ite_ok_inv _ _ _ _ h with ⟨_, h⟩ | ⟨hr, h⟩
  · injection h with h; injection h with h1 _; subst h1; exact ItemFrame.refl d
  · have hr' : (d.instrs.getD ref default).resolved = false := by simpa using hr
    -- every other branch returns `d` or `d` with the instruction `ref` re-encoded
    have key : ∀ (e : BI) (b : Bool), ItemFrame d { d with instrs := d.instrs.set ref { (d.instrs.getD ref default) with encoding := e, resolved := b } } := by
      intro e b
      refine ⟨rfl, fun r => ?_, fun _ => rfl, fun r hres => ?_, fun _ _ => rfl⟩
      · rcases getD_set_eq_or d.instrs ref r { (d.instrs.getD ref default) with encoding := e, resolved := b } default with h1 | ⟨h1, h2⟩
        · exact ⟨by rw [h1], by rw [h1]⟩
        · subst h1; exact ⟨by rw [h2], by rw [h2]⟩
      · rcases getD_set_eq_or d.instrs ref r { (d.instrs.getD ref default) with encoding := e, resolved := b } default with h1 | ⟨h1, _⟩
        · exact h1
        · subst h1; rw [hr'] at hres; cases hres
    repeat' (first | (split at h))
    all_goals first
      | (cases h; done)
      | (injection h with h; injection h with h1 _; subst h1; first | exact ItemFrame.refl d | exact key _ _)

theorem resolveData_frame (st : Static) (d d' : Defs) (ctx : RCtx) (ref : Nat) (sz : Option Nat) (e : Expr) (s : Bool) (rep : List String)
    (h : resolveData st d ctx ref sz e = .ok (d', s, rep)) : ItemFrame d d' := by
  unfold resolveData at h
  simp only at h
  rcases ite_ok_inv _ _ _ _ h with ⟨_, h⟩ | ⟨hr, h⟩
  · injection h with h; injection h with h1 _; subst h1; exact ItemFrame.refl d
  · have hr' : (d.datas.getD ref default).resolved = false := by simpa using hr
    have key : ∀ (e : BI) (b : Bool), ItemFrame d { d with datas := d.datas.set ref { (d.datas.getD ref default) with encoding := e, resolved := b } } := by
      intro e b
      refine ⟨rfl, fun _ => ⟨rfl, rfl⟩, fun r => ?_, fun _ _ => rfl, fun r hres => ?_⟩
      · rcases getD_set_eq_or d.datas ref r { (d.datas.getD ref default) with encoding := e, resolved := b } default with h1 | ⟨h1, h2⟩
        · rw [h1]
        · subst h1; rw [h2]
      · rcases getD_set_eq_or d.datas ref r { (d.datas.getD ref default) with encoding := e, resolved := b } default with h1 | ⟨h1, _⟩
        · exact h1
        · subst h1; rw [hr'] at hres; cases hres
    unfold dataStore at h
    simp only at h
    repeat' (first | (split at h))
    all_goals first
      | (cases h; done)
      | (injection h with h; injection h with h1 _; subst h1; first | exact ItemFrame.refl d | exact key _ _)

theorem frame_of_items {d d' : Defs} (h1 : d'.ruledefs = d.ruledefs) (h2 : d'.instrs = d.instrs) (h3 : d'.datas = d.datas) :
    ItemFrame d d' := ItemFrame.of_same h1 h2 h3

theorem resolveRes_frame (st : Static) (d d' : Defs) (ctx : RCtx) (ref : Nat) (e : Expr) (s : Bool) (rep : List String)
    (h : resolveRes st d ctx ref e = .ok (d', s, rep)) : ItemFrame d d' := by
  unfold resolveRes at h
  simp only at h
  repeat' (first | (split at h))
  all_goals (cases h <;> exact ItemFrame.of_same rfl rfl rfl)

theorem resolveAlign_frame (st : Static) (d d' : Defs) (ctx : RCtx) (ref : Nat) (e : Expr) (s : Bool) (rep : List String)
    (h : resolveAlign st d ctx ref e = .ok (d', s, rep)) : ItemFrame d d' := by
  unfold resolveAlign at h
  simp only at h
  repeat' (first | (split at h))
  all_goals (cases h <;> exact ItemFrame.of_same rfl rfl rfl)

theorem resolveAddr_frame (st : Static) (d d' : Defs) (ctx : RCtx) (ref : Nat) (e : Expr) (s : Bool) (rep : List String)
    (h : resolveAddr st d ctx ref e = .ok (d', s, rep)) : ItemFrame d d' := by
  unfold resolveAddr at h
  simp only at h
  repeat' (first | (split at h))
  all_goals (cases h <;> exact ItemFrame.of_same rfl rfl rfl)

theorem resolveAssert_frame (st : Static) (d d' : Defs) (ctx : RCtx) (e : Expr) (s : Bool) (rep : List String)
    (h : resolveAssert st d ctx e = .ok (d', s, rep)) : ItemFrame d d' := by
  rw [resolveAssert_id st d d' ctx e s rep h]; exact ItemFrame.refl d

theorem resolveLabel_frame (st : Static) (d d' : Defs) (ctx : RCtx) (ref : Nat) (s : Bool) (rep : List String)
    (h : resolveLabel st d ctx ref = .ok (d', s, rep)) : ItemFrame d d' := by
  unfold resolveLabel at h
  simp only at h
  repeat' (first | (split at h))
  all_goals (cases h <;> exact ItemFrame.of_same rfl rfl rfl)

theorem resolveConstant_frame (st : Static) (d d' : Defs) (ctx : RCtx) (ref : Nat) (e : Expr) (s : Bool) (rep : List String)
    (h : resolveConstant st d ctx ref e = .ok (d', s, rep)) : ItemFrame d d' := by
  unfold resolveConstant at h
  simp only at h
  repeat' (first | (split at h))
  all_goals (cases h <;> exact ItemFrame.of_same rfl rfl rfl)

theorem dispatch_frame (st : Static) (d d' : Defs) (ctx : RCtx) (n : AstNode) (k : Nat) (s : Bool) (rep : List String)
    (h : dispatch st d ctx n k = .ok (d', s, rep)) : ItemFrame d d' := by
  unfold dispatch at h
  split at h
  · rename_i level name kind ne ref
    cases kind with
    | label => exact resolveLabel_frame st d d' ctx ref s rep h
    | constant e => exact resolveConstant_frame st d d' ctx ref e s rep h
  · exact resolveInstruction_frame st d d' ctx _ s rep h
  · exact resolveData_frame st d d' ctx _ _ _ s rep h
  · exact resolveRes_frame st d d' ctx _ _ s rep h
  · exact resolveAlign_frame st d d' ctx _ _ s rep h
  · exact resolveAddr_frame st d d' ctx _ _ s rep h
  · exact resolveAssert_frame st d d' ctx _ s rep h
  · injection h with h; injection h with h1 _; subst h1; exact ItemFrame.refl d

/-! ## the symbol table under one step -/

theorem sym_setSym (d : Defs) (ref r : Nat) (sd : SymDef) :
    (d.setSym ref sd).sym r = d.sym r ∨ (r = ref ∧ (d.setSym ref sd).sym r = sd) := by
  unfold Defs.setSym Defs.sym
  simp only
  rcases getD_set_eq_or d.symbols ref r (some sd) none with h | ⟨h1, h2⟩
  · left; rw [h]
  · right; exact ⟨h1.symm, by rw [h2]; rfl⟩

theorem sym_of_symbols_eq {a b : Defs} (h : b.symbols = a.symbols) (r : Nat) : b.sym r = a.sym r := by
  unfold Defs.sym; rw [h]

/-- symbol-table facts of one resolver step on node `n` -/
structure SymFrame (n : AstNode) (a b : Defs) : Prop where
  other : ∀ r, (∀ l nm k ne, n ≠ .symbol l nm k ne (some r)) → b.sym r = a.sym r
  known : ∀ r, (b.sym r).known = (a.sym r).known
  res : ∀ r, (a.sym r).resolved = true → (b.sym r).resolved = true
  constRes : ∀ l nm e ne r, n = .symbol l nm (.constant e) ne (some r) → (a.sym r).resolved = true → b = a

theorem SymFrame.of_symbols {n : AstNode} {a b : Defs} (h : b.symbols = a.symbols)
    (hn : ∀ l nm e ne r, n ≠ .symbol l nm (.constant e) ne (some r)) : SymFrame n a b :=
  ⟨fun r _ => sym_of_symbols_eq h r, fun r => by rw [sym_of_symbols_eq h r], fun r hr => by rw [sym_of_symbols_eq h r]; exact hr,
   fun l nm e ne r hne => absurd hne (hn l nm e ne r)⟩

theorem resolveLabel_symframe (st : Static) (d d' : Defs) (ctx : RCtx) (l : Nat) (nm : String) (ne : Bool) (ref : Nat) (s : Bool) (rep : List String)
    (h : resolveLabel st d ctx ref = .ok (d', s, rep)) : SymFrame (.symbol l nm .label ne (some ref)) d d' := by
  unfold resolveLabel at h
  cases ha : evalAddress d ctx ctx.canGuess with
  | error e => rw [ha] at h; cases h
  | ok a =>
    rw [ha] at h
    simp only at h
    have hd : d' = d.setSym ref { d.sym ref with value := .int ⟨a, none⟩ } := by
      rcases ite_ok_inv _ _ _ _ h with ⟨_, h⟩ | ⟨_, h⟩ <;>
      · injection h with h; injection h with h1 _; exact h1.symm
    subst hd
    refine ⟨fun r hr => ?_, fun r => ?_, fun r hres => ?_, fun l' nm' e ne' r hn => by cases hn⟩
    · rcases sym_setSym d ref r _ with h1 | ⟨h1, _⟩
      · exact h1
      · subst h1; exact absurd rfl (hr l nm .label ne)
    · rcases sym_setSym d ref r { d.sym ref with value := .int ⟨a, none⟩ } with h1 | ⟨h1, h2⟩
      · rw [h1]
      · subst h1; rw [h2]
    · rcases sym_setSym d ref r { d.sym ref with value := .int ⟨a, none⟩ } with h1 | ⟨h1, h2⟩
      · rw [h1]; exact hres
      · subst h1; rw [h2]; exact hres

theorem resolveConstant_symframe (st : Static) (d d' : Defs) (ctx : RCtx) (l : Nat) (nm : String) (ne : Bool) (ref : Nat) (e : Expr)
    (s : Bool) (rep : List String) (h : resolveConstant st d ctx ref e = .ok (d', s, rep)) :
    SymFrame (.symbol l nm (.constant e) ne (some ref)) d d' ∧
      (st.opts.optStatic = true → ctx.first = true → (d.sym ref).known = true → d.symbols.length ≤ ref ∨ (d'.sym ref).resolved = true) := by
  unfold resolveConstant at h
  simp only at h
  rcases ite_ok_inv _ _ _ _ h with ⟨hr, h⟩ | ⟨hr, h⟩
  · injection h with h; injection h with h1 _; subst h1
    exact ⟨⟨fun _ _ => rfl, fun _ => rfl, fun _ h => h, fun _ _ _ _ _ _ _ => rfl⟩, fun _ _ _ => Or.inr hr⟩
  · have hr' : (d.sym ref).resolved = false := by simpa using hr
    cases hev : resolverEval st d ctx {} e with
    | error m => rw [hev] at h; cases h
    | ok x =>
      obtain ⟨v, c⟩ := x
      rw [hev] at h
      simp only at h
      have key : ∀ (b : Bool), d' = d.setSym ref { d.sym ref with value := v, resolved := b } →
          SymFrame (.symbol l nm (.constant e) ne (some ref)) d d' := by
        intro b hd
        subst hd
        refine ⟨fun r hn => ?_, fun r => ?_, fun r hres => ?_, fun l' nm' e' ne' r hn hres => ?_⟩
        · rcases sym_setSym d ref r _ with h1 | ⟨h1, _⟩
          · exact h1
          · subst h1; exact absurd rfl (hn l nm (.constant e) ne)
        · rcases sym_setSym d ref r { d.sym ref with value := v, resolved := b } with h1 | ⟨h1, h2⟩
          · rw [h1]
          · subst h1; rw [h2]
        · rcases sym_setSym d ref r { d.sym ref with value := v, resolved := b } with h1 | ⟨h1, h2⟩
          · rw [h1]; exact hres
          · subst h1; rw [hr'] at hres; cases hres
        · injection hn with _ _ _ _ h5; injection h5 with h5; subst h5
          rw [hr'] at hres; cases hres
      have hd : d' = d.setSym ref { d.sym ref with value := v, resolved := st.opts.optStatic && ctx.first && (d.sym ref).known } := by
        rcases ite_ok_inv _ _ _ _ h with ⟨_, h⟩ | ⟨_, h⟩ <;>
        · injection h with h; injection h with h1 _; exact h1.symm
      refine ⟨key _ hd, fun h1 h2 h3 => ?_⟩
      subst hd
      rcases sym_setSym d ref ref { d.sym ref with value := v, resolved := st.opts.optStatic && ctx.first && (d.sym ref).known } with h4 | ⟨_, h4⟩
      · by_cases hl : ref < d.symbols.length
        · right
          unfold Defs.setSym Defs.sym
          simp only [getD_set_self_lt d.symbols ref _ none hl]
          unfold Defs.sym at h3
          simp only [h1, h2, Bool.and_self, Bool.true_and]
          exact h3
        · exact Or.inl (Nat.not_lt.mp hl)
      · right; rw [h4]; simp [h1, h2, h3]

theorem dispatch_symframe (st : Static) (d d' : Defs) (ctx : RCtx) (n : AstNode) (k : Nat) (s : Bool) (rep : List String)
    (h : dispatch st d ctx n k = .ok (d', s, rep)) : SymFrame n d d' := by
  unfold dispatch at h
  split at h
  · rename_i level name kind ne ref
    cases kind with
    | label => exact resolveLabel_symframe st d d' ctx level name ne ref s rep h
    | constant e => exact (resolveConstant_symframe st d d' ctx level name ne ref e s rep h).1
  · exact SymFrame.of_symbols (resolveInstruction_syms st d d' ctx _ s rep h) (fun _ _ _ _ _ hh => by cases hh)
  · exact SymFrame.of_symbols (resolveData_syms st d d' ctx _ _ _ s rep h) (fun _ _ _ _ _ hh => by cases hh)
  · exact SymFrame.of_symbols (resolveRes_syms st d d' ctx _ _ s rep h) (fun _ _ _ _ _ hh => by cases hh)
  · exact SymFrame.of_symbols (resolveAlign_syms st d d' ctx _ _ s rep h) (fun _ _ _ _ _ hh => by cases hh)
  · exact SymFrame.of_symbols (resolveAddr_syms st d d' ctx _ _ s rep h) (fun _ _ _ _ _ hh => by cases hh)
  · exact SymFrame.of_symbols (resolveAssert_syms st d d' ctx _ s rep h) (fun _ _ _ _ _ hh => by cases hh)
  · injection h with h; injection h with h1 _; subst h1
    exact ⟨fun _ _ => rfl, fun _ => rfl, fun _ hh => hh, fun _ _ _ _ _ _ _ => rfl⟩

/-! ## when a mark appears -/

/-- an instruction gets its mark only in the short-cut branch; everything else leaves marks alone -/
theorem resolveInstruction_freeze (st : Static) (d d' : Defs) (ctx : RCtx) (ref : Nat) (s : Bool) (rep : List String)
    (h : resolveInstruction st d ctx ref = .ok (d', s, rep)) :
    (∀ r, r ≠ ref → d'.instrs.getD r default = d.instrs.getD r default) ∧
    ((d.instrs.getD ref default).resolved = false → (d'.instrs.getD ref default).resolved = true →
      st.opts.optStatic = true ∧ ctx.first = true ∧ (d.instrs.getD ref default).known = true ∧
      allDefinite st d ctx ((d.instrs.getD ref default).cands.map (·.m)) = true ∧
      ∃ encs rep0 e, resolveEncoding st d evalFuel ctx ((d.instrs.getD ref default).cands.map (·.m)) {} = .ok (some encs, rep0) ∧
        encs.length = 1 ∧ encs.head? = some e ∧ (d'.instrs.getD ref default).encoding = e.2) := by
  unfold resolveInstruction at h
  simp only at h
  rcases ite_ok_inv _ _ _ _ h with ⟨hr, h⟩ | ⟨hr, h⟩
  · injection h with h; injection h with h1 _; subst h1
    exact ⟨fun _ _ => rfl, fun h1 h2 => by rw [h1] at h2; cases h2⟩
  · cases he : resolveEncoding st d evalFuel ctx ((d.instrs.getD ref default).cands.map (·.m)) {} with
    | error m => rw [he] at h; cases h
    | ok x =>
      obtain ⟨encs, reported⟩ := x
      rw [he] at h
      simp only at h
      cases encs with
      | none =>
        simp only [Option.bind_none] at h
        injection h with h; injection h with h1 _; subst h1
        exact ⟨fun _ _ => rfl, fun h1 h2 => by rw [h1] at h2; cases h2⟩
      | some l =>
        cases l with
        | nil =>
          simp only [Option.bind_some, List.head?_nil, Option.map_none] at h
          injection h with h; injection h with h1 _; subst h1
          exact ⟨fun _ _ => rfl, fun h1 h2 => by rw [h1] at h2; cases h2⟩
        | cons e t =>
          simp only [Option.bind_some, List.head?_cons, Option.map_some] at h
          rcases ite_ok_inv _ _ _ _ h with ⟨hc, h⟩ | ⟨hc, h⟩
          · injection h with h; injection h with h1 _; subst h1
            refine ⟨fun r hne => getD_set_ne _ _ _ _ _ (Ne.symm hne), fun _ h2 => ?_⟩
            simp only [Bool.and_eq_true] at hc
            obtain ⟨⟨⟨⟨c1, c2⟩, c3⟩, c4⟩, c5⟩ := hc
            have hlen : (e :: t).length = 1 := by simpa using c4
            refine ⟨c1, c2, c3, c5, e :: t, reported, e, rfl, hlen, rfl, ?_⟩
            rcases getD_set_eq_or d.instrs ref ref { (d.instrs.getD ref default) with encoding := e.2, resolved := true } default with h3 | ⟨_, h3⟩
            · rw [h3] at h2; rw [h2] at hr; exact absurd rfl hr
            · rw [h3]
          · have hd : d' = { d with instrs := d.instrs.set ref { (d.instrs.getD ref default) with encoding := e.2 } } := by
              rcases ite_ok_inv _ _ _ _ h with ⟨_, h⟩ | ⟨_, h⟩ <;>
              · injection h with h; injection h with h1 _; exact h1.symm
            subst hd
            refine ⟨fun r hne => getD_set_ne _ _ _ _ _ (Ne.symm hne), fun h1 h2 => ?_⟩
            exfalso
            rcases getD_set_eq_or d.instrs ref ref { (d.instrs.getD ref default) with encoding := e.2 } default with h3 | ⟨_, h3⟩
            · simp only at h2; rw [h3, h1] at h2; cases h2
            · simp only at h2; rw [h3] at h2; simp only at h2; rw [h1] at h2; cases h2

theorem resolveData_freeze (st : Static) (d d' : Defs) (ctx : RCtx) (ref : Nat) (sz : Option Nat) (e : Expr) (s : Bool) (rep : List String)
    (h : resolveData st d ctx ref sz e = .ok (d', s, rep)) :
    (∀ r, r ≠ ref → d'.datas.getD r default = d.datas.getD r default) ∧
    ((d.datas.getD ref default).resolved = false → (d'.datas.getD ref default).resolved = true →
      st.opts.optStatic = true ∧ ctx.first = true ∧ (d.datas.getD ref default).known = true ∧
      ∃ v c b0, resolverEval st d ctx {} e = .ok (v, c) ∧ dataEnc true v = .ok (some b0) ∧
        dataCheck true sz (some b0) = .ok () ∧ (d'.datas.getD ref default).encoding = dataSlice sz b0) := by
  unfold resolveData at h
  simp only at h
  rcases ite_ok_inv _ _ _ _ h with ⟨hr, h⟩ | ⟨hr, h⟩
  · injection h with h; injection h with h1 _; subst h1
    exact ⟨fun _ _ => rfl, fun h1 h2 => by rw [h1] at h2; cases h2⟩
  · cases hev : resolverEval st d ctx {} e with
    | error m => rw [hev] at h; cases h
    | ok x =>
      obtain ⟨v, c⟩ := x
      rw [hev] at h
      simp only at h
      cases hen : dataEnc (ctx.last || (d.datas.getD ref default).known) v with
      | error m => rw [hen] at h; cases h
      | ok enc =>
        rw [hen] at h
        simp only at h
        cases hck : dataCheck (ctx.last || (d.datas.getD ref default).known) sz enc with
        | error m => rw [hck] at h; cases h
        | ok u =>
          rw [hck] at h
          simp only at h
          unfold dataStore at h
          simp only at h
          cases enc with
          | none =>
            simp only [Option.map_none] at h
            injection h with h; injection h with h1 _; subst h1
            exact ⟨fun _ _ => rfl, fun h1 h2 => by rw [h1] at h2; cases h2⟩
          | some b0 =>
            simp only [Option.map_some] at h
            rcases ite_ok_inv _ _ _ _ h with ⟨hc, h⟩ | ⟨hc, h⟩
            · injection h with h; injection h with h1 _; subst h1
              refine ⟨fun r hne => getD_set_ne _ _ _ _ _ (Ne.symm hne), fun _ h2 => ?_⟩
              simp only [Bool.and_eq_true] at hc
              obtain ⟨⟨⟨c1, c2⟩, c3⟩, _⟩ := hc
              rw [c3, Bool.or_true] at hen hck
              refine ⟨c1, c2, c3, v, c, b0, rfl, hen, hck, ?_⟩
              rcases getD_set_eq_or d.datas ref ref { (d.datas.getD ref default) with encoding := dataSlice sz b0, resolved := true } default with h3 | ⟨_, h3⟩
              · rw [h3] at h2; rw [h2] at hr; exact absurd rfl hr
              · rw [h3]
            · have hd : d' = { d with datas := d.datas.set ref { (d.datas.getD ref default) with encoding := dataSlice sz b0 } } := by
                rcases ite_ok_inv _ _ _ _ h with ⟨_, h⟩ | ⟨_, h⟩ <;>
                · injection h with h; injection h with h1 _; exact h1.symm
              subst hd
              refine ⟨fun r hne => getD_set_ne _ _ _ _ _ (Ne.symm hne), fun h1 h2 => ?_⟩
              exfalso
              rcases getD_set_eq_or d.datas ref ref { (d.datas.getD ref default) with encoding := dataSlice sz b0 } default with h3 | ⟨_, h3⟩
              · simp only at h2; rw [h3, h1] at h2; cases h2
              · simp only at h2; rw [h3] at h2; simp only at h2; rw [h1] at h2; cases h2

theorem resolveLabel_items (st : Static) (d d' : Defs) (ctx : RCtx) (ref : Nat) (s : Bool) (rep : List String)
    (h : resolveLabel st d ctx ref = .ok (d', s, rep)) : d'.instrs = d.instrs ∧ d'.datas = d.datas := by
  unfold resolveLabel at h
  simp only at h
  repeat' (first | (split at h))
  all_goals (cases h <;> exact ⟨rfl, rfl⟩)

theorem resolveConstant_items (st : Static) (d d' : Defs) (ctx : RCtx) (ref : Nat) (e : Expr) (s : Bool) (rep : List String)
    (h : resolveConstant st d ctx ref e = .ok (d', s, rep)) : d'.instrs = d.instrs ∧ d'.datas = d.datas := by
  unfold resolveConstant at h
  simp only at h
  repeat' (first | (split at h))
  all_goals (cases h <;> exact ⟨rfl, rfl⟩)

theorem resolveRes_items (st : Static) (d d' : Defs) (ctx : RCtx) (ref : Nat) (e : Expr) (s : Bool) (rep : List String)
    (h : resolveRes st d ctx ref e = .ok (d', s, rep)) : d'.instrs = d.instrs ∧ d'.datas = d.datas := by
  unfold resolveRes at h
  simp only at h
  repeat' (first | (split at h))
  all_goals (cases h <;> exact ⟨rfl, rfl⟩)

theorem resolveAlign_items (st : Static) (d d' : Defs) (ctx : RCtx) (ref : Nat) (e : Expr) (s : Bool) (rep : List String)
    (h : resolveAlign st d ctx ref e = .ok (d', s, rep)) : d'.instrs = d.instrs ∧ d'.datas = d.datas := by
  unfold resolveAlign at h
  simp only at h
  repeat' (first | (split at h))
  all_goals (cases h <;> exact ⟨rfl, rfl⟩)

theorem resolveAddr_items (st : Static) (d d' : Defs) (ctx : RCtx) (ref : Nat) (e : Expr) (s : Bool) (rep : List String)
    (h : resolveAddr st d ctx ref e = .ok (d', s, rep)) : d'.instrs = d.instrs ∧ d'.datas = d.datas := by
  unfold resolveAddr at h
  simp only at h
  repeat' (first | (split at h))
  all_goals (cases h <;> exact ⟨rfl, rfl⟩)

theorem resolveAssert_items (st : Static) (d d' : Defs) (ctx : RCtx) (e : Expr) (s : Bool) (rep : List String)
    (h : resolveAssert st d ctx e = .ok (d', s, rep)) : d'.instrs = d.instrs ∧ d'.datas = d.datas := by
  rw [resolveAssert_id st d d' ctx e s rep h]; exact ⟨rfl, rfl⟩

theorem resolveInstruction_datas (st : Static) (d d' : Defs) (ctx : RCtx) (ref : Nat) (s : Bool) (rep : List String)
    (h : resolveInstruction st d ctx ref = .ok (d', s, rep)) : d'.datas = d.datas := by
  unfold resolveInstruction at h
  simp only at h
  repeat' (first | (split at h))
  all_goals (cases h <;> rfl)

theorem resolveData_instrs (st : Static) (d d' : Defs) (ctx : RCtx) (ref : Nat) (sz : Option Nat) (e : Expr) (s : Bool) (rep : List String)
    (h : resolveData st d ctx ref sz e = .ok (d', s, rep)) : d'.instrs = d.instrs := by
  unfold resolveData dataStore at h
  simp only at h
  repeat' (first | (split at h))
  all_goals (cases h <;> rfl)

/-- a new mark on an instruction comes from that instruction's own node, through the short-cut -/
theorem dispatch_new_instr_mark (st : Static) (d d' : Defs) (ctx : RCtx) (n : AstNode) (k : Nat) (s : Bool) (rep : List String)
    (h : dispatch st d ctx n k = .ok (d', s, rep)) (ref : Nat)
    (h1 : (d.instrs.getD ref default).resolved = false) (h2 : (d'.instrs.getD ref default).resolved = true) :
    (∃ src, n = .instr src (some ref)) ∧
      st.opts.optStatic = true ∧ ctx.first = true ∧ (d.instrs.getD ref default).known = true ∧
      allDefinite st d ctx ((d.instrs.getD ref default).cands.map (·.m)) = true ∧
      ∃ encs rep0 e, resolveEncoding st d evalFuel ctx ((d.instrs.getD ref default).cands.map (·.m)) {} = .ok (some encs, rep0) ∧
        encs.length = 1 ∧ encs.head? = some e ∧ (d'.instrs.getD ref default).encoding = e.2 := by
  have same : d'.instrs = d.instrs → False := fun he => by rw [he, h1] at h2; cases h2
  unfold dispatch at h
  split at h
  · rename_i level name kind ne r
    cases kind with
    | label => exact absurd (resolveLabel_items st d d' ctx r s rep h).1 same
    | constant e => exact absurd (resolveConstant_items st d d' ctx r e s rep h).1 same
  · rename_i src r
    obtain ⟨f1, f2⟩ := resolveInstruction_freeze st d d' ctx r s rep h
    by_cases hr : ref = r
    · subst hr
      exact ⟨⟨src, rfl⟩, f2 h1 h2⟩
    · rw [f1 ref hr, h1] at h2; cases h2
  · exact absurd (resolveData_instrs st d d' ctx _ _ _ s rep h) same
  · exact absurd (resolveRes_items st d d' ctx _ _ s rep h).1 same
  · exact absurd (resolveAlign_items st d d' ctx _ _ s rep h).1 same
  · exact absurd (resolveAddr_items st d d' ctx _ _ s rep h).1 same
  · exact absurd (resolveAssert_items st d d' ctx _ s rep h).1 same
  · injection h with h; injection h with h1' _; subst h1'; rw [h1] at h2; cases h2

theorem dispatch_new_data_mark (st : Static) (d d' : Defs) (ctx : RCtx) (n : AstNode) (k : Nat) (s : Bool) (rep : List String)
    (h : dispatch st d ctx n k = .ok (d', s, rep)) (ref : Nat)
    (h1 : (d.datas.getD ref default).resolved = false) (h2 : (d'.datas.getD ref default).resolved = true) :
    ∃ sz es refs, n = .data sz es refs ∧ refs.getD k 0 = ref ∧
      st.opts.optStatic = true ∧ ctx.first = true ∧ (d.datas.getD ref default).known = true ∧
      ∃ v c b0, resolverEval st d ctx {} (es.getD k default) = .ok (v, c) ∧ dataEnc true v = .ok (some b0) ∧
        dataCheck true sz (some b0) = .ok () ∧ (d'.datas.getD ref default).encoding = dataSlice sz b0 := by
  have same : d'.datas = d.datas → False := fun he => by rw [he, h1] at h2; cases h2
  unfold dispatch at h
  split at h
  · rename_i level name kind ne r
    cases kind with
    | label => exact absurd (resolveLabel_items st d d' ctx r s rep h).2 same
    | constant e => exact absurd (resolveConstant_items st d d' ctx r e s rep h).2 same
  · exact absurd (resolveInstruction_datas st d d' ctx _ s rep h) same
  · rename_i sz es refs
    obtain ⟨f1, f2⟩ := resolveData_freeze st d d' ctx (refs.getD k 0) sz (es.getD k default) s rep h
    by_cases hr : ref = refs.getD k 0
    · subst hr
      exact ⟨sz, es, refs, rfl, rfl, f2 h1 h2⟩
    · rw [f1 ref hr, h1] at h2; cases h2
  · exact absurd (resolveRes_items st d d' ctx _ _ s rep h).2 same
  · exact absurd (resolveAlign_items st d d' ctx _ _ s rep h).2 same
  · exact absurd (resolveAddr_items st d d' ctx _ _ s rep h).2 same
  · exact absurd (resolveAssert_items st d d' ctx _ s rep h).2 same
  · injection h with h; injection h with h1' _; subst h1'; rw [h1] at h2; cases h2

end Casm
