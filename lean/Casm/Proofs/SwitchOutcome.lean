import Casm.Proofs.Corner
import Casm.Proofs.SwitchAsm
import Casm.Proofs.FrontInv
import Casm.Proofs.FrontUniq
/-!
# Casm.Proofs.SwitchOutcome — `assemble` under the two settings: the same outcome

`frontUniqb` decides what `Corner` needs of the front end's result (distinct references, symbol
slots present, no label valued yet); with it, `FrontRel` and `frontOKSb` the two assemblers fail with
the same messages or succeed with the same bits, spans and symbols, for every budget of at least two.
-/
namespace Casm

theorem mem_positions_length (nodes : List AstNode) (i : Nat) (n : AstNode) (h : (i, n) ∈ positions nodes) : nodes[i]? = some n := by
  unfold positions at h
  rw [List.mem_filterMap] at h
  obtain ⟨j, _, hj⟩ := h
  cases hn : nodes[j]? with
  | none => rw [hn] at hj; cases hj
  | some x =>
    rw [hn] at hj
    simp only [Option.map_some, Option.some.injEq, Prod.mk.injEq] at hj
    obtain ⟨h1, h2⟩ := hj
    subst h1; subst h2; exact hn

theorem frontUniqb_sound (nodes : List AstNode) (d0 : Defs) (h : frontUniqb nodes d0 = true) :
    Uniq nodes ∧ NodesOK d0 nodes := by
  unfold frontUniqb at h
  simp only at h
  have pos : ∀ pre n post, nodes = pre ++ n :: post →
      (match n with
      | .instr _ (some ref) =>
        (positions nodes).all fun q => match q.2 with
          | .instr _ (some ref') => ref' != ref || q.1 == pre.length
          | _ => true
      | .data _ es refs =>
        (List.range es.length).all fun k =>
          (positions nodes).all fun q => match q.2 with
            | .data _ es' refs' => (List.range es'.length).all fun k' => refs'.getD k' 0 != refs.getD k 0 || (q.1 == pre.length && k' == k)
            | _ => true
      | .symbol _ _ .label _ (some r) =>
        (decide (d0.symbols.length ≤ r) || (d0.symbols.getD r none).isSome) && (match (d0.sym r).value with | .int x => x.size.isNone | _ => true)
      | .symbol _ _ (.constant _) _ (some r) => (decide (d0.symbols.length ≤ r) || (d0.symbols.getD r none).isSome)
      | _ => true) = true := by
    intro pre n post hs
    obtain ⟨hm, _⟩ := positions_of_split nodes pre n post hs
    exact List.all_eq_true.mp h _ hm
  have symOK : ∀ r, (decide (d0.symbols.length ≤ r) || (d0.symbols.getD r none).isSome) = true → SymOK d0 r := by
    intro r hr
    simp only [Bool.or_eq_true, decide_eq_true_eq] at hr
    rcases hr with hr | hr
    · exact Or.inl hr
    · right
      cases hx : d0.symbols.getD r none with
      | none => rw [hx] at hr; cases hr
      | some s => exact ⟨s, rfl⟩
  refine ⟨⟨?_, ?_, ?_⟩, ?_⟩
  · intro pre src ref post hs src' hm
    obtain ⟨p1, p2, hp⟩ := List.append_of_mem hm
    have hs' : nodes = (pre ++ .instr src (some ref) :: p1) ++ .instr src' (some ref) :: p2 := by
      rw [hs, hp]; simp
    have hp0 := pos pre _ post hs
    obtain ⟨hq, _⟩ := positions_of_split nodes _ _ p2 hs'
    have := List.all_eq_true.mp hp0 _ hq
    simp only [bne_self_eq_false, Bool.false_or, beq_iff_eq, List.length_append, List.length_cons] at this
    omega
  · intro sz es refs hm k1 k2 hk1 hk2 heq
    obtain ⟨pre, post, hs⟩ := List.append_of_mem hm
    have hp0 := pos pre _ post hs
    have h1 := List.all_eq_true.mp hp0 k2 (List.mem_range.mpr hk2)
    obtain ⟨hq, _⟩ := positions_of_split nodes pre _ post hs
    have h2 := List.all_eq_true.mp h1 _ hq
    simp only at h2
    have h3 := List.all_eq_true.mp h2 k1 (List.mem_range.mpr hk1)
    simp only [heq, bne_self_eq_false, Bool.false_or, Bool.and_eq_true, beq_iff_eq] at h3
    exact h3.2
  · intro pre sz es refs post hs sz' es' refs' hm k k' hk hk' heq
    obtain ⟨p1, p2, hp⟩ := List.append_of_mem hm
    have hs' : nodes = (pre ++ .data sz es refs :: p1) ++ .data sz' es' refs' :: p2 := by
      rw [hs, hp]; simp
    have hp0 := pos pre _ post hs
    have h1 := List.all_eq_true.mp hp0 k (List.mem_range.mpr hk)
    obtain ⟨hq, _⟩ := positions_of_split nodes _ _ p2 hs'
    have h2 := List.all_eq_true.mp h1 _ hq
    simp only at h2
    have h3 := List.all_eq_true.mp h2 k' (List.mem_range.mpr hk')
    simp only [← heq, bne_self_eq_false, Bool.false_or, Bool.and_eq_true, beq_iff_eq, List.length_append, List.length_cons] at h3
    omega
  · intro n hn
    obtain ⟨pre, post, hs⟩ := List.append_of_mem hn
    have hp0 := pos pre n post hs
    unfold NodeOK
    split
    · rename_i r
      simp only [Bool.and_eq_true] at hp0
      refine ⟨symOK r hp0.1, fun x hx => ?_⟩
      have := hp0.2
      rw [hx] at this
      simpa using this
    · rename_i r
      exact symOK r hp0
    · trivial

/-- what `assemble` returns, without the iteration count -/
def AsmOk.core (o : AsmOk) : List Bool × List OSpan × List (String × BI) := (o.bits, o.spans, o.symbols)

/-- **C08 (static switch), end to end**: for every budget of at least two the two assemblers fail with
    the same messages, or succeed with the same bits, spans and symbols.  Hypotheses: three decidable
    statements about the input (`FrontRel`, `frontOKSb`, `frontUniqb`), evaluated by every
    correspondence run on every program. -/
theorem assemble_switch_outcome (opts : Opts) (fs : SrcFiles) (roots : List (List Char))
    (ho : opts.optStatic = true) (hmax : 2 ≤ opts.maxIter) (hrel : FrontRel opts fs roots)
    (hS : ∀ st nodes d0, frontEnd opts fs roots = .ok (st, nodes, d0) → frontOKSb st nodes d0 = true ∧ frontUniqb nodes d0 = true) :
    (assemble opts.staticOff fs roots).map AsmOk.core = (assemble opts fs roots).map AsmOk.core := by
  unfold assemble
  unfold FrontRel at hrel
  cases hf : frontEnd opts fs roots with
  | error e => rw [hf] at hrel; simp only [Except.map] at hrel; rw [hrel]
  | ok x =>
    obtain ⟨st, nodes, d0⟩ := x
    rw [hf] at hrel
    simp only [Except.map] at hrel
    rw [hrel]
    simp only
    have hso : st.opts = opts := by
      unfold frontEnd at hf
      split at hf
      · cases hf
      · split at hf
        split at hf
        · cases hf
        · injection hf with hf; injection hf with h1 _; rw [← h1]
    have hos : st.opts.optStatic = true := by rw [hso]; exact ho
    have f := frontEnd_frontOK opts ho fs roots st nodes d0 hf
    have fsS := frontOKSb_sound st nodes d0 (hS st nodes d0 hf).1
    obtain ⟨u, hok0⟩ := frontUniqb_sound nodes d0 (hS st nodes d0 hf).2
    have hwf := frontEnd_noClash opts fs roots st nodes d0 hf
    obtain ⟨m, hm⟩ : ∃ m, st.opts.maxIter = m + 2 := ⟨st.opts.maxIter - 2, by rw [hso]; omega⟩
    unfold resolveIteratively
    have hmo : (st.withStatic false).opts.maxIter = st.opts.maxIter := rfl
    rw [hmo, hm]
    have key := resolveIterativelyN_switch_outcome (markedByBoth st d0) st nodes d0 f fsS hos hwf u hok0 m
    have hd : (st.withStatic false).decls = st.decls := rfl
    have hu : checkUnusedDefines opts.staticOff st.decls = checkUnusedDefines opts st.decls := rfl
    cases hon : resolveIterativelyN st nodes (m + 2) d0 with
    | error e =>
      rw [hon] at key
      cases hoff : resolveIterativelyN (st.withStatic false) nodes (m + 2) (d0.unfS (markedByBoth st d0)) with
      | error e' =>
        rw [hoff] at key
        simp only [Except.map] at key ⊢
        injection key with key
        rw [key]
      | ok y => rw [hoff] at key; simp [Except.map] at key
    | ok x =>
      obtain ⟨iters, d, rep⟩ := x
      rw [hon] at key
      cases hoff : resolveIterativelyN (st.withStatic false) nodes (m + 2) (d0.unfS (markedByBoth st d0)) with
      | error e' => rw [hoff] at key; simp [Except.map] at key
      | ok y =>
        obtain ⟨iters', d', rep'⟩ := y
        rw [hoff] at key
        simp only [Except.map, Except.ok.injEq, dropK, usFin] at key
        obtain ⟨h1, h2⟩ := Prod.mk.inj key
        subst h1; subst h2
        dsimp only
        have hb : (d.unfS (markedByBoth st d0)).banks = d.banks := rfl
        rw [hb, hd, hu, outputItems_us, symbolListing_us]
        split
        · rfl
        · split
          · rfl
          · split
            · rfl
            · cases buildLoop d.banks ⟨initIter d.banks, fillBanks d.banks [], [], []⟩ (outputItems st d nodes) with
              | error e => rfl
              | ok bst => rfl

/-- **C08 (static switch), end to end, with the facts about the front end's result proved**: the only
    hypothesis left is `FrontRel` (the two front ends agree up to marks). -/
theorem assemble_switch_outcome' (opts : Opts) (fs : SrcFiles) (roots : List (List Char))
    (ho : opts.optStatic = true) (hmax : 2 ≤ opts.maxIter) (hrel : FrontRel opts fs roots) :
    (assemble opts.staticOff fs roots).map AsmOk.core = (assemble opts fs roots).map AsmOk.core := by
  unfold assemble
  unfold FrontRel at hrel
  cases hf : frontEnd opts fs roots with
  | error e => rw [hf] at hrel; simp only [Except.map] at hrel; rw [hrel]
  | ok x =>
    obtain ⟨st, nodes, d0⟩ := x
    rw [hf] at hrel
    simp only [Except.map] at hrel
    rw [hrel]
    simp only
    have hso : st.opts = opts := by
      unfold frontEnd at hf
      split at hf
      · cases hf
      · split at hf
        split at hf
        · cases hf
        · injection hf with hf; injection hf with h1 _; rw [← h1]
    have hos : st.opts.optStatic = true := by rw [hso]; exact ho
    have f := frontEnd_frontOK opts ho fs roots st nodes d0 hf
    have fsS := frontEnd_frontOKS opts fs roots st nodes d0 hf
    have u := frontEnd_uniq opts fs roots st nodes d0 hf
    have hok0 := frontEnd_nodesOK opts fs roots st nodes d0 hf
    have hwf := frontEnd_noClash opts fs roots st nodes d0 hf
    obtain ⟨m, hm⟩ : ∃ m, st.opts.maxIter = m + 2 := ⟨st.opts.maxIter - 2, by rw [hso]; omega⟩
    unfold resolveIteratively
    have hmo : (st.withStatic false).opts.maxIter = st.opts.maxIter := rfl
    rw [hmo, hm]
    have key := resolveIterativelyN_switch_outcome (markedByBoth st d0) st nodes d0 f fsS hos hwf u hok0 m
    have hd : (st.withStatic false).decls = st.decls := rfl
    have hu : checkUnusedDefines opts.staticOff st.decls = checkUnusedDefines opts st.decls := rfl
    cases hon : resolveIterativelyN st nodes (m + 2) d0 with
    | error e =>
      rw [hon] at key
      cases hoff : resolveIterativelyN (st.withStatic false) nodes (m + 2) (d0.unfS (markedByBoth st d0)) with
      | error e' =>
        rw [hoff] at key
        simp only [Except.map] at key ⊢
        injection key with key
        rw [key]
      | ok y => rw [hoff] at key; simp [Except.map] at key
    | ok x =>
      obtain ⟨iters, d, rep⟩ := x
      rw [hon] at key
      cases hoff : resolveIterativelyN (st.withStatic false) nodes (m + 2) (d0.unfS (markedByBoth st d0)) with
      | error e' => rw [hoff] at key; simp [Except.map] at key
      | ok y =>
        obtain ⟨iters', d', rep'⟩ := y
        rw [hoff] at key
        simp only [Except.map, Except.ok.injEq, dropK, usFin] at key
        obtain ⟨h1, h2⟩ := Prod.mk.inj key
        subst h1; subst h2
        dsimp only
        have hb : (d.unfS (markedByBoth st d0)).banks = d.banks := rfl
        rw [hb, hd, hu, outputItems_us, symbolListing_us]
        split
        · rfl
        · split
          · rfl
          · split
            · rfl
            · cases buildLoop d.banks ⟨initIter d.banks, fillBanks d.banks [], [], []⟩ (outputItems st d nodes) with
              | error e => rfl
              | ok bst => rfl


end Casm
