import Casm.Proofs.StableId
import Casm.Proofs.EvalMono
/-!
# Casm.Proofs.ModeMono — where the strict mode succeeds, the guessing mode computes the same

`guessOf c` is the context `c` with guessing allowed (`last := false`).  Everything the
resolver computes in the strict context and returns as `ok` it also returns in the guessing
context: guessing only turns errors into `Unknown` values, and the strict-only checks only add
errors.
-/
namespace Casm

/-- the same position and flags, but guessing allowed -/
def guessOf (c : RCtx) : RCtx := { c with last := false }

theorem guessOf_canGuess (c : RCtx) : (guessOf c).canGuess = true := rfl

theorem evalAddress_mono (defs : Defs) (c : RCtx) (g : Bool) (a : Int) (h : evalAddress defs c g = .ok a) :
    evalAddress defs (guessOf c) true = .ok a := by
  unfold evalAddress at h ⊢
  simp only [guessOf] at *
  split at h
  · cases h
  · injection h with h; subst h
    simp

theorem evalVariable_mono (st : Static) (defs : Defs) (c : RCtx) (level : Nat) (path : List String) (v : Value)
    (h : evalVariable st defs c level path = .ok v) : evalVariable st defs (guessOf c) level path = .ok v := by
  -- the part after the builtin test
  have tail : ∀ (c' : RCtx), c'.symCtx = c.symCtx →
      (match st.decls.symbols.getByName c.symCtx level path with
        | .error e => .error e
        | .ok r =>
          match (defs.sym r).value with
          | .unknown => if !c.canGuess then .error s!"unresolved symbol `{displayName level path}`" else .ok (defs.sym r).value
          | _ => .ok (defs.sym r).value) = Except.ok v →
      (match st.decls.symbols.getByName c'.symCtx level path with
        | .error e => .error e
        | .ok r =>
          match (defs.sym r).value with
          | .unknown => if !true then .error s!"unresolved symbol `{displayName level path}`" else .ok (defs.sym r).value
          | _ => .ok (defs.sym r).value) = Except.ok v := by
    intro c' hc hh
    rw [hc]
    cases hg : st.decls.symbols.getByName c.symCtx level path with
    | error e => rw [hg] at hh; cases hh
    | ok r =>
      rw [hg] at hh
      simp only at hh ⊢
      cases hv : (defs.sym r).value with
      | unknown =>
        rw [hv] at hh
        simp only at hh ⊢
        split at hh
        · cases hh
        · simpa using hh
      | _ => rw [hv] at hh; simpa using hh
  unfold evalVariable at h ⊢
  by_cases hl : (level == 0) = true
  · cases path with
    | nil =>
      simp only [hl, if_true] at h ⊢
      exact tail (guessOf c) rfl h
    | cons n rest =>
      cases rest with
      | cons m rest' =>
        simp only [hl, if_true] at h ⊢
        exact tail (guessOf c) rfl h
      | nil =>
        by_cases hd : (n == "$" || n == "pc") = true
        · simp only [hl, hd, if_true] at h ⊢
          cases ha : evalAddress defs c c.canGuess with
          | error e => rw [ha] at h; cases h
          | ok a =>
            rw [ha] at h
            rw [guessOf_canGuess, evalAddress_mono defs c _ a ha]
            exact h
        · by_cases hb : isAsmBuiltinName n = true
          · simp only [hl, hd, hb, if_true, Bool.false_eq_true, if_false] at h ⊢
            exact h
          · simp only [hl, hd, hb, if_true, Bool.false_eq_true, if_false] at h ⊢
            exact tail (guessOf c) rfl h
  · simp only [hl, Bool.false_eq_true, if_false] at h ⊢
    exact tail (guessOf c) rfl h

theorem guessOf_with (c : RCtx) (a b : Bool) : ({ guessOf c with first := a, last := b } : RCtx) = { c with first := a, last := b } := rfl
theorem guessOf_cur (c : RCtx) : (guessOf c).cur = c.cur := rfl
theorem guessOf_symCtx (c : RCtx) : (guessOf c).symCtx = c.symCtx := rfl
theorem guessOf_bank (c : RCtx) : (guessOf c).bank = c.bank := rfl
theorem guessOf_first (c : RCtx) : (guessOf c).first = c.first := rfl

/-- what a pass chooses, a guessing pass chooses too (and reports nothing) -/
theorem chooseEncoding_guess' (g : Bool) (rs : List Resolution) (encs : List (Nat × BI)) (rep : List String)
    (h : chooseEncoding g rs = (some encs, rep)) : chooseEncoding true rs = (some encs, []) := by
  unfold chooseEncoding at h ⊢
  simp only at h ⊢
  split at h
  · split at h <;> (injection h with h1 _; cases h1)
  · rename_i hne
    simp only [hne, if_false]
    split at h
    · injection h with h1 _; cases h1
    · injection h with h1 _
      simp only [Bool.not_true, Bool.false_and, Bool.false_eq_true, if_false]
      injection h1 with h1
      rw [h1]

/-- the statements proved together, level by level of the fuel -/
structure MonoFam (st : Static) (defs : Defs) (f : Nat) : Prop where
  env : ∀ c, EnvLe (mkEnv st defs f c) (mkEnv st defs f (guessOf c))
  mtch : ∀ c m argCtx r, resolveMatch st defs f c m argCtx = .ok r → resolveMatch st defs f (guessOf c) m argCtx = .ok r
  args : ∀ c rule args i argCtx ruleCtx r, resolveArgs st defs f c rule args i argCtx ruleCtx = .ok r →
        resolveArgs st defs f (guessOf c) rule args i argCtx ruleCtx = .ok r
  mtchs : ∀ c ms argCtx acc r, resolveMatches st defs f c ms argCtx acc = .ok r →
        resolveMatches st defs f (guessOf c) ms argCtx acc = .ok r
  renc : ∀ c ms argCtx encs rep, resolveEncoding st defs f c ms argCtx = .ok (some encs, rep) →
        resolveEncoding st defs f (guessOf c) ms argCtx = .ok (some encs, [])
  once : ∀ c nodes ectx labels cur result unstable r, asmOnce st defs f c nodes ectx labels cur result unstable = .ok r →
        asmOnce st defs f (guessOf c) nodes ectx labels cur result unstable = .ok r
  iter : ∀ c nodes ectx labels budget it v, asmIterate st defs f c nodes ectx labels budget it = .ok v →
        asmIterate st defs f (guessOf c) nodes ectx labels budget it = .ok v
  asm : ∀ c text ectx v, evalAsm st defs f c text ectx = .ok v → evalAsm st defs f (guessOf c) text ectx = .ok v

theorem monoFam_zero (st : Static) (defs : Defs) : MonoFam st defs 0 := by
  refine ⟨?_, ?_, ?_, ?_, ?_, ?_, ?_, ?_⟩
  · intro c
    refine ⟨?_, ?_, ?_⟩
    · intro l p v h; simp only [mkEnv] at h ⊢; exact evalVariable_mono st defs c l p v h
    · intro f a cx v h; simp [mkEnv] at h
    · intro t cx v h; simp [mkEnv] at h
  · intro c m argCtx r h; simp [resolveMatch] at h
  · intro c rule args i argCtx ruleCtx r h; simp [resolveArgs] at h
  · intro c ms argCtx acc r h; simp [resolveMatches] at h
  · intro c ms argCtx encs rep h; simp [resolveEncoding] at h
  · intro c nodes ectx labels cur result unstable r h; simp [asmOnce] at h
  · intro c nodes ectx labels budget it v h; simp [asmIterate] at h
  · intro c text ectx v h; simp [evalAsm] at h

theorem monoFam_env (st : Static) (defs : Defs) (f : Nat) (ih : MonoFam st defs f) :
    ∀ c, EnvLe (mkEnv st defs (f + 1) c) (mkEnv st defs (f + 1) (guessOf c)) := by
  intro c
  refine ⟨?_, ?_, ?_⟩
  · intro l p v h; simp only [mkEnv] at h ⊢; exact evalVariable_mono st defs c l p v h
  · intro fv a cx v h
    simp only [mkEnv] at h ⊢
    cases fv with
    | fn idx =>
      simp only at h ⊢
      split at h
      · cases h
      · rename_i hd
        simp only [hd, if_false]
        split at h
        · cases h
        · rename_i ha
          simp only [ha, if_false]
          cases he : eval (mkEnv st defs f c) _ (defs.fns.getD idx default).body with
          | error e => rw [he] at h; cases h
          | ok r =>
            rw [he] at h
            rw [eval_mono _ _ (ih.env c) _ _ r he]
            exact h
    | _ => exact h
  · intro t cx v h
    simp only [mkEnv] at h ⊢
    exact ih.asm c t cx v h

theorem monoFam_mtch (st : Static) (defs : Defs) (f : Nat) (ih : MonoFam st defs f) :
    ∀ c m argCtx r, resolveMatch st defs (f + 1) c m argCtx = .ok r → resolveMatch st defs (f + 1) (guessOf c) m argCtx = .ok r := by
  intro c m argCtx r h
  simp only [resolveMatch] at h ⊢
  cases ha : resolveArgs st defs f c ((defs.ruledefs.getD m.ruledef default).rules.getD m.rule default) m.args 0 argCtx argCtx.deepened with
  | error e => rw [ha] at h; cases h
  | ok x =>
    rw [ha] at h
    rw [ih.args _ _ _ _ _ _ _ ha]
    obtain ⟨sv, ac⟩ := x
    cases sv with
    | inl v => exact h
    | inr ruleCtx =>
      simp only at h ⊢
      cases he : eval (mkEnv st defs f c) ruleCtx ((defs.ruledefs.getD m.ruledef default).rules.getD m.rule default).expr with
      | error e => rw [he] at h; cases h
      | ok y =>
        rw [he] at h
        rw [eval_mono _ _ (ih.env c) _ _ y he]
        exact h

theorem monoFam_args (st : Static) (defs : Defs) (f : Nat) (ih : MonoFam st defs f) :
    ∀ c rule args i argCtx ruleCtx r, resolveArgs st defs (f + 1) c rule args i argCtx ruleCtx = .ok r →
        resolveArgs st defs (f + 1) (guessOf c) rule args i argCtx ruleCtx = .ok r := by
  intro c rule args i argCtx ruleCtx r h
  cases args with
  | nil => simp only [resolveArgs] at h ⊢; exact h
  | cons a rest =>
    cases a with
    | expr e s1 s2 ex =>
      simp only [resolveArgs] at h ⊢
      cases he : eval (mkEnv st defs f c) argCtx e with
      | error m => rw [he] at h; cases h
      | ok y =>
        obtain ⟨v, ac⟩ := y
        rw [he] at h
        rw [eval_mono _ _ (ih.env c) _ _ _ he]
        simp only at h ⊢
        split at h
        · rename_i hp; simp only [hp, if_true]; exact h
        · rename_i hp
          simp only [hp, if_false]
          split at h
          · cases h
          · rename_i cv hcv
            split at h
            · rename_i hp2; simp only [hp2, if_true]; exact h
            · rename_i hp2
              simp only [hp2, if_false]
              exact ih.args _ _ _ _ _ _ _ h
    | nested nm s1 s2 ex =>
      simp only [resolveArgs] at h ⊢
      cases hm : resolveMatch st defs f c nm argCtx with
      | error m => rw [hm] at h; cases h
      | ok y =>
        obtain ⟨v, ac⟩ := y
        rw [hm] at h
        rw [ih.mtch _ _ _ _ hm]
        simp only at h ⊢
        split at h
        · rename_i hp; simp only [hp, if_true]; exact h
        · rename_i hp
          simp only [hp, if_false]
          exact ih.args _ _ _ _ _ _ _ h

theorem monoFam_mtchs (st : Static) (defs : Defs) (f : Nat) (ih : MonoFam st defs f) :
    ∀ c ms argCtx acc r, resolveMatches st defs (f + 1) c ms argCtx acc = .ok r →
        resolveMatches st defs (f + 1) (guessOf c) ms argCtx acc = .ok r := by
  intro c ms argCtx acc r h
  cases ms with
  | nil => simp only [resolveMatches] at h ⊢; exact h
  | cons m rest =>
    simp only [resolveMatches] at h ⊢
    cases hm : resolveMatch st defs f c m argCtx with
    | error e => rw [hm] at h; cases h
    | ok y =>
      obtain ⟨v, ac⟩ := y
      rw [hm] at h
      rw [ih.mtch _ _ _ _ hm]
      simp only at h ⊢
      split at h
      · cases h
      · rename_i rr hrr
        exact ih.mtchs _ _ _ _ _ h

theorem monoFam_renc (st : Static) (defs : Defs) (f : Nat) (ih : MonoFam st defs f) :
    ∀ c ms argCtx encs rep, resolveEncoding st defs (f + 1) c ms argCtx = .ok (some encs, rep) →
        resolveEncoding st defs (f + 1) (guessOf c) ms argCtx = .ok (some encs, []) := by
  intro c ms argCtx encs rep h
  simp only [resolveEncoding] at h ⊢
  cases hm : resolveMatches st defs f c ms argCtx [] with
  | error e => rw [hm] at h; cases h
  | ok x =>
    obtain ⟨rs, cx⟩ := x
    rw [hm] at h
    rw [ih.mtchs _ _ _ _ _ hm]
    simp only at h ⊢
    injection h with h
    rw [guessOf_canGuess, chooseEncoding_guess' _ rs encs rep h]

theorem monoFam_once (st : Static) (defs : Defs) (f : Nat) (ih : MonoFam st defs f) :
    ∀ c nodes ectx labels cur result unstable r, asmOnce st defs (f + 1) c nodes ectx labels cur result unstable = .ok r →
        asmOnce st defs (f + 1) (guessOf c) nodes ectx labels cur result unstable = .ok r := by
  intro c nodes ectx labels cur result unstable r h
  cases nodes with
  | nil => simp only [asmOnce] at h ⊢; exact h
  | cons node rest =>
    cases node with
    | symbol lv name kind ne ref =>
      simp only [asmOnce] at h ⊢
      have hcx : ({ guessOf c with cur := cur } : RCtx) = guessOf { c with cur := cur } := rfl
      cases ha : evalAddress defs { c with cur := cur } ({ c with cur := cur } : RCtx).canGuess with
      | error e => rw [ha] at h; cases h
      | ok a =>
        rw [ha] at h
        rw [hcx, guessOf_canGuess, evalAddress_mono defs _ _ a ha]
        simp only at h ⊢
        exact ih.once _ _ _ _ _ _ _ _ h
    | instr src ref =>
      simp only [asmOnce] at h ⊢
      cases hs : parseSubsts (src.length + 1) src 0 [] with
      | error e => rw [hs] at h; cases h
      | ok substs =>
        rw [hs] at h
        simp only at h ⊢
        cases hp : performSubsts src substs ectx with
        | error e => rw [hp] at h; cases h
        | ok excerpt =>
          rw [hp] at h
          simp only at h ⊢
          split at h
          · cases h
          · rename_i hne
            simp only [hne, if_false]
            have hcx : ({ guessOf c with cur := cur } : RCtx) = guessOf { c with cur := cur } := rfl
            rw [hcx]
            cases he : resolveEncoding st defs f { c with cur := cur } (matchInstr st.opts.optMatcher defs.ruledefs excerpt)
                (labels.foldl (fun c p => c.setLocal p.1 p.2) (hygienize ectx)) with
            | error e => rw [he] at h; cases h
            | ok x =>
              obtain ⟨encs, rep⟩ := x
              rw [he] at h
              cases encs with
              | some l =>
                rw [ih.renc _ _ _ _ _ he]
                simp only at h ⊢
                exact ih.once _ _ _ _ _ _ _ _ h
              | none =>
                simp only at h
                by_cases hl : c.last = true
                · have : ({ c with cur := cur } : RCtx).canGuess = false := by simp [RCtx.canGuess, hl]
                  rw [this] at h
                  simp at h
                · have hl' : c.last = false := by simpa using hl
                  have hg : guessOf ({ c with cur := cur } : RCtx) = { c with cur := cur } := by
                    cases c; simp only [guessOf] at hl' ⊢; rw [hl']
                  rw [hg, he]
                  have hgc : guessOf c = c := by
                    cases c; simp only [guessOf] at hl' ⊢; rw [hl']
                  rw [hgc]
                  exact h
    | _ => simp only [asmOnce] at h ⊢; exact h

theorem monoFam_iter (st : Static) (defs : Defs) (f : Nat) (ih : MonoFam st defs f) :
    ∀ c nodes ectx labels budget it v, asmIterate st defs (f + 1) c nodes ectx labels budget it = .ok v →
        asmIterate st defs (f + 1) (guessOf c) nodes ectx labels budget it = .ok v := by
  intro c nodes ectx labels budget iter v h
  have fin : ∀ (lb : List (String × Value)),
      (match asmOnce st defs f { c with first := false, last := c.last } nodes ectx lb c.cur ⟨0, some 0⟩ false with
        | .error e => (Except.error e : Except String Value)
        | .ok (v, unstable, _) => if !unstable then .ok v else if c.canGuess then .ok .unknown else .error "`asm` block did not converge") = .ok v →
      (match asmOnce st defs f (guessOf { c with first := false, last := c.last }) nodes ectx lb c.cur ⟨0, some 0⟩ false with
        | .error e => (Except.error e : Except String Value)
        | .ok (v, unstable, _) => if !unstable then .ok v else if (guessOf c).canGuess then .ok .unknown else .error "`asm` block did not converge") = .ok v := by
    intro lb hh
    cases ho : asmOnce st defs f { c with first := false, last := c.last } nodes ectx lb c.cur ⟨0, some 0⟩ false with
    | error e => rw [ho] at hh; cases hh
    | ok x =>
      obtain ⟨v', unstable, lbs⟩ := x
      rw [ho] at hh
      rw [ih.once _ _ _ _ _ _ _ _ ho]
      simp only at hh ⊢
      cases unstable with
      | false => simpa using hh
      | true =>
        simp only [Bool.not_true, Bool.false_eq_true, if_false, guessOf_canGuess, if_true] at hh ⊢
        split at hh
        · exact hh
        · cases hh
  simp only [asmIterate, guessOf_cur, guessOf_symCtx, guessOf_bank] at h ⊢
  split at h
  · rename_i hgt
    simp only [hgt, if_true]
    exact fin labels h
  · rename_i hgt
    simp only [hgt, if_false]
    cases ho : asmOnce st defs f { c with first := iter == 1, last := c.last && iter == budget } nodes ectx labels c.cur ⟨0, some 0⟩ false with
    | error e => rw [ho] at h; cases h
    | ok x =>
      obtain ⟨v', unstable, lbs⟩ := x
      rw [ho] at h
      have ho' : asmOnce st defs f { first := iter == 1, last := (guessOf c).last && iter == budget, symCtx := c.symCtx, bank := c.bank, cur := c.cur }
          nodes ectx labels c.cur ⟨0, some 0⟩ false = .ok (v', unstable, lbs) := ih.once _ _ _ _ _ _ _ _ ho
      rw [ho']
      simp only at h ⊢
      cases unstable with
      | false =>
        simp only [Bool.not_false, if_true] at h ⊢
        exact fin lbs h
      | true =>
        simp only [Bool.not_true, Bool.false_eq_true, if_false] at h ⊢
        exact ih.iter c nodes ectx lbs budget (iter + 1) v h

theorem monoFam_asm (st : Static) (defs : Defs) (f : Nat) (ih : MonoFam st defs f) :
    ∀ c text ectx v, evalAsm st defs (f + 1) c text ectx = .ok v → evalAsm st defs (f + 1) (guessOf c) text ectx = .ok v := by
  intro c text ectx v h
  simp only [evalAsm] at h ⊢
  split at h
  · cases h
  · rename_i hd
    simp only [hd, if_false]
    split at h
    · cases h
    · rename_i nodes s hp
      generalize List.foldl _ (Except.ok ([] : List (String × Value))) nodes = chk at h ⊢
      cases chk with
      | error e => cases h
      | ok labels => exact ih.iter c nodes ectx labels _ 1 v h

theorem monoFam (st : Static) (defs : Defs) : ∀ f, MonoFam st defs f := by
  intro f
  induction f with
  | zero => exact monoFam_zero st defs
  | succ f ih =>
    exact ⟨monoFam_env st defs f ih, monoFam_mtch st defs f ih, monoFam_args st defs f ih, monoFam_mtchs st defs f ih,
      monoFam_renc st defs f ih, monoFam_once st defs f ih, monoFam_iter st defs f ih, monoFam_asm st defs f ih⟩

/-- **the resolver's environment in strict mode is below the one in guessing mode** -/
theorem mkEnv_le (st : Static) (defs : Defs) (fuel : Nat) (c : RCtx) :
    EnvLe (mkEnv st defs fuel c) (mkEnv st defs fuel (guessOf c)) := (monoFam st defs fuel).env c

theorem evalAsm_mono (st : Static) (defs : Defs) (fuel : Nat) (c : RCtx) (text : List Char) (ectx : ECtx) (v : Value)
    (h : evalAsm st defs fuel c text ectx = .ok v) : evalAsm st defs fuel (guessOf c) text ectx = .ok v :=
  (monoFam st defs fuel).asm c text ectx v h

theorem resolverEval_mono (st : Static) (defs : Defs) (c : RCtx) (ectx : ECtx) (e : Expr) (r : Value × ECtx)
    (h : resolverEval st defs c ectx e = .ok r) : resolverEval st defs (guessOf c) ectx e = .ok r := by
  unfold resolverEval at h ⊢
  exact eval_mono _ _ (mkEnv_le st defs evalFuel c) ectx e r h

/-- the three mutually recursive candidate resolvers, together -/
theorem resolveMatch_family_mono (st : Static) (defs : Defs) :
    ∀ (fuel : Nat),
      (∀ c m argCtx r, resolveMatch st defs fuel c m argCtx = .ok r → resolveMatch st defs fuel (guessOf c) m argCtx = .ok r) ∧
      (∀ c rule args i argCtx ruleCtx r, resolveArgs st defs fuel c rule args i argCtx ruleCtx = .ok r →
        resolveArgs st defs fuel (guessOf c) rule args i argCtx ruleCtx = .ok r) ∧
      (∀ c ms argCtx acc r, resolveMatches st defs fuel c ms argCtx acc = .ok r →
        resolveMatches st defs fuel (guessOf c) ms argCtx acc = .ok r) :=
  fun fuel => ⟨(monoFam st defs fuel).mtch, (monoFam st defs fuel).args, (monoFam st defs fuel).mtchs⟩

theorem resolveMatches_mono (st : Static) (defs : Defs) (fuel : Nat) (c : RCtx) (ms : List IMatch) (argCtx : ECtx) (acc : List Resolution)
    (r : List Resolution × ECtx) (h : resolveMatches st defs fuel c ms argCtx acc = .ok r) :
    resolveMatches st defs fuel (guessOf c) ms argCtx acc = .ok r :=
  (resolveMatch_family_mono st defs fuel).2.2 c ms argCtx acc r h

/-! ## the item resolvers: strict and stable ⇒ the guessing resolver computes the same state -/

theorem ite_inv {α} (c : Prop) [Decidable c] (x y r : α) (h : (if c then x else y) = r) :
    (c ∧ x = r) ∨ (¬ c ∧ y = r) := by
  split at h
  · rename_i hc; exact Or.inl ⟨hc, h⟩
  · rename_i hc; exact Or.inr ⟨hc, h⟩

theorem exists_of_ite (c : Prop) [Decidable c] (d : Defs) (x y : Bool × List String) :
    ∃ b rep', (if c then (Except.ok (d, x) : ItemRes) else .ok (d, y)) = .ok (d, b, rep') := by
  split <;> exact ⟨_, _, rfl⟩

theorem evalFuel_succ' : evalFuel = (evalFuel - 1) + 1 := by unfold evalFuel; omega

theorem resolveLabel_guess (st : Static) (defs defs' : Defs) (c : RCtx) (ref : Nat) (rep : List String)
    (h : resolveLabel st defs c ref = .ok (defs', true, rep)) :
    ∃ b rep', resolveLabel st defs (guessOf c) ref = .ok (defs', b, rep') := by
  unfold resolveLabel at h ⊢
  cases ha : evalAddress defs c c.canGuess with
  | error e => rw [ha] at h; cases h
  | ok a =>
    rw [ha] at h
    rw [guessOf_canGuess, evalAddress_mono defs c _ a ha]
    simp only at h ⊢
    rcases ite_inv _ _ _ _ h with ⟨_, h⟩ | ⟨hc, h⟩
    · injection h with h; injection h with _ h2; injection h2 with h2 _; cases h2
    · injection h with h; injection h with h1 _
      rw [← h1]
      exact exists_of_ite _ _ _ _

theorem resolveConstant_guess (st : Static) (defs defs' : Defs) (c : RCtx) (ref : Nat) (e : Expr) (rep : List String)
    (h : resolveConstant st defs c ref e = .ok (defs', true, rep)) :
    ∃ b rep', resolveConstant st defs (guessOf c) ref e = .ok (defs', b, rep') := by
  unfold resolveConstant at h ⊢
  simp only at h ⊢
  rcases ite_inv _ _ _ _ h with ⟨hr, h⟩ | ⟨hr, h⟩
  · rw [if_pos hr]; exact ⟨true, rep, h⟩
  · rw [if_neg hr]
    cases he : resolverEval st defs c {} e with
    | error m => rw [he] at h; cases h
    | ok x =>
      obtain ⟨v, cx⟩ := x
      rw [he] at h
      rw [resolverEval_mono st defs c {} e _ he]
      simp only at h ⊢
      have hfst : (guessOf c).first = c.first := rfl
      rw [hfst]
      rcases ite_inv _ _ _ _ h with ⟨_, h⟩ | ⟨hc, h⟩
      · injection h with h; injection h with _ h2; injection h2 with h2 _; cases h2
      · injection h with h; injection h with h1 _
        rw [← h1]
        exact exists_of_ite _ _ _ _

/-- the choice among the resolutions: what a strict pass chooses, a guessing pass chooses too -/
theorem chooseEncoding_guess (rs : List Resolution) (encs : List (Nat × BI)) (rep : List String)
    (h : chooseEncoding false rs = (some encs, rep)) : chooseEncoding true rs = (some encs, []) := by
  unfold chooseEncoding at h ⊢
  simp only at h ⊢
  split at h
  · simp only [Bool.not_false, if_true] at h; injection h with h1 _; cases h1
  · rename_i hne
    simp only [hne, if_false]
    split at h
    · injection h with h1 _; cases h1
    · injection h with h1 _
      simp only [Bool.not_true, Bool.false_and, Bool.false_eq_true, if_false]
      injection h1 with h1
      rw [h1]

theorem resolveEncoding_guess (st : Static) (defs : Defs) (c : RCtx) (hlast : c.last = true) (cands : List IMatch) (argCtx : ECtx)
    (encs : List (Nat × BI)) (rep : List String)
    (h : resolveEncoding st defs evalFuel c cands argCtx = .ok (some encs, rep)) :
    resolveEncoding st defs evalFuel (guessOf c) cands argCtx = .ok (some encs, []) := by
  rw [evalFuel_succ'] at h ⊢
  simp only [resolveEncoding] at h ⊢
  cases hm : resolveMatches st defs (evalFuel - 1) c cands argCtx [] with
  | error e => rw [hm] at h; cases h
  | ok x =>
    obtain ⟨rs, cx⟩ := x
    rw [hm] at h
    rw [resolveMatches_mono st defs _ c cands argCtx [] _ hm]
    simp only at h ⊢
    injection h with h
    have hcg : c.canGuess = false := by simp [RCtx.canGuess, hlast]
    rw [hcg] at h
    rw [guessOf_canGuess, chooseEncoding_guess rs encs rep h]

theorem allDefinite_guess (st : Static) (defs : Defs) (c : RCtx) (cands : List IMatch)
    (x : Option (List (Nat × BI)) × List String)
    (h : resolveEncoding st defs evalFuel c cands {} = .ok x) :
    allDefinite st defs (guessOf c) cands = allDefinite st defs c cands := by
  rw [evalFuel_succ'] at h
  simp only [resolveEncoding] at h
  unfold allDefinite
  cases hm : resolveMatches st defs (evalFuel - 1) c cands {} [] with
  | error e => rw [hm] at h; cases h
  | ok y =>
    rw [resolveMatches_mono st defs _ c cands {} [] _ hm]

theorem resolveInstruction_guess (st : Static) (defs defs' : Defs) (c : RCtx) (hlast : c.last = true) (ref : Nat) (rep : List String)
    (h : resolveInstruction st defs c ref = .ok (defs', true, rep)) :
    ∃ b rep', resolveInstruction st defs (guessOf c) ref = .ok (defs', b, rep') := by
  unfold resolveInstruction at h ⊢
  simp only at h ⊢
  rcases ite_inv _ _ _ _ h with ⟨hr, h⟩ | ⟨hr, h⟩
  · rw [if_pos hr]; exact ⟨true, rep, h⟩
  · rw [if_neg hr]
    cases he : resolveEncoding st defs evalFuel c ((defs.instrs.getD ref default).cands.map (·.m)) {} with
    | error m => rw [he] at h; cases h
    | ok x =>
      obtain ⟨encs, reported⟩ := x
      rw [he] at h
      cases encs with
      | none => simp at h
      | some l =>
        have hd := allDefinite_guess st defs c _ _ he
        rw [resolveEncoding_guess st defs c hlast _ _ l reported he]
        cases l with
        | nil => simp at h
        | cons e t =>
          simp only [Option.bind_some, List.head?_cons, Option.map_some] at h ⊢
          rcases ite_inv _ _ _ _ h with ⟨hs, h⟩ | ⟨hs, h⟩
          · have hs' : (st.opts.optStatic && (guessOf c).first && (defs.instrs.getD ref default).known && ((e :: t).length == 1) &&
                allDefinite st defs (guessOf c) ((defs.instrs.getD ref default).cands.map (·.m))) = true := by rw [hd]; exact hs
            rw [if_pos hs']
            injection h with h; injection h with h1 _
            exact ⟨true, [], by rw [h1]⟩
          · have hs' : ¬ (st.opts.optStatic && (guessOf c).first && (defs.instrs.getD ref default).known && ((e :: t).length == 1) &&
                allDefinite st defs (guessOf c) ((defs.instrs.getD ref default).cands.map (·.m))) = true := by rw [hd]; exact hs
            rw [if_neg hs']
            rcases ite_inv _ _ _ _ h with ⟨_, h⟩ | ⟨hc, h⟩
            · injection h with h; injection h with _ h2; injection h2 with h2 _; cases h2
            · injection h with h; injection h with h1 _
              rw [← h1]
              exact exists_of_ite _ _ _ _

theorem resolveRes_guess (st : Static) (defs defs' : Defs) (c : RCtx) (ref : Nat) (e : Expr) (rep : List String)
    (h : resolveRes st defs c ref e = .ok (defs', true, rep)) :
    ∃ b rep', resolveRes st defs (guessOf c) ref e = .ok (defs', b, rep') := by
  unfold resolveRes at h ⊢
  cases he : resolverEval st defs c {} e with
  | error m => rw [he] at h; cases h
  | ok x =>
    obtain ⟨v, cx⟩ := x
    rw [he] at h
    rw [resolverEval_mono st defs c {} e _ he]
    simp only at h ⊢
    split at h
    · cases h
    · rename_i n hn
      split at h
      · cases h
      rename_i hlt
      simp only [hn, guessOf_bank, hlt, ↓reduceIte]
      rcases ite_inv _ _ _ _ h with ⟨_, h⟩ | ⟨_, h⟩
      · injection h with h; injection h with _ h2; injection h2 with h2 _; cases h2
      · injection h with h; injection h with h1 _
        rw [← h1]
        exact exists_of_ite _ _ _ _

theorem resolveAlign_guess (st : Static) (defs defs' : Defs) (c : RCtx) (ref : Nat) (e : Expr) (rep : List String)
    (h : resolveAlign st defs c ref e = .ok (defs', true, rep)) :
    ∃ b rep', resolveAlign st defs (guessOf c) ref e = .ok (defs', b, rep') := by
  unfold resolveAlign at h ⊢
  cases he : resolverEval st defs c {} e with
  | error m => rw [he] at h; cases h
  | ok x =>
    obtain ⟨v, cx⟩ := x
    rw [he] at h
    rw [resolverEval_mono st defs c {} e _ he]
    simp only at h ⊢
    split at h
    · cases h
    · rename_i n hn
      try simp only [hn]
      rcases ite_inv _ _ _ _ h with ⟨_, h⟩ | ⟨hc, h⟩
      · injection h with h; injection h with _ h2; injection h2 with h2 _; cases h2
      · rcases ite_inv _ _ _ _ h with ⟨_, h⟩ | ⟨_, h⟩
        · cases h
        · injection h with h; injection h with h1 _
          rw [← h1, if_neg hc]
          have : ¬ (((guessOf c).last && n == 0) = true) := by simp [guessOf]
          rw [if_neg this]
          exact ⟨true, [], rfl⟩

theorem resolveAddr_guess (st : Static) (defs defs' : Defs) (c : RCtx) (ref : Nat) (e : Expr) (rep : List String)
    (h : resolveAddr st defs c ref e = .ok (defs', true, rep)) :
    ∃ b rep', resolveAddr st defs (guessOf c) ref e = .ok (defs', b, rep') := by
  have hid : defs' = defs := by
    -- (the identity lemma of Casm.Proofs.StableId, re-derived here for the address directive only to avoid a cyclic import)
    unfold resolveAddr at h
    cases he : resolverEval st defs c {} e with
    | error m => rw [he] at h; cases h
    | ok x =>
      obtain ⟨v, cx⟩ := x
      rw [he] at h
      simp only at h
      split at h
      · cases h
      · rename_i a ha
        rcases ite_inv _ _ _ _ h with ⟨_, h⟩ | ⟨hc, h⟩
        · injection h with h; injection h with _ h2; injection h2 with h2 _; cases h2
        · have hself : ({ defs with addrs := defs.addrs.set ref a } : Defs) = defs := by
            have : a = defs.addrs.getD ref 0 := by simpa using hc
            rw [this]
            have : ∀ (l : List Int) (i : Nat), l.set i (l.getD i 0) = l := by
              intro l
              induction l with
              | nil => intro i; rfl
              | cons x xs ih => intro i; cases i with
                | zero => simp
                | succ j => simp only [List.set_cons_succ, List.getD_cons_succ]; rw [ih]
            rw [this]
          rw [hself] at h
          have key : ∀ r : ItemRes, r = .ok (defs', true, rep) → (r = .ok (defs, true, []) ∨ (∃ m, r = .error m)) → defs' = defs := by
            intro r h1 h2
            rcases h2 with h2 | ⟨m, h2⟩
            · rw [h2] at h1; injection h1 with h1; injection h1 with h1 _; exact h1.symm
            · rw [h2] at h1; cases h1
          apply key _ h
          split
          · split
            · right; exact ⟨_, rfl⟩
            · split
              · right; exact ⟨_, rfl⟩
              · split
                · split
                  · right; exact ⟨_, rfl⟩
                  · left; rfl
                · left; rfl
          · left; rfl
  subst hid
  unfold resolveAddr at h ⊢
  cases he : resolverEval st defs' c {} e with
  | error m => rw [he] at h; cases h
  | ok x =>
    obtain ⟨v, cx⟩ := x
    rw [he] at h
    rw [resolverEval_mono st defs' c {} e _ he]
    simp only at h ⊢
    split at h
    · cases h
    · rename_i a ha
      try simp only [ha]
      rcases ite_inv _ _ _ _ h with ⟨_, h⟩ | ⟨hc, h⟩
      · injection h with h; injection h with _ h2; injection h2 with h2 _; cases h2
      · rw [if_neg hc]
        have : ¬ ((guessOf c).last = true) := by simp [guessOf]
        rw [if_neg this]
        have hself : ({ defs' with addrs := defs'.addrs.set ref a } : Defs) = defs' := by
          have : a = defs'.addrs.getD ref 0 := by simpa using hc
          rw [this]
          have : ∀ (l : List Int) (i : Nat), l.set i (l.getD i 0) = l := by
            intro l
            induction l with
            | nil => intro i; rfl
            | cons x xs ih => intro i; cases i with
              | zero => simp
              | succ j => simp only [List.set_cons_succ, List.getD_cons_succ]; rw [ih]
          rw [this]
        rw [hself]
        exact ⟨true, [], rfl⟩

theorem resolveAssert_guess (st : Static) (defs defs' : Defs) (c : RCtx) (e : Expr) (s : Bool) (rep : List String)
    (h : resolveAssert st defs c e = .ok (defs', s, rep)) :
    ∃ b rep', resolveAssert st defs (guessOf c) e = .ok (defs', b, rep') := by
  have hid : defs' = defs := by
    unfold resolveAssert at h
    split at h
    · injection h with h; injection h with h1 _; exact h1.symm
    · split at h
      · cases h
      · split at h
        · injection h with h; injection h with h1 _; exact h1.symm
        · injection h with h; injection h with h1 _; exact h1.symm
        · cases h
  subst hid
  unfold resolveAssert
  have : (!(guessOf c).last) = true := by simp [guessOf]
  rw [if_pos this]
  exact ⟨false, [], rfl⟩

theorem dataEnc_guess (must' : Bool) (v : Value) (enc : Option BI) (h : dataEnc true v = .ok enc) :
    ∃ b, enc = some b ∧ dataEnc must' v = .ok (some b) := by
  unfold dataEnc at h ⊢
  cases v with
  | int b => injection h with h; exact ⟨b, h.symm, rfl⟩
  | str s en => injection h with h; exact ⟨_, h.symm, rfl⟩
  | _ => simp at h

theorem dataCheck_guess (must' : Bool) (elemSize : Option Nat) (b : BI) (h : dataCheck true elemSize (some b) = .ok ()) :
    dataCheck must' elemSize (some b) = .ok () := by
  unfold dataCheck at h ⊢
  cases must' with
  | true => exact h
  | false => rfl

theorem dataStore_guess (st : Static) (defs defs' : Defs) (c : RCtx) (ref : Nat) (sliced : Option BI) (rep : List String)
    (h : dataStore st defs c ref sliced = .ok (defs', true, rep)) :
    ∃ b rep', dataStore st defs (guessOf c) ref sliced = .ok (defs', b, rep') := by
  unfold dataStore at h ⊢
  cases sliced with
  | none =>
    simp only at h
    injection h with h; injection h with _ h2; injection h2 with h2 _; cases h2
  | some b =>
    simp only at h ⊢
    rcases ite_inv _ _ _ _ h with ⟨hs, h⟩ | ⟨hs, h⟩
    · have hs' : (st.opts.optStatic && (guessOf c).first && (defs.datas.getD ref default).known && b.size.isSome) = true := hs
      rw [if_pos hs']; exact ⟨true, rep, h⟩
    · have hs' : ¬ (st.opts.optStatic && (guessOf c).first && (defs.datas.getD ref default).known && b.size.isSome) = true := hs
      rw [if_neg hs']
      rcases ite_inv _ _ _ _ h with ⟨_, h⟩ | ⟨_, h⟩
      · injection h with h; injection h with _ h2; injection h2 with h2 _; cases h2
      · injection h with h; injection h with h1 _
        rw [← h1]
        exact exists_of_ite _ _ _ _

theorem resolveData_guess (st : Static) (defs defs' : Defs) (c : RCtx) (hlast : c.last = true) (ref : Nat) (elemSize : Option Nat) (e : Expr)
    (rep : List String) (h : resolveData st defs c ref elemSize e = .ok (defs', true, rep)) :
    ∃ b rep', resolveData st defs (guessOf c) ref elemSize e = .ok (defs', b, rep') := by
  unfold resolveData at h ⊢
  simp only at h ⊢
  rcases ite_inv _ _ _ _ h with ⟨hr, h⟩ | ⟨hr, h⟩
  · rw [if_pos hr]; exact ⟨true, rep, h⟩
  · rw [if_neg hr]
    cases he : resolverEval st defs c {} e with
    | error m => rw [he] at h; cases h
    | ok x =>
      obtain ⟨v, cx⟩ := x
      rw [he] at h
      rw [resolverEval_mono st defs c {} e _ he]
      simp only [hlast, Bool.true_or] at h ⊢
      cases hen : dataEnc true v with
      | error m => rw [hen] at h; cases h
      | ok enc =>
        rw [hen] at h
        obtain ⟨b, hb, hg⟩ := dataEnc_guess ((guessOf c).last || (defs.datas.getD ref default).known) v enc hen
        subst hb
        rw [hg]
        simp only at h ⊢
        cases hck : dataCheck true elemSize (some b) with
        | error m => rw [hck] at h; cases h
        | ok u =>
          rw [hck] at h
          rw [dataCheck_guess _ elemSize b hck]
          exact dataStore_guess st defs defs' c ref _ rep h

/-- **the resolver dispatch**: strict and stable ⇒ the guessing dispatch returns the same state -/
theorem dispatch_guess (st : Static) (defs defs' : Defs) (c : RCtx) (hlast : c.last = true) (n : AstNode) (k : Nat) (rep : List String)
    (h : dispatch st defs c n k = .ok (defs', true, rep)) :
    ∃ b rep', dispatch st defs (guessOf c) n k = .ok (defs', b, rep') := by
  unfold dispatch at h ⊢
  split at h
  · rename_i level name kind ne ref
    cases kind with
    | label => exact resolveLabel_guess st defs defs' c ref rep h
    | constant e => exact resolveConstant_guess st defs defs' c ref e rep h
  · exact resolveInstruction_guess st defs defs' c hlast _ rep h
  · exact resolveData_guess st defs defs' c hlast _ _ _ rep h
  · exact resolveRes_guess st defs defs' c _ _ rep h
  · exact resolveAlign_guess st defs defs' c _ _ rep h
  · exact resolveAddr_guess st defs defs' c _ _ rep h
  · exact resolveAssert_guess st defs defs' c _ true rep h
  · exact ⟨true, rep, h⟩

/-! ## the whole pass -/

/-- the same resolver state, position and symbol context; the flags and messages may differ -/
def SameRun (a b : PassSt) : Prop := a.defs = b.defs ∧ a.it = b.it ∧ a.symCtx = b.symCtx

theorem passNode_guess (st : Static) (ps pg ps' : PassSt) (n : AstNode) (k : Nat) (rel : SameRun ps pg)
    (h : passNode st false true ps n k = .ok ps') (hs : ps'.stable = true) :
    ∃ pg', passNode st false false pg n k = .ok pg' ∧ SameRun ps' pg' := by
  obtain ⟨r1, r2, r3⟩ := rel
  rw [passNode_eq] at h ⊢
  simp only at h ⊢
  rw [← r1, ← r2, ← r3]
  split at h
  · cases h
  · rename_i it hv
    try simp only [hv]
    split at h
    · cases h
    · rename_i defs' stable reported hd
      split at h
      · cases h
      · rename_i it' ha
        injection h with h
        subst h
        simp only [Bool.and_eq_true] at hs
        obtain ⟨_, hs2⟩ := hs
        subst hs2
        obtain ⟨b, rep', hg⟩ := dispatch_guess st ps.defs defs' _ rfl n k reported hd
        simp only [guessOf] at hg
        rw [hg]
        simp only [ha]
        exact ⟨_, rfl, rfl, rfl, rfl⟩

theorem go_guess (st : Static) (n : AstNode) :
    ∀ (fuel k : Nat) (ps pg ps' : PassSt), SameRun ps pg → passNodes.go st false true n k fuel ps = .ok ps' → ps'.stable = true →
      ∃ pg', passNodes.go st false false n k fuel pg = .ok pg' ∧ SameRun ps' pg' := by
  intro fuel
  induction fuel with
  | zero =>
    intro k ps pg ps' rel h _
    simp only [passNodes.go] at h ⊢
    injection h with h; subst h
    exact ⟨pg, rfl, rel⟩
  | succ f ih =>
    intro k ps pg ps' rel h hs
    simp only [passNodes.go] at h ⊢
    cases hp : passNode st false true ps n k with
    | error m => rw [hp] at h; cases h
    | ok ps1 =>
      rw [hp] at h
      simp only at h
      -- the tail is stable, hence so is the head
      have mono : ∀ (fuel k : Nat) (x y : PassSt), passNodes.go st false true n k fuel x = .ok y → y.stable = true → x.stable = true := by
        intro fuel
        induction fuel with
        | zero => intro k x y hh2 hy; simp only [passNodes.go] at hh2; injection hh2 with hh2; subst hh2; exact hy
        | succ g ihg =>
          intro k x y hh2 hy
          simp only [passNodes.go] at hh2
          cases hq : passNode st false true x n k with
          | error e => rw [hq] at hh2; cases hh2
          | ok x1 =>
            rw [hq] at hh2
            exact passNode_stable_mono st false true x x1 n k hq (ihg _ _ _ hh2 hy)
      have hs1 : ps1.stable = true := mono f (k + 1) ps1 ps' h hs
      obtain ⟨pg1, hg1, rel1⟩ := passNode_guess st ps pg ps1 n k rel hp hs1
      rw [hg1]
      exact ih (k + 1) ps1 pg1 ps' rel1 h hs

theorem passNodes_guess (st : Static) :
    ∀ (nodes : List AstNode) (ps pg ps' : PassSt), SameRun ps pg → passNodes st false true nodes ps = .ok ps' → ps'.stable = true →
      ∃ pg', passNodes st false false nodes pg = .ok pg' ∧ SameRun ps' pg' := by
  intro nodes
  induction nodes with
  | nil =>
    intro ps pg ps' rel h _
    simp only [passNodes] at h ⊢
    injection h with h; subst h
    exact ⟨pg, rfl, rel⟩
  | cons n rest ih =>
    intro ps pg ps' rel h hs
    rw [passNodes_cons] at h ⊢
    cases hg : passNodes.go st false true n 0 (nodeElems n) ps with
    | error e => rw [hg] at h; cases h
    | ok ps1 =>
      rw [hg] at h
      simp only at h
      have hs1 : ps1.stable = true := passNodes_stable_mono st false true rest ps1 ps' h hs
      obtain ⟨pg1, hg1, rel1⟩ := go_guess st n _ 0 ps pg ps1 rel hg hs1
      rw [hg1]
      exact ih ps1 pg1 ps' rel1 h hs

/-- **Where the strict non-first pass is stable, the guessing pass computes the same state.** -/
theorem resolveOnce_guess (st : Static) (nodes : List AstNode) (d d' : Defs) (rep : List String)
    (h : resolveOnce st nodes false true d = .ok (d', true, rep)) :
    ∃ b rep', resolveOnce st nodes false false d = .ok (d', b, rep') := by
  unfold resolveOnce at h ⊢
  split at h
  · cases h
  · rename_i ps hp
    injection h with h; injection h with h1 h2; injection h2 with h2 _
    obtain ⟨pg, hg, rel⟩ := passNodes_guess st nodes _ _ ps ⟨rfl, rfl, rfl⟩ hp h2
    rw [hg]
    refine ⟨pg.stable, pg.reported, ?_⟩
    simp only
    rw [← rel.1, h1]

end Casm
