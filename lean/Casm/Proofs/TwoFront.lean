import Casm.Proofs.FrontInv
/-!
# Casm.Proofs.TwoFront — the two front ends, side by side

`on` is the state of the front end with the static-value optimisation, `off` the state of the front
end started with `--debug-no-optimize-static`.  They differ in symbol marks only (`MRel`): the
unoptimised one marks a symbol exactly when it is defined on the command line or is a function.
Every front-end pass but `resolve_constants_simple` neither reads nor writes marks of constants;
that one marks more with the optimisation, and re-evaluates without it what the optimised run
skips — to the same value, because what is skipped is statically known.
-/
namespace Casm

def kindOf (d : Decls) (r : Nat) : DeclKind := (d.symbols.decls.getD r default).kind

/-- the two states differ in symbol marks only, classified by the declarations -/
structure MRel (opts : Opts) (d : Decls) (on off : Defs) : Prop where
  banks : off.banks = on.banks
  ruledefs : off.ruledefs = on.ruledefs
  fns : off.fns = on.fns
  instrs : off.instrs = on.instrs
  datas : off.datas = on.datas
  res : off.res = on.res
  aligns : off.aligns = on.aligns
  addrs : off.addrs = on.addrs
  len : off.symbols.length = on.symbols.length
  slot : ∀ r, (off.symbols.getD r none).isSome = (on.symbols.getD r none).isSome
  val : ∀ r, (off.sym r).value = (on.sym r).value
  kn : ∀ r, (off.sym r).known = (on.sym r).known
  ne : ∀ r, (off.sym r).noEmit = (on.sym r).noEmit
  c2 : ∀ r, (off.sym r).resolved = true → (on.sym r).resolved = true
  c1 : ∀ r, (on.sym r).resolved = true → (off.sym r).resolved = false →
    kindOf d r = .constant ∧ notDefined opts d r = true ∧ (on.sym r).known = true
  c3 : ∀ r, (off.sym r).resolved = true → ¬ (kindOf d r = .constant ∧ notDefined opts d r = true)

theorem MRel.refl_empty (opts : Opts) (d : Decls) : MRel opts d {} {} :=
  ⟨rfl, rfl, rfl, rfl, rfl, rfl, rfl, rfl, rfl, fun _ => rfl, fun _ => rfl, fun _ => rfl, fun _ => rfl,
   fun _ h => h, fun _ h => (by cases h), fun _ h => (by cases h)⟩

/-- the value of a slot, as `eval_simple` and `eval_certain` read it -/
theorem slot_value (defs : Defs) (r : Nat) :
    (defs.symbols.getD r none).map (·.value) = if (defs.symbols.getD r none).isSome then some (defs.sym r).value else none := by
  unfold Defs.sym
  cases defs.symbols.getD r none <;> rfl

theorem MRel.slotval {opts : Opts} {d : Decls} {on off : Defs} (m : MRel opts d on off) (r : Nat) :
    (off.symbols.getD r none).map (·.value) = (on.symbols.getD r none).map (·.value) := by
  rw [slot_value, slot_value, m.slot r, m.val r]

theorem simpleEnv_rel {opts : Opts} {d : Decls} {on off : Defs} (m : MRel opts d on off) : simpleEnv d off = simpleEnv d on := by
  have key : slotVal off = slotVal on := by
    funext r
    unfold slotVal
    have := m.slotval r
    cases h1 : off.symbols.getD r none <;> cases h2 : on.symbols.getD r none <;> simp_all
  unfold simpleEnv
  rw [key]

theorem evalSimple_rel {opts : Opts} {d : Decls} {on off : Defs} (m : MRel opts d on off) (e : Expr) :
    evalSimple d off e = evalSimple d on e := by
  rw [evalSimple_eq, evalSimple_eq, simpleEnv_rel m]

theorem resolveIfs_rel {opts : Opts} {d : Decls} {on off : Defs} (m : MRel opts d on off) (nodes : List AstNode) :
    resolveIfs d off nodes = resolveIfs d on nodes := by
  unfold resolveIfs
  simp only [evalSimple_rel m]

/-- the relation survives the growth of the declaration table (for symbols that have a slot) -/
theorem MRel.ext {opts : Opts} {d d' : Decls} {on off : Defs} (m : MRel opts d on off)
    (hn : NameExt d.symbols d'.symbols) (hk : KindExt d.symbols d'.symbols)
    (s0 : ∀ r, (on.symbols.getD r none).isSome = true → r < d.symbols.decls.length) : MRel opts d' on off := by
  have stable : ∀ r, (on.sym r).resolved = true → kindOf d' r = kindOf d r ∧ notDefined opts d' r = notDefined opts d r := by
    intro r hr
    have hs : (on.symbols.getD r none).isSome = true := by
      cases hx : (on.symbols.getD r none).isSome with
      | true => rfl
      | false => rw [sym_of_noslot on r hx] at hr; cases hr
    have hlt := s0 r hs
    unfold kindOf notDefined
    rw [hk.2 r hlt, hn.2 r hlt]
    exact ⟨rfl, rfl⟩
  refine { m with c1 := fun r h1 h2 => ?_, c3 := fun r h => ?_ }
  · obtain ⟨e1, e2⟩ := stable r h1
    rw [e1, e2]; exact m.c1 r h1 h2
  · obtain ⟨e1, e2⟩ := stable r (m.c2 r h)
    rw [e1, e2]; exact m.c3 r h

theorem padset_length {α} (l : List α) (r : Nat) (x y : α) : ((padTo l r x).set r y).length = max l.length (r + 1) := by
  unfold padTo
  simp
  omega

theorem MRel.padset {opts : Opts} {d : Decls} {on off : Defs} (m : MRel opts d on off) (r : Nat) (sd : SymDef) (hsd : sd.resolved = false) :
    MRel opts d { on with symbols := (padTo on.symbols r none).set r (some sd) }
      { off with symbols := (padTo off.symbols r none).set r (some sd) } := by
  refine ⟨m.banks, m.ruledefs, m.fns, m.instrs, m.datas, m.res, m.aligns, m.addrs, ?_, fun r' => ?_, fun r' => ?_, fun r' => ?_,
    fun r' => ?_, fun r' h => ?_, fun r' h1 h2 => ?_, fun r' h => ?_⟩
  · simp only [padset_length, m.len]
  · simp only [slot_padset]; split <;> first | rfl | exact m.slot r'
  · simp only [sym_padset]; split <;> first | rfl | exact m.val r'
  · simp only [sym_padset]; split <;> first | rfl | exact m.kn r'
  · simp only [sym_padset]; split <;> first | rfl | exact m.ne r'
  · simp only [sym_padset] at h ⊢
    split at h
    · rw [hsd] at h; cases h
    · rename_i hne; simp only [hne, if_false]; exact m.c2 r' h
  · simp only [sym_padset] at h1 h2
    split at h1
    · rw [hsd] at h1; cases h1
    · rename_i hne
      simp only [hne, if_false] at h2
      have := m.c1 r' h1 h2
      simp only [sym_padset, hne, if_false]
      exact this
  · simp only [sym_padset] at h
    split at h
    · rw [hsd] at h; cases h
    · exact m.c3 r' h

theorem MRel.defineStep {opts : Opts} {d : Decls} {on off : Defs} (m : MRel opts d on off) (n : AstNode) :
    MRel opts d (Casm.defineStep on n) (Casm.defineStep off n) := by
  unfold Casm.defineStep
  split
  · rename_i kind ne r
    rw [m.slot r]
    split
    · exact m
    · exact m.padset r _ rfl
  · exact m

theorem MRel.define {opts : Opts} {d : Decls} : ∀ (l : List AstNode) (on off : Defs), MRel opts d on off →
    MRel opts d (defineSymbols on l) (defineSymbols off l) := by
  intro l
  induction l with
  | nil => intro on off m; exact m
  | cons n rest ih =>
    intro on off m
    rw [defineSymbols_eq, defineSymbols_eq, List.foldl_cons, List.foldl_cons, ← defineSymbols_eq, ← defineSymbols_eq]
    exact ih _ _ (m.defineStep n)

/-- both runs write the slot of `r` (which exists) -/
theorem MRel.write {opts : Opts} {d : Decls} {on off : Defs} (m : MRel opts d on off) (r : Nat)
    (hslot : (on.symbols.getD r none).isSome = true) (sx sy : SymDef)
    (hv : sy.value = sx.value) (hk : sy.known = sx.known) (hne : sy.noEmit = sx.noEmit)
    (h2 : sy.resolved = true → sx.resolved = true)
    (h1 : sx.resolved = true → sy.resolved = false → kindOf d r = .constant ∧ notDefined opts d r = true ∧ sx.known = true)
    (h3 : sy.resolved = true → ¬ (kindOf d r = .constant ∧ notDefined opts d r = true)) :
    MRel opts d (on.setSym r sx) (off.setSym r sy) := by
  have hslot' : (off.symbols.getD r none).isSome = true := by rw [m.slot r]; exact hslot
  have cases_on : ∀ r', (r' = r ∧ (on.setSym r sx).sym r' = sx ∧ (off.setSym r sy).sym r' = sy) ∨
      (r' ≠ r ∧ (on.setSym r sx).sym r' = on.sym r' ∧ (off.setSym r sy).sym r' = off.sym r') := by
    intro r'
    by_cases he : r' = r
    · subst he
      exact Or.inl ⟨rfl, sym_setSym_self on r' sx hslot, sym_setSym_self off r' sy hslot'⟩
    · right
      refine ⟨he, ?_, ?_⟩
      · rcases sym_setSym on r r' sx with h | ⟨h, _⟩
        · exact h
        · exact absurd h he
      · rcases sym_setSym off r r' sy with h | ⟨h, _⟩
        · exact h
        · exact absurd h he
  refine ⟨m.banks, m.ruledefs, m.fns, m.instrs, m.datas, m.res, m.aligns, m.addrs, ?_, fun r' => ?_, fun r' => ?_, fun r' => ?_,
    fun r' => ?_, fun r' h => ?_, fun r' ha hb => ?_, fun r' h => ?_⟩
  · unfold Defs.setSym; simp only [List.length_set]; exact m.len
  · rw [slot_setSym on r r' sx hslot, slot_setSym off r r' sy hslot']; exact m.slot r'
  · rcases cases_on r' with ⟨_, e1, e2⟩ | ⟨_, e1, e2⟩ <;> rw [e1, e2]
    · exact hv
    · exact m.val r'
  · rcases cases_on r' with ⟨_, e1, e2⟩ | ⟨_, e1, e2⟩ <;> rw [e1, e2]
    · exact hk
    · exact m.kn r'
  · rcases cases_on r' with ⟨_, e1, e2⟩ | ⟨_, e1, e2⟩ <;> rw [e1, e2]
    · exact hne
    · exact m.ne r'
  · rcases cases_on r' with ⟨_, e1, e2⟩ | ⟨_, e1, e2⟩ <;> rw [e2] at h <;> rw [e1]
    · exact h2 h
    · exact m.c2 r' h
  · rcases cases_on r' with ⟨he, e1, e2⟩ | ⟨_, e1, e2⟩ <;> rw [e1] at ha ⊢ <;> rw [e2] at hb
    · subst he; exact h1 ha hb
    · exact m.c1 r' ha hb
  · rcases cases_on r' with ⟨he, e1, e2⟩ | ⟨_, e1, e2⟩ <;> rw [e2] at h
    · subst he; exact h3 h
    · exact m.c3 r' h

/-! ## `resolve_constants_simple`, side by side -/

def AccRel (opts : Opts) (d : Decls) (nodes : List AstNode) (a b : Except String (Defs × Nat)) : Prop :=
  match a with
  | .error e => b = .error e
  | .ok (x, k) => ∃ y, b = .ok (y, k) ∧ MRel opts d x y ∧ FInv opts d x nodes ∧ SlotsOK x nodes

theorem staticOff_defines (opts : Opts) : opts.staticOff.defines = opts.defines := rfl
theorem staticOff_optStatic (opts : Opts) : opts.staticOff.optStatic = false := rfl

theorem setSym_same_value (y : Defs) (r : Nat) (hslot : (y.symbols.getD r none).isSome = true) :
    y.setSym r { y.sym r with value := (y.sym r).value } = y := by
  have : ({ y.sym r with value := (y.sym r).value } : SymDef) = y.sym r := rfl
  rw [this]
  refine setSym_self y r ?_
  cases hx : y.symbols.getD r none with
  | none => rw [hx] at hslot; cases hslot
  | some s => exact Or.inr ⟨s, hx⟩

theorem constStep_rel (opts : Opts) (ho : opts.optStatic = true) (d : Decls) (nodes : List AstNode) (n : AstNode) (hn : n ∈ nodes)
    (a b : Except String (Defs × Nat)) (h : AccRel opts d nodes a b) :
    AccRel opts d nodes (constStep opts d a n) (constStep opts.staticOff d b n) := by
  cases a with
  | error e =>
    simp only [AccRel] at h
    subst h
    exact rfl
  | ok xa =>
    obtain ⟨x, k⟩ := xa
    obtain ⟨y, hb, m, fx, sx⟩ := h
    subst hb
    cases n with
    | symbol lv nm kd ne rr =>
      cases kd with
      | label => exact ⟨y, rfl, m, fx, sx⟩
      | constant e =>
        cases rr with
        | none => exact ⟨y, rfl, m, fx, sx⟩
        | some r =>
          have hslot := sx _ hn r rfl
          have hslot' : (y.symbols.getD r none).isSome = true := by rw [m.slot r]; exact hslot
          have hni := fx.ni _ hn
          simp only [NI] at hni
          have hkind : kindOf d r = .constant := by
            have := fx.kinv _ hn
            simp only [KN, kindOfSym] at this
            exact this.2
          simp only [constStep, staticOff_defines, staticOff_optStatic, Bool.false_and, Bool.false_eq_true, if_false]
          cases hrx : (x.sym r).resolved with
          | true =>
            simp only [if_true]
            cases hry : (y.sym r).resolved with
            | true => simp only [if_true]; exact ⟨y, rfl, m, fx, sx⟩
            | false =>
              simp only [Bool.false_eq_true, if_false]
              obtain ⟨_, hnd, hkn⟩ := m.c1 r hrx hry
              have hfind : opts.defines.find? (·.1 == (d.symbols.decls.getD r default).name) = none := by
                unfold notDefined at hnd
                simpa using hnd
              obtain ⟨hvu, hpv⟩ := hni.2 hrx hkn hnd
              rw [hfind]
              simp only
              rw [hpv d y]
              simp only
              -- the unoptimised run re-evaluates to the value it already holds
              have hval : (x.sym r).value = (y.sym r).value := (m.val r).symm
              have hy' : y.setSym r { y.sym r with value := (x.sym r).value } = y := by
                have : ({ y.sym r with value := (x.sym r).value } : SymDef) = { y.sym r with value := (y.sym r).value } := by rw [hval]
                rw [this, setSym_same_value y r hslot']
              cases hxv : (x.sym r).value with
              | unknown => exact absurd hxv hvu
              | _ =>
                all_goals (
                  rw [hxv] at hy'
                  simp only [hry] at hy'
                  try simp only
                  rw [hy']
                  exact ⟨y, rfl, m, fx, sx⟩)
          | false =>
            have hry : (y.sym r).resolved = false := by
              cases hh : (y.sym r).resolved with
              | false => rfl
              | true => rw [m.c2 r hh] at hrx; cases hrx
            simp only [hry, Bool.false_eq_true, if_false]
            cases hfind : opts.defines.find? (·.1 == (d.symbols.decls.getD r default).name) with
            | some dv =>
              simp only
              obtain ⟨f', s'⟩ := fx.step_def sx lv nm e ne r dv hn hfind
              refine ⟨_, rfl, ?_, f', s'⟩
              refine m.write r hslot _ _ rfl (m.kn r) (m.ne r) (fun _ => rfl) (fun _ h => (by cases h)) (fun _ hh => ?_)
              have : notDefined opts d r = false := by unfold notDefined; rw [hfind]; rfl
              rw [this] at hh; cases hh.2
            | none =>
              simp only
              rw [evalSimple_rel m e]
              cases hev : evalSimple d x e with
              | error msg => exact rfl
              | ok v =>
                simp only
                obtain ⟨f', s'⟩ := fx.step_ev sx lv nm e ne r v hn hrx hev
                have hnd : notDefined opts d r = true := by unfold notDefined; rw [hfind]; rfl
                cases v with
                | unknown =>
                  simp only
                  have f'' : FInv opts d (x.setSym r { x.sym r with value := .unknown }) nodes := f'
                  have s'' : SlotsOK (x.setSym r { x.sym r with value := .unknown }) nodes := s'
                  simp only [hrx] at f'' s''
                  refine ⟨_, rfl, ?_, f'', s''⟩
                  exact m.write r hslot _ _ rfl (m.kn r) (m.ne r) (by intro h; simp_all) (by intro h; simp_all) (by intro h; simp_all)
                | _ =>
                  all_goals (
                    simp only [ho, Bool.true_and]
                    simp only [writeOf, ho, Bool.true_and, hrx] at f' s'
                    rcases Bool.eq_false_or_eq_true (x.sym r).known with hk | hk
                    · rw [if_pos hk]
                      rw [if_pos hk] at f' s'
                      refine ⟨_, rfl, ?_, f', s'⟩
                      exact m.write r hslot _ _ rfl (m.kn r) (m.ne r) (fun _ => rfl)
                        (fun _ _ => ⟨hkind, hnd, hk⟩) (by intro h; simp_all)
                    · have hkf : ¬ (x.sym r).known = true := by rw [hk]; simp
                      rw [if_neg hkf]
                      rw [if_neg hkf] at f' s'
                      refine ⟨_, rfl, ?_, f', s'⟩
                      exact m.write r hslot _ _ rfl (m.kn r) (m.ne r) (by intro h; simp_all) (by intro h; simp_all) (by intro h; simp_all))
    | _ => exact ⟨y, rfl, m, fx, sx⟩

theorem consts_rel (opts : Opts) (ho : opts.optStatic = true) (d : Decls) (nodes : List AstNode) :
    ∀ (l : List AstNode), (∀ n ∈ l, n ∈ nodes) → ∀ (a b : Except String (Defs × Nat)), AccRel opts d nodes a b →
      AccRel opts d nodes (l.foldl (constStep opts d) a) (l.foldl (constStep opts.staticOff d) b) := by
  intro l
  induction l with
  | nil => intro _ a b h; exact h
  | cons n rest ih =>
    intro hsub a b h
    rw [List.foldl_cons, List.foldl_cons]
    exact ih (fun m hm => hsub m (List.mem_cons_of_mem _ hm)) _ _
      (constStep_rel opts ho d nodes n (hsub n List.mem_cons_self) a b h)

/-! ## the passes that read values only -/

theorem evalCertain_rel {opts : Opts} {d : Decls} {on off : Defs} (m : MRel opts d on off) (e : Expr) :
    evalCertain d off e = evalCertain d on e := by
  unfold evalCertain
  simp only [m.slotval]

theorem checkLeftoverIfs_rel {opts : Opts} {d : Decls} {on off : Defs} (m : MRel opts d on off) (nodes : List AstNode) :
    checkLeftoverIfs d off nodes = checkLeftoverIfs d on nodes := by
  unfold checkLeftoverIfs
  simp only [evalCertain_rel m]

theorem defineBank_rel {opts : Opts} {d : Decls} {on off : Defs} (m : MRel opts d on off) (b : BankdefAst) :
    defineBank d off b = defineBank d on b := by
  unfold defineBank
  simp only [evalCertain_rel m]

/-! ## the declaration loop, side by side -/

theorem declLoop_rel (opts : Opts) (ho : opts.optStatic = true) :
    ∀ (fuel : Nat) (d : Decls) (on off : Defs) (nodes : List AstNode) (prev : Nat), MRel opts d on off → FInv opts d on nodes →
      match declLoop opts fuel d on nodes prev with
      | .error e => declLoop opts.staticOff fuel d off nodes prev = .error e
      | .ok (d', on', nodes') => ∃ off', declLoop opts.staticOff fuel d off nodes prev = .ok (d', off', nodes') ∧ MRel opts d' on' off' := by
  intro fuel
  induction fuel with
  | zero => intro d on off nodes prev _ _; simp only [declLoop]
  | succ f ih =>
    intro d on off nodes prev m fi
    simp only [declLoop]
    cases hc : collectAll d nodes with
    | error e => rfl
    | ok x =>
      obtain ⟨d1, n1⟩ := x
      simp only
      have f1 := fi.collect hc
      obtain ⟨hne, _, _⟩ := collectAll_ext d d1 nodes n1 fi.kinv fi.fn hc
      have hke := collectAll_kindExt d d1 nodes n1 fi.kinv hc
      have m1 : MRel opts d1 on off := m.ext hne hke fi.s0
      obtain ⟨f2, s2, _⟩ := FInv.define (opts := opts) (d := d1) (nodes := n1) n1 on (fun _ hn => hn) f1
      have m2 := MRel.define (opts := opts) (d := d1) n1 on off m1
      have acc := consts_rel opts ho d1 n1 n1 (fun _ hn => hn) (.ok (defineSymbols on n1, 0)) (.ok (defineSymbols off n1, 0))
        ⟨_, rfl, m2, f2, fun n hn r hr => s2 n hn r hr⟩
      rw [← resolveConstantsSimple_eq, ← resolveConstantsSimple_eq] at acc
      cases hr : resolveConstantsSimple opts d1 (defineSymbols on n1) n1 with
      | error e =>
        rw [hr] at acc
        simp only [AccRel] at acc
        rw [acc]
      | ok y =>
        obtain ⟨x2, cnt⟩ := y
        rw [hr] at acc
        obtain ⟨y2, e2, m3, f3, s3⟩ := acc
        rw [e2]
        simp only
        rw [resolveIfs_rel m3]
        cases hri : resolveIfs d1 x2 n1 with
        | error e => rfl
        | ok z =>
          obtain ⟨nodes2, ifs⟩ := z
          simp only
          by_cases hcond : (cnt == prev && ifs == 0) = true
          · simp only [hcond, if_true]
            exact ⟨y2, rfl, m3⟩
          · simp only [hcond, if_false]
            have hsub := resolveIfs_refSub d1 x2 n1 nodes2 ifs hri
            have hk2 := resolveIfs_kinv d1.symbols _ _ _ _ _ f3.kinv hri
            exact ih d1 x2 y2 nodes2 cnt m3 (f3.sub hk2 hsub)

/-! ## `define_remaining` and `match_all`, side by side -/

theorem MRel.padset_fn {opts : Opts} {d : Decls} {on off : Defs} (m : MRel opts d on off) (r : Nat) (sd : SymDef)
    (hk : kindOf d r ≠ .constant) :
    MRel opts d { on with symbols := (padTo on.symbols r none).set r (some sd) }
      { off with symbols := (padTo off.symbols r none).set r (some sd) } := by
  refine ⟨m.banks, m.ruledefs, m.fns, m.instrs, m.datas, m.res, m.aligns, m.addrs, ?_, fun r' => ?_, fun r' => ?_, fun r' => ?_,
    fun r' => ?_, fun r' h => ?_, fun r' h1 h2 => ?_, fun r' h => ?_⟩
  · simp only [padset_length, m.len]
  · simp only [slot_padset]; split <;> first | rfl | exact m.slot r'
  · simp only [sym_padset]; split <;> first | rfl | exact m.val r'
  · simp only [sym_padset]; split <;> first | rfl | exact m.kn r'
  · simp only [sym_padset]; split <;> first | rfl | exact m.ne r'
  · simp only [sym_padset] at h ⊢
    split at h
    · rename_i he; simp only [he, if_true]; exact h
    · rename_i hne; simp only [hne, if_false]; exact m.c2 r' h
  · simp only [sym_padset] at h1 h2
    split at h1
    · rename_i he; simp only [he, if_true] at h2; rw [h1] at h2; cases h2
    · rename_i hne
      simp only [hne, if_false] at h2
      have := m.c1 r' h1 h2
      simp only [sym_padset, hne, if_false]
      exact this
  · simp only [sym_padset] at h
    split at h
    · rename_i he; subst he; exact fun hh => hk hh.1
    · exact m.c3 r' h

theorem MRel.symbols_of {opts : Opts} {d : Decls} {on off on' off' : Defs} (m : MRel opts d on off)
    (h1 : on'.symbols = on.symbols) (h2 : off'.symbols = off.symbols)
    (hb : off'.banks = on'.banks) (hr : off'.ruledefs = on'.ruledefs) (hf : off'.fns = on'.fns) (hi : off'.instrs = on'.instrs)
    (hd : off'.datas = on'.datas) (hres : off'.res = on'.res) (hal : off'.aligns = on'.aligns) (had : off'.addrs = on'.addrs) :
    MRel opts d on' off' := by
  have e1 : ∀ r, on'.sym r = on.sym r := sym_of_symbols_eq h1
  have e2 : ∀ r, off'.sym r = off.sym r := sym_of_symbols_eq h2
  refine ⟨hb, hr, hf, hi, hd, hres, hal, had, by rw [h1, h2]; exact m.len, fun r => by rw [h1, h2]; exact m.slot r,
    fun r => by rw [e1, e2]; exact m.val r, fun r => by rw [e1, e2]; exact m.kn r, fun r => by rw [e1, e2]; exact m.ne r,
    fun r h => by rw [e2] at h; rw [e1]; exact m.c2 r h, fun r ha hb' => ?_, fun r h => by rw [e2] at h; exact m.c3 r h⟩
  rw [e1] at ha ⊢; rw [e2] at hb'
  exact m.c1 r ha hb'

theorem assignRef_rel {opts : Opts} {d : Decls} (l : List AstNode) : ∀ (on off : Defs) (out : List AstNode), MRel opts d on off →
    (l.foldl assignRef (off, out)).2 = (l.foldl assignRef (on, out)).2 ∧
      MRel opts d (l.foldl assignRef (on, out)).1 (l.foldl assignRef (off, out)).1 := by
  induction l with
  | nil => intro on off out m; exact ⟨rfl, m⟩
  | cons n rest ih =>
    intro on off out m
    rw [List.foldl_cons, List.foldl_cons]
    have step : (assignRef (off, out) n).2 = (assignRef (on, out) n).2 ∧ MRel opts d (assignRef (on, out) n).1 (assignRef (off, out) n).1 := by
      unfold assignRef
      simp only
      split <;> simp only [m.instrs, m.datas, m.res, m.aligns, m.addrs, true_and] <;>
        first
          | exact m
          | exact m.symbols_of rfl rfl m.banks m.ruledefs m.fns (by simp [m.instrs]) (by simp [m.datas]) (by simp [m.res]) (by simp [m.aligns]) (by simp [m.addrs])
    obtain ⟨s1, s2⟩ := step
    have e1 : assignRef (off, out) n = ((assignRef (off, out) n).1, (assignRef (on, out) n).2) := by rw [← s1]
    have e2 : assignRef (on, out) n = ((assignRef (on, out) n).1, (assignRef (on, out) n).2) := rfl
    rw [e1, e2]
    exact ih _ _ _ s2

def fnStep (acc : List FnDef × List (Option SymDef)) (n : AstNode) : List FnDef × List (Option SymDef) :=
  match n with
  | .fn _ ps body (some r) =>
    let idx := acc.1.length
    (acc.1 ++ [⟨r, ps, body⟩],
     (padTo acc.2 r none).set r (some { noEmit := true, known := true, value := .fn idx, resolved := true }))
  | _ => acc

theorem fnFold_rel (opts : Opts) (d : Decls) (bon boff : Defs) (nodes : List AstNode) (hk : KInv d.symbols nodes) :
    ∀ (l : List AstNode), (∀ n ∈ l, n ∈ nodes) → ∀ (aon aoff : List FnDef × List (Option SymDef)), aoff.1 = aon.1 →
      MRel opts d { bon with symbols := aon.2 } { boff with symbols := aoff.2 } →
      (l.foldl fnStep aoff).1 = (l.foldl fnStep aon).1 ∧
        MRel opts d { bon with symbols := (l.foldl fnStep aon).2 } { boff with symbols := (l.foldl fnStep aoff).2 } := by
  intro l
  induction l with
  | nil => intro _ aon aoff h1 m; exact ⟨h1, m⟩
  | cons n rest ih =>
    intro hsub aon aoff h1 m
    rw [List.foldl_cons, List.foldl_cons]
    refine ih (fun x hx => hsub x (List.mem_cons_of_mem _ hx)) _ _ ?_ ?_
    · unfold fnStep; split <;> (try simp only [h1]) <;> exact h1
    · unfold fnStep
      split
      · rename_i nm ps body r
        have hkn := hk _ (hsub _ List.mem_cons_self)
        simp only [KN] at hkn
        simp only [h1]
        refine MRel.padset_fn (on := { bon with symbols := aon.2 }) (off := { boff with symbols := aoff.2 }) m r _ ?_
        unfold kindOf; rw [hkn.2]; simp
      · exact m

theorem defineRemaining_rel {opts : Opts} {d : Decls} {on off : Defs} (m : MRel opts d on off) (nodes : List AstNode)
    (hk : KInv d.symbols nodes) :
    (∀ e, defineRemaining d on nodes = .error e → defineRemaining d off nodes = .error e) ∧
    (∀ on' nodes', defineRemaining d on nodes = .ok (on', nodes') →
      ∃ off', defineRemaining d off nodes = .ok (off', nodes') ∧ MRel opts d on' off') := by
  have hfold : ∀ (b : Defs), (nodes.foldl (fun (acc : List FnDef × List (Option SymDef)) n =>
      match n with
      | .fn _ ps body (some r) =>
        let idx := acc.1.length
        (acc.1 ++ [⟨r, ps, body⟩],
         (padTo acc.2 r none).set r (some { noEmit := true, known := true, value := .fn idx, resolved := true }))
      | _ => acc) ([], b.symbols)) = nodes.foldl fnStep ([], b.symbols) := fun _ => rfl
  constructor
  · intro e h
    unfold defineRemaining at h ⊢
    simp only [bind, Except.bind, defineBank_rel m] at h ⊢
    split at h
    · exact h
    · split at h
      · exact h
      · simp only [pure, Except.pure] at h
        cases h
  · intro on' nodes' h
    unfold defineRemaining at h ⊢
    simp only [bind, Except.bind, defineBank_rel m] at h ⊢
    split at h
    · cases h
    · rename_i banks h1
      split at h
      · cases h
      · rename_i rds h2
        simp only [pure, Except.pure, hfold] at h ⊢
        obtain ⟨f1, f2⟩ := fnFold_rel opts d on off nodes hk nodes (fun _ hn => hn) ([], on.symbols) ([], off.symbols) rfl
          (m.symbols_of rfl rfl m.banks m.ruledefs m.fns m.instrs m.datas m.res m.aligns m.addrs)
        have m2 : MRel opts d ({ on with banks := banks, ruledefs := rds, fns := (nodes.foldl fnStep ([], on.symbols)).1, symbols := (nodes.foldl fnStep ([], on.symbols)).2 } : Defs) ({ off with banks := banks, ruledefs := rds, fns := (nodes.foldl fnStep ([], off.symbols)).1, symbols := (nodes.foldl fnStep ([], off.symbols)).2 } : Defs) :=
          f2.symbols_of rfl rfl rfl rfl (by simp only [f1]) m.instrs m.datas m.res m.aligns m.addrs
        obtain ⟨a1, a2⟩ := assignRef_rel (opts := opts) (d := d) nodes _ _ [] m2
        injection h with h
        injection h with h3 h4
        subst h3
        subst h4
        refine ⟨(nodes.foldl assignRef (({ off with banks := banks, ruledefs := rds, fns := (nodes.foldl fnStep ([], off.symbols)).1, symbols := (nodes.foldl fnStep ([], off.symbols)).2 } : Defs), [])).1, ?_, a2⟩
        show Except.ok (nodes.foldl assignRef (({ off with banks := banks, ruledefs := rds, fns := (nodes.foldl fnStep ([], off.symbols)).1, symbols := (nodes.foldl fnStep ([], off.symbols)).2 } : Defs), [])) = _
        congr 1
        exact Prod.ext rfl a1

theorem matchStaticSize_congr (a b : Defs) (hr : b.ruledefs = a.ruledefs) :
    ∀ fuel, matchStaticSize b fuel = matchStaticSize a fuel ∧ matchSizeArgs b fuel = matchSizeArgs a fuel := by
  intro fuel
  induction fuel with
  | zero =>
    refine ⟨?_, ?_⟩
    · funext m; simp only [matchStaticSize]
    · funext rule args i p; simp only [matchSizeArgs]
  | succ f ih =>
    refine ⟨?_, ?_⟩
    · funext m; simp only [matchStaticSize, hr, ih.2]
    · funext rule args i p
      cases args with
      | nil => simp only [matchSizeArgs]
      | cons x rest => simp only [matchSizeArgs, ih.1, ih.2]

theorem staticOff_optMatcher (opts : Opts) : opts.staticOff.optMatcher = opts.optMatcher := rfl

theorem matchStep_rel {opts : Opts} {d : Decls} (n : AstNode) (aon aoff : Defs × List String × List String)
    (h2 : aoff.2 = aon.2) (m : MRel opts d aon.1 aoff.1) :
    (matchStep opts.staticOff d aoff n).2 = (matchStep opts d aon n).2 ∧
      MRel opts d (matchStep opts d aon n).1 (matchStep opts.staticOff d aoff n).1 := by
  obtain ⟨x, sc, rp⟩ := aon
  obtain ⟨y, sc', rp'⟩ := aoff
  simp only at h2 m
  injection h2 with h3 h4
  subst h3; subst h4
  unfold matchStep
  simp only [staticOff_optMatcher, m.ruledefs, (matchKnown_congr d x y m.ruledefs m.kn sc' 64).1,
    (matchStaticSize_congr x y m.ruledefs 64).1]
  split
  · split
    · exact ⟨rfl, m⟩
    · refine ⟨rfl, ?_⟩
      refine m.symbols_of rfl rfl ?_ ?_ ?_ ?_ ?_ ?_ ?_ ?_ <;>
        first | rfl | exact m.banks | exact m.fns | exact m.datas | exact m.res | exact m.aligns | exact m.addrs | (simp only [m.instrs])
  · exact ⟨rfl, m⟩
  · exact ⟨rfl, m⟩

theorem matchFold_rel {opts : Opts} {d : Decls} : ∀ (l : List AstNode) (aon aoff : Defs × List String × List String),
    aoff.2 = aon.2 → MRel opts d aon.1 aoff.1 →
    (l.foldl (matchStep opts.staticOff d) aoff).2 = (l.foldl (matchStep opts d) aon).2 ∧
      MRel opts d (l.foldl (matchStep opts d) aon).1 (l.foldl (matchStep opts.staticOff d) aoff).1 := by
  intro l
  induction l with
  | nil => intro aon aoff h2 m; exact ⟨h2, m⟩
  | cons n rest ih =>
    intro aon aoff h2 m
    rw [List.foldl_cons, List.foldl_cons]
    obtain ⟨s1, s2⟩ := matchStep_rel n aon aoff h2 m
    exact ih _ _ s1 s2

theorem matchAll_rel {opts : Opts} {d : Decls} {on off : Defs} (m : MRel opts d on off) (nodes : List AstNode) :
    (matchAll opts.staticOff d off nodes).2 = (matchAll opts d on nodes).2 ∧
      MRel opts d (matchAll opts d on nodes).1 (matchAll opts.staticOff d off nodes).1 := by
  rw [matchAll_eq, matchAll_eq]
  obtain ⟨s1, s2⟩ := matchFold_rel (opts := opts) (d := d) nodes (on, [], []) (off, [], []) rfl m
  refine ⟨?_, s2⟩
  simp only
  rw [s1]

/-! ## the two front ends -/

theorem frontEndPre_rel (opts : Opts) (ho : opts.optStatic = true) (fs : SrcFiles) (roots : List (List Char)) :
    match frontEndPre opts fs roots with
    | .error e => frontEndPre opts.staticOff fs roots = .error e
    | .ok (d, on, nodes) => ∃ off, frontEndPre opts.staticOff fs roots = .ok (d, off, nodes) ∧ MRel opts d on off := by
  unfold frontEndPre
  cases hparse : (parseMany fs roots).map (·.map AstNode.fresh) with
  | error e => rfl
  | ok nodes0 =>
    simp only
    cases hb : (SymMgr.new "bank").declare [] "#global_bankdef" 0 .other with
    | error e => rfl
    | ok x =>
      obtain ⟨r0, bm⟩ := x
      simp only
      have hfresh : ∀ x ∈ nodes0, ∃ y, x = AstNode.fresh y := by
        cases hpm : parseMany fs roots with
        | error e => rw [hpm] at hparse; cases hparse
        | ok ns =>
          rw [hpm] at hparse
          injection hparse with hparse
          rw [← hparse]
          intro x hx
          obtain ⟨y, _, rfl⟩ := List.mem_map.mp hx
          exact ⟨y, rfl⟩
      have f0 : FInv opts ({ banks := bm } : Decls) {} nodes0 := by
        refine ⟨fun x hx => ?_, fun a ha b hb r h1 _ => ?_, fun r hr => (by cases hr), fun n hn => ?_⟩
        · obtain ⟨y, rfl⟩ := hfresh x hx; exact KN_fresh _ y
        · obtain ⟨y, rfl⟩ := hfresh a ha; rw [symRef_fresh] at h1; cases h1
        · obtain ⟨y, rfl⟩ := hfresh n hn
          cases y <;> first | trivial | (rename_i kd _ _; cases kd <;> trivial)
      have hl := declLoop_rel opts ho (4 * (nodes0.length + 4) + 64 + 8 * (fs.foldl (fun n f => n + f.2.length) 0)) ({ banks := bm } : Decls) {} {} nodes0 0 (MRel.refl_empty opts _) f0
      cases hd : declLoop opts (4 * (nodes0.length + 4) + 64 + 8 * (fs.foldl (fun n f => n + f.2.length) 0)) ({ banks := bm } : Decls) {} nodes0 0 with
      | error e =>
        rw [hd] at hl
        simp only at hl
        rw [hl]
      | ok y =>
        obtain ⟨d2, on2, nodes2⟩ := y
        rw [hd] at hl
        obtain ⟨off2, e2, m2⟩ := hl
        rw [e2]
        simp only
        obtain ⟨f2, _⟩ := declLoop_finv opts _ _ _ _ _ _ _ _ f0 hd
        rw [checkLeftoverIfs_rel m2]
        cases checkLeftoverIfs d2 on2 nodes2 with
        | error e => rfl
        | ok u =>
          simp only
          obtain ⟨r1, r2⟩ := defineRemaining_rel m2 nodes2 f2.kinv
          cases hdr : defineRemaining d2 on2 nodes2 with
          | error e => rw [r1 e hdr]
          | ok z =>
            obtain ⟨on3, nodes3⟩ := z
            obtain ⟨off3, e3, m3⟩ := r2 on3 nodes3 hdr
            rw [e3]
            exact ⟨off3, rfl, m3⟩

theorem frontEnd_rel (opts : Opts) (ho : opts.optStatic = true) (fs : SrcFiles) (roots : List (List Char)) :
    match frontEnd opts fs roots with
    | .error e => frontEnd opts.staticOff fs roots = .error e
    | .ok (st, nodes, on) => ∃ off, frontEnd opts.staticOff fs roots = .ok (st.withStatic false, nodes, off) ∧ MRel opts st.decls on off := by
  unfold frontEnd
  have hp := frontEndPre_rel opts ho fs roots
  cases hpre : frontEndPre opts fs roots with
  | error e =>
    rw [hpre] at hp
    simp only at hp
    rw [hp]
  | ok x =>
    obtain ⟨d, on, nodes⟩ := x
    rw [hpre] at hp
    obtain ⟨off, e1, m⟩ := hp
    rw [e1]
    simp only
    obtain ⟨h1, h2⟩ := matchAll_rel m nodes
    rw [h1]
    cases hm : matchAll opts d on nodes with
    | mk on' rep =>
      rw [hm] at h2
      simp only at h2 ⊢
      by_cases hrep : (!rep.isEmpty) = true
      · simp only [hrep, if_true]
      · simp only [hrep, if_false]
        exact ⟨_, rfl, h2⟩

/-! ## from the relation to `FrontRel` -/

theorem list_ext_getD {α} (l1 l2 : List (Option α)) (hl : l1.length = l2.length) (h : ∀ i, l1.getD i none = l2.getD i none) : l1 = l2 := by
  apply List.ext_getElem hl
  intro i h1 h2
  have := h i
  simp only [List.getD_eq_getElem?_getD, List.getElem?_eq_getElem h1, List.getElem?_eq_getElem h2, Option.getD_some] at this
  exact this

theorem sym_of_slot (defs : Defs) (r : Nat) (s : SymDef) (h : defs.symbols.getD r none = some s) : defs.sym r = s := by
  unfold Defs.sym; rw [h]; rfl

theorem map_unmark_instrs (l : List InstrDef) (h : ∀ ref, (l.getD ref default).resolved = false) :
    l.map (fun i => { i with resolved := false }) = l := by
  apply List.ext_getElem (by simp)
  intro i h1 h2
  simp only [List.getElem_map]
  have := h i
  rw [List.getD_eq_getElem?_getD, List.getElem?_eq_getElem h2, Option.getD_some] at this
  cases hx : l[i] with
  | mk a b c dd =>
    rw [hx] at this
    simp only at this
    subst this
    rfl

theorem map_unmark_datas (l : List DataDef) (h : ∀ ref, (l.getD ref default).resolved = false) :
    l.map (fun i => { i with resolved := false }) = l := by
  apply List.ext_getElem (by simp)
  intro i h1 h2
  simp only [List.getElem_map]
  have := h i
  rw [List.getD_eq_getElem?_getD, List.getElem?_eq_getElem h2, Option.getD_some] at this
  cases hx : l[i] with
  | mk a b c =>
    rw [hx] at this
    simp only at this
    subst this
    rfl

/-- the unoptimised front end's state is the optimised one's with the marks `markedByBoth` only -/
theorem mrel_unfS (st : Static) (on off : Defs) (m : MRel st.opts st.decls on off)
    (hfi : ∀ ref, (on.instrs.getD ref default).resolved = false) (hfd : ∀ ref, (on.datas.getD ref default).resolved = false) :
    off = on.unfS (markedByBoth st on) := by
  have hmark : ∀ r, (off.sym r).resolved = ((on.sym r).resolved && markedByBoth st on r) := by
    intro r
    unfold markedByBoth
    cases hoff : (off.sym r).resolved with
    | true =>
      have hon := m.c2 r hoff
      have h3 := m.c3 r hoff
      rw [hon]
      simp only [Bool.true_and]
      cases hc : ((on.sym r).known && (st.decls.symbols.decls.getD r default).kind == .constant &&
          (st.opts.defines.find? (·.1 == (st.decls.symbols.decls.getD r default).name)).isNone) with
      | false => rfl
      | true =>
        exfalso
        simp only [Bool.and_eq_true, beq_iff_eq] at hc
        exact h3 ⟨hc.1.2, hc.2⟩
    | false =>
      cases hon : (on.sym r).resolved with
      | false => rfl
      | true =>
        obtain ⟨h1, h2, h3⟩ := m.c1 r hon hoff
        unfold kindOf at h1
        unfold notDefined at h2
        simp only [h3, h1, h2, Bool.true_and, beq_self_eq_true, Bool.and_self, Bool.not_true, Bool.and_false]
  have hsyms : off.symbols = (on.unfS (markedByBoth st on)).symbols := by
    apply list_ext_getD
    · rw [unfS_length]; exact m.len
    · intro r
      rw [unfS_symbols_getD]
      cases hx : on.symbols.getD r none with
      | none =>
        have := m.slot r
        rw [hx] at this
        cases hy : off.symbols.getD r none with
        | none => rfl
        | some s => rw [hy] at this; cases this
      | some s =>
        have := m.slot r
        rw [hx] at this
        cases hy : off.symbols.getD r none with
        | none => rw [hy] at this; cases this
        | some t =>
          have e1 := sym_of_slot on r s hx
          have e2 := sym_of_slot off r t hy
          have hv := m.val r
          have hk := m.kn r
          have hn := m.ne r
          have hr := hmark r
          rw [e1, e2] at hv hk hn hr
          simp only [Option.map_some, Option.some.injEq]
          cases s with
          | mk a b c dd =>
            cases t with
            | mk a' b' c' dd' =>
              simp only at hv hk hn hr
              subst hv hk hn
              simp only [SymDef.keep]
              rw [hr]
  have hi : off.instrs = (on.unfS (markedByBoth st on)).instrs := by
    rw [m.instrs]
    show on.instrs = on.instrs.map (fun i => { i with resolved := false })
    rw [map_unmark_instrs on.instrs hfi]
  have hd : off.datas = (on.unfS (markedByBoth st on)).datas := by
    rw [m.datas]
    show on.datas = on.datas.map (fun i => { i with resolved := false })
    rw [map_unmark_datas on.datas hfd]
  cases off with
  | mk s1 s2 s3 s4 s5 s6 s7 s8 s9 =>
    simp only at hsyms hi hd
    subst hsyms hi hd
    have := m.banks; have := m.ruledefs; have := m.fns; have := m.res; have := m.aligns; have := m.addrs
    simp only at *
    subst_vars
    rfl

/-- **the two front ends agree up to marks** (`FrontRel`, proved) -/
theorem frontRel_proved (opts : Opts) (ho : opts.optStatic = true) (fs : SrcFiles) (roots : List (List Char)) :
    FrontRel opts fs roots := by
  unfold FrontRel
  have h := frontEnd_rel opts ho fs roots
  cases hf : frontEnd opts fs roots with
  | error e =>
    rw [hf] at h
    simp only at h
    rw [h]; rfl
  | ok x =>
    obtain ⟨st, nodes, on⟩ := x
    rw [hf] at h
    obtain ⟨off, e1, m⟩ := h
    rw [e1]
    simp only [Except.map]
    have hso : st.opts = opts := (frontEnd_finv opts fs roots st nodes on hf).1
    have f := frontEnd_frontOK opts ho fs roots st nodes on hf
    have m' : MRel st.opts st.decls on off := by rw [hso]; exact m
    rw [mrel_unfS st on off m' f.instrsFresh f.datasFresh]

end Casm
