import Casm.Proofs.FrontInv
/-!
# Casm.Proofs.TwoFront — the two front ends, side by side

`on` is the state of the front end with the static-value optimisation, `off` the state of the front
end started with `--debug-no-optimize-static`.  They differ in symbol marks only (`MRel`): the
unoptimised one marks a symbol exactly when it is defined on the command line or is a function.
Every front-end pass but `resolve_constants_simple` neither reads nor writes marks of constants;
that one marks more with the optimisation, and re-evaluates without it what the optimised run
skips — to the same value, because what is skipped is statically known.
-/
namespace Casm

def kindOf (d : Decls) (r : Nat) : DeclKind := (d.symbols.decls.getD r default).kind

/-- the two states differ in symbol marks only, classified by the declarations -/
structure MRel (opts : Opts) (d : Decls) (on off : Defs) : Prop where
  banks : off.banks = on.banks
  ruledefs : off.ruledefs = on.ruledefs
  fns : off.fns = on.fns
  instrs : off.instrs = on.instrs
  datas : off.datas = on.datas
  res : off.res = on.res
  aligns : off.aligns = on.aligns
  addrs : off.addrs = on.addrs
  len : off.symbols.length = on.symbols.length
  slot : ∀ r, (off.symbols.getD r none).isSome = (on.symbols.getD r none).isSome
  val : ∀ r, (off.sym r).value = (on.sym r).value
  kn : ∀ r, (off.sym r).known = (on.sym r).known
  ne : ∀ r, (off.sym r).noEmit = (on.sym r).noEmit
  c2 : ∀ r, (off.sym r).resolved = true → (on.sym r).resolved = true
  c1 : ∀ r, (on.sym r).resolved = true → (off.sym r).resolved = false → kindOf d r = .constant ∧ notDefined opts d r = true
  c3 : ∀ r, (off.sym r).resolved = true → ¬ (kindOf d r = .constant ∧ notDefined opts d r = true)

theorem MRel.refl_empty (opts : Opts) (d : Decls) : MRel opts d {} {} :=
  ⟨rfl, rfl, rfl, rfl, rfl, rfl, rfl, rfl, rfl, fun _ => rfl, fun _ => rfl, fun _ => rfl, fun _ => rfl,
   fun _ h => h, fun _ h => (by cases h), fun _ h => (by cases h)⟩

/-- the value of a slot, as `eval_simple` and `eval_certain` read it -/
theorem slot_value (defs : Defs) (r : Nat) :
    (defs.symbols.getD r none).map (·.value) = if (defs.symbols.getD r none).isSome then some (defs.sym r).value else none := by
  unfold Defs.sym
  cases defs.symbols.getD r none <;> rfl

theorem MRel.slotval {opts : Opts} {d : Decls} {on off : Defs} (m : MRel opts d on off) (r : Nat) :
    (off.symbols.getD r none).map (·.value) = (on.symbols.getD r none).map (·.value) := by
  rw [slot_value, slot_value, m.slot r, m.val r]

theorem simpleEnv_rel {opts : Opts} {d : Decls} {on off : Defs} (m : MRel opts d on off) : simpleEnv d off = simpleEnv d on := by
  have key : slotVal off = slotVal on := by
    funext r
    unfold slotVal
    have := m.slotval r
    cases h1 : off.symbols.getD r none <;> cases h2 : on.symbols.getD r none <;> simp_all
  unfold simpleEnv
  rw [key]

theorem evalSimple_rel {opts : Opts} {d : Decls} {on off : Defs} (m : MRel opts d on off) (e : Expr) :
    evalSimple d off e = evalSimple d on e := by
  rw [evalSimple_eq, evalSimple_eq, simpleEnv_rel m]

theorem resolveIfs_rel {opts : Opts} {d : Decls} {on off : Defs} (m : MRel opts d on off) (nodes : List AstNode) :
    resolveIfs d off nodes = resolveIfs d on nodes := by
  unfold resolveIfs
  simp only [evalSimple_rel m]

/-- the relation survives the growth of the declaration table (for symbols that have a slot) -/
theorem MRel.ext {opts : Opts} {d d' : Decls} {on off : Defs} (m : MRel opts d on off)
    (hn : NameExt d.symbols d'.symbols) (hk : KindExt d.symbols d'.symbols)
    (s0 : ∀ r, (on.symbols.getD r none).isSome = true → r < d.symbols.decls.length) : MRel opts d' on off := by
  have stable : ∀ r, (on.sym r).resolved = true → kindOf d' r = kindOf d r ∧ notDefined opts d' r = notDefined opts d r := by
    intro r hr
    have hs : (on.symbols.getD r none).isSome = true := by
      cases hx : (on.symbols.getD r none).isSome with
      | true => rfl
      | false => rw [sym_of_noslot on r hx] at hr; cases hr
    have hlt := s0 r hs
    unfold kindOf notDefined
    rw [hk.2 r hlt, hn.2 r hlt]
    exact ⟨rfl, rfl⟩
  refine { m with c1 := fun r h1 h2 => ?_, c3 := fun r h => ?_ }
  · obtain ⟨e1, e2⟩ := stable r h1
    rw [e1, e2]; exact m.c1 r h1 h2
  · obtain ⟨e1, e2⟩ := stable r (m.c2 r h)
    rw [e1, e2]; exact m.c3 r h

theorem padset_length {α} (l : List α) (r : Nat) (x y : α) : ((padTo l r x).set r y).length = max l.length (r + 1) := by
  unfold padTo
  simp
  omega

theorem MRel.padset {opts : Opts} {d : Decls} {on off : Defs} (m : MRel opts d on off) (r : Nat) (sd : SymDef) (hsd : sd.resolved = false) :
    MRel opts d { on with symbols := (padTo on.symbols r none).set r (some sd) }
      { off with symbols := (padTo off.symbols r none).set r (some sd) } := by
  refine ⟨m.banks, m.ruledefs, m.fns, m.instrs, m.datas, m.res, m.aligns, m.addrs, ?_, fun r' => ?_, fun r' => ?_, fun r' => ?_,
    fun r' => ?_, fun r' h => ?_, fun r' h1 h2 => ?_, fun r' h => ?_⟩
  · simp only [padset_length, m.len]
  · simp only [slot_padset]; split <;> first | rfl | exact m.slot r'
  · simp only [sym_padset]; split <;> first | rfl | exact m.val r'
  · simp only [sym_padset]; split <;> first | rfl | exact m.kn r'
  · simp only [sym_padset]; split <;> first | rfl | exact m.ne r'
  · simp only [sym_padset] at h ⊢
    split at h
    · rw [hsd] at h; cases h
    · rename_i hne; simp only [hne, if_false]; exact m.c2 r' h
  · simp only [sym_padset] at h1 h2
    split at h1
    · rw [hsd] at h1; cases h1
    · rename_i hne; simp only [hne, if_false] at h2; exact m.c1 r' h1 h2
  · simp only [sym_padset] at h
    split at h
    · rw [hsd] at h; cases h
    · exact m.c3 r' h

theorem MRel.defineStep {opts : Opts} {d : Decls} {on off : Defs} (m : MRel opts d on off) (n : AstNode) :
    MRel opts d (Casm.defineStep on n) (Casm.defineStep off n) := by
  unfold Casm.defineStep
  split
  · rename_i kind ne r
    rw [m.slot r]
    split
    · exact m
    · exact m.padset r _ rfl
  · exact m

theorem MRel.define {opts : Opts} {d : Decls} : ∀ (l : List AstNode) (on off : Defs), MRel opts d on off →
    MRel opts d (defineSymbols on l) (defineSymbols off l) := by
  intro l
  induction l with
  | nil => intro on off m; exact m
  | cons n rest ih =>
    intro on off m
    rw [defineSymbols_eq, defineSymbols_eq, List.foldl_cons, List.foldl_cons, ← defineSymbols_eq, ← defineSymbols_eq]
    exact ih _ _ (m.defineStep n)

end Casm
