import Casm.Proofs.SwitchOutcome
import Casm.Proofs.TwoFront
/-!
# Casm.Proofs.SwitchFinal — the static-value optimisation never changes the outcome

All hypotheses about the front end discharged (`frontRel_proved`, `frontEnd_frontOKS`,
`frontEnd_uniq`, `frontEnd_nodesOK`, `frontEnd_frontOK`, `frontEnd_noClash`).
-/
namespace Casm

/-- **C08 for the static switch, unconditionally** (budget at least two): the assembler started with
    `--debug-no-optimize-static` fails with the same messages, or succeeds with the same bits, spans and
    symbols, as the optimising one. -/
theorem assemble_static_switch (opts : Opts) (fs : SrcFiles) (roots : List (List Char))
    (ho : opts.optStatic = true) (hmax : 2 ≤ opts.maxIter) :
    (assemble opts.staticOff fs roots).map AsmOk.core = (assemble opts fs roots).map AsmOk.core :=
  assemble_switch_outcome' opts fs roots ho hmax (frontRel_proved opts ho fs roots)

end Casm
