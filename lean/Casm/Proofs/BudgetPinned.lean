import Casm.Proofs.MaxCongr
import Casm.Proofs.RepExact
import Casm.Proofs.BudgetMono
import Casm.Proofs.FrontInv
import Casm.Proofs.SwitchOutcome
import Casm.Proofs.BudgetOne
import Casm.Proofs.FrontUniq
/-!
# Casm.Proofs.BudgetPinned — with the budget of `asm`-block loops pinned, `assemble` is budget-monotone

The positive statement beside finding F38: the only way the outer budget reaches the result is
`eval_asm`'s use of `max_iterations` for its own loop.  With that loop's budget pinned, a program that
assembles under a budget of at least one pass assembles under every larger one to the same bits, spans and
symbols.
-/
namespace Casm

theorem assemble_budget_monotone_pinned (opts : Opts) (k : Nat) (hk : opts.innerIter = some k) (fs : SrcFiles) (roots : List (List Char))
    (n m : Nat) (hn : 1 ≤ n) (hnm : n ≤ m) (out : AsmOk) (h : assemble (opts.withMax n) fs roots = .ok out) :
    ∃ out', assemble (opts.withMax m) fs roots = .ok out' ∧ out'.core = out.core := by
  unfold assemble at h ⊢
  rw [frontEnd_max] at h ⊢
  cases hf : frontEnd opts fs roots with
  | error e => rw [hf] at h; cases h
  | ok x =>
    obtain ⟨st, nodes, d0⟩ := x
    rw [hf] at h
    simp only [Except.map] at h ⊢
    have hso : st.opts = opts := (frontEnd_finv opts fs roots st nodes d0 hf).1
    have hki : st.opts.innerIter = some k := by rw [hso]; exact hk
    have hwf := frontEnd_noClash opts fs roots st nodes d0 hf
    have hu := frontEnd_uniq opts fs roots st nodes d0 hf
    have hok := frontEnd_nodesOK opts fs roots st nodes d0 hf
    unfold resolveIteratively at h ⊢
    have hmn : (st.withMax n).opts.maxIter = n := rfl
    have hmm : (st.withMax m).opts.maxIter = m := rfl
    rw [hmn, resolveIterativelyN_max st n k hki] at h
    rw [hmm, resolveIterativelyN_max st m k hki]
    cases hr : resolveIterativelyN st nodes n d0 with
    | error e => rw [hr] at h; cases h
    | ok y =>
      obtain ⟨it, d, rep⟩ := y
      rw [hr] at h
      obtain ⟨k', rep', hr'⟩ := budget_monotone_any st nodes hwf hu d0 hok n m hn hnm it d rep hr
      have e1 := resolveIterativelyN_rep_any st nodes n hn hwf hu d0 hok it d rep hr
      have e2 := resolveIterativelyN_rep_any st nodes m (by omega) hwf hu d0 hok k' d rep' hr'
      rw [e1] at e2
      injection e2 with e2; injection e2 with _ e2; injection e2 with _ e2
      subst e2
      rw [hr']
      simp only at h ⊢
      have hd1 : (st.withMax n).decls = st.decls := rfl
      have hd2 : (st.withMax m).decls = st.decls := rfl
      have ho1 : outputItems (st.withMax n) d nodes = outputItems st d nodes := rfl
      have ho2 : outputItems (st.withMax m) d nodes = outputItems st d nodes := rfl
      have hu1 : checkUnusedDefines (opts.withMax n) st.decls = checkUnusedDefines opts st.decls := rfl
      have hu2 : checkUnusedDefines (opts.withMax m) st.decls = checkUnusedDefines opts st.decls := rfl
      rw [hd1, ho1, hu1] at h
      rw [hd2, ho2, hu2]
      split at h
      · cases h
      · rename_i h1
        simp only [h1, if_false]
        split at h
        · cases h
        · rename_i h2
          simp only [h2, if_false]
          split at h
          · cases h
          · rename_i h3
            simp only [h3, if_false]
            cases hb : buildLoop d.banks ⟨initIter d.banks, fillBanks d.banks [], [], []⟩ (outputItems st d nodes) with
            | error e => rw [hb] at h; cases h
            | ok bst =>
              rw [hb] at h
              injection h with h
              subst h
              exact ⟨_, rfl, rfl⟩

end Casm
