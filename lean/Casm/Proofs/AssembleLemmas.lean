import Casm.Model.Assemble
/-! # Casm.Proofs.AssembleLemmas — small facts about `frontEnd` used by several property files -/
namespace Casm

theorem frontEndPre_error_nonempty (opts : Opts) (fs : SrcFiles) (roots : List (List Char)) (msgs : List String)
    (h : frontEndPre opts fs roots = .error msgs) : msgs ≠ [] := by
  unfold frontEndPre at h
  split at h
  · injection h with h; subst h; simp
  · split at h
    · injection h with h; subst h; simp
    · simp only at h
      split at h
      · injection h with h; subst h; simp
      · split at h
        · injection h with h; subst h; simp
        · split at h
          · injection h with h; subst h; simp
          · cases h

theorem frontEnd_error_nonempty (opts : Opts) (fs : SrcFiles) (roots : List (List Char)) (msgs : List String)
    (h : frontEnd opts fs roots = .error msgs) : msgs ≠ [] := by
  unfold frontEnd at h
  split at h
  · rename_i hp; injection h with h; subst h; exact frontEndPre_error_nonempty _ _ _ _ hp
  · split at h
    split at h
    · rename_i hne; injection h with h; subst h; intro hc; simp [hc] at hne
    · cases h

/-- the static part handed to the resolver carries the options of the call -/
theorem frontEnd_opts (opts : Opts) (fs : SrcFiles) (roots : List (List Char)) (st : Static) (nodes : List AstNode) (defs : Defs)
    (h : frontEnd opts fs roots = .ok (st, nodes, defs)) : st.opts = opts ∧ st.files = fs := by
  unfold frontEnd at h
  split at h
  · cases h
  · split at h
    split at h
    · cases h
    · injection h with h; injection h with h1 _; subst h1; exact ⟨rfl, rfl⟩

theorem iterLoop_error_nonempty (st : Static) (nodes : List AstNode) (max : Nat) :
    ∀ fuel i d rep msgs, iterLoop st nodes max fuel i d rep = .error msgs → msgs ≠ [] := by
  intro fuel
  induction fuel with
  | zero => intro i d rep msgs h; simp [iterLoop] at h
  | succ n ih =>
    intro i d rep msgs h
    simp only [iterLoop] at h
    split at h
    · cases h
    · split at h
      · injection h with h; subst h; simp
      · split at h
        · split at h <;> cases h
        · split at h
          · injection h with h; subst h; simp
          · exact ih _ _ _ _ h

/-- an error is never silent -/
theorem assemble_error_nonempty (opts : Opts) (fs : SrcFiles) (roots : List (List Char)) (msgs : List String)
    (h : assemble opts fs roots = .error msgs) : msgs ≠ [] := by
  unfold assemble at h
  cases hf : frontEnd opts fs roots with
  | error e =>
    rw [hf] at h; injection h with h; subst h
    exact frontEnd_error_nonempty opts fs roots e hf
  | ok x =>
    obtain ⟨st, nodes, defs0⟩ := x
    rw [hf] at h
    simp only at h
    cases hr : resolveIteratively st nodes defs0 with
    | error e =>
      rw [hr] at h; injection h with h; subst h
      unfold resolveIteratively resolveIterativelyN at hr
      split at hr
      · rename_i hl; injection hr with hr; subst hr; exact iterLoop_error_nonempty _ _ _ _ _ _ _ _ hl
      · cases hr
      · split at hr
        · injection hr with hr; subst hr; simp
        · split at hr
          · cases hr
          · injection hr with hr; subst hr; simp
    | ok y =>
      obtain ⟨iters, d, rep⟩ := y
      rw [hr] at h
      simp only at h
      cases rep with
      | cons a t => simp at h; subst h; simp
      | nil =>
        simp only [List.isEmpty_nil, Bool.not_true, Bool.false_eq_true, if_false] at h
        split at h
        · injection h with h; subst h; simp
        · split at h
          · rename_i hu; injection h with h; subst h; intro hc; simp [hc] at hu
          · split at h
            · injection h with h; subst h; simp
            · cases h


end Casm
