import Casm.Model.Assemble
/-! # Casm.Proofs.AssembleLemmas — small facts about `frontEnd` used by several property files -/
namespace Casm

theorem frontEndPre_error_nonempty (opts : Opts) (fs : SrcFiles) (roots : List (List Char)) (msgs : List String)
    (h : frontEndPre opts fs roots = .error msgs) : msgs ≠ [] := by
  unfold frontEndPre at h
  split at h
  · injection h with h; subst h; simp
  · split at h
    · injection h with h; subst h; simp
    · simp only at h
      split at h
      · injection h with h; subst h; simp
      · split at h
        · injection h with h; subst h; simp
        · split at h
          · injection h with h; subst h; simp
          · cases h

theorem frontEnd_error_nonempty (opts : Opts) (fs : SrcFiles) (roots : List (List Char)) (msgs : List String)
    (h : frontEnd opts fs roots = .error msgs) : msgs ≠ [] := by
  unfold frontEnd at h
  split at h
  · rename_i hp; injection h with h; subst h; exact frontEndPre_error_nonempty _ _ _ _ hp
  · split at h
    split at h
    · rename_i hne; injection h with h; subst h; intro hc; simp [hc] at hne
    · cases h

/-- the static part handed to the resolver carries the options of the call -/
theorem frontEnd_opts (opts : Opts) (fs : SrcFiles) (roots : List (List Char)) (st : Static) (nodes : List AstNode) (defs : Defs)
    (h : frontEnd opts fs roots = .ok (st, nodes, defs)) : st.opts = opts ∧ st.files = fs := by
  unfold frontEnd at h
  split at h
  · cases h
  · split at h
    split at h
    · cases h
    · injection h with h; injection h with h1 _; subst h1; exact ⟨rfl, rfl⟩

end Casm
